(** M-LEX: executable model of the statement scanner of sql/migrate/lex.go
    (function names kept; every definition cites the Go function it follows).

    - strings are byte lists ([bytes] = [list N]); Go [int]s are [Z] (cursors may
      move backwards: [addPos] is called with negative arguments);
    - every Go slice / index expression is a *checked* slice returning [Panic]
      where Go would panic;
    - loops run on explicit fuel ([OutOfFuel] is a distinct outcome).  The fuel is
      a *depth* bound: every loop iteration and every nested scanner receives the
      fuel of its caller minus one, so [length input + c] suffices (LexProofs.v);
    - nested scanners ([skipBegin], [skipBeginAtomic], [skipBeginTryCatch]) call
      [stmt] through the parameter [nested] (open recursion closed by [stmt]);
    - the regular expressions of lex.go / dir.go are hand-written matchers
      ([re_*]); [utf8.DecodeRuneInString] is [decode_rune]; [unicode.IsSpace] is
      the byte-sequence table [space_prefix]; [strconv.Atoi] is [atoi_ok];
    - errors are an enum with the [line:col] of [Scanner.error]; error texts are
      not modelled.

    This file contains no proofs. *)
From Coq Require Import List NArith ZArith Bool Arith.
From Atlas Require Import Base.Bytes.
Import ListNotations.
Open Scope Z_scope.

(** * Outcomes *)
Inductive errkind :=
| EUnclosedParen | EUnexpectedParen | EUnclosedQuote | EEmptyDelim | ENoInputAfterDelim
| EUnexpectedDollar | EUnclosedDollar
| EMissingBeginAtomic | EMissingBeginTry | EMissingBegin
| EEofBody | EScanBody | EEofCompound | EScanCompound | EInvalidGo.

(** [Scanner.error] prefixes [line:col]; [setDelim] / [skipGoCount] errors carry none (0,0). *)
Record error := mkErr { e_kind : errkind; e_line : Z; e_col : Z }.

Inductive res (A : Type) :=
| Ok (a : A) | Err (e : error) | Panic | OutOfFuel.
Arguments Ok {A} a. Arguments Err {A} e. Arguments Panic {A}. Arguments OutOfFuel {A}.

Definition bind {A B} (x : res A) (f : A -> res B) : res B :=
  match x with Ok a => f a | Err e => Err e | Panic => Panic | OutOfFuel => OutOfFuel end.
Notation "'do' x <- e ; f" := (bind e (fun x => f)) (at level 200, x pattern, e at level 100, f at level 200).

(** * Strings *)
Definition zlen (s : bytes) : Z := Z.of_nat (length s).

(** Go [s[lo:]], [s[:hi]], [s[lo:hi]], [s[i]]. *)
Definition slice_from (s : bytes) (lo : Z) : res bytes :=
  if (lo <? 0) || (zlen s <? lo) then Panic else Ok (skipn (Z.to_nat lo) s).
Definition slice_to (s : bytes) (hi : Z) : res bytes :=
  if (hi <? 0) || (zlen s <? hi) then Panic else Ok (firstn (Z.to_nat hi) s).
Definition slice (s : bytes) (lo hi : Z) : res bytes :=
  if (lo <? 0) || (hi <? lo) || (zlen s <? hi) then Panic
  else Ok (skipn (Z.to_nat lo) (firstn (Z.to_nat hi) s)).
Definition index (s : bytes) (i : Z) : res N :=
  if (i <? 0) || (zlen s <=? i) then Panic
  else match nth_error s (Z.to_nat i) with Some b => Ok b | None => Panic end.

(** [strings.HasPrefix]. *)
Fixpoint has_prefix (s p : bytes) {struct p} : bool :=
  match p, s with
  | [], _ => true
  | b :: p', a :: s' => N.eqb a b && has_prefix s' p'
  | _ :: _, [] => false
  end.
(** [strings.HasSuffix]. *)
Definition has_suffix (s p : bytes) : bool :=
  (length p <=? length s)%nat && bytes_eqb (skipn (length s - length p) s) p.
(** [strings.TrimSuffix], [strings.TrimPrefix]. *)
Definition trim_suffix (s p : bytes) : bytes :=
  if has_suffix s p then firstn (length s - length p) s else s.
Definition trim_prefix (s p : bytes) : bytes :=
  if has_prefix s p then skipn (length p) s else s.
(** [strings.Index]: first occurrence, [None] = -1. *)
Fixpoint index_of (s p : bytes) : option nat :=
  if has_prefix s p then Some O else
  match s with
  | [] => None
  | _ :: s' => match index_of s' p with Some i => Some (S i) | None => None end
  end.
(** [strings.Count(s, "\n")], [strings.LastIndex(s, "\n")] (-1 if absent). *)
Definition count_nl (s : bytes) : Z := Z.of_nat (length (filter (N.eqb 10) s)).
Fixpoint last_index_nl_from (i : Z) (s : bytes) (last : Z) : Z :=
  match s with
  | [] => last
  | a :: s' => last_index_nl_from (i + 1) s' (if N.eqb a 10 then i else last)
  end.
Definition last_index_nl (s : bytes) : Z := last_index_nl_from 0 s (-1).

(** ASCII letter case folding (the words compared by [strings.EqualFold] / [(?i)] here contain
    no letter with a non-ASCII simple fold: no [k], no [s]). *)
Definition upper (b : N) : N := if (97 <=? b)%N && (b <=? 122)%N then (b - 32)%N else b.
(** [p] is upper-case ASCII; does [s] start with [p] up to ASCII case? *)
Fixpoint has_prefix_ci (s p : bytes) {struct p} : bool :=
  match p, s with
  | [], _ => true
  | b :: p', a :: s' => N.eqb (upper a) b && has_prefix_ci s' p'
  | _ :: _, [] => false
  end.

(** [strings.ReplaceAll(s, "''", "'")]. *)
Fixpoint replace_qq (s : bytes) : bytes :=
  match s with
  | 39%N :: ((39%N :: s'') as s') => 39%N :: replace_qq s''
  | a :: s' => a :: replace_qq s'
  | [] => []
  end.
(** [strings.NewReplacer(`\n`, "\n", `\r`, "\r", `\t`, "\t").Replace]. *)
Fixpoint unescape_delim (s : bytes) : bytes :=
  match s with
  | 92%N :: ((c :: s'') as s') =>
      if N.eqb c 110 then 10%N :: unescape_delim s''
      else if N.eqb c 114 then 13%N :: unescape_delim s''
      else if N.eqb c 116 then 9%N :: unescape_delim s''
      else 92%N :: unescape_delim s'
  | a :: s' => a :: unescape_delim s'
  | [] => []
  end.

(** * UTF-8 and white space *)
Definition RuneError : N := 65533.
Definition cont (b : N) : bool := (128 <=? b)%N && (b <=? 191)%N.
(** unicode/utf8.DecodeRuneInString: (rune, width); width 0 only on the empty string. *)
Definition decode_rune (s : bytes) : N * Z :=
  match s with
  | [] => (RuneError, 0)
  | s0 :: t =>
    if (s0 <? 128)%N then (s0, 1)
    else if (s0 <? 194)%N then (RuneError, 1)
    else if (s0 <? 224)%N then
      match t with
      | s1 :: _ => if cont s1 then (((s0 - 192) * 64 + (s1 - 128))%N, 2) else (RuneError, 1)
      | _ => (RuneError, 1)
      end
    else if (s0 <? 240)%N then
      match t with
      | s1 :: s2 :: _ =>
        let lo := if N.eqb s0 224 then 160%N else 128%N in
        let hi := if N.eqb s0 237 then 159%N else 191%N in
        if (lo <=? s1)%N && (s1 <=? hi)%N && cont s2
        then (((s0 - 224) * 4096 + (s1 - 128) * 64 + (s2 - 128))%N, 3) else (RuneError, 1)
      | _ => (RuneError, 1)
      end
    else if (s0 <? 245)%N then
      match t with
      | s1 :: s2 :: s3 :: _ =>
        let lo := if N.eqb s0 240 then 144%N else 128%N in
        let hi := if N.eqb s0 244 then 143%N else 191%N in
        if (lo <=? s1)%N && (s1 <=? hi)%N && cont s2 && cont s3
        then (((s0 - 240) * 262144 + (s1 - 128) * 4096 + (s2 - 128) * 64 + (s3 - 128))%N, 4)
        else (RuneError, 1)
      | _ => (RuneError, 1)
      end
    else (RuneError, 1)
  end.

(** unicode.IsSpace as a table of UTF-8 encodings (Go's decoder accepts shortest forms only, so
    "the first/last rune is a space" = "the string starts/ends with one of these sequences"):
    U+0009..000D, U+0020 | U+0085, U+00A0 | U+1680, U+2000..200A, U+2028, U+2029, U+202F,
    U+205F, U+3000. *)
Definition sp1 (a : N) : bool := ((9 <=? a)%N && (a <=? 13)%N) || N.eqb a 32.
Definition sp2 (a b : N) : bool := N.eqb a 194 && (N.eqb b 133 || N.eqb b 160).
Definition sp3 (a b c : N) : bool :=
  (N.eqb a 225 && N.eqb b 154 && N.eqb c 128)
  || (N.eqb a 226 && N.eqb b 128 && (((128 <=? c)%N && (c <=? 138)%N) || N.eqb c 168 || N.eqb c 169 || N.eqb c 175))
  || (N.eqb a 226 && N.eqb b 129 && N.eqb c 159)
  || (N.eqb a 227 && N.eqb b 128 && N.eqb c 128).

(** strings.TrimLeftFunc(s, unicode.IsSpace). *)
Fixpoint trim_left_space (s : bytes) : bytes :=
  match s with
  | [] => []
  | a :: t =>
    if sp1 a then trim_left_space t else
    match t with
    | b :: t2 =>
      if sp2 a b then trim_left_space t2 else
      match t2 with
      | c :: t3 => if sp3 a b c then trim_left_space t3 else s
      | [] => s
      end
    | [] => s
    end
  end.
(** the same on the reversed string (sequences reversed): strings.TrimRightFunc. *)
Fixpoint trim_left_space_rev (s : bytes) : bytes :=
  match s with
  | [] => []
  | a :: t =>
    if sp1 a then trim_left_space_rev t else
    match t with
    | b :: t2 =>
      if sp2 b a then trim_left_space_rev t2 else
      match t2 with
      | c :: t3 => if sp3 c b a then trim_left_space_rev t3 else s
      | [] => s
      end
    | [] => s
    end
  end.
Definition trim_right_space (s : bytes) : bytes := rev (trim_left_space_rev (rev s)).
(** strings.TrimSpace. *)
Definition trim_space (s : bytes) : bytes := trim_right_space (trim_left_space s).

(** * Regular expressions (regexp/syntax Perl classes: [\s] = [\t\n\f\r ], [\w] = [0-9A-Za-z_]) *)
Definition re_s (b : N) : bool := N.eqb b 9 || N.eqb b 10 || N.eqb b 12 || N.eqb b 13 || N.eqb b 32.
Definition re_w (b : N) : bool :=
  ((48 <=? b)%N && (b <=? 57)%N) || ((65 <=? b)%N && (b <=? 90)%N) || ((97 <=? b)%N && (b <=? 122)%N) || N.eqb b 95.
Definition is_digit (b : N) : bool := (48 <=? b)%N && (b <=? 57)%N.
(** [\s*] greedy: (number of bytes, rest). *)
Fixpoint skip_s (s : bytes) : nat * bytes :=
  match s with
  | a :: t => if re_s a then let '(n, r) := skip_s t in (S n, r) else (O, s)
  | [] => (O, [])
  end.
(** a case-insensitive word [w] (upper case): (length, rest). *)
Definition word_ci (w s : bytes) : option (nat * bytes) :=
  if has_prefix_ci s w then Some (length w, skipn (length w) s) else None.
(** [\s+]. *)
Definition skip_s1 (s : bytes) : option (nat * bytes) :=
  match skip_s s with (O, _) => None | (n, r) => Some (n, r) end.

Definition W_BEGIN : bytes := [66;69;71;73;78]%N.
Definition W_ATOMIC : bytes := [65;84;79;77;73;67]%N.
Definition W_TRY : bytes := [84;82;89]%N.
Definition W_END : bytes := [69;78;68]%N.
Definition W_CATCH : bytes := [67;65;84;67;72]%N.
Definition W_GO : bytes := [71;79]%N.
Definition W_DELIMITER : bytes := [68;69;76;73;77;73;84;69;82]%N.

(** reBegin = [(?i)^\s*BEGIN\s+]: length of the match ([FindString]), [None] = no match. *)
Definition re_begin (s : bytes) : option nat :=
  let '(n0, r0) := skip_s s in
  match word_ci W_BEGIN r0 with
  | Some (n1, r1) => match skip_s1 r1 with Some (n2, _) => Some (n0 + n1 + n2)%nat | None => None end
  | None => None
  end.
(** reBeginAtomic = [(?i)^\s*BEGIN\s+ATOMIC\s+], reBeginTry = [(?i)^\s*BEGIN\s+TRY\s+]. *)
Definition re_begin_word (w s : bytes) : option nat :=
  let '(n0, r0) := skip_s s in
  match word_ci W_BEGIN r0 with
  | Some (n1, r1) =>
    match skip_s1 r1 with
    | Some (n2, r2) =>
      match word_ci w r2 with
      | Some (n3, r3) => match skip_s1 r3 with Some (n4, _) => Some (n0 + n1 + n2 + n3 + n4)%nat | None => None end
      | None => None
      end
    | None => None
    end
  | None => None
  end.
Definition re_begin_atomic := re_begin_word W_ATOMIC.
Definition re_begin_try := re_begin_word W_TRY.
(** reEnd = [(?i)^\s*END\s*]. *)
Definition re_end (s : bytes) : option nat :=
  let '(n0, r0) := skip_s s in
  match word_ci W_END r0 with
  | Some (n1, r1) => let '(n2, _) := skip_s r1 in Some (n0 + n1 + n2)%nat
  | None => None
  end.
(** reEndCatch = [(?i)^\s*END\s*CATCH\s*]. *)
Definition re_end_catch (s : bytes) : option nat :=
  let '(n0, r0) := skip_s s in
  match word_ci W_END r0 with
  | Some (n1, r1) =>
    let '(n2, r2) := skip_s r1 in
    match word_ci W_CATCH r2 with
    | Some (n3, r3) => let '(n4, _) := skip_s r3 in Some (n0 + n1 + n2 + n3 + n4)%nat
    | None => None
    end
  | None => None
  end.
(** reGoCmd = [(?i)^GO(?:\s+|$)] ([MatchString] only). *)
Definition re_go_cmd (s : bytes) : bool :=
  match word_ci W_GO s with
  | Some (_, r) => match r with [] => true | a :: _ => re_s a end
  | None => false
  end.
(** reEndTerm = [(?i)\s*END\s*$] (unanchored, [MatchString] only): the text, minus trailing [\s],
    ends with END. *)
Fixpoint skip_s_list (s : bytes) : bytes :=
  match s with a :: t => if re_s a then skip_s_list t else s | [] => [] end.
Definition re_end_term (s : bytes) : bool :=
  has_prefix_ci (skip_s_list (rev s)) (rev W_END).
(** reDollarQuote = ^\$( [A-Za-zÈ-ÿ_] [\wÈ-ÿ]STAR )STAR\$ (STAR = Kleene star): length of the match. [È-ÿ] = U+00C8..00FF =
    C3 88 .. C3 BF. *)
Fixpoint dq_tag (s : bytes) (n : nat) : nat * bytes :=
  match s with
  | a :: t =>
    if re_w a then dq_tag t (S n)
    else if N.eqb a 195 then
      match t with
      | b :: t2 => if (136 <=? b)%N && (b <=? 191)%N then dq_tag t2 (S (S n)) else (n, s)
      | [] => (n, s)
      end
    else (n, s)
  | [] => (n, s)
  end.
Definition re_dollar_quote (s : bytes) : option nat :=
  match s with
  | 36%N :: t =>
    match t with
    | a :: _ =>
      if is_digit a then None else
      let '(n, r) := dq_tag t O in
      match r with 36%N :: _ => Some (S (S n)) | _ => None end
    | [] => None
    end
  | _ => None
  end.

(** reDirective = ^([ -~]STAR)atlas:(\w+)(?: +([ -~]STAR))STAR as used by
    [directive(input, "delimiter", "-- ")] (sql/migrate/dir.go): group 1 is greedy, so it ends at
    the *last* [atlas:\w] of the printable prefix; it must be ["-- "], group 2 must be
    ["delimiter"]; result = group 3 (empty when no space follows). *)
Definition printable (b : N) : bool := (32 <=? b)%N && (b <=? 126)%N.
Fixpoint printable_prefix (s : bytes) : bytes :=
  match s with a :: t => if printable a then a :: printable_prefix t else [] | [] => [] end.
Definition S_ATLAS : bytes := [97;116;108;97;115;58]%N.            (* "atlas:" *)
Definition S_DELIMITER : bytes := [100;101;108;105;109;105;116;101;114]%N. (* "delimiter" *)
Definition S_HDR : bytes := [45;45;32]%N ++ S_ATLAS ++ S_DELIMITER.      (* "-- atlas:delimiter" *)
Definition atlas_w (s : bytes) : bool :=
  has_prefix s S_ATLAS && match skipn 6 s with a :: _ => re_w a | [] => false end.
(** is there an [atlas:\w] at any offset of [s]? *)
Fixpoint has_atlas_w (s : bytes) : bool :=
  atlas_w s || match s with _ :: t => has_atlas_w t | [] => false end.
Fixpoint skip_sp (s : bytes) : bytes :=
  match s with 32%N :: t => skip_sp t | _ => s end.
Definition directive_delimiter (input : bytes) : option bytes :=
  let run := printable_prefix input in
  if has_prefix run S_HDR then
    let after := skipn (length S_HDR) run in
    match after with
    | a :: _ => if re_w a then None
                else if has_atlas_w (skipn 4 run) then None
                else if N.eqb a 32 then Some (skip_sp after) else Some []
    | [] => Some []
    end
  else None.

(** [strconv.Atoi] succeeds: optional sign, at least one digit, value fits int64. *)
Fixpoint digits_val (s : bytes) (acc : N) : option N :=
  match s with
  | [] => Some acc
  | a :: t => if is_digit a then digits_val t (acc * 10 + (a - 48))%N else None
  end.
Definition atoi_ok (s : bytes) : bool :=
  let '(neg, d) := match s with
                   | 43%N :: t => (false, t)
                   | 45%N :: t => (true, t)
                   | _ => (false, s)
                   end in
  match d with
  | [] => false
  | _ => match digits_val d 0 with
         | Some v => if neg then (v <=? 9223372036854775808)%N else (v <=? 9223372036854775807)%N
         | None => false
         end
  end.

(** * Scanner *)
Record opts := mkOpts {
  MatchBegin : bool; MatchBeginAtomic : bool; MatchBeginTryCatch : bool; MatchDollarQuote : bool;
  BackslashEscapes : bool; EscapedStringExt : bool; HashComments : bool; GoCommand : bool;
  BeginEndTerminator : bool; OmitDelimiter : bool }.

Record Stmt := mkStmt { Pos : Z; Text : bytes; Comments : list bytes }.

(** lex.go: Scanner (ScannerOptions are the separate parameter [o]). [endterm]: is [s.endterm] set. *)
Record scanner := mkScanner {
  src : bytes; input : bytes; pos : Z; total : Z; width : Z; delim : bytes;
  comments : list bytes; endterm : bool }.

Definition set_input (s : scanner) (i : bytes) :=
  mkScanner (src s) i (pos s) (total s) (width s) (delim s) (comments s) (endterm s).
Definition set_pos (s : scanner) (p : Z) :=
  mkScanner (src s) (input s) p (total s) (width s) (delim s) (comments s) (endterm s).
Definition set_total (s : scanner) (t : Z) :=
  mkScanner (src s) (input s) (pos s) t (width s) (delim s) (comments s) (endterm s).
Definition set_width (s : scanner) (w : Z) :=
  mkScanner (src s) (input s) (pos s) (total s) w (delim s) (comments s) (endterm s).
Definition set_delim (s : scanner) (d : bytes) :=
  mkScanner (src s) (input s) (pos s) (total s) (width s) d (comments s) (endterm s).
Definition set_comments (s : scanner) (c : list bytes) :=
  mkScanner (src s) (input s) (pos s) (total s) (width s) (delim s) c (endterm s).

Definition delimiter : bytes := [59%N].        (* ";" *)
Definition NL : bytes := [10%N].
Definition NLNL : bytes := [10%N; 10%N].

(** lex.go: Scanner.error — only the slice [s.src[:p]] can panic; the result is (kind, line, col). *)
Definition error_at (s : scanner) (p0 : Z) (k : errkind) : res error :=
  let p := zlen (src s) - zlen (input s) + p0 in
  do sr <- slice_to (src s) p;
  let col := last_index_nl sr in
  let line := 1 + count_nl sr in
  Ok (mkErr k line (if line =? 1 then p else p - col - 1)).
(** [return s.error(...)]. *)
Definition fail {A} (s : scanner) (p0 : Z) (k : errkind) : res A :=
  do e <- error_at s p0 k; Err e.

(** lex.go: Scanner.addPos *)
Definition addPos (s : scanner) (p : Z) : scanner := set_total (set_pos s (pos s + p)) (total s + p).

(** lex.go: Scanner.next — [None] is eos. *)
Definition next (s : scanner) : res (option N * scanner) :=
  if zlen (input s) <=? pos s then Ok (None, s) else
  do rest <- slice_from (input s) (pos s);
  let '(r, w) := decode_rune rest in
  Ok (Some r, addPos (set_width s w) w).

(** lex.go: Scanner.pick *)
Definition pick (s : scanner) : res (option N) :=
  do rs <- next s; Ok (fst rs).

Definition rune_is (r : option N) (c : N) : bool :=
  match r with Some x => N.eqb x c | None => false end.

(** lex.go: Scanner.skipSpaces *)
Definition skipSpaces (s : scanner) : scanner :=
  let i := trim_left_space (input s) in
  set_total (set_input s i) (total s + (zlen (input s) - zlen i)).

(** lex.go: Scanner.setDelim *)
Definition setDelim (s : scanner) (d : bytes) : res scanner :=
  match d with
  | [] => Err (mkErr EEmptyDelim 0 0)
  | _ => Ok (set_delim s (unescape_delim d))
  end.

(** lex.go: Scanner.emit *)
Definition emit (o : opts) (s : scanner) (text : bytes) : res (Stmt * scanner) :=
  do rest <- slice_from (input s) (pos s);
  let t := if OmitDelimiter o || negb (bytes_eqb (delim s) delimiter) then trim_suffix text (delim s) else text in
  Ok (mkStmt (total s - zlen text) (trim_space t) (comments s),
      set_comments (set_pos (set_input s rest) 0) []).

(** lex.go: Scanner.init (with fix 7d0087e: [total] = length of the stripped header line). *)
Definition init (s0 : scanner) (inp : bytes) : res scanner :=
  let s := mkScanner inp inp 0 0 0 delimiter [] (endterm s0) in
  match directive_delimiter inp with
  | Some d =>
    do s1 <- setDelim s d;
    match index_of inp NL with
    | None => fail s1 (pos s1) ENoInputAfterDelim
    | Some i =>
      let rest := skipn (S i) inp in
      Ok (set_total (set_input s1 rest) (zlen inp - zlen rest))
    end
  | None => Ok s
  end.
Definition new_scanner (et : bool) : scanner := mkScanner [] [] 0 0 0 [] [] et.

(** lex.go: Scanner.skipQuote *)
Fixpoint skipQuote_loop (fuel : nat) (s : scanner) (p0 : Z) (quote : N) (escaped : bool) : res scanner :=
  match fuel with
  | O => OutOfFuel
  | S f =>
    do rs <- next s;
    let '(r, s1) := rs in
    match r with
    | None => fail s1 p0 EUnclosedQuote
    | Some c =>
      if N.eqb c 92 && escaped then
        do rs2 <- next s1; skipQuote_loop f (snd rs2) p0 quote escaped
      else if N.eqb c quote then Ok s1
      else skipQuote_loop f s1 p0 quote escaped
    end
  end.
Definition skipQuote (o : opts) (fuel : nat) (s : scanner) (quote : N) : res scanner :=
  do escaped <-
     (if BackslashEscapes o then Ok true
      else if EscapedStringExt o && (0 <? pos s) then
        do b <- index (input s) (pos s - 1); Ok (N.eqb b 69 || N.eqb b 101)
      else Ok false);
  skipQuote_loop fuel s (pos s) quote escaped.

(** lex.go: Scanner.skipDollarQuote *)
Fixpoint skipDollarQuote_loop (fuel : nat) (s : scanner) (m : bytes) : res scanner :=
  match fuel with
  | O => OutOfFuel
  | S f =>
    do rs <- next s;
    let '(r, s1) := rs in
    match r with
    | None =>
      match delim s1 with
      | [] => fail s1 (pos s1) EUnclosedDollar
      | _ => Ok s1
      end
    | Some c =>
      if N.eqb c 36 then
        do tl <- slice_from (input s1) (pos s1 - 1);
        if has_prefix tl m then Ok (addPos s1 (zlen m - 1))
        else skipDollarQuote_loop f s1 m
      else skipDollarQuote_loop f s1 m
    end
  end.
Definition skipDollarQuote (fuel : nat) (s : scanner) : res scanner :=
  do tl <- slice_from (input s) (pos s - 1);
  match re_dollar_quote tl with
  | None => fail s (pos s) EUnexpectedDollar
  | Some n =>
    let m := firstn n tl in
    skipDollarQuote_loop fuel (addPos s (zlen m - 1)) m
  end.

(** lex.go: Scanner.comment *)
Definition comment (s : scanner) (left right : bytes) : res scanner :=
  do tl <- slice_from (input s) (pos s);
  match index_of tl right with
  | None => Ok s
  | Some i =>
    let s1 := addPos s (Z.of_nat i + zlen right) in
    if negb (pos s =? zlen left) then Ok s1 else
    do c <- slice_to (input s1) (pos s1);
    do rest <- slice_from (input s1) (pos s1);
    let s2 := set_pos (set_input (set_comments s1 (comments s1 ++ [c])) rest) 0 in
    let s3 := if has_prefix rest NLNL || (bytes_eqb right NL && has_prefix rest NL)
              then set_comments s2 [] else s2 in
    Ok (skipSpaces s3)
  end.

(** the loops [for r := s.pick(); r != eos && r != '\n'; r = s.next() {}] of delimCmd and
    skipGoCount. *)
Fixpoint to_eol_loop (fuel : nat) (s : scanner) (r : option N) : res scanner :=
  match fuel with
  | O => OutOfFuel
  | S f =>
    match r with
    | None => Ok s
    | Some c => if N.eqb c 10 then Ok s else
                do rs <- next s; to_eol_loop f (snd rs) (fst rs)
    end
  end.

(** the delimiter named by the text after the DELIMITER keyword (delimCmd, with fix cda21f7:
    [len(delim) > 1]): TrimSpace, then the MySQL client's quoting. *)
Definition delim_of_arg (raw : bytes) : res bytes :=
  let d := trim_space raw in
  if (1 <? zlen d) && has_prefix d [39%N] && has_suffix d [39%N] then
    do inner <- slice d 1 (zlen d - 1); Ok (replace_qq inner)
  else Ok d.

(** lex.go: Scanner.delimCmd *)
Definition delimCmd (o : opts) (fuel : nat) (s : scanner) : res scanner :=
  do r <- pick s;
  if negb (rune_is r 32) then Ok s else
  do r0 <- pick s;
  do s1 <- to_eol_loop fuel s r0;
  do raw <- slice (input s1) (zlen S_DELIMITER) (pos s1);
  do d' <- delim_of_arg raw;
  do s2 <- setDelim s1 d';
  do txt <- slice_to (input s2) (pos s2);
  do es <- emit o s2 txt;
  Ok (snd es).

(** lex.go: Scanner.skipGoCount *)
Definition skipGoCount (fuel : nat) (s : scanner) : res scanner :=
  do r <- pick s;
  if rune_is r 32 then
    let c := pos s in
    do r0 <- pick s;
    do s1 <- to_eol_loop fuel s r0;
    do raw <- slice (input s1) c (pos s1);
    if atoi_ok (trim_space raw) then Ok s1 else Err (mkErr EInvalidGo 0 0)
  else Ok s.

(** ** nested scanners and one iteration of [stmt]'s loop, over the recursive call [nested] *)
Section Iter.
Variable o : opts.
Variable nested : scanner -> res (scanner * option Stmt).   (* body.stmt(): None = io.EOF *)

(** errors of the nested functions are *values* ([stmt] continues after them, with the state
    they left): [(s', None)] = nil error. *)
Definition nres := res (scanner * option error).
Definition nfail (s : scanner) (p0 : Z) (k : errkind) : nres :=
  do e <- error_at s p0 k; Ok (s, Some e).

(** the loop of skipBeginAtomic *)
Fixpoint atomic_loop (fuel : nat) (s body : scanner) : nres :=
  match fuel with
  | O => OutOfFuel
  | S f =>
    match nested body with
    | Ok (_, None) => nfail s (pos s) EEofBody
    | Err _ => nfail s (pos s) EScanBody
    | Ok (body', Some st) =>
      match re_end (Text st) with
      | Some _ => Ok (addPos s (total body'), None)
      | None => atomic_loop f s body'
      end
    | Panic => Panic
    | OutOfFuel => OutOfFuel
    end
  end.
(** lex.go: Scanner.skipBeginAtomic *)
Definition skipBeginAtomic (fuel : nat) (s : scanner) : nres :=
  do tl <- slice_from (input s) (pos s - 1);
  match re_begin_atomic tl with
  | None => nfail s (pos s) EMissingBeginAtomic
  | Some n =>
    let s1 := addPos s (Z.of_nat n - 1) in
    do bi <- slice_from (input s1) (pos s1);
    match init (new_scanner false) bi with
    | Ok body => atomic_loop fuel s1 body
    | Err e => Ok (s1, Some e)
    | Panic => Panic
    | OutOfFuel => OutOfFuel
    end
  end.

(** the loop of skipBeginTryCatch *)
Fixpoint trycatch_loop (fuel : nat) (s body : scanner) : nres :=
  match fuel with
  | O => OutOfFuel
  | S f =>
    match nested body with
    | Ok (_, None) => nfail s (pos s) EEofBody
    | Err _ => nfail s (pos s) EScanBody
    | Ok (body', Some st) =>
      match re_end_catch (Text st) with
      | Some n =>
        let e := firstn n (Text st) in
        let s1 := if has_suffix (trim_space e) delimiter then s
                  else addPos s (- (zlen (Text st) - zlen e)) in
        Ok (addPos s1 (total body'), None)
      | None => trycatch_loop f s body'
      end
    | Panic => Panic
    | OutOfFuel => OutOfFuel
    end
  end.
(** lex.go: Scanner.skipBeginTryCatch *)
Definition skipBeginTryCatch (fuel : nat) (s : scanner) : nres :=
  do tl <- slice_from (input s) (pos s - 1);
  match re_begin_try tl with
  | None => nfail s (pos s) EMissingBeginTry
  | Some n =>
    let s1 := addPos s (Z.of_nat n - 1) in
    do bi <- slice_from (input s1) (pos s1);
    match init (new_scanner false) bi with
    | Ok body => trycatch_loop fuel s1 body
    | Err e => Ok (s1, Some e)
    | Panic => Panic
    | OutOfFuel => OutOfFuel
    end
  end.

(** the loop of skipBegin *)
Fixpoint begin_loop (fuel : nat) (s group : scanner) : nres :=
  match fuel with
  | O => OutOfFuel
  | S f =>
    match nested group with
    | Ok (_, None) => nfail s (pos s) EEofCompound
    | Err _ => nfail s (pos s) EScanCompound
    | Ok (group', Some st) =>
      match re_end (Text st) with
      | Some n =>
        if (n =? length (Text st))%nat || bytes_eqb (skipn n (Text st)) (delim s)
        then Ok (addPos s (total group'), None)
        else begin_loop f s group'
      | None =>
        if BeginEndTerminator o && re_end_term (Text st)
        then Ok (addPos s (total group'), None)
        else begin_loop f s group'
      end
    | Panic => Panic
    | OutOfFuel => OutOfFuel
    end
  end.
(** lex.go: Scanner.skipBegin *)
Definition skipBegin (fuel : nat) (s : scanner) : nres :=
  do tl <- slice_from (input s) (pos s - 1);
  match re_begin tl with
  | None => nfail s (pos s) EMissingBegin
  | Some n =>
    let s1 := addPos s (Z.of_nat n - 1) in
    do bi <- slice_from (input s1) (pos s1);
    match init (new_scanner (BeginEndTerminator o)) bi with
    | Ok group => begin_loop fuel s1 group
    | Err e => Ok (s1, Some e)
    | Panic => Panic
    | OutOfFuel => OutOfFuel
    end
  end.

(** result of one iteration of the [Scan:] loop of [stmt]. *)
Inductive step :=
| Continue (s : scanner) (depth openingPos : Z)
| Break (s : scanner) (text : bytes)
| RetEOF (s : scanner).

Definition is_some {A} (x : option A) : bool := match x with Some _ => true | None => false end.

(** a nested block scanner returned: [break Scan] with [text = s.input[:s.pos]] on success,
    go on otherwise. *)
Definition after_block (r : nres) (depth opos : Z) : res step :=
  do se <- r;
  let '(s1, e) := se in
  match e with
  | None => do t <- slice_to (input s1) (pos s1); Ok (Break s1 t)
  | Some _ => Ok (Continue s1 depth opos)
  end.

(** lex.go: Scanner.stmt — one pass through [switch r := s.next(); {...}]. *)
Definition stmt_iter (fuel : nat) (s0 : scanner) (depth opos : Z) : res step :=
  do rs <- next s0;
  let '(r, s) := rs in
  match r with
  | None =>
    if 0 <? depth then fail s opos EUnclosedParen
    else if 0 <? pos s then Ok (Break s (input s))
    else Ok (RetEOF s)
  | Some c =>
    if N.eqb c 40 then Ok (Continue s (depth + 1) (if depth =? 0 then pos s else opos))
    else if N.eqb c 41 then
      if depth =? 0 then fail s (pos s) EUnexpectedParen else Ok (Continue s (depth - 1) opos)
    else if N.eqb c 39 || N.eqb c 34 || N.eqb c 96 then
      do s1 <- skipQuote o fuel s c; Ok (Continue s1 depth opos)
    else
    do isDelimCmd <-
       (if (pos s =? 1) && (zlen S_DELIMITER <? zlen (input s)) then
          do hd <- slice_to (input s) (zlen S_DELIMITER); Ok (has_prefix_ci hd W_DELIMITER && (length hd =? 9)%nat)
        else Ok false);
    if isDelimCmd then
      do s1 <- delimCmd o fuel (addPos s (zlen S_DELIMITER - 1));
      Ok (Continue (skipSpaces s1) depth opos)
    else
    do go1 <- (if GoCommand o && N.eqb c 10 then do tl <- slice_from (input s) (pos s); Ok (re_go_cmd tl) else Ok false);
    do go2 <-
       (if go1 then Ok true else
        if GoCommand o then
          do atLineStart <-
             (if pos s =? 1 then Ok true
              else if 1 <? pos s then do b <- index (input s) (pos s - 2); Ok (N.eqb b 10)
              else Ok false);
          if atLineStart then do tl <- slice_from (input s) (pos s - 1); Ok (re_go_cmd tl) else Ok false
        else Ok false);
    if go2 then
      do s1 <- (if go1 then do rs1 <- next s; Ok (snd rs1) else Ok s);
      do text <- slice_to (input s1) (pos s1 - 1);
      do rs2 <- next s1;
      do s3 <- skipGoCount fuel (snd rs2);
      Ok (Break (skipSpaces s3) text)
    else
    do isDelim <-
       (if depth =? 0 then do tl <- slice_from (input s) (pos s - width s); Ok (has_prefix tl (delim s)) else Ok false);
    if isDelim then
      let s1 := addPos s (zlen (delim s) - width s) in
      do text <- slice_to (input s1) (pos s1);
      Ok (Break s1 text)
    else
    do isDollar <-
       (if MatchDollarQuote o && N.eqb c 36 then
          do tl <- slice_from (input s) (pos s - 1); Ok (is_some (re_dollar_quote tl))
        else Ok false);
    if isDollar then do s1 <- skipDollarQuote fuel s; Ok (Continue s1 depth opos)
    else if N.eqb c 35 && HashComments o then
      do s1 <- comment s [35%N] NL; Ok (Continue s1 depth opos)
    else
    do p1 <- (if N.eqb c 45 then pick s else Ok None);
    if N.eqb c 45 && rune_is p1 45 then
      do rs1 <- next s; do s1 <- comment (snd rs1) [45%N; 45%N] NL; Ok (Continue s1 depth opos)
    else
    do p2 <- (if N.eqb c 47 then pick s else Ok None);
    if N.eqb c 47 && rune_is p2 42 then
      do rs1 <- next s; do s1 <- comment (snd rs1) [47%N; 42%N] [42%N; 47%N]; Ok (Continue s1 depth opos)
    else
    do isEndTerm <- (if endterm s then do hd <- slice_to (input s) (pos s); Ok (re_end_term hd) else Ok false);
    if isEndTerm then
      do text <- slice_to (input s) (pos s); Ok (Break s text)
    else
    let semi := bytes_eqb (delim s) delimiter in
    do isAtomic <-
       (if semi && MatchBeginAtomic o then
          do tl <- slice_from (input s) (pos s - 1); Ok (is_some (re_begin_atomic tl))
        else Ok false);
    if isAtomic then after_block (skipBeginAtomic fuel s) depth opos
    else
    do isTry <-
       (if semi && MatchBeginTryCatch o then
          do tl <- slice_from (input s) (pos s - 1); Ok (is_some (re_begin_try tl))
        else Ok false);
    if isTry then after_block (skipBeginTryCatch fuel s) depth opos
    else
    do isBegin <-
       (if semi && MatchBegin o then
          if pos s =? 1 then do tl <- slice_from (input s) (pos s - 1); Ok (is_some (re_begin tl))
          else if 1 <? pos s then do tl <- slice_from (input s) (pos s - 2); Ok (is_some (re_begin tl))
          else Ok false
        else Ok false);
    if isBegin then after_block (skipBegin fuel s) depth opos
    else Ok (Continue s depth opos)
  end.

(** the [Scan:] loop of [stmt] followed by [return s.emit(text), nil]. *)
Fixpoint stmt_loop (fuel : nat) (s : scanner) (depth opos : Z) : res (scanner * option Stmt) :=
  match fuel with
  | O => OutOfFuel
  | S f =>
    do st <- stmt_iter f s depth opos;
    match st with
    | Continue s1 d1 o1 => stmt_loop f s1 d1 o1
    | Break s1 text => do es <- emit o s1 text; Ok (snd es, Some (fst es))
    | RetEOF s1 => Ok (s1, None)
    end
  end.
End Iter.

(** lex.go: Scanner.stmt *)
Fixpoint stmt (o : opts) (fuel : nat) (s : scanner) : res (scanner * option Stmt) :=
  match fuel with
  | O => OutOfFuel
  | S f => stmt_loop o (stmt o f) f (skipSpaces s) 0 0
  end.

(** lex.go: Scanner.Scan *)
Fixpoint scan_loop (o : opts) (fuel : nat) (s : scanner) (acc : list Stmt) : res (list Stmt) :=
  match fuel with
  | O => OutOfFuel
  | S f =>
    do r <- stmt o fuel s;
    match r with
    | (_, None) => Ok (rev acc)
    | (s1, Some st) => scan_loop o f s1 (st :: acc)
    end
  end.
Definition Scan (o : opts) (fuel : nat) (inp : bytes) : res (list Stmt) :=
  do s <- init (new_scanner false) inp;
  scan_loop o fuel s [].

Definition fuel_of (inp : bytes) : nat := (2 * length inp + 8)%nat.
Definition scan (o : opts) (inp : bytes) : res (list Stmt) := Scan o (fuel_of inp) inp.

(** the option sets: lex.go Stmts, sql/{mysql,postgres,sqlite} ScanStmts. *)
Definition opts_generic  := mkOpts false true  false true  false false false false false false.
Definition opts_mysql    := mkOpts true  false false false true  false true  false false false.
Definition opts_postgres := mkOpts true  true  false true  false true  false false false false.
Definition opts_sqlite   := mkOpts true  false false false false false false false false false.
(** lex.go: Stmts *)
Definition Stmts (inp : bytes) := scan opts_generic inp.

(** cmd/atlas/internal/migratelint/lint_oss.go: FileReport.Line *)
Definition Line (text : bytes) (p : Z) : res Z :=
  do pre <- slice_to text p; Ok (count_nl pre + 1).
