(** M-BUILD/M-FMT (bridge, statement skeletons): a command as the SQL builder assembles it — fixed
    text written by Builder.P / WriteString (keywords, type names, numbers, spaces, commas),
    identifier and literal TOKENS written by Builder.Ident / the quote functions, and
    parentheses written by Builder.Wrap — and the decidable condition under which the rendered
    command is [scan_closed] for the default delimiter.  No proofs here (ClosedBridgeProofs.v). *)
From Coq Require Import List NArith ZArith Bool Arith.
From Atlas Require Import Base.Bytes Lex.LexModel Lex.ClosedModel Lex.QuoteModel.
Import ListNotations.

Inductive piece :=
| PText (t : bytes)     (* fixed text *)
| PTok (t : bytes)      (* a quoted identifier or literal *)
| POpen | PClose.       (* ( and ) *)

Definition render_piece (p : piece) : bytes :=
  match p with PText t => t | PTok t => t | POpen => [40%N] | PClose => [41%N] end.
Definition render (ps : list piece) : bytes := concat (map render_piece ps).

(** bytes of fixed text that no scanner treats specially (outside quotes) with the default
    delimiter: ASCII, not a parenthesis, quote, '$', '#', '-', '/', ';' *)
Definition inert_byte (b : N) : bool :=
  (b <? 128)%N &&
  negb (N.eqb b 40 || N.eqb b 41 || N.eqb b 39 || N.eqb b 34 || N.eqb b 96 || N.eqb b 36
        || N.eqb b 35 || N.eqb b 45 || N.eqb b 47 || N.eqb b 59).

(** no BEGIN word: the letters B/b never start the (case-insensitive) word BEGIN in the text
    followed by a space (every fixed text of the builder ends with a space or is followed by a
    token/parenthesis) *)
Fixpoint no_begin (t : bytes) : bool :=
  match t with
  | [] => true
  | _ :: t' => negb (has_prefix_ci t W_BEGIN) && no_begin t'
  end.
(** a fixed text: inert bytes, no BEGIN word.  Adjacent fixed texts are not allowed (merge them):
    a BEGIN word cannot straddle a token or a parenthesis. *)
Definition text_ok (t : bytes) : bool := forallb inert_byte t && no_begin t.
Fixpoint no_adjacent_text (ps : list piece) : bool :=
  match ps with
  | PText _ :: ((PText _ :: _) as r) => false
  | _ :: r => no_adjacent_text r
  | [] => true
  end.
Definition is_letter (b : N) : bool := ((65 <=? b)%N && (b <=? 90)%N) || ((97 <=? b)%N && (b <=? 122)%N).

Fixpoint depth_ok (depth : nat) (ps : list piece) : bool :=
  match ps with
  | [] => (depth =? 0)%nat
  | POpen :: r => depth_ok (S depth) r
  | PClose :: r => match depth with O => false | S d => depth_ok d r end
  | _ :: r => depth_ok depth r
  end.

(** the skeleton condition, for a scanner with backslash handling [BackslashEscapes o] *)
Definition skel_ok (o : opts) (ps : list piece) : bool :=
  forallb (fun p => match p with
                    | PText t => text_ok t
                    | PTok t => quoted_token (BackslashEscapes o) t
                    | _ => true
                    end) ps
  && depth_ok 0 ps
  && no_adjacent_text ps
  && trimmed (render ps)
  && negb (has_prefix_ci (render ps) W_DELIMITER)
  && match ps with PText (b :: _) :: _ => is_letter b | _ => false end.
