(** M-BUILD/M-FMT (bridge): a statement skeleton that satisfies [skel_ok] renders to a closed
    command for the default delimiter ([scan_closed o ";"]): the walker [cw] of ClosedModel.v
    accepts it — fixed text byte by byte (inert bytes, no BEGIN word at either look-ahead offset),
    parentheses by the paren branches, tokens by the quote branch (one [cw] step per quoted segment,
    [qloop] being independent of what follows the token). *)
From Coq Require Import List NArith ZArith Bool Arith Lia.
From Atlas Require Import Base.Bytes Lex.LexModel Lex.LexProofs Lex.ClosedModel Lex.QuoteModel
  Lex.ClosedBridgeModel Lex.QuoteProofs.
From Atlas Require Lex.ClosedProofs.
From Coq Require Import ZifyBool ZifyNat ZifyN.
Import ListNotations.

(** * Look-ahead lemmas *)
Lemma decode_ascii b l : (b < 128)%N -> decode_rune (b :: l) = (b, 1%Z).
Proof. intros H. unfold decode_rune. replace (b <? 128)%N with true by lia. reflexivity. Qed.

(** a case-insensitive word cannot continue across a byte that is not one of its letters *)
Lemma hpci_stop x r : forall a W, ~ In (upper x) W ->
  has_prefix_ci (a ++ x :: r) W = true -> has_prefix_ci a W = true.
Proof.
  induction a as [|c a IH]; intros W Hx H.
  - destruct W as [|b W]; [reflexivity|]. cbn [app has_prefix_ci] in H.
    apply andb_true_iff in H as [H _]. apply N.eqb_eq in H. exfalso. apply Hx. left. auto.
  - destruct W as [|b W]; [reflexivity|]. cbn [app has_prefix_ci] in *.
    apply andb_true_iff in H as [H1 H2]. rewrite H1. cbn [andb]. apply IH; [|exact H2].
    intros Hin. apply Hx. right. exact Hin.
Qed.

(** what can follow a fixed text: a quote, a parenthesis or the delimiter *)
Definition stopb (x : N) : bool := is_quote x || N.eqb x 40 || N.eqb x 41 || N.eqb x 59.

Lemma stopb_cases x : stopb x = true -> x = 39%N \/ x = 34%N \/ x = 96%N \/ x = 40%N \/ x = 41%N \/ x = 59%N.
Proof. unfold stopb, is_quote. lia. Qed.

Lemma not_in_W_BEGIN y : (y <> 66 /\ y <> 69 /\ y <> 71 /\ y <> 73 /\ y <> 78)%N -> ~ In y W_BEGIN.
Proof. intros H Hin. simpl in Hin. lia. Qed.

Lemma stopb_props x : stopb x = true -> re_s x = false /\ ~ In (upper x) W_BEGIN.
Proof.
  intros H. apply stopb_cases in H.
  destruct H as [->|[->|[->|[->|[->| ->]]]]]; (split; [reflexivity|apply not_in_W_BEGIN; cbv; repeat split; discriminate]).
Qed.

Lemma begin_hint_head p l : re_s p = false -> N.eqb (upper p) 66 = false -> begin_hint (p :: l) = false.
Proof. intros H1 H2. unfold begin_hint. cbn [skip_s_list]. rewrite H1. cbn [has_prefix_ci W_BEGIN]. rewrite H2. reflexivity. Qed.

Lemma begin_hint_text x r : stopb x = true -> forall a, no_begin a = true -> begin_hint (a ++ x :: r) = false.
Proof.
  intros Hx. destruct (stopb_props x Hx) as [Hs Hn].
  induction a as [|c a IH]; intros Hnb.
  - cbn [app]. unfold begin_hint. cbn [skip_s_list]. rewrite Hs.
    destruct (has_prefix_ci (x :: r) W_BEGIN) eqn:E; [|reflexivity].
    apply (hpci_stop x r [] W_BEGIN Hn) in E. discriminate.
  - cbn [no_begin] in Hnb. apply andb_true_iff in Hnb as [H1 H2]. apply negb_true_iff in H1.
    unfold begin_hint. cbn [app skip_s_list]. destruct (re_s c).
    + apply IH. exact H2.
    + destruct (has_prefix_ci (c :: a ++ x :: r) W_BEGIN) eqn:E; [|reflexivity].
      change (c :: a ++ x :: r) with ((c :: a) ++ x :: r) in E.
      apply (hpci_stop x r _ W_BEGIN Hn) in E. congruence.
Qed.

(** * The byte-wise quote walker only looks at the bytes it may consume *)
Lemma bw_ext q esc K M m : forall t sk n n2 l2,
  bw q esc sk n (t ++ K) = Some (n2, l2) -> length t = n ->
  exists s, (length s = n2 /\ n2 < n)%nat /\ l2 = s ++ K /\
    bw q esc sk (n + m) (t ++ M) = Some ((n2 + m)%nat, s ++ M).
Proof.
  induction t as [|b t IH]; intros sk n n2 l2 H Hl.
  - subst n. discriminate.
  - destruct n as [|n]; [discriminate|]. cbn [length] in Hl. assert (length t = n) as Hl' by lia.
    cbn [app bw plus] in *.
    destruct sk.
    + destruct (IH _ _ _ _ H Hl') as (s & (H1 & H1') & H2 & H3). exists s. repeat split; auto; lia.
    + destruct (N.eqb b 92 && esc).
      * destruct (IH _ _ _ _ H Hl') as (s & (H1 & H1') & H2 & H3). exists s. repeat split; auto; lia.
      * destruct (N.eqb b q).
        -- inversion H; subst n2 l2. exists t. repeat split; auto; lia.
        -- destruct (IH _ _ _ _ H Hl') as (s & (H1 & H1') & H2 & H3). exists s. repeat split; auto; lia.
Qed.

Section Bridge.
Variable o : opts.
Notation d := delimiter.
Notation K := [59%N; 10%N].
Notation esc := (BackslashEscapes o).

(** * Single steps of the walker *)
Lemma cw_end f start prev depth l : cw o d (S f) start prev depth 0 l = (depth =? 0)%nat.
Proof. reflexivity. Qed.

Lemma cw_open f start prev depth n l :
  cw o d (S f) start prev depth (S n) (40%N :: l) = cw o d f false (Some 40%N) (S depth) n l.
Proof.
  rewrite ClosedProofs.cw_S. rewrite decode_ascii by lia. cbv beta iota zeta.
  change (Z.to_nat 1) with 1%nat. replace (S n - 1)%nat with n by lia. reflexivity.
Qed.

Lemma cw_close f start prev depth n l :
  cw o d (S f) start prev (S depth) (S n) (41%N :: l) = cw o d f false (Some 41%N) depth n l.
Proof.
  rewrite ClosedProofs.cw_S. rewrite decode_ascii by lia. cbv beta iota zeta.
  change (Z.to_nat 1) with 1%nat. replace (S n - 1)%nat with n by lia. reflexivity.
Qed.

Lemma cw_quote f start prev depth n q l : is_quote q = true ->
  cw o d (S f) start prev depth (S n) (q :: l) =
  match qloop f q esc n l with
  | Some (n2, l2) => cw o d f false (Some q) depth n2 l2
  | None => false
  end.
Proof.
  intros Hq. pose proof (is_quote_ascii q Hq) as Ha. pose proof (is_quote_cases q Hq) as Hc.
  rewrite ClosedProofs.cw_S. rewrite decode_ascii by exact Ha. cbv beta iota zeta.
  change (Z.to_nat 1) with 1%nat. replace (S n - 1)%nat with n by lia.
  replace (N.eqb q 40) with false by lia. replace (N.eqb q 41) with false by lia. rewrite Hq.
  reflexivity.
Qed.

Lemma cw_inert f start prev depth n b l :
  inert_byte b = true ->
  (start = true -> has_prefix_ci (b :: l) W_DELIMITER = false) ->
  begin_hint (b :: l) = false ->
  (forall p, prev = Some p -> begin_hint (p :: b :: l) = false) ->
  cw o d (S f) start prev depth (S n) (b :: l) = cw o d f false (Some b) depth n l.
Proof.
  intros Hi Hst Hb Hp. unfold inert_byte in Hi.
  assert (b < 128)%N as Ha by lia.
  rewrite ClosedProofs.cw_S. rewrite decode_ascii by exact Ha. cbv beta iota zeta.
  change (Z.to_nat 1) with 1%nat. replace (S n - 1)%nat with n by lia.
  replace (N.eqb b 40) with false by lia. replace (N.eqb b 41) with false by lia.
  replace (is_quote b) with false by (unfold is_quote; lia).
  replace (N.eqb b 36) with false by lia. replace (N.eqb b 35) with false by lia.
  replace (N.eqb b 45) with false by lia. replace (N.eqb b 47) with false by lia.
  rewrite !andb_false_r. cbn [andb].
  replace (start && (1 =? 1)%nat && has_prefix_ci (b :: l) W_DELIMITER) with false
    by (destruct start; [rewrite Hst by reflexivity|]; reflexivity).
  replace (has_prefix (b :: l) d) with false
    by (cbn [has_prefix delimiter]; replace (N.eqb b 59) with false by lia; reflexivity).
  rewrite andb_false_r.
  change (skipn (1 - 1) (b :: l)) with (b :: l). rewrite Hb.
  replace (begin_hint match prev with Some p => p :: b :: l | None => b :: l end) with false
    by (destruct prev as [p|]; [rewrite (Hp p eq_refl)|rewrite Hb]; reflexivity).
  rewrite andb_false_r. reflexivity.
Qed.

(** * Walking a fixed text *)
Lemma text_walk x M' depth m : stopb x = true ->
  (forall f' start' prev', (m < f')%nat -> cw o d f' start' prev' depth m (x :: M') = true) ->
  forall t f start prev,
  forallb inert_byte t = true -> no_begin t = true ->
  (start = true -> has_prefix_ci (t ++ x :: M') W_DELIMITER = false) ->
  (forall p, prev = Some p -> begin_hint (p :: t ++ x :: M') = false) ->
  (length t + m < f)%nat ->
  cw o d f start prev depth (length t + m) (t ++ x :: M') = true.
Proof.
  intros Hx Hk. induction t as [|b t IH]; intros f start prev Hin Hnb Hst Hp Hf.
  - cbn [app length plus]. apply Hk. exact Hf.
  - cbn [forallb] in Hin. apply andb_true_iff in Hin as [Hib Hin].
    destruct f as [|f]; [lia|]. cbn [length plus app].
    pose proof (begin_hint_text x M' Hx (b :: t) Hnb) as Hbh. cbn [app] in Hbh.
    rewrite cw_inert; auto.
    cbn [no_begin] in Hnb. apply andb_true_iff in Hnb as [_ Hnb].
    apply IH; auto.
    + discriminate.
    + intros p Hpe. inversion Hpe; subst p. exact Hbh.
    + cbn [length] in Hf. lia.
Qed.

(** * Walking a token *)
Lemma tok_walk depth m M :
  (forall f' q, (m < f')%nat -> is_quote q = true -> cw o d f' false (Some q) depth m M = true) ->
  forall F s n, qsegs F esc n (s ++ K) = true -> length s = n ->
  forall f start prev, (n + m < f)%nat -> cw o d f start prev depth (n + m) (s ++ M) = true.
Proof.
  intros Hk. induction F as [|F IH]; intros s n H Hl f start prev Hf; [discriminate|].
  destruct s as [|q s1]; [subst n; discriminate|]. destruct n as [|n1]; [discriminate|].
  cbn [length] in Hl. assert (length s1 = n1) as Hl1 by lia.
  cbn [app] in H. rewrite qsegs_S in H. apply andb_true_iff in H as [Hq H].
  destruct (bw q esc false n1 (s1 ++ K)) as [[n2 l2]|] eqn:Ebw; [|discriminate].
  destruct (bw_ext q esc K M m _ _ _ _ _ Ebw Hl1) as (s2 & (Hs2 & Hlt) & Hl2 & Hbw).
  destruct f as [|f]; [lia|]. cbn [app plus].
  rewrite cw_quote by exact Hq.
  rewrite qloop_bw by (try apply is_quote_ascii; auto; lia). rewrite Hbw.
  destruct n2 as [|n2].
  - destruct s2; [|discriminate]. cbn [plus app]. apply Hk; [lia|exact Hq].
  - cbn [seg_result] in H. subst l2. apply (IH s2 (S n2)); auto. lia.
Qed.

(** * Walking the skeleton *)
Definition pieces_ok (ps : list piece) : bool :=
  forallb (fun p => match p with
                    | PText t => text_ok t
                    | PTok t => quoted_token esc t
                    | _ => true
                    end) ps.

Definition head_cond (start : bool) (prev : option N) (ps : list piece) (L : bytes) : Prop :=
  match ps with
  | PText _ :: _ =>
    (start = true -> has_prefix_ci L W_DELIMITER = false) /\
    (forall p, prev = Some p -> re_s p = false /\ N.eqb (upper p) 66 = false)
  | _ => True
  end.

Lemma quoted_token_head t : quoted_token esc t = true -> exists q t', t = q :: t' /\ is_quote q = true.
Proof.
  unfold quoted_token. destruct t as [|q t']; [discriminate|]. cbn [length app].
  rewrite qsegs_S. intros H. apply andb_true_iff in H as [H _]. eauto.
Qed.

(** what follows a fixed text starts with a quote, a parenthesis or the delimiter *)
Lemma rest_head r : pieces_ok r = true -> no_adjacent_text (PText [] :: r) = true ->
  exists x M', render r ++ K = x :: M' /\ stopb x = true.
Proof.
  intros Hok Hna. destruct r as [|[t|t| |] r].
  - exists 59%N, [10%N]. split; reflexivity.
  - discriminate.
  - cbn [pieces_ok forallb] in Hok. apply andb_true_iff in Hok as [Hok _].
    destruct (quoted_token_head t Hok) as (q & t' & -> & Hq).
    unfold render. cbn [map concat render_piece app]. eexists _, _. split; [reflexivity|].
    unfold stopb. rewrite Hq. reflexivity.
  - unfold render. cbn [map concat render_piece app]. eexists _, _. split; reflexivity.
  - unfold render. cbn [map concat render_piece app]. eexists _, _. split; reflexivity.
Qed.

Lemma render_cons p r : render (p :: r) = render_piece p ++ render r.
Proof. reflexivity. Qed.

Lemma walk : forall ps f start prev depth,
  pieces_ok ps = true -> depth_ok depth ps = true -> no_adjacent_text ps = true ->
  head_cond start prev ps (render ps ++ K) ->
  (length (render ps) < f)%nat ->
  cw o d f start prev depth (length (render ps)) (render ps ++ K) = true.
Proof.
  induction ps as [|p r IH]; intros f start prev depth Hok Hd Hna Hh Hf.
  - destruct f as [|f]; [cbn in Hf; lia|]. exact Hd.
  - cbn [pieces_ok forallb] in Hok. apply andb_true_iff in Hok as [Hp Hok]. fold (pieces_ok r) in Hok.
    rewrite render_cons in *. rewrite app_length in *. rewrite <- app_assoc.
    destruct p as [t|t| |]; cbn [render_piece] in *.
    + (* text *)
      assert (no_adjacent_text (PText [] :: r) = true) as Hna0 by (destruct r as [|[| | |] r']; auto).
      assert (no_adjacent_text r = true) as Hnar by (destruct r as [|[| | |] r']; auto; discriminate).
      destruct (rest_head r Hok Hna0) as (x & M' & HM & Hx). rewrite HM.
      unfold text_ok in Hp. apply andb_true_iff in Hp as [Hin Hnb].
      destruct Hh as [Hst Hpv]. rewrite <- app_assoc, HM in Hst.
      apply text_walk; auto.
      * intros f' start' prev' Hf'. rewrite <- HM. apply IH; auto.
        destruct r as [|[| | |] r']; try exact I. discriminate.
      * intros p Hpe. destruct (Hpv p Hpe). apply begin_hint_head; assumption.
    + (* token *)
      unfold quoted_token in Hp.
      apply (tok_walk depth (length (render r)) (render r ++ K)) with (F := S (length t)); auto.
      intros f' q Hf' Hq. apply IH; auto.
      destruct r as [|[| | |] r']; try exact I. split; [discriminate|].
      intros p Hpe. inversion Hpe; subst p.
      destruct (is_quote_cases q Hq) as [->|[->| ->]]; split; reflexivity.
    + (* ( *)
      destruct f as [|f]; [cbn in Hf; lia|]. cbn [length plus app]. rewrite cw_open.
      apply IH; auto; try (cbn [length plus] in Hf; lia).
      destruct r as [|[| | |] r']; try exact I. split; [discriminate|].
      intros p Hpe. inversion Hpe; subst p. split; reflexivity.
    + (* ) *)
      cbn [depth_ok] in Hd. destruct depth as [|depth]; [discriminate|].
      destruct f as [|f]; [cbn in Hf; lia|]. cbn [length plus app]. rewrite cw_close.
      apply IH; auto; try (cbn [length plus] in Hf; lia).
      destruct r as [|[| | |] r']; try exact I. split; [discriminate|].
      intros p Hpe. inversion Hpe; subst p. split; reflexivity.
Qed.
End Bridge.

Lemma not_in_59_W_DELIMITER : ~ In (upper 59) W_DELIMITER.
Proof. intros Hin. cbv in Hin. repeat (destruct Hin as [Hin|Hin]; [discriminate|]). exact Hin. Qed.

(** a skeleton renders to a closed command for the default delimiter *)
Theorem skel_closed o ps : skel_ok o ps = true -> scan_closed o delimiter (render ps) = true.
Proof.
  unfold skel_ok. intros H.
  apply andb_true_iff in H as [H H6]. apply andb_true_iff in H as [H H5].
  apply andb_true_iff in H as [H H4]. apply andb_true_iff in H as [H H3].
  apply andb_true_iff in H as [H1 H2]. apply negb_true_iff in H5.
  unfold scan_closed. rewrite H4. cbn [andb].
  change (follow delimiter) with [59%N; 10%N].
  apply walk; auto.
  destruct ps as [|[t| | |] r]; try exact I. split; [|discriminate].
  intros _. destruct (has_prefix_ci (render (PText t :: r) ++ [59%N; 10%N]) W_DELIMITER) eqn:E; [|reflexivity].
  apply (hpci_stop 59 [10%N] _ W_DELIMITER not_in_59_W_DELIMITER) in E. congruence.
Qed.
