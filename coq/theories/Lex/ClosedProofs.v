(** M-FMT (closed commands): forward simulation — the statement scanner of LexModel.v reads a
    closed command ([ClosedModel.scan_closed]) back as exactly one statement, whatever follows. *)
From Coq Require Import List NArith ZArith Bool Arith Lia.
From Atlas Require Import Base.Bytes Lex.LexModel Lex.LexProofs Lex.ClosedModel.
From Coq Require Import ZifyBool ZifyNat ZifyN.
Import ListNotations.
Open Scope Z_scope.

(** what may precede a command: newlines and whole "--" comment lines that do not start with the delimiter *)
Inductive Gap (d : bytes) : bytes -> Prop :=
| gap_nil : Gap d []
| gap_nl g : Gap d g -> Gap d (10%N :: g)
| gap_comment body g :
    ~ In 10%N body -> has_prefix ([45%N; 45%N] ++ body ++ [10%N]) d = false ->
    Gap d g -> Gap d ([45%N; 45%N] ++ body ++ [10%N] ++ g).

(** * Strings: independence of what follows *)
Lemma has_prefix_len s p : has_prefix s p = true -> (length p <= length s)%nat.
Proof. rewrite has_prefix_app. intros [r ->]. rewrite app_length. lia. Qed.

Lemma has_prefix_app_len l t p : (length p <= length l)%nat -> has_prefix (l ++ t) p = has_prefix l p.
Proof.
  revert l; induction p as [|b p IH]; intros l H; simpl; [reflexivity|].
  destruct l as [|a l]; simpl in *; [lia|]. rewrite IH by lia. reflexivity.
Qed.

Lemma has_prefix_app_true l t p : has_prefix l p = true -> has_prefix (l ++ t) p = true.
Proof. intros H. rewrite has_prefix_app_len; [exact H|apply has_prefix_len; exact H]. Qed.

Lemma has_prefix_app_nl l t p : In 10%N l -> ~ In 10%N p -> has_prefix (l ++ t) p = has_prefix l p.
Proof.
  revert l; induction p as [|b p IH]; intros l Hl Hp; simpl; [reflexivity|].
  destruct l as [|x l]; [destruct Hl|]. simpl.
  destruct (N.eqb x b) eqn:E; simpl; [|reflexivity].
  apply N.eqb_eq in E; subst. destruct Hl as [->|Hl]; [exfalso; apply Hp; left; reflexivity|].
  apply IH; auto. intros H; apply Hp; right; auto.
Qed.

(** [c] is a byte that no word contains and that case folding leaves alone *)
Lemma has_prefix_ci_app c l t w :
  upper c = c -> In c l -> ~ In c w -> has_prefix_ci (l ++ t) w = has_prefix_ci l w.
Proof.
  intros Hc. revert l; induction w as [|b w IH]; intros l Hl Hw; simpl; [reflexivity|].
  destruct l as [|x l]; [destruct Hl|]. simpl.
  destruct (N.eqb (upper x) b) eqn:E; simpl; [|reflexivity].
  apply N.eqb_eq in E. destruct Hl as [->|Hl].
  - exfalso; apply Hw; left. congruence.
  - apply IH; auto. intros H; apply Hw; right; auto.
Qed.

Lemma has_prefix_ci_firstn x w : has_prefix_ci (firstn (length w) x) w = has_prefix_ci x w.
Proof.
  revert x; induction w as [|b w IH]; intros x; simpl; [reflexivity|].
  destruct x as [|a x]; simpl; [reflexivity|]. rewrite IH. reflexivity.
Qed.

Lemma index_of_tail l t p i : index_of l p = Some i -> index_of (l ++ t) p = Some i.
Proof.
  revert i; induction l as [|a l IH]; intros i; simpl.
  - destruct (has_prefix [] p) eqn:E; [|discriminate]. intros H; inversion H; subst.
    destruct p; [|simpl in E; discriminate]. destruct t; reflexivity.
  - destruct (has_prefix (a :: l) p) eqn:E.
    + intros H; inversion H; subst.
      change (a :: l ++ t) with ((a :: l) ++ t). rewrite (has_prefix_app_true _ t _ E). reflexivity.
    + destruct (index_of l p) as [i'|] eqn:E2; [|discriminate]. intros H; inversion H; subst.
      pose proof (index_of_spec _ _ _ E2) as [Hp Hi]. apply has_prefix_len in Hp.
      rewrite skipn_length in Hp.
      change (a :: l ++ t) with ((a :: l) ++ t). rewrite has_prefix_app_len by (simpl; lia).
      rewrite E. rewrite (IH _ eq_refl). reflexivity.
Qed.

(** ** UTF-8: two ASCII bytes end every look-ahead of the decoder *)
Lemma decode_rune_tail a x y t :
  (x < 128)%N -> (y < 128)%N -> decode_rune (a ++ x :: y :: t) = decode_rune (a ++ [x; y]).
Proof.
  intros Hx Hy.
  assert (cont x = false) as Cx by (unfold cont; lia).
  assert (cont y = false) as Cy by (unfold cont; lia).
  assert (forall lo, (128 <= lo)%N -> (lo <=? x)%N = false) as Lx by (intros; lia).
  assert (forall lo, (128 <= lo)%N -> (lo <=? y)%N = false) as Ly by (intros; lia).
  destruct a as [|s0 [|s1 [|s2 [|s3 a]]]]; simpl app; unfold decode_rune;
    rewrite ?Cx, ?Cy, ?andb_false_r; try reflexivity;
    repeat match goal with |- context[if ?c then _ else _] => destruct c eqn:? end;
    try reflexivity; try lia; destruct t; reflexivity.
Qed.

(** ** BEGIN hints *)
Lemma skip_s_snd s : snd (skip_s s) = skip_s_list s.
Proof.
  induction s as [|a s IH]; simpl; [reflexivity|].
  destruct (re_s a); [|reflexivity]. destruct (skip_s s); simpl in *; exact IH.
Qed.

Lemma re_begin_hint y n : re_begin y = Some n -> begin_hint y = true.
Proof.
  unfold re_begin, begin_hint. rewrite <- skip_s_snd. destruct (skip_s y) as [n0 r0]. cbn [snd].
  unfold word_ci. destruct (has_prefix_ci r0 W_BEGIN); [reflexivity|discriminate].
Qed.
Lemma re_begin_word_hint w y n : re_begin_word w y = Some n -> begin_hint y = true.
Proof.
  unfold re_begin_word, begin_hint. rewrite <- skip_s_snd. destruct (skip_s y) as [n0 r0]. cbn [snd].
  unfold word_ci at 1. destruct (has_prefix_ci r0 W_BEGIN); [reflexivity|discriminate].
Qed.

Lemma skip_s_list_app c x t :
  re_s c = false -> In c x -> skip_s_list (x ++ t) = skip_s_list x ++ t /\ In c (skip_s_list x).
Proof.
  intros Hc. induction x as [|a x IH]; intros Hin; [destruct Hin|]. simpl.
  destruct (re_s a) eqn:E.
  - destruct Hin as [->|Hin]; [congruence|]. apply IH; exact Hin.
  - split; [reflexivity|exact Hin].
Qed.

Lemma begin_hint_tail x t : In 59%N x -> begin_hint x = false -> begin_hint (x ++ t) = false.
Proof.
  unfold begin_hint. intros Hin H.
  destruct (skip_s_list_app 59%N x t eq_refl Hin) as [-> Hin2].
  rewrite (has_prefix_ci_app 59%N); auto.
  simpl. intros Hf. repeat (destruct Hf as [Hf|Hf]; [discriminate|]). exact Hf.
Qed.

Lemma is_some_none {A} (x : option A) : x = None -> is_some x = false.
Proof. intros ->. reflexivity. Qed.

Lemma re_begin_tail x t : In 59%N x -> begin_hint x = false -> is_some (re_begin (x ++ t)) = false.
Proof.
  intros Hin H. pose proof (begin_hint_tail x t Hin H) as Hf.
  destruct (re_begin (x ++ t)) eqn:E; [|reflexivity]. apply re_begin_hint in E. congruence.
Qed.
Lemma re_begin_word_tail w x t :
  In 59%N x -> begin_hint x = false -> is_some (re_begin_word w (x ++ t)) = false.
Proof.
  intros Hin H. pose proof (begin_hint_tail x t Hin H) as Hf.
  destruct (re_begin_word w (x ++ t)) eqn:E; [|reflexivity]. apply re_begin_word_hint in E. congruence.
Qed.

(** ** dollar-quote tags *)
Lemma dq_tag_spec k : forall a n, (length a <= k)%nat -> In 10%N a ->
  exists c r, a = c ++ r /\ ~ In 10%N c /\ In 10%N r /\
    forall t, dq_tag (a ++ t) n = ((n + length c)%nat, r ++ t).
Proof.
  induction k as [|k IH]; intros a n Hk Hin.
  - destruct a; [destruct Hin|simpl in Hk; lia].
  - destruct a as [|x a]; [destruct Hin|]. simpl in Hk. simpl app. cbn [dq_tag].
    destruct (re_w x) eqn:Ew.
    + destruct Hin as [->|Hin]; [discriminate|].
      destruct (IH a (S n) ltac:(lia) Hin) as (c & r & -> & Hc & Hr & Ht).
      exists (x :: c), r. repeat split; auto.
      * intros [->|H]; [discriminate|auto].
      * intros t. rewrite Ht. simpl. f_equal. lia.
    + destruct (N.eqb x 195) eqn:E195.
      * apply N.eqb_eq in E195. subst x. destruct Hin as [Hin|Hin]; [discriminate|].
        destruct a as [|b a]; [destruct Hin|]. simpl app.
        destruct ((136 <=? b)%N && (b <=? 191)%N) eqn:Eb.
        -- destruct Hin as [->|Hin]; [discriminate|]. simpl in Hk.
           destruct (IH a (S (S n)) ltac:(lia) Hin) as (c & r & -> & Hc & Hr & Ht).
           exists (195%N :: b :: c), r. repeat split; auto.
           ++ intros [H|[->|H]]; [discriminate|discriminate|auto].
           ++ intros t. rewrite Eb, Ht. simpl. f_equal. lia.
        -- exists [], (195%N :: b :: a). repeat split; auto.
           ++ right; exact Hin.
           ++ intros t. rewrite Eb. simpl. f_equal. lia.
      * exists [], (x :: a). repeat split; auto. intros t. simpl. f_equal. lia.
Qed.

Lemma re_dollar_quote_tail l t : In 10%N l ->
  re_dollar_quote (l ++ t) = re_dollar_quote l /\
  forall m, re_dollar_quote l = Some m ->
    (m <= length l)%nat /\ ~ In 10%N (firstn m l) /\ exists m', firstn m l = m' ++ [36%N].
Proof.
  intros Hin. destruct l as [|x l]; [destruct Hin|].
  destruct (N.eqb x 36) eqn:E36.
  2:{ assert (forall y, re_dollar_quote (x :: y) = None) as Hn.
      { intros y. unfold re_dollar_quote. destruct x as [|p]; [reflexivity|].
        repeat (destruct p; try reflexivity); discriminate. }
      simpl app. rewrite !Hn. split; [reflexivity|discriminate]. }
  apply N.eqb_eq in E36. subst x. destruct Hin as [Hin|Hin]; [discriminate|].
  destruct l as [|a l]; [destruct Hin|]. simpl app. cbn [re_dollar_quote].
  destruct (is_digit a); [split; [reflexivity|discriminate]|].
  destruct (dq_tag_spec (length (a :: l)) (a :: l) 0%nat (le_n _) Hin) as (c & r & Hcr & Hc & Hr & Ht).
  change (a :: l ++ t) with ((a :: l) ++ t). rewrite Ht.
  pose proof (Ht []) as Ht0. rewrite !app_nil_r in Ht0. rewrite Ht0. simpl plus.
  destruct r as [|y r]; [destruct Hr|]. simpl app.
  split; [reflexivity|].
  intros m Hm. destruct (N.eqb y 36) eqn:Ey.
  - apply N.eqb_eq in Ey. subst y. inversion Hm; subst m. clear Hm. rewrite Hcr.
    split; [simpl; rewrite app_length; simpl; lia|].
    assert (firstn (S (S (length c))) (36%N :: c ++ 36%N :: r) = (36%N :: c) ++ [36%N]) as ->.
    { replace (36%N :: c ++ 36%N :: r) with (((36%N :: c) ++ [36%N]) ++ r)
        by (simpl; rewrite <- app_assoc; reflexivity).
      replace (S (S (length c))) with (length ((36%N :: c) ++ [36%N])) by (rewrite app_length; simpl; lia).
      apply firstn_app_l. }
    split; [|eauto].
    intros H. apply in_app_or in H as [[H|H]|[H|[]]]; [discriminate|auto|discriminate].
  - exfalso. destruct y as [|p]; [discriminate|].
    repeat (destruct p; try discriminate).
Qed.

(** split syntactic conjunctions only (never unfolds a definition) *)
Ltac splits := repeat match goal with |- _ /\ _ => split end.

(** * Checked slices at a known split *)
Lemma slice_from_app (a b : bytes) p : p = zlen a -> slice_from (a ++ b) p = Ok b.
Proof.
  intros ->. unfold slice_from. rewrite zlen_app.
  pose proof (zlen_nonneg a); pose proof (zlen_nonneg b).
  replace ((zlen a <? 0) || (zlen a + zlen b <? zlen a)) with false by lia.
  rewrite to_nat_zlen, skipn_app_l. reflexivity.
Qed.
Lemma slice_to_app (a b : bytes) p : p = zlen a -> slice_to (a ++ b) p = Ok a.
Proof.
  intros ->. unfold slice_to. rewrite zlen_app.
  pose proof (zlen_nonneg a); pose proof (zlen_nonneg b).
  replace ((zlen a <? 0) || (zlen a + zlen b <? zlen a)) with false by lia.
  rewrite to_nat_zlen, firstn_app_l. reflexivity.
Qed.
Lemma index_app (a : bytes) x t p : p = zlen a -> index (a ++ x :: t) p = Ok x.
Proof.
  intros ->. unfold index. rewrite zlen_app, zlen_cons.
  pose proof (zlen_nonneg a); pose proof (zlen_nonneg t).
  replace ((zlen a <? 0) || (zlen a + (1 + zlen t) <=? zlen a)) with false by lia.
  rewrite to_nat_zlen, nth_error_app2 by lia. rewrite Nat.sub_diag. reflexivity.
Qed.

Lemma split_rest (rest : bytes) k (fol : bytes) : (k <= length rest)%nat ->
  exists seg rest1, rest = seg ++ rest1 /\ length seg = k /\
    skipn k (rest ++ fol) = rest1 ++ fol /\ firstn k (rest ++ fol) = seg /\
    length rest1 = (length rest - k)%nat.
Proof.
  intros H. exists (firstn k rest), (skipn k rest).
  split; [symmetry; apply firstn_skipn|]. split; [rewrite firstn_length; lia|].
  split; [|split].
  - rewrite skipn_app. replace (k - length rest)%nat with 0%nat by lia. reflexivity.
  - rewrite firstn_app. replace (k - length rest)%nat with 0%nat by lia.
    rewrite firstn_O, app_nil_r. reflexivity.
  - apply skipn_length.
Qed.

(** * The delimiter *)
Lemma delim_ok_inv d : delim_ok d = true ->
  (forall b, In b d -> (b < 128)%N) /\
  exists d0 d', d = d0 :: d' /\ d0 <> 40%N /\ d0 <> 41%N /\ is_quote d0 = false.
Proof.
  unfold delim_ok. destruct d as [|d0 d']; [discriminate|]. intros H. bnorm.
  split.
  - intros b Hb. rewrite forallb_forall in H. specialize (H b Hb).
    unfold delim_byte_ok, ascii in H. bnorm. exact H.
  - exists d0, d'. repeat split; auto; lia.
Qed.

Lemma follow_split d : delim_ok d = true ->
  exists a x, d ++ [10%N] = a ++ [x; 10%N] /\ (x < 128)%N.
Proof.
  intros H. destruct (delim_ok_inv d H) as [Ha (d0 & d' & Hd & _)].
  assert (d <> []) as Hne by (rewrite Hd; discriminate).
  exists (removelast d), (last d 0%N). split.
  - rewrite (app_removelast_last 0%N Hne) at 1. rewrite <- app_assoc. reflexivity.
  - apply Ha. rewrite (app_removelast_last 0%N Hne) at 2. apply in_or_app. right. left. reflexivity.
Qed.

Lemma qloop_S f q esc n l : qloop (S f) q esc n l =
    match n with
    | O => None
    | S _ =>
      let '(r, wz) := decode_rune l in
      let w := Z.to_nat wz in
      if (w =? 0)%nat || (n <? w)%nat then None else
      let n1 := (n - w)%nat in
      let l1 := skipn w l in
      if N.eqb r 92 && esc then
        match n1 with
        | O => None
        | S _ =>
          let '(_, wz2) := decode_rune l1 in
          let w2 := Z.to_nat wz2 in
          if (w2 =? 0)%nat || (n1 <? w2)%nat then None else qloop f q esc (n1 - w2)%nat (skipn w2 l1)
        end
      else if N.eqb r q then Some (n1, l1)
      else qloop f q esc n1 l1
    end.
Proof. reflexivity. Qed.

Lemma dloop_S f m n l : dloop (S f) m n l =
    match n with
    | O => None
    | S _ =>
      let '(r, wz) := decode_rune l in
      let w := Z.to_nat wz in
      if (w =? 0)%nat || (n <? w)%nat then None else
      if N.eqb r 36 && has_prefix l m then
        if (n <? length m)%nat then None else Some ((n - length m)%nat, skipn (length m) l)
      else dloop f m (n - w)%nat (skipn w l)
    end.
Proof. reflexivity. Qed.

Lemma skipQuote_loop_S f s p0 quote escaped : skipQuote_loop (S f) s p0 quote escaped =
    do rs <- next s;
    let '(r, s1) := rs in
    match r with
    | None => fail s1 p0 EUnclosedQuote
    | Some c =>
      if N.eqb c 92 && escaped then
        do rs2 <- next s1; skipQuote_loop f (snd rs2) p0 quote escaped
      else if N.eqb c quote then Ok s1
      else skipQuote_loop f s1 p0 quote escaped
    end.
Proof. reflexivity. Qed.

Lemma skipDollarQuote_loop_S f s m : skipDollarQuote_loop (S f) s m =
    do rs <- next s;
    let '(r, s1) := rs in
    match r with
    | None =>
      match delim s1 with
      | [] => fail s1 (pos s1) EUnclosedDollar
      | _ => Ok s1
      end
    | Some c =>
      if N.eqb c 36 then
        do tl <- slice_from (input s1) (pos s1 - 1);
        if has_prefix tl m then Ok (addPos s1 (zlen m - 1))
        else skipDollarQuote_loop f s1 m
      else skipDollarQuote_loop f s1 m
    end.
Proof. reflexivity. Qed.

(** * [stmt_iter] cut into its successive tests (continuation [k] = the rest of the switch) *)
Section Chunks.
Variable o : opts.
Variable nested : scanner -> res (scanner * option Stmt).
Variable fuel : nat.
Variable s : scanner.
Variable c : N.
Variables depth opos : Z.

Definition ck_delimcmd (k : res step) : res step :=
    do isDelimCmd <-
       (if (pos s =? 1) && (zlen S_DELIMITER <? zlen (input s)) then
          do hd <- slice_to (input s) (zlen S_DELIMITER); Ok (has_prefix_ci hd W_DELIMITER && (length hd =? 9)%nat)
        else Ok false);
    if isDelimCmd then
      do s1 <- delimCmd o fuel (addPos s (zlen S_DELIMITER - 1));
      Ok (Continue (skipSpaces s1) depth opos)
    else k.

Definition ck_go (k : res step) : res step :=
    do go1 <- (if GoCommand o && N.eqb c 10 then do tl <- slice_from (input s) (pos s); Ok (re_go_cmd tl) else Ok false);
    do go2 <-
       (if go1 then Ok true else
        if GoCommand o then
          do atLineStart <-
             (if pos s =? 1 then Ok true
              else if 1 <? pos s then do b <- index (input s) (pos s - 2); Ok (N.eqb b 10)
              else Ok false);
          if atLineStart then do tl <- slice_from (input s) (pos s - 1); Ok (re_go_cmd tl) else Ok false
        else Ok false);
    if go2 then
      do s1 <- (if go1 then do rs1 <- next s; Ok (snd rs1) else Ok s);
      do text <- slice_to (input s1) (pos s1 - 1);
      do rs2 <- next s1;
      do s3 <- skipGoCount fuel (snd rs2);
      Ok (Break (skipSpaces s3) text)
    else k.

Definition ck_delim (k : res step) : res step :=
    do isDelim <-
       (if depth =? 0 then do tl <- slice_from (input s) (pos s - width s); Ok (has_prefix tl (delim s)) else Ok false);
    if isDelim then
      let s1 := addPos s (zlen (delim s) - width s) in
      do text <- slice_to (input s1) (pos s1);
      Ok (Break s1 text)
    else k.

Definition ck_dollar (k : res step) : res step :=
    do isDollar <-
       (if MatchDollarQuote o && N.eqb c 36 then
          do tl <- slice_from (input s) (pos s - 1); Ok (is_some (re_dollar_quote tl))
        else Ok false);
    if isDollar then do s1 <- skipDollarQuote fuel s; Ok (Continue s1 depth opos)
    else k.

Definition ck_hash (k : res step) : res step :=
    if N.eqb c 35 && HashComments o then
      do s1 <- comment s [35%N] NL; Ok (Continue s1 depth opos)
    else k.

Definition ck_dash (k : res step) : res step :=
    do p1 <- (if N.eqb c 45 then pick s else Ok None);
    if N.eqb c 45 && rune_is p1 45 then
      do rs1 <- next s; do s1 <- comment (snd rs1) [45%N; 45%N] NL; Ok (Continue s1 depth opos)
    else k.

Definition ck_slash (k : res step) : res step :=
    do p2 <- (if N.eqb c 47 then pick s else Ok None);
    if N.eqb c 47 && rune_is p2 42 then
      do rs1 <- next s; do s1 <- comment (snd rs1) [47%N; 42%N] [42%N; 47%N]; Ok (Continue s1 depth opos)
    else k.

Definition ck_endterm (k : res step) : res step :=
    do isEndTerm <- (if endterm s then do hd <- slice_to (input s) (pos s); Ok (re_end_term hd) else Ok false);
    if isEndTerm then
      do text <- slice_to (input s) (pos s); Ok (Break s text)
    else k.

Definition ck_atomic (k : res step) : res step :=
    do isAtomic <-
       (if bytes_eqb (delim s) delimiter && MatchBeginAtomic o then
          do tl <- slice_from (input s) (pos s - 1); Ok (is_some (re_begin_atomic tl))
        else Ok false);
    if isAtomic then after_block (skipBeginAtomic nested fuel s) depth opos
    else k.

Definition ck_try (k : res step) : res step :=
    do isTry <-
       (if bytes_eqb (delim s) delimiter && MatchBeginTryCatch o then
          do tl <- slice_from (input s) (pos s - 1); Ok (is_some (re_begin_try tl))
        else Ok false);
    if isTry then after_block (skipBeginTryCatch nested fuel s) depth opos
    else k.

Definition ck_begin (k : res step) : res step :=
    do isBegin <-
       (if bytes_eqb (delim s) delimiter && MatchBegin o then
          if pos s =? 1 then do tl <- slice_from (input s) (pos s - 1); Ok (is_some (re_begin tl))
          else if 1 <? pos s then do tl <- slice_from (input s) (pos s - 2); Ok (is_some (re_begin tl))
          else Ok false
        else Ok false);
    if isBegin then after_block (skipBegin o nested fuel s) depth opos
    else k.

(** after the parentheses and quotes *)
Definition iter_rest : res step :=
  ck_delimcmd (ck_go (ck_delim (ck_dollar (ck_hash (ck_dash (ck_slash (ck_endterm (ck_atomic
    (ck_try (ck_begin (Ok (Continue s depth opos)))))))))))).

Definition iter_some : res step :=
    if N.eqb c 40 then Ok (Continue s (depth + 1) (if depth =? 0 then pos s else opos))
    else if N.eqb c 41 then
      if depth =? 0 then fail s (pos s) EUnexpectedParen else Ok (Continue s (depth - 1) opos)
    else if N.eqb c 39 || N.eqb c 34 || N.eqb c 96 then
      do s1 <- skipQuote o fuel s c; Ok (Continue s1 depth opos)
    else iter_rest.
End Chunks.

Lemma stmt_iter_eq o nested fuel s0 depth opos :
  stmt_iter o nested fuel s0 depth opos =
  do rs <- next s0;
  let '(r, s) := rs in
  match r with
  | None =>
    if 0 <? depth then fail s opos EUnclosedParen
    else if 0 <? pos s then Ok (Break s (input s))
    else Ok (RetEOF s)
  | Some c => iter_some o nested fuel s c depth opos
  end.
Proof. reflexivity. Qed.

Lemma stmt_loop_S o nested f s depth opos : stmt_loop o nested (S f) s depth opos =
    do st <- stmt_iter o nested f s depth opos;
    match st with
    | Continue s1 d1 o1 => stmt_loop o nested f s1 d1 o1
    | Break s1 text => do es <- emit o s1 text; Ok (snd es, Some (fst es))
    | RetEOF s1 => Ok (s1, None)
    end.
Proof. reflexivity. Qed.


(** ** the tests of [stmt_iter] that do not fire *)
Lemma ck_delimcmd_skip o fuel s depth opos k :
  (pos s = 1 -> has_prefix_ci (input s) W_DELIMITER = false) -> ck_delimcmd o fuel s depth opos k = k.
Proof.
  intros H. unfold ck_delimcmd.
  destruct ((pos s =? 1) && (zlen S_DELIMITER <? zlen (input s))) eqn:E; [|reflexivity].
  apply andb_true_iff in E as [E1 E2]. bnorm. unfold slice_to. change (zlen S_DELIMITER) with 9 in *.
  replace ((9 <? 0) || (zlen (input s) <? 9)) with false by lia.
  cbn [bind]. change (Z.to_nat 9) with (length W_DELIMITER).
  rewrite has_prefix_ci_firstn, (H E1). reflexivity.
Qed.

Lemma ck_go_skip o fuel s c k : GoCommand o = false -> ck_go o fuel s c k = k.
Proof. intros H. unfold ck_go. rewrite H. reflexivity. Qed.

Lemma ck_delim_skip s depth k :
  (depth = 0 -> exists tl, slice_from (input s) (pos s - width s) = Ok tl /\ has_prefix tl (delim s) = false) ->
  ck_delim s depth k = k.
Proof.
  intros H. unfold ck_delim. destruct (depth =? 0) eqn:E; [|reflexivity]. bnorm.
  destruct (H E) as (tl & -> & Hp). cbn [bind]. rewrite Hp. reflexivity.
Qed.

Lemma ck_dollar_skip o fuel s c depth opos k :
  (MatchDollarQuote o && N.eqb c 36 = true ->
   exists tl, slice_from (input s) (pos s - 1) = Ok tl /\ re_dollar_quote tl = None) ->
  ck_dollar o fuel s c depth opos k = k.
Proof.
  intros H. unfold ck_dollar. destruct (MatchDollarQuote o && N.eqb c 36) eqn:E; [|reflexivity].
  destruct (H eq_refl) as (tl & -> & Hp). cbn [bind]. rewrite Hp. reflexivity.
Qed.

Lemma ck_hash_skip o s c depth opos k :
  N.eqb c 35 && HashComments o = false -> ck_hash o s c depth opos k = k.
Proof. intros H. unfold ck_hash. rewrite H. reflexivity. Qed.

Lemma ck_dash_skip s c depth opos k :
  (N.eqb c 45 = true -> exists p, pick s = Ok p /\ rune_is p 45 = false) -> ck_dash s c depth opos k = k.
Proof.
  intros H. unfold ck_dash. destruct (N.eqb c 45) eqn:E; [|reflexivity].
  destruct (H eq_refl) as (p & -> & Hp). cbn [bind andb]. rewrite Hp. reflexivity.
Qed.
Lemma ck_slash_skip s c depth opos k :
  (N.eqb c 47 = true -> exists p, pick s = Ok p /\ rune_is p 42 = false) -> ck_slash s c depth opos k = k.
Proof.
  intros H. unfold ck_slash. destruct (N.eqb c 47) eqn:E; [|reflexivity].
  destruct (H eq_refl) as (p & -> & Hp). cbn [bind andb]. rewrite Hp. reflexivity.
Qed.

Lemma ck_endterm_skip s k : endterm s = false -> ck_endterm s k = k.
Proof. intros H. unfold ck_endterm. rewrite H. reflexivity. Qed.

Lemma ck_atomic_skip o nested fuel s depth opos k :
  (bytes_eqb (delim s) delimiter && MatchBeginAtomic o = true ->
   exists tl, slice_from (input s) (pos s - 1) = Ok tl /\ is_some (re_begin_atomic tl) = false) ->
  ck_atomic o nested fuel s depth opos k = k.
Proof.
  intros H. unfold ck_atomic. destruct (bytes_eqb (delim s) delimiter && MatchBeginAtomic o) eqn:E; [|reflexivity].
  destruct (H eq_refl) as (tl & -> & Hp). cbn [bind]. rewrite Hp. reflexivity.
Qed.
Lemma ck_try_skip o nested fuel s depth opos k :
  (bytes_eqb (delim s) delimiter && MatchBeginTryCatch o = true ->
   exists tl, slice_from (input s) (pos s - 1) = Ok tl /\ is_some (re_begin_try tl) = false) ->
  ck_try o nested fuel s depth opos k = k.
Proof.
  intros H. unfold ck_try. destruct (bytes_eqb (delim s) delimiter && MatchBeginTryCatch o) eqn:E; [|reflexivity].
  destruct (H eq_refl) as (tl & -> & Hp). cbn [bind]. rewrite Hp. reflexivity.
Qed.
Lemma ck_begin_skip o nested fuel s depth opos k :
  (bytes_eqb (delim s) delimiter && MatchBegin o = true ->
   (pos s = 1 -> exists tl, slice_from (input s) (pos s - 1) = Ok tl /\ is_some (re_begin tl) = false) /\
   (1 < pos s -> exists tl, slice_from (input s) (pos s - 2) = Ok tl /\ is_some (re_begin tl) = false)) ->
  ck_begin o nested fuel s depth opos k = k.
Proof.
  intros H. unfold ck_begin. destruct (bytes_eqb (delim s) delimiter && MatchBegin o) eqn:E; [|reflexivity].
  destruct (H eq_refl) as [H1 H2].
  destruct (pos s =? 1) eqn:E1; bnorm.
  - destruct (H1 E1) as (tl & -> & Hp). cbn [bind]. rewrite Hp. reflexivity.
  - destruct (1 <? pos s) eqn:E2; bnorm; [|reflexivity].
    destruct (H2 E2) as (tl & -> & Hp). cbn [bind]. rewrite Hp. reflexivity.
Qed.


(** * The cursor invariant and the sub-scanners *)
Section Sim.
Variable o : opts.
Variable d : bytes.
Variable tail : bytes.       (* whatever follows [cmd ++ d ++ "\n"] in the file *)
Variable T : Z.              (* [total] at the first byte of the command *)
Variable SRC : bytes.
Variable nested : scanner -> res (scanner * option Stmt).   (* never called on closed commands *)
Hypothesis Hgo : GoCommand o = false.
Hypothesis Hdok : delim_ok d = true.

Notation fol := (d ++ [10%N]).

(** the scanner stands after [pre], before [l ++ tail] *)
Definition At (s : scanner) (pre l : bytes) : Prop :=
  input s = pre ++ l ++ tail /\ pos s = zlen pre /\ total s = T + zlen pre /\
  delim s = d /\ endterm s = false /\ src s = SRC.

Lemma At_move s pre l pre' l' k :
  At s pre l -> pre ++ l = pre' ++ l' -> zlen pre' = zlen pre + k -> At (addPos s k) pre' l'.
Proof.
  intros (I & P & Tt & D & E & S) Heq Hk. unfold At, addPos. simpl.
  repeat split; auto; try lia.
  rewrite I, !app_assoc, Heq. reflexivity.
Qed.
Lemma At_width s pre l w : At s pre l -> At (set_width s w) pre l.
Proof. intros H; exact H. Qed.
Lemma At_comments s pre l c : At s pre l -> At (set_comments s c) pre l.
Proof. intros H; exact H. Qed.

Lemma At_slice_from s pre l a b p :
  At s pre l -> pre ++ l = a ++ b -> p = zlen a -> slice_from (input s) p = Ok (b ++ tail).
Proof.
  intros (I & _) Heq ->. rewrite I, app_assoc, Heq, <- app_assoc. apply slice_from_app. reflexivity.
Qed.
Lemma At_slice_to s pre l a b p :
  At s pre l -> pre ++ l = a ++ b -> p = zlen a -> slice_to (input s) p = Ok a.
Proof.
  intros (I & _) Heq ->. rewrite I, app_assoc, Heq, <- app_assoc. apply slice_to_app. reflexivity.
Qed.

Lemma In_nl_fol rest : In 10%N (rest ++ fol).
Proof. apply in_or_app. right. apply in_or_app. right. left. reflexivity. Qed.

Lemma decode_tail rest t : decode_rune ((rest ++ fol) ++ t) = decode_rune (rest ++ fol).
Proof.
  destruct (follow_split d Hdok) as (a & x & -> & Hx).
  rewrite app_assoc, <- app_assoc. simpl app. apply decode_rune_tail; lia.
Qed.

Lemma next_at s pre rest r wz :
  At s pre (rest ++ fol) -> decode_rune (rest ++ fol) = (r, wz) ->
  next s = Ok (Some r, addPos (set_width s wz) wz).
Proof.
  intros HA D. unfold next.
  rewrite (At_slice_from s pre (rest ++ fol) pre (rest ++ fol) (pos s) HA eq_refl)
    by (destruct HA as (_ & P & _); exact P).
  destruct HA as (I & P & _). rewrite I, P, !zlen_app.
  pose proof (zlen_nonneg rest); pose proof (zlen_nonneg d); pose proof (zlen_nonneg tail).
  change (zlen [10%N]) with 1.
  replace (zlen pre + (zlen rest + (zlen d + 1) + zlen tail) <=? zlen pre) with false by lia.
  cbn [bind]. rewrite decode_tail, D. reflexivity.
Qed.

(** one rune of the command *)
Lemma step_at s pre rest r wz :
  At s pre (rest ++ fol) -> decode_rune (rest ++ fol) = (r, wz) ->
  ((Z.to_nat wz =? 0)%nat || (length rest <? Z.to_nat wz)%nat) = false ->
  exists seg rest1 s1,
    rest = seg ++ rest1 /\ length seg = Z.to_nat wz /\ zlen seg = wz /\ 1 <= wz /\
    skipn (Z.to_nat wz) (rest ++ fol) = rest1 ++ fol /\
    (length rest - Z.to_nat wz)%nat = length rest1 /\
    next s = Ok (Some r, s1) /\ width s1 = wz /\ At s1 (pre ++ seg) (rest1 ++ fol) /\
    ((r < 128)%N -> seg = [r]).
Proof.
  intros HA D Hchk. bnorm.
  destruct (split_rest rest (Z.to_nat wz) fol ltac:(lia)) as (seg & rest1 & Hr & Hl & Hsk & Hfi & Hl1).
  exists seg, rest1, (addPos (set_width s wz) wz).
  assert (zlen seg = wz) as Hz by (unfold zlen; lia).
  splits; auto; try lia.
  - eapply next_at; eauto.
  - apply At_move with (pre := pre) (l := rest ++ fol); [apply At_width; exact HA| |rewrite zlen_app; lia].
    rewrite Hr, <- !app_assoc. reflexivity.
  - intros Hr128.
    assert (rest ++ fol <> []) as Hne by (destruct rest; [destruct d; discriminate|discriminate]).
    destruct (decode_rune_spec _ _ _ D Hne) as (_ & Hascii & _).
    destruct (Hascii Hr128) as [-> [t Ht]].
    change (Z.to_nat 1) with 1%nat in *.
    destruct seg as [|x [|y seg]]; simpl in Hl; try lia.
    rewrite Hr in Ht. simpl in Ht. inversion Ht. reflexivity.
Qed.

(** ** skipQuote *)
Lemma qloop_sim p0 q esc : (q < 128)%N -> forall f n l n2 l2,
  qloop f q esc n l = Some (n2, l2) ->
  forall rest pre s F, l = rest ++ fol -> n = length rest -> At s pre l -> (n <= F)%nat ->
  exists seg seg' rest2 s2,
    rest = seg ++ rest2 /\ seg = seg' ++ [q] /\ n2 = length rest2 /\ l2 = rest2 ++ fol /\
    skipQuote_loop F s p0 q esc = Ok s2 /\ At s2 (pre ++ seg) l2.
Proof.
  intros Hq. induction f as [|f IH]; intros n l n2 l2 H rest pre s F Hl Hn HA HF; [discriminate|].
  rewrite qloop_S in H. destruct n as [|n']; [discriminate|].
  destruct (decode_rune l) as [r wz] eqn:D. cbv beta iota zeta in H.
  destruct ((Z.to_nat wz =? 0)%nat || (S n' <? Z.to_nat wz)%nat) eqn:Echk; [discriminate|].
  subst l. rewrite Hn in Echk.
  destruct (step_at s pre rest r wz HA D Echk)
    as (seg & rest1 & s1 & Hr & Hls & Hzs & Hw1 & Hsk & Hn1 & Hnx & _ & HA1 & Hasc).
  rewrite Hsk, Hn, Hn1 in H.
  destruct F as [|F]; [lia|]. rewrite skipQuote_loop_S, Hnx. cbn [bind].
  destruct (N.eqb r 92 && esc) eqn:E92.
  - destruct (length rest1) as [|n1'] eqn:El1; [discriminate|].
    destruct (decode_rune (rest1 ++ fol)) as [r2 wz2] eqn:D2.
    destruct ((Z.to_nat wz2 =? 0)%nat || (S n1' <? Z.to_nat wz2)%nat) eqn:Echk2; [discriminate|].
    rewrite <- El1 in Echk2.
    destruct (step_at s1 (pre ++ seg) rest1 r2 wz2 HA1 D2 Echk2)
      as (sega & rest1a & s1a & Hra & Hlsa & Hzsa & Hw1a & Hska & Hn1a & Hnxa & _ & HA1a & _).
    rewrite Hnxa. cbn [bind snd]. rewrite Hska, <- El1, Hn1a in H.
    destruct (IH _ _ _ _ H rest1a (pre ++ seg ++ sega) s1a F eq_refl eq_refl) as
      (segb & segb' & rest2 & s2 & Hrb & Hsb & Hn2 & Hl2 & Hrun & HA2).
    { rewrite app_assoc. exact HA1a. }
    { subst rest rest1. rewrite !app_length in *. lia. }
    exists (seg ++ sega ++ segb), (seg ++ sega ++ segb'), rest2, s2.
    splits; auto.
    + rewrite Hr, Hra, Hrb, <- !app_assoc. reflexivity.
    + rewrite Hsb, <- !app_assoc. reflexivity.
    + rewrite !app_assoc in *. exact HA2.
  - destruct (N.eqb r q) eqn:Erq.
    + apply N.eqb_eq in Erq. subst r. inversion H; subst n2 l2.
      exists seg, [], rest1, s1. splits; auto.
    + destruct (IH _ _ _ _ H rest1 (pre ++ seg) s1 F eq_refl eq_refl HA1) as
        (segb & segb' & rest2 & s2 & Hrb & Hsb & Hn2 & Hl2 & Hrun & HA2).
      { subst rest. rewrite !app_length in *. lia. }
      exists (seg ++ segb), (seg ++ segb'), rest2, s2.
      splits; auto.
      * rewrite Hr, Hrb, <- !app_assoc. reflexivity.
      * rewrite Hsb, <- !app_assoc. reflexivity.
      * rewrite !app_assoc in *. exact HA2.
Qed.

Lemma is_quote_cases q : is_quote q = true -> q = 39%N \/ q = 34%N \/ q = 96%N.
Proof. unfold is_quote. lia. Qed.

Lemma skipQuote_sim q : is_quote q = true -> forall f n l n2 l2,
  qloop f q (BackslashEscapes o) n l = Some (n2, l2) ->
  forall rest pre s F, l = rest ++ fol -> n = length rest -> At s (pre ++ [q]) l -> (n <= F)%nat ->
  exists seg seg' rest2 s2,
    rest = seg ++ rest2 /\ seg = seg' ++ [q] /\ n2 = length rest2 /\ l2 = rest2 ++ fol /\
    skipQuote o F s q = Ok s2 /\ At s2 ((pre ++ [q]) ++ seg) l2.
Proof.
  intros Hq f n l n2 l2 H rest pre s F Hl Hn HA HF.
  apply is_quote_cases in Hq.
  unfold skipQuote.
  assert ((if BackslashEscapes o then Ok true
           else if EscapedStringExt o && (0 <? pos s)
                then do b <- index (input s) (pos s - 1); Ok (N.eqb b 69 || N.eqb b 101)
                else Ok false) = Ok (BackslashEscapes o)) as ->.
  { destruct (BackslashEscapes o); [reflexivity|].
    destruct (EscapedStringExt o && (0 <? pos s)); [|reflexivity].
    destruct HA as (I & P & _). rewrite I, <- app_assoc. simpl app.
    rewrite index_app by (rewrite P, zlen_app; change (zlen [q]) with 1; lia).
    cbn [bind]. f_equal. lia. }
  cbn [bind]. eapply qloop_sim; eauto. lia.
Qed.

(** ** skipDollarQuote *)
Lemma dloop_sim m : ~ In 10%N m -> forall f n l n2 l2,
  dloop f m n l = Some (n2, l2) ->
  forall rest pre s F, l = rest ++ fol -> n = length rest -> At s pre l -> (n <= F)%nat ->
  exists seg seg' rest2 s2,
    rest = seg ++ rest2 /\ seg = seg' ++ m /\ n2 = length rest2 /\ l2 = rest2 ++ fol /\
    skipDollarQuote_loop F s m = Ok s2 /\ At s2 (pre ++ seg) l2.
Proof.
  intros Hm. induction f as [|f IH]; intros n l n2 l2 H rest pre s F Hl Hn HA HF; [discriminate|].
  rewrite dloop_S in H. destruct n as [|n']; [discriminate|].
  destruct (decode_rune l) as [r wz] eqn:D. cbv beta iota zeta in H.
  destruct ((Z.to_nat wz =? 0)%nat || (S n' <? Z.to_nat wz)%nat) eqn:Echk; [discriminate|].
  subst l. rewrite Hn in Echk.
  destruct (step_at s pre rest r wz HA D Echk)
    as (seg & rest1 & s1 & Hr & Hls & Hzs & Hw1 & Hsk & Hn1 & Hnx & _ & HA1 & Hasc).
  rewrite Hsk, Hn, Hn1 in H.
  destruct F as [|F]; [lia|]. rewrite skipDollarQuote_loop_S, Hnx. cbn [bind].
  assert (length rest1 <= F)%nat as HF1 by (subst rest; rewrite app_length in *; lia).
  destruct (N.eqb r 36) eqn:E36.
  - apply N.eqb_eq in E36. subst r. specialize (Hasc ltac:(lia)). subst seg.
    rewrite (At_slice_from s1 _ _ pre (rest ++ fol) _ HA1)
      by (rewrite ?zlen_app; destruct HA1 as (_ & P & _); rewrite ?P, ?zlen_app;
          try (change (zlen [36%N]) with 1; lia); rewrite Hr, <- !app_assoc; reflexivity).
    cbn [bind]. rewrite has_prefix_app_nl by (auto using In_nl_fol).
    cbn [andb] in H.
    destruct (has_prefix (rest ++ fol) m) eqn:Ehp.
    + destruct (length rest <? length m)%nat eqn:Elt; [discriminate|]. inversion H; subst n2 l2. clear H.
      bnorm.
      destruct (split_rest rest (length m) fol ltac:(lia)) as (segm & rest2 & Hrm & Hlm & Hskm & Hfim & Hl2).
      assert (segm = m) as ->.
      { apply has_prefix_app in Ehp as [x Hx]. rewrite <- Hfim, Hx. apply firstn_app_l. }
      rewrite Hskm. exists m, [], rest2, (addPos s1 (zlen m - 1)). splits; auto; try lia.
      apply At_move with (pre := pre ++ [36%N]) (l := rest1 ++ fol); [exact HA1| |].
      * transitivity (pre ++ rest ++ fol).
        -- rewrite Hr, <- !app_assoc. reflexivity.
        -- rewrite Hrm at 1. rewrite <- !app_assoc. reflexivity.
      * rewrite !zlen_app. change (zlen [36%N]) with 1. lia.
    + destruct (IH _ _ _ _ H rest1 (pre ++ [36%N]) s1 F eq_refl eq_refl HA1 HF1) as
        (segb & segb' & rest2 & s2 & Hrb & Hsb & Hn2 & Hl2 & Hrun & HA2).
      exists ([36%N] ++ segb), ([36%N] ++ segb'), rest2, s2.
      splits; auto.
      * rewrite Hr, Hrb, <- !app_assoc. reflexivity.
      * rewrite Hsb, <- !app_assoc. reflexivity.
      * rewrite !app_assoc in *. exact HA2.
  - cbn [andb] in H.
    destruct (IH _ _ _ _ H rest1 (pre ++ seg) s1 F eq_refl eq_refl HA1 HF1) as
      (segb & segb' & rest2 & s2 & Hrb & Hsb & Hn2 & Hl2 & Hrun & HA2).
    exists (seg ++ segb), (seg ++ segb'), rest2, s2.
    splits; auto.
    + rewrite Hr, Hrb, <- !app_assoc. reflexivity.
    + rewrite Hsb, <- !app_assoc. reflexivity.
    + rewrite !app_assoc in *. exact HA2.
Qed.

Lemma skipDollarQuote_sim f mlen n2 l2 rest1 pre s F :
  re_dollar_quote ((36%N :: rest1) ++ fol) = Some mlen -> (S (length rest1) <? mlen)%nat = false ->
  dloop f (firstn mlen ((36%N :: rest1) ++ fol)) (S (length rest1) - mlen)%nat
        (skipn mlen ((36%N :: rest1) ++ fol)) = Some (n2, l2) ->
  At s (pre ++ [36%N]) (rest1 ++ fol) -> (length rest1 <= F)%nat ->
  exists seg seg' rest2 s2,
    36%N :: rest1 = seg ++ rest2 /\ seg = seg' ++ [36%N] /\ n2 = length rest2 /\ l2 = rest2 ++ fol /\
    skipDollarQuote F s = Ok s2 /\ At s2 (pre ++ seg) l2.
Proof.
  intros Hre Hlt Hd HA HF. bnorm.
  set (l := (36%N :: rest1) ++ fol) in *.
  assert (In 10%N l) as Hnl by apply In_nl_fol.
  destruct (re_dollar_quote_tail l tail Hnl) as [Htl Hm].
  destruct (Hm _ Hre) as (Hml & Hm10 & m' & Hm36).
  destruct (split_rest (36%N :: rest1) mlen fol ltac:(simpl; lia)) as (segm & rest' & Hrm & Hlm & Hskm & Hfim & Hl2).
  fold l in Hskm, Hfim. rewrite Hfim in *. rewrite Hskm in Hd.
  unfold skipDollarQuote.
  rewrite (At_slice_from s _ _ pre l _ HA)
    by (destruct HA as (_ & P & _); rewrite ?P, ?zlen_app; try (change (zlen [36%N]) with 1; lia);
        unfold l; rewrite <- !app_assoc; reflexivity).
  cbn [bind]. rewrite Htl, Hre.
  assert (firstn mlen (l ++ tail) = segm) as ->.
  { rewrite firstn_app. replace (mlen - length l)%nat with 0%nat by lia.
    rewrite firstn_O, app_nil_r. exact Hfim. }
  assert (At (addPos s (zlen segm - 1)) (pre ++ segm) (rest' ++ fol)) as HA1.
  { apply At_move with (pre := pre ++ [36%N]) (l := rest1 ++ fol); [exact HA| |].
    - rewrite <- !app_assoc. f_equal. rewrite (app_assoc segm), <- Hrm. reflexivity.
    - rewrite !zlen_app. change (zlen [36%N]) with 1. lia. }
  change (length (36%N :: rest1)) with (S (length rest1)) in Hl2.
  assert (1 <= mlen)%nat as Hm1 by (rewrite <- Hlm, Hm36, app_length; simpl; lia).
  destruct (dloop_sim segm Hm10 _ _ _ _ _ Hd rest' (pre ++ segm) _ F eq_refl ltac:(lia) HA1 ltac:(lia)) as
    (segb & segb' & rest2 & s2 & Hrb & Hsb & Hn2 & Hl2' & Hrun & HA2).
  exists (segm ++ segb), (segm ++ segb' ++ m'), rest2, s2. splits; auto.
  - rewrite Hrm, Hrb, <- !app_assoc. reflexivity.
  - rewrite Hsb, Hm36, <- !app_assoc. reflexivity.
  - rewrite !app_assoc in *. exact HA2.
Qed.

(** ** comment (not at the start of the statement) *)
Lemma cskip_sim left right n l n2 l2 :
  cskip right n l = Some (n2, l2) ->
  forall rest pre s, l = rest ++ fol -> n = length rest -> At s pre l -> zlen pre <> zlen left ->
  exists seg seg' rest2 s2,
    rest = seg ++ rest2 /\ seg = seg' ++ right /\ n2 = length rest2 /\ l2 = rest2 ++ fol /\
    comment s left right = Ok s2 /\ At s2 (pre ++ seg) l2.
Proof.
  unfold cskip. intros H rest pre s Hl Hn HA Hpos.
  destruct (index_of l right) as [i|] eqn:Ei; [|discriminate].
  destruct (n <? i + length right)%nat eqn:Elt; [discriminate|]. inversion H; subst n2 l2. clear H. bnorm.
  subst l n.
  destruct (split_rest rest (i + length right) fol ltac:(lia)) as (seg & rest2 & Hr & Hls & Hsk & Hfi & Hl2).
  pose proof (index_of_app _ _ _ Ei) as Happ.
  assert (seg = firstn i (rest ++ fol) ++ right) as Hseg.
  { rewrite <- Hfi. rewrite Happ at 1. rewrite app_assoc.
    pose proof (index_of_spec _ _ _ Ei) as [_ Hi].
    assert (length (firstn i (rest ++ fol)) = i) as Hli by (rewrite firstn_length; lia).
    rewrite <- Hli at 1. rewrite <- app_length. apply firstn_app_l. }
  unfold comment.
  rewrite (At_slice_from s pre _ pre (rest ++ fol) _ HA eq_refl) by (destruct HA as (_ & P & _); exact P).
  cbn [bind]. rewrite (index_of_tail _ tail _ _ Ei).
  replace (negb (pos s =? zlen left)) with true by (destruct HA as (_ & P & _); lia).
  rewrite Hsk.
  exists seg, (firstn i (rest ++ fol)), rest2, (addPos s (Z.of_nat i + zlen right)).
  splits; auto; try lia.
  apply At_move with (pre := pre) (l := rest ++ fol); [exact HA| |].
  - rewrite Hr, <- !app_assoc. reflexivity.
  - rewrite zlen_app. unfold zlen. lia.
Qed.

(** ** the state after [next]: the rune [seg] has just been read *)
Definition Mid (s : scanner) (pre seg rest1 : bytes) : Prop :=
  At s (pre ++ seg) (rest1 ++ fol) /\ width s = zlen seg /\ seg <> [].

(** [start]/[prev] of the walker against the bytes before the cursor *)
Definition PV (start : bool) (prev : option N) (pre : bytes) : Prop :=
  (start = true /\ prev = None /\ pre = []) \/
  (start = false /\ exists pre' p, pre = pre' ++ [p] /\ prev = Some p).

Lemma Mid_pos s pre seg rest1 : Mid s pre seg rest1 -> pos s = zlen pre + zlen seg /\ 1 <= zlen seg.
Proof.
  intros ((_ & P & _) & _ & Hne). rewrite P, zlen_app. split; [reflexivity|].
  destruct seg; [congruence|rewrite zlen_cons; pose proof (zlen_nonneg seg); lia].
Qed.

Lemma Mid_input s pre seg rest1 : Mid s pre seg rest1 -> input s = pre ++ ((seg ++ rest1) ++ fol) ++ tail.
Proof. intros ((I & _) & _). rewrite I, <- !app_assoc. reflexivity. Qed.

Lemma Mid_slice_back s pre seg rest1 j : Mid s pre seg rest1 -> (j <= length seg)%nat ->
  slice_from (input s) (pos s - Z.of_nat j) = Ok (skipn (length seg - j) ((seg ++ rest1) ++ fol) ++ tail) /\
  skipn (length seg - j) ((seg ++ rest1) ++ fol) = skipn (length seg - j) seg ++ rest1 ++ fol.
Proof.
  intros HM Hj.
  assert (skipn (length seg - j) ((seg ++ rest1) ++ fol) = skipn (length seg - j) seg ++ rest1 ++ fol) as E.
  { rewrite <- app_assoc, skipn_app. replace (length seg - j - length seg)%nat with 0%nat by lia. reflexivity. }
  split; [|exact E]. rewrite E. destruct HM as (HA & _).
  apply (At_slice_from s _ _ (pre ++ firstn (length seg - j) seg) _ _ HA).
  - rewrite <- (firstn_skipn (length seg - j) seg) at 1. rewrite <- !app_assoc. reflexivity.
  - destruct HA as (_ & P & _). rewrite P. unfold zlen. rewrite !app_length, firstn_length. lia.
Qed.

Lemma Mid_slice_w s pre seg rest1 : Mid s pre seg rest1 ->
  slice_from (input s) (pos s - width s) = Ok (((seg ++ rest1) ++ fol) ++ tail).
Proof.
  intros HM. destruct (Mid_slice_back s pre seg rest1 (length seg) HM (le_n _)) as [Hs _].
  rewrite Nat.sub_diag in Hs. destruct HM as (_ & W & _). rewrite W. exact Hs.
Qed.
Lemma Mid_slice_1 s pre seg rest1 : Mid s pre seg rest1 ->
  slice_from (input s) (pos s - 1) = Ok (skipn (length seg - 1) ((seg ++ rest1) ++ fol) ++ tail).
Proof.
  intros HM. destruct (Mid_pos _ _ _ _ HM) as [_ H1].
  destruct (Mid_slice_back s pre seg rest1 1 HM ltac:(unfold zlen in H1; lia)) as [Hs _]. exact Hs.
Qed.

Lemma not_in_10_W_DELIMITER : ~ In 10%N W_DELIMITER.
Proof. intros Hin; simpl in Hin; repeat (destruct Hin as [Hin|Hin]; [discriminate|]); exact Hin. Qed.

Lemma ck_delimcmd_at F s pre seg rest1 start prev depth opos k :
  Mid s pre seg rest1 -> PV start prev pre ->
  start && (length seg =? 1)%nat && has_prefix_ci ((seg ++ rest1) ++ fol) W_DELIMITER = false ->
  ck_delimcmd o F s depth opos k = k.
Proof.
  intros HM HP H. apply ck_delimcmd_skip. intros Hp1.
  destruct (Mid_pos _ _ _ _ HM) as [P Hs1]. pose proof (zlen_nonneg pre).
  assert (pre = []) as -> by (apply zlen_zero; lia).
  assert (length seg = 1%nat) as Hl1 by (unfold zlen in *; lia).
  destruct HP as [(-> & _ & _)|(_ & pre' & p & Hpre & _)]; [|destruct pre'; discriminate].
  rewrite Hl1 in H. cbn [andb Nat.eqb] in H.
  rewrite (Mid_input _ _ _ _ HM). cbn [app].
  rewrite (has_prefix_ci_app 10%N); auto using In_nl_fol, not_in_10_W_DELIMITER.
Qed.

Lemma ck_delim_at_skip s pre seg rest1 depth k :
  Mid s pre seg rest1 -> (depth =? 0)%nat && has_prefix ((seg ++ rest1) ++ fol) d = false ->
  ck_delim s (Z.of_nat depth) k = k.
Proof.
  intros HM H. apply ck_delim_skip. intros Hd0.
  exists (((seg ++ rest1) ++ fol) ++ tail). split; [apply (Mid_slice_w _ pre); exact HM|].
  destruct HM as ((_ & _ & _ & D & _) & _). rewrite D.
  rewrite has_prefix_app_len by (rewrite !app_length; lia).
  replace (depth =? 0)%nat with true in H by lia. exact H.
Qed.

Lemma ck_delim_hit s k tl :
  slice_from (input s) (pos s - width s) = Ok tl -> has_prefix tl (delim s) = true ->
  ck_delim s 0 k =
  (do text <- slice_to (input (addPos s (zlen (delim s) - width s))) (pos (addPos s (zlen (delim s) - width s)));
   Ok (Break (addPos s (zlen (delim s) - width s)) text)).
Proof. intros H1 H2. unfold ck_delim. cbn [Z.eqb]. rewrite H1. cbn [bind]. rewrite H2. reflexivity. Qed.

Lemma ck_dollar_at_skip F s pre seg rest1 r depth opos k :
  Mid s pre seg rest1 -> ((r < 128)%N -> seg = [r]) ->
  MatchDollarQuote o && N.eqb r 36 && is_some (re_dollar_quote ((seg ++ rest1) ++ fol)) = false ->
  ck_dollar o F s r depth opos k = k.
Proof.
  intros HM Hasc H. apply ck_dollar_skip. intros E. rewrite E in H. cbn [andb] in H.
  apply andb_true_iff in E as [_ E]. apply N.eqb_eq in E. subst r.
  assert (seg = [36%N]) as -> by (apply Hasc; lia).
  pose proof (Mid_slice_1 _ _ _ _ HM) as Hs.
  change (skipn (length [36%N] - 1) (([36%N] ++ rest1) ++ fol)) with (([36%N] ++ rest1) ++ fol) in Hs.
  eexists. split; [exact Hs|].
  destruct (re_dollar_quote_tail (([36%N] ++ rest1) ++ fol) tail (In_nl_fol _)) as [-> _].
  destruct (re_dollar_quote (([36%N] ++ rest1) ++ fol)); [discriminate|reflexivity].
Qed.

Lemma ck_dollar_at_hit F s pre rest1 depth opos k :
  Mid s pre [36%N] rest1 -> MatchDollarQuote o = true ->
  is_some (re_dollar_quote (([36%N] ++ rest1) ++ fol)) = true ->
  ck_dollar o F s 36 depth opos k = do s1 <- skipDollarQuote F s; Ok (Continue s1 depth opos).
Proof.
  intros HM Hm H. unfold ck_dollar. rewrite Hm. cbn [andb N.eqb Pos.eqb].
  pose proof (Mid_slice_1 _ _ _ _ HM) as Hs.
  change (skipn (length [36%N] - 1) (([36%N] ++ rest1) ++ fol)) with (([36%N] ++ rest1) ++ fol) in Hs.
  rewrite Hs. cbn [bind].
  destruct (re_dollar_quote_tail (([36%N] ++ rest1) ++ fol) tail (In_nl_fol _)) as [-> _].
  rewrite H. reflexivity.
Qed.

Lemma pick_at s pre rest : At s pre (rest ++ fol) -> pick s = Ok (Some (fst (decode_rune (rest ++ fol)))).
Proof.
  intros HA. unfold pick. destruct (decode_rune (rest ++ fol)) as [r wz] eqn:D.
  rewrite (next_at _ _ _ _ _ HA D). reflexivity.
Qed.

Lemma ck_dash_at_skip s pre seg rest1 r depth opos k : Mid s pre seg rest1 ->
  N.eqb r 45 && rune_is (Some (fst (decode_rune (rest1 ++ fol)))) 45 = false -> ck_dash s r depth opos k = k.
Proof.
  intros (HA & _) H. apply ck_dash_skip. intros E. rewrite E in H.
  eexists. split; [eapply pick_at; exact HA|exact H].
Qed.
Lemma ck_slash_at_skip s pre seg rest1 r depth opos k : Mid s pre seg rest1 ->
  N.eqb r 47 && rune_is (Some (fst (decode_rune (rest1 ++ fol)))) 42 = false -> ck_slash s r depth opos k = k.
Proof.
  intros (HA & _) H. apply ck_slash_skip. intros E. rewrite E in H.
  eexists. split; [eapply pick_at; exact HA|exact H].
Qed.
Lemma ck_dash_at_hit s pre seg rest1 depth opos k : Mid s pre seg rest1 ->
  rune_is (Some (fst (decode_rune (rest1 ++ fol)))) 45 = true ->
  ck_dash s 45 depth opos k =
  do rs1 <- next s; do s1 <- comment (snd rs1) [45%N; 45%N] NL; Ok (Continue s1 depth opos).
Proof.
  intros (HA & _) H. unfold ck_dash. cbn [N.eqb Pos.eqb]. rewrite (pick_at _ _ _ HA). cbn [bind andb].
  rewrite H. reflexivity.
Qed.
Lemma ck_slash_at_hit s pre seg rest1 depth opos k : Mid s pre seg rest1 ->
  rune_is (Some (fst (decode_rune (rest1 ++ fol)))) 42 = true ->
  ck_slash s 47 depth opos k =
  do rs1 <- next s; do s1 <- comment (snd rs1) [47%N; 42%N] [42%N; 47%N]; Ok (Continue s1 depth opos).
Proof.
  intros (HA & _) H. unfold ck_slash. cbn [N.eqb Pos.eqb]. rewrite (pick_at _ _ _ HA). cbn [bind andb].
  rewrite H. reflexivity.
Qed.

Lemma In_59_fol x : d = [59%N] -> In 59%N (x ++ fol).
Proof. intros ->. apply in_or_app. right. left. reflexivity. Qed.

Lemma ck_begins_at F s pre seg rest1 start prev depth opos k :
  Mid s pre seg rest1 -> PV start prev pre ->
  begin_live o d &&
    (begin_hint (skipn (length seg - 1) ((seg ++ rest1) ++ fol)) ||
     begin_hint (match length seg, prev with
                 | 1%nat, Some p => p :: (seg ++ rest1) ++ fol
                 | 1%nat, None => (seg ++ rest1) ++ fol
                 | _, _ => skipn (length seg - 2) ((seg ++ rest1) ++ fol)
                 end)) = false ->
  ck_atomic o nested F s depth opos (ck_try o nested F s depth opos (ck_begin o nested F s depth opos k)) = k.
Proof.
  intros HM HP H.
  assert (delim s = d) as Hds by (destruct HM as ((_ & _ & _ & D & _) & _); exact D).
  destruct (Mid_pos _ _ _ _ HM) as [P Hs1].
  assert (forall m, bytes_eqb (delim s) delimiter && m = true ->
            m = true /\ d = [59%N]) as Hsemi.
  { intros m E. apply andb_true_iff in E as [E1 E2]. rewrite Hds in E1. apply bytes_eqb_eq in E1. auto. }
  unfold begin_live in H.
  rewrite ck_atomic_skip; [rewrite ck_try_skip; [apply ck_begin_skip|]|].
  - intros E. destruct (Hsemi _ E) as [Em Hd]. rewrite Hd in H at 1. rewrite Em in H.
    rewrite ?orb_true_r in H. cbn [orb] in H. rewrite ?orb_true_r in H.
    cbn [bytes_eqb N.eqb Pos.eqb andb] in H.
    apply orb_false_iff in H as [H1 H2]. split.
    + intros Hp1. pose proof (zlen_nonneg pre).
      assert (pre = []) as Hpre by (apply zlen_zero; lia).
      assert (length seg = 1%nat) as Hl1 by (unfold zlen in *; lia).
      pose proof (Mid_slice_1 _ _ _ _ HM) as Hs. rewrite Hl1 in *.
      change (skipn (1 - 1) ((seg ++ rest1) ++ fol)) with ((seg ++ rest1) ++ fol) in *.
      eexists. split; [exact Hs|]. apply re_begin_tail; [apply In_59_fol; exact Hd|exact H1].
    + intros Hp1. destruct (length seg) as [|[|w2]] eqn:Hl.
      * unfold zlen in Hs1. lia.
      * (* one byte: the byte before it *)
        pose proof (zlen_nonneg pre).
        destruct HP as [(_ & _ & ->)|(_ & pre' & p & Hpre & ->)].
        { unfold zlen in *. simpl in *. lia. }
        destruct HM as (HA & _).
        exists ((p :: (seg ++ rest1) ++ fol) ++ tail). split.
        -- apply (At_slice_from s _ _ pre' _ _ HA).
           ++ rewrite Hpre, <- !app_assoc. reflexivity.
           ++ rewrite P, Hpre, zlen_app. unfold zlen. simpl. lia.
        -- apply re_begin_tail; [right; apply In_59_fol; exact Hd|exact H2].
      * destruct (Mid_slice_back s pre seg rest1 2 HM ltac:(lia)) as [Hs Hk]. rewrite Hl in Hs, Hk.
        assert (begin_hint (skipn (S (S w2) - 2) ((seg ++ rest1) ++ fol)) = false) as H2'
          by (destruct prev; exact H2).
        eexists. split; [exact Hs|]. apply re_begin_tail; [|exact H2'].
        rewrite Hk. rewrite app_assoc. apply In_59_fol; exact Hd.
  - intros E. destruct (Hsemi _ E) as [Em Hd]. rewrite Hd in H at 1. rewrite Em in H.
    rewrite ?orb_true_r in H. cbn [orb] in H. rewrite ?orb_true_r in H.
    cbn [bytes_eqb N.eqb Pos.eqb andb] in H.
    apply orb_false_iff in H as [H1 H2].
    destruct (Mid_slice_back s pre seg rest1 1 HM ltac:(unfold zlen in Hs1; lia)) as [Hs Hk].
    eexists. split; [exact Hs|]. apply re_begin_word_tail; [|exact H1].
    rewrite Hk. rewrite app_assoc. apply In_59_fol; exact Hd.
  - intros E. destruct (Hsemi _ E) as [Em Hd]. rewrite Hd in H at 1. rewrite Em in H.
    rewrite ?orb_true_r in H. cbn [orb] in H. rewrite ?orb_true_r in H.
    cbn [bytes_eqb N.eqb Pos.eqb andb] in H.
    apply orb_false_iff in H as [H1 H2].
    destruct (Mid_slice_back s pre seg rest1 1 HM ltac:(unfold zlen in Hs1; lia)) as [Hs Hk].
    eexists. split; [exact Hs|]. apply re_begin_word_tail; [|exact H1].
    rewrite Hk. rewrite app_assoc. apply In_59_fol; exact Hd.
Qed.

End Sim.
