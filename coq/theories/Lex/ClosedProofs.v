(** M-FMT (closed commands): forward simulation — the statement scanner of LexModel.v reads a
    closed command ([ClosedModel.scan_closed]) back as exactly one statement, whatever follows.

    Main results (end of the file):
    - [stmt_gap_closed]: gap, closed command, delimiter, newline, anything  =>  [stmt] returns the
      command as one statement (text [stmt_text], offset [total + |gap|]) and stops at the newline;
    - [stmt_gap_eof]: a gap alone => [stmt] returns EOF;
    - [scan_loop_closed] / [scan_closed_default]: the loop of [Scan] over a list of (gap, command).
    Extra hypothesis w.r.t. the plain [Gap] premise: [gap_delim_ok d] (a delimiter that starts
    with "--" contains no newline) — without it a comment line followed by more text can be read
    as the delimiter.

    Structure: tail-independence of every look-ahead the scanner makes (the walker [cw] only sees
    [cmd ++ d ++ "\n"]), the sub-scanners against [qloop]/[dloop]/[cskip], [stmt_iter] cut into
    its successive tests ([ck_*]), one [stmt_iter] step per branch of [cw] ([cw_sim]), the gap
    ([gap_loop]), [emit]. *)
From Coq Require Import List NArith ZArith Bool Arith Lia.
From Atlas Require Import Base.Bytes Lex.LexModel Lex.LexProofs Lex.ClosedModel.
From Coq Require Import ZifyBool ZifyNat ZifyN.
Import ListNotations.
Open Scope Z_scope.

(** what may precede a command: newlines and whole "--" comment lines that do not start with the delimiter *)
Inductive Gap (d : bytes) : bytes -> Prop :=
| gap_nil : Gap d []
| gap_nl g : Gap d g -> Gap d (10%N :: g)
| gap_comment body g :
    ~ In 10%N body -> has_prefix ([45%N; 45%N] ++ body ++ [10%N]) d = false ->
    Gap d g -> Gap d ([45%N; 45%N] ++ body ++ [10%N] ++ g).

(** * Strings: independence of what follows *)
Lemma has_prefix_len s p : has_prefix s p = true -> (length p <= length s)%nat.
Proof. rewrite has_prefix_app. intros [r ->]. rewrite app_length. lia. Qed.

Lemma has_prefix_app_len l t p : (length p <= length l)%nat -> has_prefix (l ++ t) p = has_prefix l p.
Proof.
  revert l; induction p as [|b p IH]; intros l H; simpl; [reflexivity|].
  destruct l as [|a l]; simpl in *; [lia|]. rewrite IH by lia. reflexivity.
Qed.

Lemma has_prefix_app_true l t p : has_prefix l p = true -> has_prefix (l ++ t) p = true.
Proof. intros H. rewrite has_prefix_app_len; [exact H|apply has_prefix_len; exact H]. Qed.

Lemma has_prefix_app_nl l t p : In 10%N l -> ~ In 10%N p -> has_prefix (l ++ t) p = has_prefix l p.
Proof.
  revert l; induction p as [|b p IH]; intros l Hl Hp; simpl; [reflexivity|].
  destruct l as [|x l]; [destruct Hl|]. simpl.
  destruct (N.eqb x b) eqn:E; simpl; [|reflexivity].
  apply N.eqb_eq in E; subst. destruct Hl as [->|Hl]; [exfalso; apply Hp; left; reflexivity|].
  apply IH; auto. intros H; apply Hp; right; auto.
Qed.

(** [c] is a byte that no word contains and that case folding leaves alone *)
Lemma has_prefix_ci_app c l t w :
  upper c = c -> In c l -> ~ In c w -> has_prefix_ci (l ++ t) w = has_prefix_ci l w.
Proof.
  intros Hc. revert l; induction w as [|b w IH]; intros l Hl Hw; simpl; [reflexivity|].
  destruct l as [|x l]; [destruct Hl|]. simpl.
  destruct (N.eqb (upper x) b) eqn:E; simpl; [|reflexivity].
  apply N.eqb_eq in E. destruct Hl as [->|Hl].
  - exfalso; apply Hw; left. congruence.
  - apply IH; auto. intros H; apply Hw; right; auto.
Qed.

Lemma has_prefix_ci_firstn x w : has_prefix_ci (firstn (length w) x) w = has_prefix_ci x w.
Proof.
  revert x; induction w as [|b w IH]; intros x; simpl; [reflexivity|].
  destruct x as [|a x]; simpl; [reflexivity|]. rewrite IH. reflexivity.
Qed.

Lemma index_of_tail l t p i : index_of l p = Some i -> index_of (l ++ t) p = Some i.
Proof.
  revert i; induction l as [|a l IH]; intros i; simpl.
  - destruct (has_prefix [] p) eqn:E; [|discriminate]. intros H; inversion H; subst.
    destruct p; [|simpl in E; discriminate]. destruct t; reflexivity.
  - destruct (has_prefix (a :: l) p) eqn:E.
    + intros H; inversion H; subst.
      change (a :: l ++ t) with ((a :: l) ++ t). rewrite (has_prefix_app_true _ t _ E). reflexivity.
    + destruct (index_of l p) as [i'|] eqn:E2; [|discriminate]. intros H; inversion H; subst.
      pose proof (index_of_spec _ _ _ E2) as [Hp Hi]. apply has_prefix_len in Hp.
      rewrite skipn_length in Hp.
      change (a :: l ++ t) with ((a :: l) ++ t). rewrite has_prefix_app_len by (simpl; lia).
      rewrite E. rewrite (IH _ eq_refl). reflexivity.
Qed.

(** ** UTF-8: two ASCII bytes end every look-ahead of the decoder *)
Lemma decode_rune_tail a x y t :
  (x < 128)%N -> (y < 128)%N -> decode_rune (a ++ x :: y :: t) = decode_rune (a ++ [x; y]).
Proof.
  intros Hx Hy.
  assert (cont x = false) as Cx by (unfold cont; lia).
  assert (cont y = false) as Cy by (unfold cont; lia).
  assert (forall lo, (128 <= lo)%N -> (lo <=? x)%N = false) as Lx by (intros; lia).
  assert (forall lo, (128 <= lo)%N -> (lo <=? y)%N = false) as Ly by (intros; lia).
  destruct a as [|s0 [|s1 [|s2 [|s3 a]]]]; simpl app; unfold decode_rune;
    rewrite ?Cx, ?Cy, ?andb_false_r; try reflexivity;
    repeat match goal with |- context[if ?c then _ else _] => destruct c eqn:? end;
    try reflexivity; try lia; destruct t; reflexivity.
Qed.

(** ** BEGIN hints *)
Lemma skip_s_snd s : snd (skip_s s) = skip_s_list s.
Proof.
  induction s as [|a s IH]; simpl; [reflexivity|].
  destruct (re_s a); [|reflexivity]. destruct (skip_s s); simpl in *; exact IH.
Qed.

Lemma re_begin_hint y n : re_begin y = Some n -> begin_hint y = true.
Proof.
  unfold re_begin, begin_hint. rewrite <- skip_s_snd. destruct (skip_s y) as [n0 r0]. cbn [snd].
  unfold word_ci. destruct (has_prefix_ci r0 W_BEGIN); [reflexivity|discriminate].
Qed.
Lemma re_begin_word_hint w y n : re_begin_word w y = Some n -> begin_hint y = true.
Proof.
  unfold re_begin_word, begin_hint. rewrite <- skip_s_snd. destruct (skip_s y) as [n0 r0]. cbn [snd].
  unfold word_ci at 1. destruct (has_prefix_ci r0 W_BEGIN); [reflexivity|discriminate].
Qed.

Lemma skip_s_list_app c x t :
  re_s c = false -> In c x -> skip_s_list (x ++ t) = skip_s_list x ++ t /\ In c (skip_s_list x).
Proof.
  intros Hc. induction x as [|a x IH]; intros Hin; [destruct Hin|]. simpl.
  destruct (re_s a) eqn:E.
  - destruct Hin as [->|Hin]; [congruence|]. apply IH; exact Hin.
  - split; [reflexivity|exact Hin].
Qed.

Lemma begin_hint_tail x t : In 59%N x -> begin_hint x = false -> begin_hint (x ++ t) = false.
Proof.
  unfold begin_hint. intros Hin H.
  destruct (skip_s_list_app 59%N x t eq_refl Hin) as [-> Hin2].
  rewrite (has_prefix_ci_app 59%N); auto.
  simpl. intros Hf. repeat (destruct Hf as [Hf|Hf]; [discriminate|]). exact Hf.
Qed.

Lemma is_some_none {A} (x : option A) : x = None -> is_some x = false.
Proof. intros ->. reflexivity. Qed.

Lemma re_begin_tail x t : In 59%N x -> begin_hint x = false -> is_some (re_begin (x ++ t)) = false.
Proof.
  intros Hin H. pose proof (begin_hint_tail x t Hin H) as Hf.
  destruct (re_begin (x ++ t)) eqn:E; [|reflexivity]. apply re_begin_hint in E. congruence.
Qed.
Lemma re_begin_word_tail w x t :
  In 59%N x -> begin_hint x = false -> is_some (re_begin_word w (x ++ t)) = false.
Proof.
  intros Hin H. pose proof (begin_hint_tail x t Hin H) as Hf.
  destruct (re_begin_word w (x ++ t)) eqn:E; [|reflexivity]. apply re_begin_word_hint in E. congruence.
Qed.

(** ** dollar-quote tags *)
Lemma dq_tag_spec k : forall a n, (length a <= k)%nat -> In 10%N a ->
  exists c r, a = c ++ r /\ ~ In 10%N c /\ In 10%N r /\
    forall t, dq_tag (a ++ t) n = ((n + length c)%nat, r ++ t).
Proof.
  induction k as [|k IH]; intros a n Hk Hin.
  - destruct a; [destruct Hin|simpl in Hk; lia].
  - destruct a as [|x a]; [destruct Hin|]. simpl in Hk. simpl app. cbn [dq_tag].
    destruct (re_w x) eqn:Ew.
    + destruct Hin as [->|Hin]; [discriminate|].
      destruct (IH a (S n) ltac:(lia) Hin) as (c & r & -> & Hc & Hr & Ht).
      exists (x :: c), r. repeat split; auto.
      * intros [->|H]; [discriminate|auto].
      * intros t. rewrite Ht. simpl. f_equal. lia.
    + destruct (N.eqb x 195) eqn:E195.
      * apply N.eqb_eq in E195. subst x. destruct Hin as [Hin|Hin]; [discriminate|].
        destruct a as [|b a]; [destruct Hin|]. simpl app.
        destruct ((136 <=? b)%N && (b <=? 191)%N) eqn:Eb.
        -- destruct Hin as [->|Hin]; [discriminate|]. simpl in Hk.
           destruct (IH a (S (S n)) ltac:(lia) Hin) as (c & r & -> & Hc & Hr & Ht).
           exists (195%N :: b :: c), r. repeat split; auto.
           ++ intros [H|[->|H]]; [discriminate|discriminate|auto].
           ++ intros t. rewrite Eb, Ht. simpl. f_equal. lia.
        -- exists [], (195%N :: b :: a). repeat split; auto.
           ++ right; exact Hin.
           ++ intros t. rewrite Eb. simpl. f_equal. lia.
      * exists [], (x :: a). repeat split; auto. intros t. simpl. f_equal. lia.
Qed.

Lemma re_dollar_quote_tail l t : In 10%N l ->
  re_dollar_quote (l ++ t) = re_dollar_quote l /\
  forall m, re_dollar_quote l = Some m ->
    (m <= length l)%nat /\ ~ In 10%N (firstn m l) /\ exists m', firstn m l = m' ++ [36%N].
Proof.
  intros Hin. destruct l as [|x l]; [destruct Hin|].
  destruct (N.eqb x 36) eqn:E36.
  2:{ assert (forall y, re_dollar_quote (x :: y) = None) as Hn.
      { intros y. unfold re_dollar_quote. destruct x as [|p]; [reflexivity|].
        repeat (destruct p; try reflexivity); discriminate. }
      simpl app. rewrite !Hn. split; [reflexivity|discriminate]. }
  apply N.eqb_eq in E36. subst x. destruct Hin as [Hin|Hin]; [discriminate|].
  destruct l as [|a l]; [destruct Hin|]. simpl app. cbn [re_dollar_quote].
  destruct (is_digit a); [split; [reflexivity|discriminate]|].
  destruct (dq_tag_spec (length (a :: l)) (a :: l) 0%nat (le_n _) Hin) as (c & r & Hcr & Hc & Hr & Ht).
  change (a :: l ++ t) with ((a :: l) ++ t). rewrite Ht.
  pose proof (Ht []) as Ht0. rewrite !app_nil_r in Ht0. rewrite Ht0. simpl plus.
  destruct r as [|y r]; [destruct Hr|]. simpl app.
  split; [reflexivity|].
  intros m Hm. destruct (N.eqb y 36) eqn:Ey.
  - apply N.eqb_eq in Ey. subst y. inversion Hm; subst m. clear Hm. rewrite Hcr.
    split; [simpl; rewrite app_length; simpl; lia|].
    assert (firstn (S (S (length c))) (36%N :: c ++ 36%N :: r) = (36%N :: c) ++ [36%N]) as ->.
    { replace (36%N :: c ++ 36%N :: r) with (((36%N :: c) ++ [36%N]) ++ r)
        by (simpl; rewrite <- app_assoc; reflexivity).
      replace (S (S (length c))) with (length ((36%N :: c) ++ [36%N])) by (rewrite app_length; simpl; lia).
      apply firstn_app_l. }
    split; [|eauto].
    intros H. apply in_app_or in H as [[H|H]|[H|[]]]; [discriminate|auto|discriminate].
  - exfalso. destruct y as [|p]; [discriminate|].
    repeat (destruct p; try discriminate).
Qed.

(** [lia] without the boolean / option / result equations of the context (they can be huge) *)
Ltac slia :=
  repeat match goal with
  | H : @eq bool _ _ |- _ => clear H
  | H : @eq (option _) _ _ |- _ => clear H
  | H : @eq (res _) _ _ |- _ => clear H
  | H : @eq (prod _ _) _ _ |- _ => clear H
  end; lia.

(** split syntactic conjunctions only (never unfolds a definition) *)
Ltac splits := repeat match goal with |- _ /\ _ => split end.

(** * Checked slices at a known split *)
Lemma slice_from_app (a b : bytes) p : p = zlen a -> slice_from (a ++ b) p = Ok b.
Proof.
  intros ->. unfold slice_from. rewrite zlen_app.
  pose proof (zlen_nonneg a); pose proof (zlen_nonneg b).
  replace ((zlen a <? 0) || (zlen a + zlen b <? zlen a)) with false by lia.
  rewrite to_nat_zlen, skipn_app_l. reflexivity.
Qed.
Lemma slice_to_app (a b : bytes) p : p = zlen a -> slice_to (a ++ b) p = Ok a.
Proof.
  intros ->. unfold slice_to. rewrite zlen_app.
  pose proof (zlen_nonneg a); pose proof (zlen_nonneg b).
  replace ((zlen a <? 0) || (zlen a + zlen b <? zlen a)) with false by lia.
  rewrite to_nat_zlen, firstn_app_l. reflexivity.
Qed.
Lemma index_app (a : bytes) x t p : p = zlen a -> index (a ++ x :: t) p = Ok x.
Proof.
  intros ->. unfold index. rewrite zlen_app, zlen_cons.
  pose proof (zlen_nonneg a); pose proof (zlen_nonneg t).
  replace ((zlen a <? 0) || (zlen a + (1 + zlen t) <=? zlen a)) with false by lia.
  rewrite to_nat_zlen, nth_error_app2 by lia. rewrite Nat.sub_diag. reflexivity.
Qed.

Lemma split_rest (rest : bytes) k (fol : bytes) : (k <= length rest)%nat ->
  exists seg rest1, rest = seg ++ rest1 /\ length seg = k /\
    skipn k (rest ++ fol) = rest1 ++ fol /\ firstn k (rest ++ fol) = seg /\
    length rest1 = (length rest - k)%nat.
Proof.
  intros H. exists (firstn k rest), (skipn k rest).
  split; [symmetry; apply firstn_skipn|]. split; [rewrite firstn_length; lia|].
  split; [|split].
  - rewrite skipn_app. replace (k - length rest)%nat with 0%nat by lia. reflexivity.
  - rewrite firstn_app. replace (k - length rest)%nat with 0%nat by lia.
    rewrite firstn_O, app_nil_r. reflexivity.
  - apply skipn_length.
Qed.

(** * The delimiter *)
Lemma delim_ok_inv d : delim_ok d = true ->
  (forall b, In b d -> (b < 128)%N) /\
  exists d0 d', d = d0 :: d' /\ d0 <> 40%N /\ d0 <> 41%N /\ is_quote d0 = false.
Proof.
  unfold delim_ok. destruct d as [|d0 d']; [discriminate|]. intros H. bnorm.
  split.
  - intros b Hb. rewrite forallb_forall in H. specialize (H b Hb).
    unfold delim_byte_ok, ascii in H. bnorm. exact H.
  - exists d0, d'. repeat split; auto; lia.
Qed.

Lemma follow_split d : delim_ok d = true ->
  exists a x, d ++ [10%N] = a ++ [x; 10%N] /\ (x < 128)%N.
Proof.
  intros H. destruct (delim_ok_inv d H) as [Ha (d0 & d' & Hd & _)].
  assert (d <> []) as Hne by (rewrite Hd; discriminate).
  exists (removelast d), (last d 0%N). split.
  - rewrite (app_removelast_last 0%N Hne) at 1. rewrite <- app_assoc. reflexivity.
  - apply Ha. rewrite (app_removelast_last 0%N Hne) at 2. apply in_or_app. right. left. reflexivity.
Qed.

Lemma qloop_S f q esc n l : qloop (S f) q esc n l =
    match n with
    | O => None
    | S _ =>
      let '(r, wz) := decode_rune l in
      let w := Z.to_nat wz in
      if (w =? 0)%nat || (n <? w)%nat then None else
      let n1 := (n - w)%nat in
      let l1 := skipn w l in
      if N.eqb r 92 && esc then
        match n1 with
        | O => None
        | S _ =>
          let '(_, wz2) := decode_rune l1 in
          let w2 := Z.to_nat wz2 in
          if (w2 =? 0)%nat || (n1 <? w2)%nat then None else qloop f q esc (n1 - w2)%nat (skipn w2 l1)
        end
      else if N.eqb r q then Some (n1, l1)
      else qloop f q esc n1 l1
    end.
Proof. reflexivity. Qed.

Lemma dloop_S f m n l : dloop (S f) m n l =
    match n with
    | O => None
    | S _ =>
      let '(r, wz) := decode_rune l in
      let w := Z.to_nat wz in
      if (w =? 0)%nat || (n <? w)%nat then None else
      if N.eqb r 36 && has_prefix l m then
        if (n <? length m)%nat then None else Some ((n - length m)%nat, skipn (length m) l)
      else dloop f m (n - w)%nat (skipn w l)
    end.
Proof. reflexivity. Qed.

Lemma skipQuote_loop_S f s p0 quote escaped : skipQuote_loop (S f) s p0 quote escaped =
    do rs <- next s;
    let '(r, s1) := rs in
    match r with
    | None => fail s1 p0 EUnclosedQuote
    | Some c =>
      if N.eqb c 92 && escaped then
        do rs2 <- next s1; skipQuote_loop f (snd rs2) p0 quote escaped
      else if N.eqb c quote then Ok s1
      else skipQuote_loop f s1 p0 quote escaped
    end.
Proof. reflexivity. Qed.

Lemma skipDollarQuote_loop_S f s m : skipDollarQuote_loop (S f) s m =
    do rs <- next s;
    let '(r, s1) := rs in
    match r with
    | None =>
      match delim s1 with
      | [] => fail s1 (pos s1) EUnclosedDollar
      | _ => Ok s1
      end
    | Some c =>
      if N.eqb c 36 then
        do tl <- slice_from (input s1) (pos s1 - 1);
        if has_prefix tl m then Ok (addPos s1 (zlen m - 1))
        else skipDollarQuote_loop f s1 m
      else skipDollarQuote_loop f s1 m
    end.
Proof. reflexivity. Qed.

(** * [stmt_iter] cut into its successive tests (continuation [k] = the rest of the switch) *)
Section Chunks.
Variable o : opts.
Variable nested : scanner -> res (scanner * option Stmt).
Variable fuel : nat.
Variable s : scanner.
Variable c : N.
Variables depth opos : Z.

Definition ck_delimcmd (k : res step) : res step :=
    do isDelimCmd <-
       (if (pos s =? 1) && (zlen S_DELIMITER <? zlen (input s)) then
          do hd <- slice_to (input s) (zlen S_DELIMITER); Ok (has_prefix_ci hd W_DELIMITER && (length hd =? 9)%nat)
        else Ok false);
    if isDelimCmd then
      do s1 <- delimCmd o fuel (addPos s (zlen S_DELIMITER - 1));
      Ok (Continue (skipSpaces s1) depth opos)
    else k.

Definition ck_go (k : res step) : res step :=
    do go1 <- (if GoCommand o && N.eqb c 10 then do tl <- slice_from (input s) (pos s); Ok (re_go_cmd tl) else Ok false);
    do go2 <-
       (if go1 then Ok true else
        if GoCommand o then
          do atLineStart <-
             (if pos s =? 1 then Ok true
              else if 1 <? pos s then do b <- index (input s) (pos s - 2); Ok (N.eqb b 10)
              else Ok false);
          if atLineStart then do tl <- slice_from (input s) (pos s - 1); Ok (re_go_cmd tl) else Ok false
        else Ok false);
    if go2 then
      do s1 <- (if go1 then do rs1 <- next s; Ok (snd rs1) else Ok s);
      do text <- slice_to (input s1) (pos s1 - 1);
      do rs2 <- next s1;
      do s3 <- skipGoCount fuel (snd rs2);
      Ok (Break (skipSpaces s3) text)
    else k.

Definition ck_delim (k : res step) : res step :=
    do isDelim <-
       (if depth =? 0 then do tl <- slice_from (input s) (pos s - width s); Ok (has_prefix tl (delim s)) else Ok false);
    if isDelim then
      let s1 := addPos s (zlen (delim s) - width s) in
      do text <- slice_to (input s1) (pos s1);
      Ok (Break s1 text)
    else k.

Definition ck_dollar (k : res step) : res step :=
    do isDollar <-
       (if MatchDollarQuote o && N.eqb c 36 then
          do tl <- slice_from (input s) (pos s - 1); Ok (is_some (re_dollar_quote tl))
        else Ok false);
    if isDollar then do s1 <- skipDollarQuote fuel s; Ok (Continue s1 depth opos)
    else k.

Definition ck_hash (k : res step) : res step :=
    if N.eqb c 35 && HashComments o then
      do s1 <- comment s [35%N] NL; Ok (Continue s1 depth opos)
    else k.

Definition ck_dash (k : res step) : res step :=
    do p1 <- (if N.eqb c 45 then pick s else Ok None);
    if N.eqb c 45 && rune_is p1 45 then
      do rs1 <- next s; do s1 <- comment (snd rs1) [45%N; 45%N] NL; Ok (Continue s1 depth opos)
    else k.

Definition ck_slash (k : res step) : res step :=
    do p2 <- (if N.eqb c 47 then pick s else Ok None);
    if N.eqb c 47 && rune_is p2 42 then
      do rs1 <- next s; do s1 <- comment (snd rs1) [47%N; 42%N] [42%N; 47%N]; Ok (Continue s1 depth opos)
    else k.

Definition ck_endterm (k : res step) : res step :=
    do isEndTerm <- (if endterm s then do hd <- slice_to (input s) (pos s); Ok (re_end_term hd) else Ok false);
    if isEndTerm then
      do text <- slice_to (input s) (pos s); Ok (Break s text)
    else k.

Definition ck_atomic (k : res step) : res step :=
    do isAtomic <-
       (if bytes_eqb (delim s) delimiter && MatchBeginAtomic o then
          do tl <- slice_from (input s) (pos s - 1); Ok (is_some (re_begin_atomic tl))
        else Ok false);
    if isAtomic then after_block (skipBeginAtomic nested fuel s) depth opos
    else k.

Definition ck_try (k : res step) : res step :=
    do isTry <-
       (if bytes_eqb (delim s) delimiter && MatchBeginTryCatch o then
          do tl <- slice_from (input s) (pos s - 1); Ok (is_some (re_begin_try tl))
        else Ok false);
    if isTry then after_block (skipBeginTryCatch nested fuel s) depth opos
    else k.

Definition ck_begin (k : res step) : res step :=
    do isBegin <-
       (if bytes_eqb (delim s) delimiter && MatchBegin o then
          if pos s =? 1 then do tl <- slice_from (input s) (pos s - 1); Ok (is_some (re_begin tl))
          else if 1 <? pos s then do tl <- slice_from (input s) (pos s - 2); Ok (is_some (re_begin tl))
          else Ok false
        else Ok false);
    if isBegin then after_block (skipBegin o nested fuel s) depth opos
    else k.

(** after the parentheses and quotes *)
Definition iter_rest : res step :=
  ck_delimcmd (ck_go (ck_delim (ck_dollar (ck_hash (ck_dash (ck_slash (ck_endterm (ck_atomic
    (ck_try (ck_begin (Ok (Continue s depth opos)))))))))))).

Definition iter_some : res step :=
    if N.eqb c 40 then Ok (Continue s (depth + 1) (if depth =? 0 then pos s else opos))
    else if N.eqb c 41 then
      if depth =? 0 then fail s (pos s) EUnexpectedParen else Ok (Continue s (depth - 1) opos)
    else if N.eqb c 39 || N.eqb c 34 || N.eqb c 96 then
      do s1 <- skipQuote o fuel s c; Ok (Continue s1 depth opos)
    else iter_rest.
End Chunks.

Lemma stmt_iter_eq o nested fuel s0 depth opos :
  stmt_iter o nested fuel s0 depth opos =
  do rs <- next s0;
  let '(r, s) := rs in
  match r with
  | None =>
    if 0 <? depth then fail s opos EUnclosedParen
    else if 0 <? pos s then Ok (Break s (input s))
    else Ok (RetEOF s)
  | Some c => iter_some o nested fuel s c depth opos
  end.
Proof. reflexivity. Qed.

Lemma stmt_loop_S o nested f s depth opos : stmt_loop o nested (S f) s depth opos =
    do st <- stmt_iter o nested f s depth opos;
    match st with
    | Continue s1 d1 o1 => stmt_loop o nested f s1 d1 o1
    | Break s1 text => do es <- emit o s1 text; Ok (snd es, Some (fst es))
    | RetEOF s1 => Ok (s1, None)
    end.
Proof. reflexivity. Qed.


(** ** the tests of [stmt_iter] that do not fire *)
Lemma ck_delimcmd_skip o fuel s depth opos k :
  (pos s = 1 -> has_prefix_ci (input s) W_DELIMITER = false) -> ck_delimcmd o fuel s depth opos k = k.
Proof.
  intros H. unfold ck_delimcmd.
  destruct ((pos s =? 1) && (zlen S_DELIMITER <? zlen (input s))) eqn:E; [|reflexivity].
  apply andb_true_iff in E as [E1 E2]. bnorm. unfold slice_to. change (zlen S_DELIMITER) with 9 in *.
  replace ((9 <? 0) || (zlen (input s) <? 9)) with false by lia.
  cbn [bind]. change (Z.to_nat 9) with (length W_DELIMITER).
  rewrite has_prefix_ci_firstn, (H E1). reflexivity.
Qed.

Lemma ck_go_skip o fuel s c k : GoCommand o = false -> ck_go o fuel s c k = k.
Proof. intros H. unfold ck_go. rewrite H. reflexivity. Qed.

Lemma ck_delim_skip s depth k :
  (depth = 0 -> exists tl, slice_from (input s) (pos s - width s) = Ok tl /\ has_prefix tl (delim s) = false) ->
  ck_delim s depth k = k.
Proof.
  intros H. unfold ck_delim. destruct (depth =? 0) eqn:E; [|reflexivity]. bnorm.
  destruct (H E) as (tl & -> & Hp). cbn [bind]. rewrite Hp. reflexivity.
Qed.

Lemma ck_dollar_skip o fuel s c depth opos k :
  (MatchDollarQuote o && N.eqb c 36 = true ->
   exists tl, slice_from (input s) (pos s - 1) = Ok tl /\ re_dollar_quote tl = None) ->
  ck_dollar o fuel s c depth opos k = k.
Proof.
  intros H. unfold ck_dollar. destruct (MatchDollarQuote o && N.eqb c 36) eqn:E; [|reflexivity].
  destruct (H eq_refl) as (tl & -> & Hp). cbn [bind]. rewrite Hp. reflexivity.
Qed.

Lemma ck_hash_skip o s c depth opos k :
  N.eqb c 35 && HashComments o = false -> ck_hash o s c depth opos k = k.
Proof. intros H. unfold ck_hash. rewrite H. reflexivity. Qed.

Lemma ck_dash_skip s c depth opos k :
  (N.eqb c 45 = true -> exists p, pick s = Ok p /\ rune_is p 45 = false) -> ck_dash s c depth opos k = k.
Proof.
  intros H. unfold ck_dash. destruct (N.eqb c 45) eqn:E; [|reflexivity].
  destruct (H eq_refl) as (p & -> & Hp). cbn [bind andb]. rewrite Hp. reflexivity.
Qed.
Lemma ck_slash_skip s c depth opos k :
  (N.eqb c 47 = true -> exists p, pick s = Ok p /\ rune_is p 42 = false) -> ck_slash s c depth opos k = k.
Proof.
  intros H. unfold ck_slash. destruct (N.eqb c 47) eqn:E; [|reflexivity].
  destruct (H eq_refl) as (p & -> & Hp). cbn [bind andb]. rewrite Hp. reflexivity.
Qed.

Lemma ck_endterm_skip s k : endterm s = false -> ck_endterm s k = k.
Proof. intros H. unfold ck_endterm. rewrite H. reflexivity. Qed.

Lemma ck_atomic_skip o nested fuel s depth opos k :
  (bytes_eqb (delim s) delimiter && MatchBeginAtomic o = true ->
   exists tl, slice_from (input s) (pos s - 1) = Ok tl /\ is_some (re_begin_atomic tl) = false) ->
  ck_atomic o nested fuel s depth opos k = k.
Proof.
  intros H. unfold ck_atomic. destruct (bytes_eqb (delim s) delimiter && MatchBeginAtomic o) eqn:E; [|reflexivity].
  destruct (H eq_refl) as (tl & -> & Hp). cbn [bind]. rewrite Hp. reflexivity.
Qed.
Lemma ck_try_skip o nested fuel s depth opos k :
  (bytes_eqb (delim s) delimiter && MatchBeginTryCatch o = true ->
   exists tl, slice_from (input s) (pos s - 1) = Ok tl /\ is_some (re_begin_try tl) = false) ->
  ck_try o nested fuel s depth opos k = k.
Proof.
  intros H. unfold ck_try. destruct (bytes_eqb (delim s) delimiter && MatchBeginTryCatch o) eqn:E; [|reflexivity].
  destruct (H eq_refl) as (tl & -> & Hp). cbn [bind]. rewrite Hp. reflexivity.
Qed.
Lemma ck_begin_skip o nested fuel s depth opos k :
  (bytes_eqb (delim s) delimiter && MatchBegin o = true ->
   (pos s = 1 -> exists tl, slice_from (input s) (pos s - 1) = Ok tl /\ is_some (re_begin tl) = false) /\
   (1 < pos s -> exists tl, slice_from (input s) (pos s - 2) = Ok tl /\ is_some (re_begin tl) = false)) ->
  ck_begin o nested fuel s depth opos k = k.
Proof.
  intros H. unfold ck_begin. destruct (bytes_eqb (delim s) delimiter && MatchBegin o) eqn:E; [|reflexivity].
  destruct (H eq_refl) as [H1 H2].
  destruct (pos s =? 1) eqn:E1; bnorm.
  - destruct (H1 E1) as (tl & -> & Hp). cbn [bind]. rewrite Hp. reflexivity.
  - destruct (1 <? pos s) eqn:E2; bnorm; [|reflexivity].
    destruct (H2 E2) as (tl & -> & Hp). cbn [bind]. rewrite Hp. reflexivity.
Qed.


(** * The cursor invariant and the sub-scanners *)
Section Sim.
Variable o : opts.
Variable d : bytes.
Variable fol : bytes.        (* the look-ahead of the walker: what is written after a command *)
Variable tail : bytes.       (* whatever follows [cmd ++ fol] in the file *)
Variable T : Z.              (* [total] at the first byte of the command *)
Variable SRC : bytes.
(** the scanner stands after [pre], before [l ++ tail] *)
Definition At (s : scanner) (pre l : bytes) : Prop :=
  input s = pre ++ l ++ tail /\ pos s = zlen pre /\ total s = T + zlen pre /\
  delim s = d /\ endterm s = false /\ src s = SRC.

Lemma At_move s pre l pre' l' k :
  At s pre l -> pre ++ l = pre' ++ l' -> zlen pre' = zlen pre + k -> At (addPos s k) pre' l'.
Proof.
  intros (I & P & Tt & D & E & S) Heq Hk. unfold At, addPos. simpl.
  repeat split; auto; try lia.
  rewrite I, !app_assoc, Heq. reflexivity.
Qed.
Lemma At_width s pre l w : At s pre l -> At (set_width s w) pre l.
Proof. intros H; exact H. Qed.
Lemma At_comments s pre l c : At s pre l -> At (set_comments s c) pre l.
Proof. intros H; exact H. Qed.

Lemma At_slice_from s pre l a b p :
  At s pre l -> pre ++ l = a ++ b -> p = zlen a -> slice_from (input s) p = Ok (b ++ tail).
Proof.
  intros (I & _) Heq ->. rewrite I, app_assoc, Heq, <- app_assoc. apply slice_from_app. reflexivity.
Qed.
Lemma At_slice_to s pre l a b p :
  At s pre l -> pre ++ l = a ++ b -> p = zlen a -> slice_to (input s) p = Ok a.
Proof.
  intros (I & _) Heq ->. rewrite I, app_assoc, Heq, <- app_assoc. apply slice_to_app. reflexivity.
Qed.

Variable nested : scanner -> res (scanner * option Stmt).   (* never called on closed commands *)
Hypothesis Hgo : GoCommand o = false.
(** what the simulation needs of the look-ahead ([d ++ "\n"] in this file, ["\n" ++ d ++ "\n"]
    in ClosedNLProofs.v): it ends with an ASCII byte and a newline, is at least as long as the
    delimiter, and contains [;] when that is the delimiter *)
Hypothesis Hfol_split : exists a x, fol = a ++ [x; 10%N] /\ (x < 128)%N.
Hypothesis Hfol_len : (length d <= length fol)%nat.
Hypothesis Hfol_59 : d = [59%N] -> In 59%N fol.

Lemma In_nl_fol rest : In 10%N (rest ++ fol).
Proof.
  destruct Hfol_split as (a & x & -> & _).
  apply in_or_app. right. apply in_or_app. right. right. left. reflexivity.
Qed.
Lemma fol_len1 : 1 <= zlen fol.
Proof. destruct Hfol_split as (a & x & -> & _). rewrite zlen_app. pose proof (zlen_nonneg a). unfold zlen at 2. simpl. lia. Qed.

Lemma fol_app_ne (x : bytes) : x ++ fol <> [].
Proof.
  pose proof fol_len1 as Hf1. intros Hx. apply app_eq_nil in Hx as [_ Hx].
  rewrite Hx in Hf1. unfold zlen in Hf1. simpl in Hf1. lia.
Qed.

Lemma decode_tail rest t : decode_rune ((rest ++ fol) ++ t) = decode_rune (rest ++ fol).
Proof.
  destruct Hfol_split as (a & x & -> & Hx).
  rewrite app_assoc, <- app_assoc. simpl app. apply decode_rune_tail; lia.
Qed.

Lemma next_at s pre rest r wz :
  At s pre (rest ++ fol) -> decode_rune (rest ++ fol) = (r, wz) ->
  next s = Ok (Some r, addPos (set_width s wz) wz).
Proof.
  intros HA D. unfold next.
  rewrite (At_slice_from s pre (rest ++ fol) pre (rest ++ fol) (pos s) HA eq_refl)
    by (destruct HA as (_ & P & _); exact P).
  destruct HA as (I & P & _). rewrite I, P, !zlen_app.
  pose proof (zlen_nonneg rest); pose proof fol_len1; pose proof (zlen_nonneg tail).
  replace (zlen pre + (zlen rest + zlen fol + zlen tail) <=? zlen pre) with false by lia.
  cbn [bind]. rewrite decode_tail, D. reflexivity.
Qed.

(** one rune of the command *)
Lemma step_at s pre rest r wz :
  At s pre (rest ++ fol) -> decode_rune (rest ++ fol) = (r, wz) ->
  ((Z.to_nat wz =? 0)%nat || (length rest <? Z.to_nat wz)%nat) = false ->
  exists seg rest1 s1,
    rest = seg ++ rest1 /\ length seg = Z.to_nat wz /\ zlen seg = wz /\ 1 <= wz /\
    skipn (Z.to_nat wz) (rest ++ fol) = rest1 ++ fol /\
    (length rest - Z.to_nat wz)%nat = length rest1 /\
    next s = Ok (Some r, s1) /\ width s1 = wz /\ At s1 (pre ++ seg) (rest1 ++ fol) /\
    ((r < 128)%N -> seg = [r]).
Proof.
  intros HA D Hchk. bnorm.
  destruct (split_rest rest (Z.to_nat wz) fol ltac:(lia)) as (seg & rest1 & Hr & Hl & Hsk & Hfi & Hl1).
  exists seg, rest1, (addPos (set_width s wz) wz).
  assert (zlen seg = wz) as Hz by (unfold zlen; lia).
  splits; auto; try lia.
  - eapply next_at; eauto.
  - apply At_move with (pre := pre) (l := rest ++ fol); [apply At_width; exact HA| |rewrite zlen_app; lia].
    rewrite Hr, <- !app_assoc. reflexivity.
  - intros Hr128.
    pose proof (fol_app_ne rest) as Hne.
    destruct (decode_rune_spec _ _ _ D Hne) as (_ & Hascii & _).
    destruct (Hascii Hr128) as [-> [t Ht]].
    change (Z.to_nat 1) with 1%nat in *.
    destruct seg as [|x [|y seg]]; simpl in Hl; try lia.
    rewrite Hr in Ht. simpl in Ht. inversion Ht. reflexivity.
Qed.

(** ** skipQuote *)
Lemma qloop_sim p0 q esc : (q < 128)%N -> forall f n l n2 l2,
  qloop f q esc n l = Some (n2, l2) ->
  forall rest pre s F, l = rest ++ fol -> n = length rest -> At s pre l -> (n <= F)%nat ->
  exists seg seg' rest2 s2,
    rest = seg ++ rest2 /\ seg = seg' ++ [q] /\ n2 = length rest2 /\ l2 = rest2 ++ fol /\
    skipQuote_loop F s p0 q esc = Ok s2 /\ At s2 (pre ++ seg) l2.
Proof.
  intros Hq. induction f as [|f IH]; intros n l n2 l2 H rest pre s F Hl Hn HA HF; [discriminate|].
  rewrite qloop_S in H. destruct n as [|n']; [discriminate|].
  destruct (decode_rune l) as [r wz] eqn:D. cbv beta iota zeta in H.
  destruct ((Z.to_nat wz =? 0)%nat || (S n' <? Z.to_nat wz)%nat) eqn:Echk; [discriminate|].
  subst l. rewrite Hn in Echk.
  destruct (step_at s pre rest r wz HA D Echk)
    as (seg & rest1 & s1 & Hr & Hls & Hzs & Hw1 & Hsk & Hn1 & Hnx & _ & HA1 & Hasc).
  rewrite Hsk, Hn, Hn1 in H.
  destruct F as [|F]; [lia|]. rewrite skipQuote_loop_S, Hnx. cbn [bind].
  destruct (N.eqb r 92 && esc) eqn:E92.
  - destruct (length rest1) as [|n1'] eqn:El1; [discriminate|].
    destruct (decode_rune (rest1 ++ fol)) as [r2 wz2] eqn:D2.
    destruct ((Z.to_nat wz2 =? 0)%nat || (S n1' <? Z.to_nat wz2)%nat) eqn:Echk2; [discriminate|].
    rewrite <- El1 in Echk2.
    destruct (step_at s1 (pre ++ seg) rest1 r2 wz2 HA1 D2 Echk2)
      as (sega & rest1a & s1a & Hra & Hlsa & Hzsa & Hw1a & Hska & Hn1a & Hnxa & _ & HA1a & _).
    rewrite Hnxa. cbn [bind snd]. rewrite Hska, <- El1, Hn1a in H.
    destruct (IH _ _ _ _ H rest1a (pre ++ seg ++ sega) s1a F eq_refl eq_refl) as
      (segb & segb' & rest2 & s2 & Hrb & Hsb & Hn2 & Hl2 & Hrun & HA2).
    { rewrite app_assoc. exact HA1a. }
    { subst rest rest1. rewrite !app_length in *. lia. }
    exists (seg ++ sega ++ segb), (seg ++ sega ++ segb'), rest2, s2.
    splits; auto.
    + rewrite Hr, Hra, Hrb, <- !app_assoc. reflexivity.
    + rewrite Hsb, <- !app_assoc. reflexivity.
    + rewrite !app_assoc in *. exact HA2.
  - destruct (N.eqb r q) eqn:Erq.
    + apply N.eqb_eq in Erq. subst r. inversion H; subst n2 l2.
      exists seg, [], rest1, s1. splits; auto.
    + destruct (IH _ _ _ _ H rest1 (pre ++ seg) s1 F eq_refl eq_refl HA1) as
        (segb & segb' & rest2 & s2 & Hrb & Hsb & Hn2 & Hl2 & Hrun & HA2).
      { subst rest. rewrite !app_length in *. lia. }
      exists (seg ++ segb), (seg ++ segb'), rest2, s2.
      splits; auto.
      * rewrite Hr, Hrb, <- !app_assoc. reflexivity.
      * rewrite Hsb, <- !app_assoc. reflexivity.
      * rewrite !app_assoc in *. exact HA2.
Qed.

Lemma is_quote_cases q : is_quote q = true -> q = 39%N \/ q = 34%N \/ q = 96%N.
Proof. unfold is_quote. lia. Qed.

Lemma skipQuote_sim q : is_quote q = true -> forall f n l n2 l2,
  qloop f q (BackslashEscapes o) n l = Some (n2, l2) ->
  forall rest pre s F, l = rest ++ fol -> n = length rest -> At s (pre ++ [q]) l -> (n <= F)%nat ->
  exists seg seg' rest2 s2,
    rest = seg ++ rest2 /\ seg = seg' ++ [q] /\ n2 = length rest2 /\ l2 = rest2 ++ fol /\
    skipQuote o F s q = Ok s2 /\ At s2 ((pre ++ [q]) ++ seg) l2.
Proof.
  intros Hq f n l n2 l2 H rest pre s F Hl Hn HA HF.
  apply is_quote_cases in Hq.
  unfold skipQuote.
  assert ((if BackslashEscapes o then Ok true
           else if EscapedStringExt o && (0 <? pos s)
                then do b <- index (input s) (pos s - 1); Ok (N.eqb b 69 || N.eqb b 101)
                else Ok false) = Ok (BackslashEscapes o)) as ->.
  { destruct (BackslashEscapes o); [reflexivity|].
    destruct (EscapedStringExt o && (0 <? pos s)); [|reflexivity].
    destruct HA as (I & P & _). rewrite I, <- app_assoc. simpl app.
    rewrite index_app by (rewrite P, zlen_app; change (zlen [q]) with 1; lia).
    cbn [bind]. f_equal. lia. }
  cbn [bind]. eapply qloop_sim; eauto. lia.
Qed.

(** ** skipDollarQuote *)
Lemma dloop_sim m : ~ In 10%N m -> forall f n l n2 l2,
  dloop f m n l = Some (n2, l2) ->
  forall rest pre s F, l = rest ++ fol -> n = length rest -> At s pre l -> (n <= F)%nat ->
  exists seg seg' rest2 s2,
    rest = seg ++ rest2 /\ seg = seg' ++ m /\ n2 = length rest2 /\ l2 = rest2 ++ fol /\
    skipDollarQuote_loop F s m = Ok s2 /\ At s2 (pre ++ seg) l2.
Proof.
  intros Hm. induction f as [|f IH]; intros n l n2 l2 H rest pre s F Hl Hn HA HF; [discriminate|].
  rewrite dloop_S in H. destruct n as [|n']; [discriminate|].
  destruct (decode_rune l) as [r wz] eqn:D. cbv beta iota zeta in H.
  destruct ((Z.to_nat wz =? 0)%nat || (S n' <? Z.to_nat wz)%nat) eqn:Echk; [discriminate|].
  subst l. rewrite Hn in Echk.
  destruct (step_at s pre rest r wz HA D Echk)
    as (seg & rest1 & s1 & Hr & Hls & Hzs & Hw1 & Hsk & Hn1 & Hnx & _ & HA1 & Hasc).
  rewrite Hsk, Hn, Hn1 in H.
  destruct F as [|F]; [lia|]. rewrite skipDollarQuote_loop_S, Hnx. cbn [bind].
  assert (length rest1 <= F)%nat as HF1 by (subst rest; rewrite app_length in *; lia).
  destruct (N.eqb r 36) eqn:E36.
  - apply N.eqb_eq in E36. subst r. specialize (Hasc ltac:(lia)). subst seg.
    rewrite (At_slice_from s1 _ _ pre (rest ++ fol) _ HA1)
      by (rewrite ?zlen_app; destruct HA1 as (_ & P & _); rewrite ?P, ?zlen_app;
          try (change (zlen [36%N]) with 1; lia); rewrite Hr, <- !app_assoc; reflexivity).
    cbn [bind]. rewrite has_prefix_app_nl by (auto using In_nl_fol).
    cbn [andb] in H.
    destruct (has_prefix (rest ++ fol) m) eqn:Ehp.
    + destruct (length rest <? length m)%nat eqn:Elt; [discriminate|]. inversion H; subst n2 l2. clear H.
      bnorm.
      destruct (split_rest rest (length m) fol ltac:(lia)) as (segm & rest2 & Hrm & Hlm & Hskm & Hfim & Hl2).
      assert (segm = m) as ->.
      { apply has_prefix_app in Ehp as [x Hx]. rewrite <- Hfim, Hx. apply firstn_app_l. }
      rewrite Hskm. exists m, [], rest2, (addPos s1 (zlen m - 1)). splits; auto; try lia.
      apply At_move with (pre := pre ++ [36%N]) (l := rest1 ++ fol); [exact HA1| |].
      * transitivity (pre ++ rest ++ fol).
        -- rewrite Hr, <- !app_assoc. reflexivity.
        -- rewrite Hrm at 1. rewrite <- !app_assoc. reflexivity.
      * rewrite !zlen_app. change (zlen [36%N]) with 1. lia.
    + destruct (IH _ _ _ _ H rest1 (pre ++ [36%N]) s1 F eq_refl eq_refl HA1 HF1) as
        (segb & segb' & rest2 & s2 & Hrb & Hsb & Hn2 & Hl2 & Hrun & HA2).
      exists ([36%N] ++ segb), ([36%N] ++ segb'), rest2, s2.
      splits; auto.
      * rewrite Hr, Hrb, <- !app_assoc. reflexivity.
      * rewrite Hsb, <- !app_assoc. reflexivity.
      * rewrite !app_assoc in *. exact HA2.
  - cbn [andb] in H.
    destruct (IH _ _ _ _ H rest1 (pre ++ seg) s1 F eq_refl eq_refl HA1 HF1) as
      (segb & segb' & rest2 & s2 & Hrb & Hsb & Hn2 & Hl2 & Hrun & HA2).
    exists (seg ++ segb), (seg ++ segb'), rest2, s2.
    splits; auto.
    + rewrite Hr, Hrb, <- !app_assoc. reflexivity.
    + rewrite Hsb, <- !app_assoc. reflexivity.
    + rewrite !app_assoc in *. exact HA2.
Qed.

Lemma skipDollarQuote_sim f mlen n2 l2 rest1 pre s F :
  re_dollar_quote ((36%N :: rest1) ++ fol) = Some mlen -> (S (length rest1) <? mlen)%nat = false ->
  dloop f (firstn mlen ((36%N :: rest1) ++ fol)) (S (length rest1) - mlen)%nat
        (skipn mlen ((36%N :: rest1) ++ fol)) = Some (n2, l2) ->
  At s (pre ++ [36%N]) (rest1 ++ fol) -> (length rest1 <= F)%nat ->
  exists seg seg' rest2 s2,
    36%N :: rest1 = seg ++ rest2 /\ seg = seg' ++ [36%N] /\ n2 = length rest2 /\ l2 = rest2 ++ fol /\
    skipDollarQuote F s = Ok s2 /\ At s2 (pre ++ seg) l2.
Proof.
  intros Hre Hlt Hd HA HF. bnorm.
  set (l := (36%N :: rest1) ++ fol) in *.
  assert (In 10%N l) as Hnl by apply In_nl_fol.
  destruct (re_dollar_quote_tail l tail Hnl) as [Htl Hm].
  destruct (Hm _ Hre) as (Hml & Hm10 & m' & Hm36).
  destruct (split_rest (36%N :: rest1) mlen fol ltac:(simpl; lia)) as (segm & rest' & Hrm & Hlm & Hskm & Hfim & Hl2).
  fold l in Hskm, Hfim. rewrite Hfim in *. rewrite Hskm in Hd.
  unfold skipDollarQuote.
  rewrite (At_slice_from s _ _ pre l _ HA)
    by (destruct HA as (_ & P & _); rewrite ?P, ?zlen_app; try (change (zlen [36%N]) with 1; lia);
        unfold l; rewrite <- !app_assoc; reflexivity).
  cbn [bind]. rewrite Htl, Hre.
  assert (firstn mlen (l ++ tail) = segm) as ->.
  { rewrite firstn_app. replace (mlen - length l)%nat with 0%nat by lia.
    rewrite firstn_O, app_nil_r. exact Hfim. }
  assert (At (addPos s (zlen segm - 1)) (pre ++ segm) (rest' ++ fol)) as HA1.
  { apply At_move with (pre := pre ++ [36%N]) (l := rest1 ++ fol); [exact HA| |].
    - rewrite <- !app_assoc. f_equal. rewrite (app_assoc segm), <- Hrm. reflexivity.
    - rewrite !zlen_app. change (zlen [36%N]) with 1. lia. }
  change (length (36%N :: rest1)) with (S (length rest1)) in Hl2.
  assert (1 <= mlen)%nat as Hm1 by (rewrite <- Hlm, Hm36, app_length; simpl; lia).
  destruct (dloop_sim segm Hm10 _ _ _ _ _ Hd rest' (pre ++ segm) _ F eq_refl ltac:(lia) HA1 ltac:(lia)) as
    (segb & segb' & rest2 & s2 & Hrb & Hsb & Hn2 & Hl2' & Hrun & HA2).
  exists (segm ++ segb), (segm ++ segb' ++ m'), rest2, s2. splits; auto.
  - rewrite Hrm, Hrb, <- !app_assoc. reflexivity.
  - rewrite Hsb, Hm36, <- !app_assoc. reflexivity.
  - rewrite !app_assoc in *. exact HA2.
Qed.

(** ** comment (not at the start of the statement) *)
Lemma cskip_sim left right n l n2 l2 :
  cskip right n l = Some (n2, l2) ->
  forall rest pre s, l = rest ++ fol -> n = length rest -> At s pre l -> zlen pre <> zlen left ->
  exists seg seg' rest2 s2,
    rest = seg ++ rest2 /\ seg = seg' ++ right /\ n2 = length rest2 /\ l2 = rest2 ++ fol /\
    comment s left right = Ok s2 /\ At s2 (pre ++ seg) l2.
Proof.
  unfold cskip. intros H rest pre s Hl Hn HA Hpos.
  destruct (index_of l right) as [i|] eqn:Ei; [|discriminate].
  destruct (n <? i + length right)%nat eqn:Elt; [discriminate|]. inversion H; subst n2 l2. clear H. bnorm.
  subst l n.
  destruct (split_rest rest (i + length right) fol ltac:(lia)) as (seg & rest2 & Hr & Hls & Hsk & Hfi & Hl2).
  pose proof (index_of_app _ _ _ Ei) as Happ.
  assert (seg = firstn i (rest ++ fol) ++ right) as Hseg.
  { rewrite <- Hfi. rewrite Happ at 1. rewrite app_assoc.
    pose proof (index_of_spec _ _ _ Ei) as [_ Hi].
    assert (length (firstn i (rest ++ fol)) = i) as Hli by (rewrite firstn_length; lia).
    rewrite <- Hli at 1. rewrite <- app_length. apply firstn_app_l. }
  unfold comment.
  rewrite (At_slice_from s pre _ pre (rest ++ fol) _ HA eq_refl) by (destruct HA as (_ & P & _); exact P).
  cbn [bind]. rewrite (index_of_tail _ tail _ _ Ei).
  replace (negb (pos s =? zlen left)) with true by (destruct HA as (_ & P & _); lia).
  rewrite Hsk.
  exists seg, (firstn i (rest ++ fol)), rest2, (addPos s (Z.of_nat i + zlen right)).
  splits; auto; try lia.
  apply At_move with (pre := pre) (l := rest ++ fol); [exact HA| |].
  - rewrite Hr, <- !app_assoc. reflexivity.
  - rewrite zlen_app. unfold zlen. lia.
Qed.

(** ** the state after [next]: the rune [seg] has just been read *)
Definition Mid (s : scanner) (pre seg rest1 : bytes) : Prop :=
  At s (pre ++ seg) (rest1 ++ fol) /\ width s = zlen seg /\ seg <> [].

(** [start]/[prev] of the walker against the bytes before the cursor *)
Definition PV (start : bool) (prev : option N) (pre : bytes) : Prop :=
  (start = true /\ prev = None /\ pre = []) \/
  (start = false /\ exists pre' p, pre = pre' ++ [p] /\ prev = Some p).

Lemma Mid_pos s pre seg rest1 : Mid s pre seg rest1 -> pos s = zlen pre + zlen seg /\ 1 <= zlen seg.
Proof.
  intros ((_ & P & _) & _ & Hne). rewrite P, zlen_app. split; [reflexivity|].
  destruct seg; [congruence|rewrite zlen_cons; pose proof (zlen_nonneg seg); lia].
Qed.

Lemma Mid_input s pre seg rest1 : Mid s pre seg rest1 -> input s = pre ++ ((seg ++ rest1) ++ fol) ++ tail.
Proof. intros ((I & _) & _). rewrite I, <- !app_assoc. reflexivity. Qed.

Lemma Mid_slice_back s pre seg rest1 j : Mid s pre seg rest1 -> (j <= length seg)%nat ->
  slice_from (input s) (pos s - Z.of_nat j) = Ok (skipn (length seg - j) ((seg ++ rest1) ++ fol) ++ tail) /\
  skipn (length seg - j) ((seg ++ rest1) ++ fol) = skipn (length seg - j) seg ++ rest1 ++ fol.
Proof.
  intros HM Hj.
  assert (skipn (length seg - j) ((seg ++ rest1) ++ fol) = skipn (length seg - j) seg ++ rest1 ++ fol) as E.
  { rewrite <- app_assoc, skipn_app. replace (length seg - j - length seg)%nat with 0%nat by lia. reflexivity. }
  split; [|exact E]. rewrite E. destruct HM as (HA & _).
  apply (At_slice_from s _ _ (pre ++ firstn (length seg - j) seg) _ _ HA).
  - rewrite <- (firstn_skipn (length seg - j) seg) at 1. rewrite <- !app_assoc. reflexivity.
  - destruct HA as (_ & P & _). rewrite P. unfold zlen. rewrite !app_length, firstn_length. lia.
Qed.

Lemma Mid_slice_w s pre seg rest1 : Mid s pre seg rest1 ->
  slice_from (input s) (pos s - width s) = Ok (((seg ++ rest1) ++ fol) ++ tail).
Proof.
  intros HM. destruct (Mid_slice_back s pre seg rest1 (length seg) HM (le_n _)) as [Hs _].
  rewrite Nat.sub_diag in Hs. destruct HM as (_ & W & _). rewrite W. exact Hs.
Qed.
Lemma Mid_slice_1 s pre seg rest1 : Mid s pre seg rest1 ->
  slice_from (input s) (pos s - 1) = Ok (skipn (length seg - 1) ((seg ++ rest1) ++ fol) ++ tail).
Proof.
  intros HM. destruct (Mid_pos _ _ _ _ HM) as [_ H1].
  destruct (Mid_slice_back s pre seg rest1 1 HM ltac:(unfold zlen in H1; lia)) as [Hs _]. exact Hs.
Qed.

Lemma not_in_10_W_DELIMITER : ~ In 10%N W_DELIMITER.
Proof. intros Hin; simpl in Hin; repeat (destruct Hin as [Hin|Hin]; [discriminate|]); exact Hin. Qed.

Lemma ck_delimcmd_at F s pre seg rest1 start prev depth opos k :
  Mid s pre seg rest1 -> PV start prev pre ->
  start && (length seg =? 1)%nat && has_prefix_ci ((seg ++ rest1) ++ fol) W_DELIMITER = false ->
  ck_delimcmd o F s depth opos k = k.
Proof.
  intros HM HP H. apply ck_delimcmd_skip. intros Hp1.
  destruct (Mid_pos _ _ _ _ HM) as [P Hs1]. pose proof (zlen_nonneg pre).
  assert (pre = []) as -> by (apply zlen_zero; lia).
  assert (length seg = 1%nat) as Hl1 by (unfold zlen in *; lia).
  destruct HP as [(-> & _ & _)|(_ & pre' & p & Hpre & _)]; [|destruct pre'; discriminate].
  rewrite Hl1 in H. cbn [andb Nat.eqb] in H.
  rewrite (Mid_input _ _ _ _ HM). cbn [app].
  rewrite (has_prefix_ci_app 10%N); auto using In_nl_fol, not_in_10_W_DELIMITER.
Qed.

Lemma ck_delim_at_skip s pre seg rest1 depth k :
  Mid s pre seg rest1 -> (depth =? 0)%nat && has_prefix ((seg ++ rest1) ++ fol) d = false ->
  ck_delim s (Z.of_nat depth) k = k.
Proof.
  intros HM H. apply ck_delim_skip. intros Hd0.
  exists (((seg ++ rest1) ++ fol) ++ tail). split; [apply (Mid_slice_w _ pre); exact HM|].
  destruct HM as ((_ & _ & _ & D & _) & _). rewrite D.
  rewrite has_prefix_app_len by (rewrite !app_length; lia).
  replace (depth =? 0)%nat with true in H by lia. exact H.
Qed.

Lemma ck_delim_hit s k tl :
  slice_from (input s) (pos s - width s) = Ok tl -> has_prefix tl (delim s) = true ->
  ck_delim s 0 k =
  (do text <- slice_to (input (addPos s (zlen (delim s) - width s))) (pos (addPos s (zlen (delim s) - width s)));
   Ok (Break (addPos s (zlen (delim s) - width s)) text)).
Proof. intros H1 H2. unfold ck_delim. cbn [Z.eqb]. rewrite H1. cbn [bind]. rewrite H2. reflexivity. Qed.

Lemma ck_dollar_at_skip F s pre seg rest1 r depth opos k :
  Mid s pre seg rest1 -> ((r < 128)%N -> seg = [r]) ->
  MatchDollarQuote o && N.eqb r 36 && is_some (re_dollar_quote ((seg ++ rest1) ++ fol)) = false ->
  ck_dollar o F s r depth opos k = k.
Proof.
  intros HM Hasc H. apply ck_dollar_skip. intros E. rewrite E in H. cbn [andb] in H.
  apply andb_true_iff in E as [_ E]. apply N.eqb_eq in E. subst r.
  assert (seg = [36%N]) as -> by (apply Hasc; lia).
  pose proof (Mid_slice_1 _ _ _ _ HM) as Hs.
  change (skipn (length [36%N] - 1) (([36%N] ++ rest1) ++ fol)) with (([36%N] ++ rest1) ++ fol) in Hs.
  eexists. split; [exact Hs|].
  destruct (re_dollar_quote_tail (([36%N] ++ rest1) ++ fol) tail (In_nl_fol _)) as [-> _].
  destruct (re_dollar_quote (([36%N] ++ rest1) ++ fol)); [discriminate|reflexivity].
Qed.

Lemma ck_dollar_at_hit F s pre rest1 depth opos k :
  Mid s pre [36%N] rest1 -> MatchDollarQuote o = true ->
  is_some (re_dollar_quote (([36%N] ++ rest1) ++ fol)) = true ->
  ck_dollar o F s 36 depth opos k = do s1 <- skipDollarQuote F s; Ok (Continue s1 depth opos).
Proof.
  intros HM Hm H. unfold ck_dollar. rewrite Hm. cbn [andb N.eqb Pos.eqb].
  pose proof (Mid_slice_1 _ _ _ _ HM) as Hs.
  change (skipn (length [36%N] - 1) (([36%N] ++ rest1) ++ fol)) with (([36%N] ++ rest1) ++ fol) in Hs.
  rewrite Hs. cbn [bind].
  destruct (re_dollar_quote_tail (([36%N] ++ rest1) ++ fol) tail (In_nl_fol _)) as [-> _].
  rewrite H. reflexivity.
Qed.

Lemma pick_at s pre rest : At s pre (rest ++ fol) -> pick s = Ok (Some (fst (decode_rune (rest ++ fol)))).
Proof.
  intros HA. unfold pick. destruct (decode_rune (rest ++ fol)) as [r wz] eqn:D.
  rewrite (next_at _ _ _ _ _ HA D). reflexivity.
Qed.

Lemma ck_dash_at_skip s pre seg rest1 r depth opos k : Mid s pre seg rest1 ->
  N.eqb r 45 && rune_is (Some (fst (decode_rune (rest1 ++ fol)))) 45 = false -> ck_dash s r depth opos k = k.
Proof.
  intros (HA & _) H. apply ck_dash_skip. intros E. rewrite E in H.
  eexists. split; [eapply pick_at; exact HA|exact H].
Qed.
Lemma ck_slash_at_skip s pre seg rest1 r depth opos k : Mid s pre seg rest1 ->
  N.eqb r 47 && rune_is (Some (fst (decode_rune (rest1 ++ fol)))) 42 = false -> ck_slash s r depth opos k = k.
Proof.
  intros (HA & _) H. apply ck_slash_skip. intros E. rewrite E in H.
  eexists. split; [eapply pick_at; exact HA|exact H].
Qed.
Lemma ck_dash_at_hit s pre seg rest1 depth opos k : Mid s pre seg rest1 ->
  rune_is (Some (fst (decode_rune (rest1 ++ fol)))) 45 = true ->
  ck_dash s 45 depth opos k =
  do rs1 <- next s; do s1 <- comment (snd rs1) [45%N; 45%N] NL; Ok (Continue s1 depth opos).
Proof.
  intros (HA & _) H. unfold ck_dash. cbn [N.eqb Pos.eqb]. rewrite (pick_at _ _ _ HA). cbn [bind andb].
  rewrite H. reflexivity.
Qed.
Lemma ck_slash_at_hit s pre seg rest1 depth opos k : Mid s pre seg rest1 ->
  rune_is (Some (fst (decode_rune (rest1 ++ fol)))) 42 = true ->
  ck_slash s 47 depth opos k =
  do rs1 <- next s; do s1 <- comment (snd rs1) [47%N; 42%N] [42%N; 47%N]; Ok (Continue s1 depth opos).
Proof.
  intros (HA & _) H. unfold ck_slash. cbn [N.eqb Pos.eqb]. rewrite (pick_at _ _ _ HA). cbn [bind andb].
  rewrite H. reflexivity.
Qed.

Lemma In_59_fol x : d = [59%N] -> In 59%N (x ++ fol).
Proof. intros H. apply in_or_app. right. exact (Hfol_59 H). Qed.

Lemma ck_begins_at F s pre seg rest1 start prev depth opos k :
  Mid s pre seg rest1 -> PV start prev pre ->
  begin_live o d &&
    (begin_hint (skipn (length seg - 1) ((seg ++ rest1) ++ fol)) ||
     begin_hint (match length seg, prev with
                 | 1%nat, Some p => p :: (seg ++ rest1) ++ fol
                 | 1%nat, None => (seg ++ rest1) ++ fol
                 | _, _ => skipn (length seg - 2) ((seg ++ rest1) ++ fol)
                 end)) = false ->
  ck_atomic o nested F s depth opos (ck_try o nested F s depth opos (ck_begin o nested F s depth opos k)) = k.
Proof.
  intros HM HP H.
  assert (delim s = d) as Hds by (destruct HM as ((_ & _ & _ & D & _) & _); exact D).
  destruct (Mid_pos _ _ _ _ HM) as [P Hs1].
  assert (forall m, bytes_eqb (delim s) delimiter && m = true ->
            m = true /\ d = [59%N]) as Hsemi.
  { intros m E. apply andb_true_iff in E as [E1 E2]. rewrite Hds in E1. apply bytes_eqb_eq in E1. auto. }
  unfold begin_live in H.
  rewrite ck_atomic_skip; [rewrite ck_try_skip; [apply ck_begin_skip|]|].
  - intros E. destruct (Hsemi _ E) as [Em Hd]. rewrite Hd in H at 1. rewrite Em in H.
    rewrite ?orb_true_r in H. cbn [orb] in H. rewrite ?orb_true_r in H.
    cbn [bytes_eqb N.eqb Pos.eqb andb] in H.
    apply orb_false_iff in H as [H1 H2]. split.
    + intros Hp1. pose proof (zlen_nonneg pre).
      assert (pre = []) as Hpre by (apply zlen_zero; lia).
      assert (length seg = 1%nat) as Hl1 by (unfold zlen in *; lia).
      pose proof (Mid_slice_1 _ _ _ _ HM) as Hs. rewrite Hl1 in *.
      change (skipn (1 - 1) ((seg ++ rest1) ++ fol)) with ((seg ++ rest1) ++ fol) in *.
      eexists. split; [exact Hs|]. apply re_begin_tail; [apply In_59_fol; exact Hd|exact H1].
    + intros Hp1. destruct (length seg) as [|[|w2]] eqn:Hl.
      * unfold zlen in Hs1. lia.
      * (* one byte: the byte before it *)
        pose proof (zlen_nonneg pre).
        destruct HP as [(_ & _ & ->)|(_ & pre' & p & Hpre & ->)].
        { unfold zlen in *. simpl in *. lia. }
        destruct HM as (HA & _).
        exists ((p :: (seg ++ rest1) ++ fol) ++ tail). split.
        -- apply (At_slice_from s _ _ pre' _ _ HA).
           ++ rewrite Hpre, <- !app_assoc. reflexivity.
           ++ rewrite P, Hpre, zlen_app. unfold zlen. simpl. lia.
        -- apply re_begin_tail; [right; apply In_59_fol; exact Hd|exact H2].
      * destruct (Mid_slice_back s pre seg rest1 2 HM ltac:(lia)) as [Hs Hk]. rewrite Hl in Hs, Hk.
        assert (begin_hint (skipn (S (S w2) - 2) ((seg ++ rest1) ++ fol)) = false) as H2'
          by (destruct prev; exact H2).
        eexists. split; [exact Hs|]. apply re_begin_tail; [|exact H2'].
        rewrite Hk. rewrite app_assoc. apply In_59_fol; exact Hd.
  - intros E. destruct (Hsemi _ E) as [Em Hd]. rewrite Hd in H at 1. rewrite Em in H.
    rewrite ?orb_true_r in H. cbn [orb] in H. rewrite ?orb_true_r in H.
    cbn [bytes_eqb N.eqb Pos.eqb andb] in H.
    apply orb_false_iff in H as [H1 H2].
    destruct (Mid_slice_back s pre seg rest1 1 HM ltac:(unfold zlen in Hs1; lia)) as [Hs Hk].
    eexists. split; [exact Hs|]. apply re_begin_word_tail; [|exact H1].
    rewrite Hk. rewrite app_assoc. apply In_59_fol; exact Hd.
  - intros E. destruct (Hsemi _ E) as [Em Hd]. rewrite Hd in H at 1. rewrite Em in H.
    rewrite ?orb_true_r in H. cbn [orb] in H. rewrite ?orb_true_r in H.
    cbn [bytes_eqb N.eqb Pos.eqb andb] in H.
    apply orb_false_iff in H as [H1 H2].
    destruct (Mid_slice_back s pre seg rest1 1 HM ltac:(unfold zlen in Hs1; lia)) as [Hs Hk].
    eexists. split; [exact Hs|]. apply re_begin_word_tail; [|exact H1].
    rewrite Hk. rewrite app_assoc. apply In_59_fol; exact Hd.
Qed.

(** ** the walker against the [Scan:] loop *)
Lemma cw_S f start prev depth n l : cw o d (S f) start prev depth n l =
    match n with
    | O => (depth =? 0)%nat
    | S _ =>
      let '(r, wz) := decode_rune l in
      let w := Z.to_nat wz in
      if (w =? 0)%nat || (n <? w)%nat then false else
      let n1 := (n - w)%nat in
      let l1 := skipn w l in
      let pv := byte_before w l in
      if N.eqb r 40 then cw o d f false pv (S depth) n1 l1
      else if N.eqb r 41 then
        match depth with O => false | S d' => cw o d f false pv d' n1 l1 end
      else if is_quote r then
        match qloop f r (BackslashEscapes o) n1 l1 with
        | Some (n2, l2) => cw o d f false (Some r) depth n2 l2
        | None => false
        end
      else if start && (w =? 1)%nat && has_prefix_ci l W_DELIMITER then false
      else if (depth =? 0)%nat && has_prefix l d then false
      else if MatchDollarQuote o && N.eqb r 36 && is_some (re_dollar_quote l) then
        match re_dollar_quote l with
        | Some m =>
          if (n <? m)%nat then false else
          match dloop f (firstn m l) (n - m)%nat (skipn m l) with
          | Some (n2, l2) => cw o d f false (Some 36%N) depth n2 l2
          | None => false
          end
        | None => false
        end
      else if N.eqb r 35 && HashComments o then
        if start then false else
        match cskip NL n1 l1 with
        | Some (n2, l2) => cw o d f false (Some 10%N) depth n2 l2
        | None => false
        end
      else if N.eqb r 45 && rune_is (Some (fst (decode_rune l1))) 45 then
        if start then false else
        match n1 with
        | O => false
        | S n1' =>
          match cskip NL n1' (skipn 1 l1) with
          | Some (n2, l2) => cw o d f false (Some 10%N) depth n2 l2
          | None => false
          end
        end
      else if N.eqb r 47 && rune_is (Some (fst (decode_rune l1))) 42 then
        if start then false else
        match n1 with
        | O => false
        | S n1' =>
          match cskip [42%N; 47%N] n1' (skipn 1 l1) with
          | Some (n2, l2) => cw o d f false (Some 47%N) depth n2 l2
          | None => false
          end
        end
      else if begin_live o d &&
              (begin_hint (skipn (w - 1) l) ||
               begin_hint (match w, prev with
                           | 1%nat, Some p => p :: l
                           | 1%nat, None => l
                           | _, _ => skipn (w - 2) l
                           end))
      then false
      else cw o d f false pv depth n1 l1
    end.
Proof. reflexivity. Qed.

Lemma byte_before_seg seg rest1 : seg <> [] ->
  exists x p, seg = x ++ [p] /\ byte_before (length seg) ((seg ++ rest1) ++ fol) = Some p.
Proof.
  intros Hne. exists (removelast seg), (last seg 0%N).
  pose proof (app_removelast_last 0%N Hne) as E. split; [exact E|].
  unfold byte_before. rewrite E at 1 2. rewrite app_length. simpl length.
  replace (length (removelast seg) + 1 - 1)%nat with (length (removelast seg)) by lia.
  rewrite <- !app_assoc. rewrite nth_error_app2 by lia. rewrite Nat.sub_diag. reflexivity.
Qed.

Lemma conclude_eq (P : bytes -> Prop) (a b c x y : bytes) : a ++ b = x ++ y -> P (a ++ b ++ c) -> P (x ++ y ++ c).
Proof. intros E. rewrite !app_assoc, E. auto. Qed.

(** what happens once the command is consumed (the walker stops there): the scanner breaks
    after the delimiter; [fd] = the bytes of the look-ahead up to there, [KF] = fuel needed *)
Variable fd : bytes.
Variable KF : nat.
Hypothesis Hfin : forall F s pre opos, At s pre fol -> pre <> [] -> (KF <= F)%nat ->
  exists s1, At s1 (pre ++ fd) [10%N] /\
    stmt_loop o nested F s 0 opos = (do es <- emit o s1 (pre ++ fd); Ok (snd es, Some (fst es))).

Lemma cw_sim : forall f start prev depth n l, cw o d f start prev depth n l = true ->
  forall rest pre s opos F, l = rest ++ fol -> n = length rest -> At s pre l -> PV start prev pre ->
    pre ++ rest <> [] -> (n + KF <= F)%nat ->
  exists s1, At s1 (pre ++ rest ++ fd) [10%N] /\
    stmt_loop o nested F s (Z.of_nat depth) opos =
    (do es <- emit o s1 (pre ++ rest ++ fd); Ok (snd es, Some (fst es))).
Proof.
  induction f as [|f IH]; intros start prev depth n l H rest pre s opos F Hl Hn HA HP Hne HF; [discriminate|].
  rewrite cw_S in H.
  destruct n as [|n'].
  - (* the delimiter *)
    destruct rest; [|discriminate]. apply Nat.eqb_eq in H. subst depth l. rewrite app_nil_r in Hne.
    cbn [app] in *. change (Z.of_nat 0) with 0. apply Hfin; auto.
  - destruct F as [|F]; [slia|]. rewrite stmt_loop_S.
    destruct (decode_rune l) as [r wz] eqn:D. cbv beta iota zeta in H.
    destruct ((Z.to_nat wz =? 0)%nat || (S n' <? Z.to_nat wz)%nat) eqn:Echk; [discriminate|].
    subst l. rewrite Hn in Echk.
    destruct (step_at s pre rest r wz HA D Echk)
      as (seg & rest1 & s1 & Hr & Hls & Hzs & Hw1 & Hsk & Hn1 & Hnx & Hwd & HA1 & Hasc).
    rewrite Hsk, Hn, Hn1 in H. rewrite <- Hls in H.
    assert (seg <> []) as Hsne by (intros ->; simpl in Hzs; unfold zlen in Hzs; simpl in Hzs; slia).
    assert (Mid s1 pre seg rest1) as HM by (split; [exact HA1|split; [congruence|exact Hsne]]).
    assert (length rest1 + KF <= F)%nat as HF1.
    { rewrite Hr, app_length in Hn. destruct seg; [congruence|simpl in Hn; slia]. }
    assert ((pre ++ seg) ++ rest1 = pre ++ rest) as Heq0 by (rewrite Hr, <- app_assoc; reflexivity).
    assert ((pre ++ seg) ++ rest1 <> []) as Hne1 by (rewrite Heq0; exact Hne).
    rewrite Hr in H.
    destruct (byte_before_seg seg rest1 Hsne) as (x & p & Hsegx & Hbb). rewrite Hbb in H.
    assert (PV false (Some p) (pre ++ seg)) as HP1.
    { right. split; [reflexivity|]. exists (pre ++ x), p. split; [rewrite Hsegx, app_assoc; reflexivity|reflexivity]. }
    pattern (pre ++ rest ++ fd). apply (conclude_eq _ (pre ++ seg) rest1 fd pre rest Heq0). cbv beta.
    rewrite stmt_iter_eq, Hnx. cbn [bind]. unfold iter_some.
    destruct (N.eqb r 40) eqn:E40.
    { (* ( *)
      cbn [bind].
      destruct (IH _ _ _ _ _ H rest1 (pre ++ seg) s1
                   (if Z.of_nat depth =? 0 then pos s1 else opos) F eq_refl eq_refl HA1 HP1 Hne1 HF1)
        as (s2 & HA2 & Hrun).
      replace (Z.of_nat depth + 1) with (Z.of_nat (S depth)) by slia.
      rewrite Hrun. exists s2. split; [exact HA2|reflexivity]. }
    destruct (N.eqb r 41) eqn:E41.
    { (* ) *)
      destruct depth as [|dep']; [discriminate|].
      replace (Z.of_nat (S dep') =? 0) with false by slia. cbn [bind].
      replace (Z.of_nat (S dep') - 1) with (Z.of_nat dep') by slia.
      destruct (IH _ _ _ _ _ H rest1 (pre ++ seg) s1 opos F eq_refl eq_refl HA1 HP1 Hne1 HF1)
        as (s2 & HA2 & Hrun).
      rewrite Hrun. exists s2. split; [exact HA2|reflexivity]. }
    change (N.eqb r 39 || N.eqb r 34 || N.eqb r 96) with (is_quote r).
    destruct (is_quote r) eqn:Eq.
    { (* quoted string *)
      destruct (qloop f r (BackslashEscapes o) (length rest1) (rest1 ++ fol)) as [[n2 l2]|] eqn:Eql; [|discriminate].
      assert (seg = [r]) as Hsr by (apply Hasc; destruct (is_quote_cases r Eq) as [ -> | [ -> | -> ] ]; slia).
      rewrite Hsr in *.
      destruct (skipQuote_sim r Eq _ _ _ _ _ Eql rest1 pre s1 F eq_refl eq_refl HA1 ltac:(slia))
        as (segq & segq' & rest2 & s2 & Hr2 & Hsq & Hn2 & Hl2 & Hrun & HA2).
      rewrite Hrun. cbn [bind]. subst n2 l2.
      pattern ((pre ++ [r]) ++ rest1 ++ fd).
      apply (conclude_eq _ ((pre ++ [r]) ++ segq) rest2 fd (pre ++ [r]) rest1); [rewrite Hr2, <- app_assoc; reflexivity|].
      cbv beta.
      destruct (IH _ _ _ _ _ H rest2 ((pre ++ [r]) ++ segq) s2 opos F eq_refl eq_refl HA2)
        as (s3 & HA3 & Hrun3).
      - right. split; [reflexivity|]. exists ((pre ++ [r]) ++ segq'), r. split; [rewrite Hsq, app_assoc; reflexivity|reflexivity].
      - rewrite <- app_assoc, <- Hr2. exact Hne1.
      - rewrite Hr2, app_length in HF1. slia.
      - rewrite Hrun3. exists s3. split; [exact HA3|reflexivity]. }
    unfold iter_rest.
    destruct (start && (length seg =? 1)%nat && has_prefix_ci ((seg ++ rest1) ++ fol) W_DELIMITER) eqn:Edc; [discriminate|].
    rewrite (ck_delimcmd_at F s1 pre seg rest1 start prev _ _ _ HM HP Edc).
    rewrite ck_go_skip by exact Hgo.
    destruct ((depth =? 0)%nat && has_prefix ((seg ++ rest1) ++ fol) d) eqn:Edl; [discriminate|].
    rewrite (ck_delim_at_skip s1 pre seg rest1 depth _ HM Edl).
    destruct (MatchDollarQuote o && N.eqb r 36 && is_some (re_dollar_quote ((seg ++ rest1) ++ fol))) eqn:Edq.
    { (* dollar-quoted string *)
      apply andb_true_iff in Edq as [Edq1 Edq3]. apply andb_true_iff in Edq1 as [Edq1 Edq2].
      apply N.eqb_eq in Edq2. subst r.
      assert (seg = [36%N]) as Hsr by (apply Hasc; slia). rewrite Hsr in *.
      destruct (re_dollar_quote (([36%N] ++ rest1) ++ fol)) as [m|] eqn:Erd; [|discriminate].
      destruct (length ([36%N] ++ rest1) <? m)%nat eqn:Elm; [discriminate|].
      destruct (dloop f (firstn m (([36%N] ++ rest1) ++ fol)) (length ([36%N] ++ rest1) - m)
                      (skipn m (([36%N] ++ rest1) ++ fol))) as [[n2 l2]|] eqn:Edl2; [|discriminate].
      rewrite (ck_dollar_at_hit F s1 pre rest1 _ _ _ HM Edq1) by (rewrite Erd; reflexivity).
      destruct (skipDollarQuote_sim f m n2 l2 rest1 pre s1 F Erd Elm Edl2 HA1 ltac:(slia))
        as (segq & segq' & rest2 & s2 & Hr2 & Hsq & Hn2 & Hl2 & Hrun & HA2).
      rewrite Hrun. cbn [bind]. subst n2 l2.
      pattern ((pre ++ [36%N]) ++ rest1 ++ fd).
      apply (conclude_eq _ (pre ++ segq) rest2 fd (pre ++ [36%N]) rest1);
        [rewrite <- !app_assoc; f_equal; symmetry; exact Hr2|].
      cbv beta.
      destruct (IH _ _ _ _ _ H rest2 (pre ++ segq) s2 opos F eq_refl eq_refl HA2)
        as (s3 & HA3 & Hrun3).
      - right. split; [reflexivity|]. exists (pre ++ segq'), 36%N. split; [rewrite Hsq, app_assoc; reflexivity|reflexivity].
      - rewrite <- app_assoc, <- Hr2. destruct pre; discriminate.
      - apply (f_equal (@length N)) in Hr2. rewrite app_length in Hr2. simpl in Hr2.
        assert (1 <= length segq)%nat by (rewrite Hsq, app_length; simpl; slia). slia.
      - rewrite Hrun3. exists s3. split; [exact HA3|reflexivity]. }
    rewrite (ck_dollar_at_skip F s1 pre seg rest1 r _ _ _ HM Hasc Edq).
    destruct (N.eqb r 35 && HashComments o) eqn:Eh.
    { (* # comment *)
      destruct start; [discriminate|].
      destruct (cskip NL (length rest1) (rest1 ++ fol)) as [[n2 l2]|] eqn:Ecs; [|discriminate].
      unfold ck_hash. rewrite Eh.
      destruct (cskip_sim [35%N] NL _ _ _ _ Ecs rest1 (pre ++ seg) s1 eq_refl eq_refl HA1)
        as (segq & segq' & rest2 & s2 & Hr2 & Hsq & Hn2 & Hl2 & Hrun & HA2).
      { destruct HP as [(Hf & _)|(_ & pre' & p' & Hpre & _)]; [discriminate|].
        rewrite Hpre, !zlen_app. pose proof (zlen_nonneg pre'). pose proof (zlen_nonneg seg).
        change (zlen [p']) with 1. change (zlen [35%N]) with 1. slia. }
      rewrite Hrun. cbn [bind]. subst n2 l2.
      pattern ((pre ++ seg) ++ rest1 ++ fd).
      apply (conclude_eq _ ((pre ++ seg) ++ segq) rest2 fd (pre ++ seg) rest1); [rewrite Hr2, <- app_assoc; reflexivity|].
      cbv beta.
      destruct (IH _ _ _ _ _ H rest2 ((pre ++ seg) ++ segq) s2 opos F eq_refl eq_refl HA2)
        as (s3 & HA3 & Hrun3).
      - right. split; [reflexivity|]. exists ((pre ++ seg) ++ segq'), 10%N. split; [rewrite Hsq, app_assoc; reflexivity|reflexivity].
      - rewrite <- app_assoc, <- Hr2. exact Hne1.
      - rewrite Hr2, app_length in HF1. slia.
      - rewrite Hrun3. exists s3. split; [exact HA3|reflexivity]. }
    rewrite (ck_hash_skip o s1 r _ _ _ Eh).
    destruct (N.eqb r 45 && rune_is (Some (fst (decode_rune (rest1 ++ fol)))) 45) eqn:Eda.
    { (* -- comment *)
      destruct start; [discriminate|].
      destruct (length rest1) as [|n1'] eqn:Eln1; [discriminate|].
      destruct (cskip NL n1' (skipn 1 (rest1 ++ fol))) as [[n2 l2]|] eqn:Ecs; [|discriminate].
      apply andb_true_iff in Eda as [Eda1 Eda2]. apply N.eqb_eq in Eda1. subst r.
      rewrite (ck_dash_at_hit s1 pre seg rest1 _ _ _ HM Eda2).
      destruct (decode_rune (rest1 ++ fol)) as [r2 wz2] eqn:D2. cbn [fst rune_is] in Eda2.
      apply N.eqb_eq in Eda2. subst r2.
      assert (wz2 = 1) as ->.
      { pose proof (fol_app_ne rest1) as Hnn.
        destruct (decode_rune_spec _ _ _ D2 Hnn) as (_ & Ha & _). destruct (Ha ltac:(slia)) as [-> _]. reflexivity. }
      destruct (step_at s1 (pre ++ seg) rest1 45%N 1 HA1 D2 ltac:(rewrite Eln1; reflexivity))
        as (seg2 & rest1' & s1' & Hr' & Hls' & Hzs' & _ & Hsk' & Hn1' & Hnx' & _ & HA1' & Hasc').
      rewrite Hnx'. cbn [bind snd]. change (Z.to_nat 1) with 1%nat in *. rewrite Hsk' in Ecs.
      assert (n1' = length rest1') as Hn1e by (rewrite Eln1 in Hn1'; slia).
      destruct (cskip_sim [45%N; 45%N] NL _ _ _ _ Ecs rest1' ((pre ++ seg) ++ seg2) s1' eq_refl Hn1e HA1')
        as (segq & segq' & rest2 & s2 & Hr2 & Hsq & Hn2 & Hl2 & Hrun & HA2).
      { destruct HP as [(Hf & _)|(_ & pre' & p' & Hpre & _)]; [discriminate|].
        rewrite Hpre, !zlen_app. pose proof (zlen_nonneg pre'). unfold zlen in *. simpl. slia. }
      rewrite Hrun. cbn [bind]. subst n2 l2.
      pattern ((pre ++ seg) ++ rest1 ++ fd).
      apply (conclude_eq _ (((pre ++ seg) ++ seg2) ++ segq) rest2 fd (pre ++ seg) rest1);
        [rewrite Hr', Hr2, <- !app_assoc; reflexivity|].
      cbv beta.
      destruct (IH _ _ _ _ _ H rest2 (((pre ++ seg) ++ seg2) ++ segq) s2 opos F eq_refl eq_refl HA2)
        as (s3 & HA3 & Hrun3).
      - right. split; [reflexivity|]. exists (((pre ++ seg) ++ seg2) ++ segq'), 10%N.
        split; [rewrite Hsq, app_assoc; reflexivity|reflexivity].
      - rewrite <- !app_assoc. intros Hx. apply app_eq_nil in Hx as [_ Hx]. apply app_eq_nil in Hx as [Hx _]. exact (Hsne Hx).
      - apply (f_equal (@length N)) in Hr', Hr2. rewrite app_length in Hr', Hr2. slia.
      - rewrite Hrun3. exists s3. split; [exact HA3|reflexivity]. }
    rewrite (ck_dash_at_skip s1 pre seg rest1 r _ _ _ HM Eda).
    destruct (N.eqb r 47 && rune_is (Some (fst (decode_rune (rest1 ++ fol)))) 42) eqn:Esl.
    { (* block comment *)
      destruct start; [discriminate|].
      destruct (length rest1) as [|n1'] eqn:Eln1; [discriminate|].
      destruct (cskip [42%N; 47%N] n1' (skipn 1 (rest1 ++ fol))) as [[n2 l2]|] eqn:Ecs; [|discriminate].
      apply andb_true_iff in Esl as [Esl1 Esl2]. apply N.eqb_eq in Esl1. subst r.
      rewrite (ck_slash_at_hit s1 pre seg rest1 _ _ _ HM Esl2).
      destruct (decode_rune (rest1 ++ fol)) as [r2 wz2] eqn:D2. cbn [fst rune_is] in Esl2.
      apply N.eqb_eq in Esl2. subst r2.
      assert (wz2 = 1) as ->.
      { pose proof (fol_app_ne rest1) as Hnn.
        destruct (decode_rune_spec _ _ _ D2 Hnn) as (_ & Ha & _). destruct (Ha ltac:(slia)) as [-> _]. reflexivity. }
      destruct (step_at s1 (pre ++ seg) rest1 42%N 1 HA1 D2 ltac:(rewrite Eln1; reflexivity))
        as (seg2 & rest1' & s1' & Hr' & Hls' & Hzs' & _ & Hsk' & Hn1' & Hnx' & _ & HA1' & Hasc').
      rewrite Hnx'. cbn [bind snd]. change (Z.to_nat 1) with 1%nat in *. rewrite Hsk' in Ecs.
      assert (n1' = length rest1') as Hn1e by (rewrite Eln1 in Hn1'; slia).
      destruct (cskip_sim [47%N; 42%N] [42%N; 47%N] _ _ _ _ Ecs rest1' ((pre ++ seg) ++ seg2) s1' eq_refl Hn1e HA1')
        as (segq & segq' & rest2 & s2 & Hr2 & Hsq & Hn2 & Hl2 & Hrun & HA2).
      { destruct HP as [(Hf & _)|(_ & pre' & p' & Hpre & _)]; [discriminate|].
        rewrite Hpre, !zlen_app. pose proof (zlen_nonneg pre'). unfold zlen in *. simpl. slia. }
      rewrite Hrun. cbn [bind]. subst n2 l2.
      pattern ((pre ++ seg) ++ rest1 ++ fd).
      apply (conclude_eq _ (((pre ++ seg) ++ seg2) ++ segq) rest2 fd (pre ++ seg) rest1);
        [rewrite Hr', Hr2, <- !app_assoc; reflexivity|].
      cbv beta.
      destruct (IH _ _ _ _ _ H rest2 (((pre ++ seg) ++ seg2) ++ segq) s2 opos F eq_refl eq_refl HA2)
        as (s3 & HA3 & Hrun3).
      - right. split; [reflexivity|]. exists (((pre ++ seg) ++ seg2) ++ segq' ++ [42%N]), 47%N.
        split; [rewrite Hsq, <- !app_assoc; reflexivity|reflexivity].
      - rewrite <- !app_assoc. intros Hx. apply app_eq_nil in Hx as [_ Hx]. apply app_eq_nil in Hx as [Hx _]. exact (Hsne Hx).
      - apply (f_equal (@length N)) in Hr', Hr2. rewrite app_length in Hr', Hr2. slia.
      - rewrite Hrun3. exists s3. split; [exact HA3|reflexivity]. }
    rewrite (ck_slash_at_skip s1 pre seg rest1 r _ _ _ HM Esl).
    match type of H with (if ?c then _ else _) = _ => destruct c eqn:Ebg; [discriminate|] end.
    rewrite ck_endterm_skip by (destruct HA1 as (_ & _ & _ & _ & Et & _); exact Et).
    rewrite (ck_begins_at F s1 pre seg rest1 start prev _ _ _ HM HP Ebg).
    cbn [bind].
    destruct (IH _ _ _ _ _ H rest1 (pre ++ seg) s1 opos F eq_refl eq_refl HA1 HP1 Hne1 HF1)
      as (s2 & HA2 & Hrun).
    rewrite Hrun. exists s2. split; [exact HA2|reflexivity].
Qed.

End Sim.

(** * Trimmed commands and [emit] *)
Lemma trim_suffix_app_eq (c p : bytes) : trim_suffix (c ++ p) p = c.
Proof.
  unfold trim_suffix, has_suffix. rewrite app_length.
  replace (length c + length p - length p)%nat with (length c) by lia.
  rewrite skipn_app_l, bytes_eqb_refl, firstn_app_l.
  replace (length p <=? length c + length p)%nat with true by lia. reflexivity.
Qed.

Lemma trim_space_fix c : trim_space c = c -> starts_space c = false /\ trim_right_space c = c.
Proof.
  intros H. unfold trim_space in H.
  destruct (trim_left_decomp c) as (sp & H1 & _ & H3).
  destruct (trim_right_decomp (trim_left_space c)) as (sp2 & H2 & _).
  rewrite H in H2.
  assert (sp = [] /\ sp2 = []) as [-> ->].
  { pose proof (f_equal (@length N) H1) as L1. pose proof (f_equal (@length N) H2) as L2.
    rewrite app_length in L1, L2. split; apply length_zero_iff_nil; lia. }
  simpl in H1. rewrite <- H1 in *. split; [exact H3|exact H].
Qed.

Lemma starts_space_app_ascii c x t :
  starts_space c = false -> c <> [] -> (x < 128)%N -> starts_space (c ++ x :: t) = false.
Proof.
  intros H Hne Hx. destruct c as [|a [|b [|c0 t']]]; [congruence| | |exact H]; cbn [app starts_space] in *.
  - unfold sp1, sp2, sp3 in *. destruct t; lia.
  - unfold sp1, sp2, sp3 in *. lia.
Qed.

Lemma trim_left_space_rev_59 x : trim_left_space_rev (59%N :: x) = 59%N :: x.
Proof.
  destruct x as [|b [|c0 t]]; cbn [trim_left_space_rev]; try reflexivity.
  - replace (sp1 59) with false by reflexivity. replace (sp2 b 59) with false by (unfold sp2; lia). reflexivity.
  - replace (sp1 59) with false by reflexivity. replace (sp2 b 59) with false by (unfold sp2; lia).
    replace (sp3 c0 b 59) with false by (unfold sp3; lia). reflexivity.
Qed.

Lemma trim_space_semi c : trim_space c = c -> c <> [] -> trim_space (c ++ [59%N]) = c ++ [59%N].
Proof.
  intros H Hne. destruct (trim_space_fix c H) as [Hs _].
  unfold trim_space. rewrite (trim_left_id (c ++ [59%N])) by (apply starts_space_app_ascii; auto; lia).
  unfold trim_right_space. rewrite rev_app_distr. cbn [rev app].
  rewrite trim_left_space_rev_59. cbn [rev]. rewrite rev_involutive. reflexivity.
Qed.

Lemma trimmed_inv cmd : trimmed cmd = true -> cmd <> [] /\ trim_space cmd = cmd.
Proof.
  unfold trimmed. destruct cmd as [|a c]; [discriminate|]. intros H. apply bytes_eqb_eq in H.
  split; [discriminate|exact H].
Qed.

Lemma emit_text o d cmd : trimmed cmd = true ->
  trim_space (if OmitDelimiter o || negb (bytes_eqb d delimiter) then trim_suffix (cmd ++ d) d else cmd ++ d)
  = stmt_text o d cmd.
Proof.
  intros Ht. destruct (trimmed_inv cmd Ht) as [Hne Hts]. unfold stmt_text.
  destruct (OmitDelimiter o || negb (bytes_eqb d delimiter)) eqn:E.
  - rewrite trim_suffix_app_eq. exact Hts.
  - apply orb_false_iff in E as [_ E]. apply negb_false_iff in E. apply bytes_eqb_eq in E. subst d.
    apply trim_space_semi; assumption.
Qed.

(** * The gap before a command *)

(** a delimiter that starts like a comment line must not contain a newline: otherwise a whole
    comment line followed by more text can be read as the delimiter (["--\nx"] after the line
    ["--\n"]), although the line alone does not start with it. *)
Definition gap_delim_ok (d : bytes) : Prop := has_prefix d [45%N; 45%N] = true -> ~ In 10%N d.

(** [Gap] with the premise the scanner needs: the line does not start with the delimiter whatever
    follows it *)
Inductive GapS (d : bytes) : bytes -> Prop :=
| gaps_nil : GapS d []
| gaps_nl g : GapS d g -> GapS d (10%N :: g)
| gaps_comment body g :
    ~ In 10%N body -> (forall t, has_prefix (([45%N; 45%N] ++ body ++ [10%N]) ++ t) d = false) ->
    GapS d g -> GapS d ([45%N; 45%N] ++ body ++ [10%N] ++ g).

Lemma Gap_GapS d g : gap_delim_ok d -> Gap d g -> GapS d g.
Proof.
  intros Hd. induction 1 as [|g HG IH|body g Hb Hp HG IH]; [constructor|constructor; exact IH|].
  apply gaps_comment; [exact Hb| |exact IH].
  intros t. set (line := [45%N; 45%N] ++ body ++ [10%N]) in *.
  destruct (has_prefix (line ++ t) d) eqn:E; [|reflexivity]. exfalso.
  destruct (Nat.le_gt_cases (length d) (length line)) as [Hle|Hgt].
  - rewrite has_prefix_app_len in E by exact Hle. congruence.
  - apply has_prefix_app in E as [r Hr].
    assert (d = line ++ skipn (length line) d) as Hdl.
    { rewrite <- (firstn_skipn (length line) d) at 1. f_equal.
      apply (f_equal (firstn (length line))) in Hr. rewrite firstn_app_l in Hr.
      rewrite firstn_app in Hr. replace (length line - length d)%nat with 0%nat in Hr by lia.
      rewrite firstn_O, app_nil_r in Hr. symmetry. exact Hr. }
    apply Hd.
    + rewrite Hdl. reflexivity.
    + rewrite Hdl. apply in_or_app. left. unfold line. cbn [app In]. right. right. apply in_or_app. right. left. reflexivity.
Qed.

Lemma next_ascii_at s a x t :
  input s = a ++ x :: t -> pos s = zlen a -> (x < 128)%N -> next s = Ok (Some x, addPos (set_width s 1) 1).
Proof.
  intros I P Hx. unfold next. rewrite I, P, zlen_app, zlen_cons.
  pose proof (zlen_nonneg a). pose proof (zlen_nonneg t).
  replace (zlen a + (1 + zlen t) <=? zlen a) with false by lia.
  rewrite slice_from_app by reflexivity. cbn [bind]. unfold decode_rune.
  replace (x <? 128)%N with true by lia. reflexivity.
Qed.

Lemma index_of_nl body rest : ~ In 10%N body -> index_of (body ++ 10%N :: rest) NL = Some (length body).
Proof.
  induction body as [|a body IH]; intros H.
  - reflexivity.
  - cbn [app index_of has_prefix NL].
    assert (a <> 10%N) as Ha by (intros ->; apply H; left; reflexivity).
    replace (N.eqb a 10) with false by lia. cbn [andb].
    change (index_of (body ++ 10%N :: rest) [10%N]) with (index_of (body ++ 10%N :: rest) NL).
    rewrite IH by (intros Hin; apply H; right; exact Hin). reflexivity.
Qed.

Lemma gap_comment_step o nested d body Y s opos F :
  GoCommand o = false -> ~ In 10%N body ->
  has_prefix (([45%N; 45%N] ++ body ++ [10%N]) ++ Y) d = false ->
  input s = ([45%N; 45%N] ++ body ++ [10%N]) ++ Y -> pos s = 0 -> delim s = d ->
  exists s', stmt_iter o nested F s 0 opos = Ok (Continue s' 0 opos) /\
    input s' = trim_left_space Y /\ pos s' = 0 /\ delim s' = d /\ endterm s' = endterm s /\
    src s' = src s /\ total s' + zlen (input s') = total s + zlen (input s).
Proof.
  intros Hgo Hb Hp I P Dl.
  set (line := [45%N; 45%N] ++ body ++ [10%N]) in *.
  assert (input s = [] ++ 45%N :: (45%N :: body ++ [10%N]) ++ Y) as I0 by (rewrite I; reflexivity).
  rewrite stmt_iter_eq, (next_ascii_at s [] 45%N _ I0 P ltac:(lia)). cbn [bind].
  set (s1 := addPos (set_width s 1) 1).
  assert (input s1 = input s) as I1 by reflexivity.
  assert (pos s1 = 1) as P1 by (unfold s1; simpl; lia).
  unfold iter_some. cbn [N.eqb Pos.eqb orb]. unfold iter_rest.
  rewrite ck_delimcmd_skip by (intros _; rewrite I1, I; reflexivity).
  rewrite ck_go_skip by exact Hgo.
  rewrite ck_delim_skip.
  2:{ intros _. exists (input s). split.
      - rewrite I1. unfold s1. simpl. rewrite P. unfold slice_from.
        pose proof (zlen_nonneg (input s)). cbn [Z.ltb Z.compare orb].
        replace (zlen (input s) <? 0 + 1 - 1) with false by lia. reflexivity.
      - unfold s1. simpl. rewrite Dl, I. exact Hp. }
  rewrite ck_dollar_skip by (cbn [N.eqb Pos.eqb]; rewrite andb_false_r; discriminate).
  rewrite ck_hash_skip by reflexivity.
  assert (input s1 = [45%N] ++ 45%N :: (body ++ [10%N]) ++ Y) as I1' by (rewrite I1, I; unfold line; rewrite <- !app_assoc; reflexivity).
  pose proof (next_ascii_at s1 [45%N] 45%N _ I1' P1 ltac:(lia)) as Hn2.
  unfold ck_dash, pick. cbn [N.eqb Pos.eqb]. rewrite Hn2. cbn [bind fst snd rune_is N.eqb Pos.eqb andb].
  set (s2 := addPos (set_width s1 1) 1).
  assert (input s2 = [45%N; 45%N] ++ body ++ 10%N :: Y) as I2 by (unfold s2; simpl; rewrite I; unfold line; rewrite <- !app_assoc; reflexivity).
  assert (pos s2 = 2) as P2 by (unfold s2, s1; simpl; lia).
  unfold comment. rewrite I2, slice_from_app by (rewrite P2; reflexivity). cbn [bind].
  rewrite index_of_nl by exact Hb.
  replace (negb (pos s2 =? zlen [45%N; 45%N])) with false by (rewrite P2; reflexivity).
  set (s3 := addPos s2 (Z.of_nat (length body) + zlen NL)).
  assert (input s3 = line ++ Y) as I3.
  { change (input s3) with (input s2). rewrite I2. unfold line. rewrite <- !app_assoc. reflexivity. }
  assert (pos s3 = zlen line) as P3.
  { change (pos s3) with (pos s2 + (Z.of_nat (length body) + zlen NL)). rewrite P2.
    unfold line, zlen. rewrite !app_length. change (length NL) with 1%nat. cbn [length]. lia. }
  assert (total s3 = total s + zlen line) as T3.
  { change (total s3) with (total s + 1 + 1 + (Z.of_nat (length body) + zlen NL)).
    unfold line, zlen. rewrite !app_length. change (length NL) with 1%nat. cbn [length]. lia. }
  assert (delim s3 = d /\ endterm s3 = endterm s /\ src s3 = src s) as (D3 & E3 & S3) by (splits; auto).
  rewrite I3. rewrite slice_to_app by exact P3. cbn [bind]. rewrite slice_from_app by exact P3. cbn [bind].
  match goal with |- exists s', Ok (Continue (skipSpaces ?x) _ _) = _ /\ _ => set (s5 := x) end.
  exists (skipSpaces s5). split; [reflexivity|].
  assert (input s5 = Y /\ pos s5 = 0 /\ delim s5 = d /\ endterm s5 = endterm s /\ src s5 = src s /\
          total s5 = total s + zlen line) as (I5 & P5 & D5 & E5 & S5 & T5).
  { unfold s5. destruct (has_prefix Y NLNL || bytes_eqb NL NL && has_prefix Y NL); simpl;
      (splits; auto). }
  unfold skipSpaces. simpl. rewrite I5, T5, I, zlen_app. splits; auto. lia.
Qed.

Lemma gap_loop o nested d X : GoCommand o = false -> starts_space X = false ->
  forall g, GapS d g -> forall s opos F,
  input s = trim_left_space (g ++ X) -> pos s = 0 -> delim s = d -> (length g <= F)%nat ->
  exists s0 F0, input s0 = X /\ pos s0 = 0 /\ delim s0 = d /\ endterm s0 = endterm s /\ src s0 = src s /\
    total s0 + zlen X = total s + zlen (input s) /\ (F <= F0 + length g)%nat /\
    stmt_loop o nested F s 0 opos = stmt_loop o nested F0 s0 0 opos.
Proof.
  intros Hgo HX. induction 1 as [|g HG IH|body g Hb Hp HG IH]; intros s opos F I P Dl HF.
  - exists s, F. cbn [app] in I. rewrite (trim_left_id _ HX) in I. rewrite I. splits; auto. lia.
  - cbn [app trim_left_space] in I. replace (sp1 10) with true in I by reflexivity.
    simpl in HF. destruct (IH s opos F I P Dl ltac:(lia)) as (s0 & F0 & H).
    exists s0, F0. destruct H as (H1 & H2 & H3 & H4 & H5 & H6 & H7 & H8). splits; auto. simpl. lia.
  - assert (trim_left_space (([45%N; 45%N] ++ body ++ [10%N] ++ g) ++ X) =
            ([45%N; 45%N] ++ body ++ [10%N]) ++ g ++ X) as E.
    { rewrite trim_left_id; [rewrite <- !app_assoc; reflexivity|].
      cbn [app starts_space].
      match goal with |- context[match ?l with [] => _ | _ :: _ => _ end] => destruct l end; reflexivity. }
    rewrite E in I.
    destruct F as [|F]; [simpl in HF; lia|].
    destruct (gap_comment_step o nested d body (g ++ X) s opos F Hgo Hb (Hp _) I P Dl)
      as (s' & Hit & I' & P' & D' & E' & S' & T').
    rewrite stmt_loop_S, Hit. cbn [bind].
    destruct (IH s' opos F I' P' D') as (s0 & F0 & H).
    { rewrite !app_length in HF. cbn [length] in HF. lia. }
    exists s0, F0. destruct H as (H1 & H2 & H3 & H4 & H5 & H6 & H7 & H8).
    splits; auto; try congruence; try lia.
    rewrite !app_length. cbn [length]. lia.
Qed.

(** * The look-ahead of this file: the delimiter and a newline *)
Section Plain.
Variable o : opts.
Variable d : bytes.
Variable tail : bytes.
Variable T : Z.
Variable SRC : bytes.
Variable nested : scanner -> res (scanner * option Stmt).
Hypothesis Hgo : GoCommand o = false.
Hypothesis Hdok : delim_ok d = true.

Lemma follow_props :
  (exists a x, d ++ [10%N] = a ++ [x; 10%N] /\ (x < 128)%N) /\
  (length d <= length (d ++ [10%N]))%nat /\ (d = [59%N] -> In 59%N (d ++ [10%N])).
Proof.
  split; [apply follow_split; exact Hdok|]. split; [rewrite app_length; lia|].
  intros ->. left. reflexivity.
Qed.

(** the delimiter after the command: [break Scan] *)
Lemma final_step F s pre opos : At d tail T SRC s pre (d ++ [10%N]) -> pre <> [] ->
  exists s1, At d tail T SRC s1 (pre ++ d) [10%N] /\
    stmt_iter o nested F s 0 opos = Ok (Break s1 (pre ++ d)).
Proof.
  intros HA Hne.
  destruct (delim_ok_inv d Hdok) as [Hasc (d0 & d' & Hd & H40 & H41 & Hq)].
  assert (d0 < 128)%N as Hd0 by (apply Hasc; rewrite Hd; left; reflexivity).
  destruct HA as (I & P & Tt & Dl & Et & Sr).
  assert (input s = pre ++ d0 :: (d' ++ [10%N]) ++ tail) as I0 by (rewrite I, Hd; reflexivity).
  rewrite stmt_iter_eq, (next_ascii_at s pre d0 _ I0 P Hd0). cbn [bind].
  set (s1 := addPos (set_width s 1) 1).
  assert (pos s1 = zlen pre + 1) as P1 by (unfold s1; simpl; lia).
  assert (1 <= zlen pre) as Hp1 by (destruct pre; [congruence|rewrite zlen_cons; pose proof (zlen_nonneg pre); lia]).
  unfold iter_some.
  replace (N.eqb d0 40) with false by lia. replace (N.eqb d0 41) with false by lia.
  change (N.eqb d0 39 || N.eqb d0 34 || N.eqb d0 96) with (is_quote d0). rewrite Hq.
  unfold iter_rest.
  rewrite ck_delimcmd_skip by lia.
  rewrite ck_go_skip by exact Hgo.
  rewrite (ck_delim_hit s1 _ ((d ++ [10%N]) ++ tail)).
  - set (s2 := addPos s1 (zlen (delim s1) - width s1)).
    assert (input s2 = (pre ++ d) ++ [10%N] ++ tail) as I2.
    { unfold s2, s1. simpl. rewrite I. rewrite <- !app_assoc. reflexivity. }
    assert (pos s2 = zlen (pre ++ d)) as P2.
    { unfold s2, s1. simpl. rewrite P, Dl, zlen_app. lia. }
    rewrite I2, (slice_to_app _ _ _ P2). cbn [bind]. exists s2. split; [|reflexivity].
    unfold At. splits; auto.
    unfold s2, s1. simpl. rewrite Tt, Dl, zlen_app. lia.
  - unfold s1. simpl. rewrite I. apply slice_from_app. lia.
  - unfold s1. simpl. rewrite Dl. apply has_prefix_app. exists ([10%N] ++ tail). rewrite <- !app_assoc. reflexivity.
Qed.

Lemma final_plain F s pre opos : At d tail T SRC s pre (d ++ [10%N]) -> pre <> [] -> (1 <= F)%nat ->
  exists s1, At d tail T SRC s1 (pre ++ d) [10%N] /\
    stmt_loop o nested F s 0 opos = (do es <- emit o s1 (pre ++ d); Ok (snd es, Some (fst es))).
Proof.
  intros HA Hne HF. destruct F as [|F]; [lia|].
  destruct (final_step F s pre opos HA Hne) as (s1 & HA1 & Hit).
  rewrite stmt_loop_S, Hit. cbn [bind]. exists s1. split; [exact HA1|reflexivity].
Qed.

Definition cw_sim_plain :=
  cw_sim o d (d ++ [10%N]) tail T SRC nested Hgo
         (proj1 follow_props) (proj1 (proj2 follow_props)) (proj2 (proj2 follow_props))
         d 1%nat final_plain.
End Plain.

(** * Main theorems *)

(** A closed command, after a gap, is read back as exactly one statement — whatever follows its
    delimiter line ([tail]); the scanner stops right after the delimiter. *)
Theorem stmt_gap_closed o d g cmd tail s f :
  GoCommand o = false -> delim_ok d = true -> gap_delim_ok d ->
  scan_closed o d cmd = true -> Gap d g ->
  input s = g ++ cmd ++ d ++ [10%N] ++ tail -> pos s = 0 -> delim s = d -> endterm s = false ->
  (length g + length cmd + length d + 4 <= f)%nat ->
  exists s' cs,
    stmt o f s = Ok (s', Some (mkStmt (total s + zlen g) (stmt_text o d cmd) cs)) /\
    input s' = 10%N :: tail /\ pos s' = 0 /\ delim s' = d /\ endterm s' = false /\
    total s' = total s + zlen g + zlen cmd + zlen d /\ src s' = src s /\ comments s' = [].
Proof.
  intros Hgo Hdok Hgd Hsc HG I P Dl Et Hf.
  unfold scan_closed in Hsc. apply andb_true_iff in Hsc as [Htr Hcw].
  destruct (trimmed_inv cmd Htr) as [Hne Hts]. destruct (trim_space_fix cmd Hts) as [Hss _].
  destruct (delim_ok_inv d Hdok) as [Hasc (d0 & d' & Hd & _)].
  set (X := cmd ++ d ++ [10%N] ++ tail) in *.
  assert (starts_space X = false) as HX.
  { unfold X. rewrite Hd. cbn [app]. apply starts_space_app_ascii; auto.
    apply Hasc. rewrite Hd. left. reflexivity. }
  destruct f as [|f']; [slia|].
  change (stmt o (S f') s) with (stmt_loop o (stmt o f') f' (skipSpaces s) 0 0).
  destruct (gap_loop o (stmt o f') d X Hgo HX g (Gap_GapS d g Hgd HG) (skipSpaces s) 0 f')
    as (s0 & F0 & I0 & P0 & D0 & E0 & S0 & T0 & HF0 & Hloop).
  { simpl. rewrite I. reflexivity. }
  { exact P. }
  { exact Dl. }
  { slia. }
  rewrite Hloop.
  assert (total s0 = total s + zlen g) as T0'.
  { simpl in T0. rewrite I, zlen_app in T0. slia. }
  assert (At d tail (total s0) (src s) s0 [] (cmd ++ d ++ [10%N])) as HA0.
  { unfold At. splits; auto.
    - rewrite I0. unfold X. cbn [app]. rewrite <- !app_assoc. reflexivity.
    - rewrite zlen_nil. slia.
    - rewrite E0. exact Et. }
  unfold follow in Hcw.
  destruct (cw_sim_plain o d tail (total s0) (src s) (stmt o f') Hgo Hdok _ _ _ _ _ _ Hcw
              cmd [] s0 0 F0 eq_refl eq_refl HA0) as (s1 & HA1 & Hrun).
  { left. auto. }
  { exact Hne. }
  { slia. }
  change (Z.of_nat 0) with 0 in Hrun. rewrite Hrun. cbn [app] in *.
  destruct HA1 as (I1 & P1 & T1 & D1 & E1 & S1).
  unfold emit. rewrite I1, slice_from_app by exact P1. cbn [bind snd fst].
  eexists. eexists. split; [|splits].
  - rewrite D1, (emit_text o d cmd Htr).
    replace (total s1 - zlen (cmd ++ d)) with (total s + zlen g) by slia. reflexivity.
  - reflexivity.
  - reflexivity.
  - exact D1.
  - exact E1.
  - simpl. rewrite T1, zlen_app. slia.
  - exact S1.
  - reflexivity.
Qed.

(** The same for the default delimiter kept in the text ([scan_closed_semi]): the command may end
    in white space (the newline that ends a trailing line comment). *)
Lemma ltrimmed_inv cmd : ltrimmed cmd = true -> cmd <> [] /\ starts_space cmd = false.
Proof.
  unfold ltrimmed. destruct cmd as [|a c]; [discriminate|]. intros H. apply bytes_eqb_eq in H.
  split; [discriminate|]. destruct (trim_left_decomp (a :: c)) as (sp & _ & _ & H3). rewrite H in H3. exact H3.
Qed.

Lemma trim_space_semi_l c : starts_space c = false -> c <> [] -> trim_space (c ++ [59%N]) = c ++ [59%N].
Proof.
  intros Hs Hne.
  unfold trim_space. rewrite (trim_left_id (c ++ [59%N])) by (apply starts_space_app_ascii; auto; lia).
  unfold trim_right_space. rewrite rev_app_distr. cbn [rev app].
  rewrite trim_left_space_rev_59. cbn [rev]. rewrite rev_involutive. reflexivity.
Qed.

Lemma scan_closed_semi_of_closed o cmd :
  OmitDelimiter o = false -> scan_closed o delimiter cmd = true -> scan_closed_semi o cmd = true.
Proof.
  intros Ho H. unfold scan_closed in H. apply andb_true_iff in H as [Ht Hc].
  unfold scan_closed_semi. rewrite Ho, Hc. cbn [negb andb]. rewrite andb_true_r.
  destruct (trimmed_inv cmd Ht) as [Hne Hts]. destruct (trim_space_fix cmd Hts) as [Hss _].
  unfold ltrimmed. destruct cmd as [|a c]; [congruence|]. rewrite (trim_left_id _ Hss). apply bytes_eqb_refl.
Qed.

Theorem stmt_gap_closed_semi o g cmd tail s f :
  GoCommand o = false ->
  scan_closed_semi o cmd = true -> Gap delimiter g ->
  input s = g ++ cmd ++ delimiter ++ [10%N] ++ tail -> pos s = 0 -> delim s = delimiter -> endterm s = false ->
  (length g + length cmd + length delimiter + 4 <= f)%nat ->
  exists s' cs,
    stmt o f s = Ok (s', Some (mkStmt (total s + zlen g) (cmd ++ delimiter) cs)) /\
    input s' = 10%N :: tail /\ pos s' = 0 /\ delim s' = delimiter /\ endterm s' = false /\
    total s' = total s + zlen g + zlen cmd + zlen delimiter /\ src s' = src s /\ comments s' = [].
Proof.
  intros Hgo Hsc HG I P Dl Et Hf.
  assert (Hdok : delim_ok delimiter = true) by reflexivity.
  assert (Hgd : gap_delim_ok delimiter) by (intros H; discriminate H).
  set (d := delimiter) in *.
  unfold scan_closed_semi in Hsc. apply andb_true_iff in Hsc as [Hsc Hcw]. apply andb_true_iff in Hsc as [Hom Htr].
  apply negb_true_iff in Hom.
  destruct (ltrimmed_inv cmd Htr) as [Hne Hss].
  destruct (delim_ok_inv d Hdok) as [Hasc (d0 & d' & Hd & _)].
  set (X := cmd ++ d ++ [10%N] ++ tail) in *.
  assert (starts_space X = false) as HX.
  { unfold X. rewrite Hd. cbn [app]. apply starts_space_app_ascii; auto.
    apply Hasc. rewrite Hd. left. reflexivity. }
  destruct f as [|f']; [slia|].
  change (stmt o (S f') s) with (stmt_loop o (stmt o f') f' (skipSpaces s) 0 0).
  destruct (gap_loop o (stmt o f') d X Hgo HX g (Gap_GapS d g Hgd HG) (skipSpaces s) 0 f')
    as (s0 & F0 & I0 & P0 & D0 & E0 & S0 & T0 & HF0 & Hloop).
  { simpl. rewrite I. reflexivity. }
  { exact P. }
  { exact Dl. }
  { slia. }
  rewrite Hloop.
  assert (total s0 = total s + zlen g) as T0'.
  { simpl in T0. rewrite I, zlen_app in T0. slia. }
  assert (At d tail (total s0) (src s) s0 [] (cmd ++ d ++ [10%N])) as HA0.
  { unfold At. splits; auto.
    - rewrite I0. unfold X. cbn [app]. rewrite <- !app_assoc. reflexivity.
    - rewrite zlen_nil. slia.
    - rewrite E0. exact Et. }
  unfold follow in Hcw.
  destruct (cw_sim_plain o d tail (total s0) (src s) (stmt o f') Hgo Hdok _ _ _ _ _ _ Hcw
              cmd [] s0 0 F0 eq_refl eq_refl HA0) as (s1 & HA1 & Hrun).
  { left. auto. }
  { exact Hne. }
  { slia. }
  change (Z.of_nat 0) with 0 in Hrun. rewrite Hrun. cbn [app] in *.
  destruct HA1 as (I1 & P1 & T1 & D1 & E1 & S1).
  unfold emit. rewrite I1, slice_from_app by exact P1. cbn [bind snd fst].
  eexists. eexists. split; [|splits].
  - rewrite D1, Hom. subst d. rewrite bytes_eqb_refl. cbn [negb orb].
    change delimiter with [59%N] in *. rewrite (trim_space_semi_l cmd Hss Hne).
    replace (total s1 - zlen (cmd ++ [59%N])) with (total s + zlen g) by slia. reflexivity.
  - reflexivity.
  - reflexivity.
  - exact D1.
  - exact E1.
  - simpl. rewrite T1, zlen_app. slia.
  - exact S1.
  - reflexivity.
Qed.

(** A gap with nothing after it: end of file. *)
Theorem stmt_gap_eof o d g s f :
  GoCommand o = false -> delim_ok d = true -> gap_delim_ok d -> Gap d g ->
  input s = g -> pos s = 0 -> delim s = d -> endterm s = false ->
  (length g + 4 <= f)%nat ->
  exists s', stmt o f s = Ok (s', None).
Proof.
  intros Hgo Hdok Hgd HG I P Dl Et Hf.
  destruct f as [|f']; [lia|].
  change (stmt o (S f') s) with (stmt_loop o (stmt o f') f' (skipSpaces s) 0 0).
  destruct (gap_loop o (stmt o f') d [] Hgo eq_refl g (Gap_GapS d g Hgd HG) (skipSpaces s) 0 f')
    as (s0 & F0 & I0 & P0 & D0 & E0 & S0 & T0 & HF0 & Hloop).
  { simpl. rewrite I, app_nil_r. reflexivity. }
  { exact P. }
  { exact Dl. }
  { lia. }
  rewrite Hloop. destruct F0 as [|F0]; [lia|].
  rewrite stmt_loop_S, stmt_iter_eq. unfold next. rewrite I0, P0.
  change (zlen [] <=? 0) with true. cbn [bind Z.ltb Z.compare]. rewrite P0. cbn [Z.ltb Z.compare bind].
  exists s0. reflexivity.
Qed.

(** * The whole file: [Scan]'s loop over a list of (gap, closed command) *)
Lemma Gap_app d a b : Gap d a -> Gap d b -> Gap d (a ++ b).
Proof.
  induction 1 as [|g HG IH|body g Hb Hp HG IH]; intros HB; [exact HB|simpl; constructor; auto|].
  replace (([45%N; 45%N] ++ body ++ [10%N] ++ g) ++ b) with ([45%N; 45%N] ++ body ++ [10%N] ++ (g ++ b))
    by (rewrite <- !app_assoc; reflexivity).
  constructor; auto.
Qed.

(** one (gap, command) of the file, as written: gap, command, delimiter, newline *)
Definition seg_bytes (d : bytes) (gc : bytes * bytes) : bytes := fst gc ++ snd gc ++ d ++ [10%N].
Definition segs_bytes (d : bytes) (segs : list (bytes * bytes)) : bytes := concat (map (seg_bytes d) segs).
(** the offsets of the commands, the first segment starting at [off] *)
Fixpoint seg_pos (d : bytes) (off : Z) (segs : list (bytes * bytes)) : list Z :=
  match segs with
  | [] => []
  | gc :: r => (off + zlen (fst gc)) :: seg_pos d (off + zlen (seg_bytes d gc)) r
  end.

Lemma scan_loop_S o f s acc : scan_loop o (S f) s acc =
    do r <- stmt o (S f) s;
    match r with
    | (_, None) => Ok (rev acc)
    | (s1, Some st) => scan_loop o f s1 (st :: acc)
    end.
Proof. reflexivity. Qed.

Lemma scan_loop_closed_gen o d gend :
  GoCommand o = false -> delim_ok d = true -> gap_delim_ok d -> Gap d gend ->
  forall segs, (forall gc, In gc segs -> Gap d (fst gc) /\ scan_closed o d (snd gc) = true) ->
  forall pg s f acc, Gap d pg ->
    input s = pg ++ segs_bytes d segs ++ gend -> pos s = 0 -> delim s = d -> endterm s = false ->
    (length (input s) + 4 <= f)%nat ->
  exists ss, scan_loop o f s acc = Ok (rev acc ++ ss) /\
    map Text ss = map (fun gc => stmt_text o d (snd gc)) segs /\
    map Pos ss = seg_pos d (total s + zlen pg) segs.
Proof.
  intros Hgo Hdok Hgd Hend. induction segs as [|[g c] r IH]; intros Hall pg s f acc Hpg I P Dl Et Hf.
  - destruct f as [|f]; [lia|]. rewrite scan_loop_S.
    destruct (stmt_gap_eof o d (pg ++ gend) s (S f) Hgo Hdok Hgd (Gap_app _ _ _ Hpg Hend)) as (s' & Hs); auto.
    { rewrite I in Hf. exact Hf. }
    rewrite Hs. cbn [bind]. exists []. rewrite app_nil_r. auto.
  - destruct (Hall (g, c) (or_introl eq_refl)) as [Hg Hc]. cbn [fst snd] in Hg, Hc.
    assert (c <> []) as Hcne.
    { unfold scan_closed in Hc. apply andb_true_iff in Hc as [Hc _]. apply trimmed_inv in Hc as [Hc _]. exact Hc. }
    assert (d <> []) as Hdne by (destruct (delim_ok_inv d Hdok) as [_ (d0 & d' & -> & _)]; discriminate).
    set (tail := segs_bytes d r ++ gend).
    assert (input s = (pg ++ g) ++ c ++ d ++ [10%N] ++ tail) as I'.
    { rewrite I. unfold tail, segs_bytes. cbn [map concat]. unfold seg_bytes at 1. cbn [fst snd].
      rewrite <- !app_assoc. reflexivity. }
    destruct f as [|f]; [lia|]. rewrite scan_loop_S.
    destruct (stmt_gap_closed o d (pg ++ g) c tail s (S f) Hgo Hdok Hgd Hc (Gap_app _ _ _ Hpg Hg) I' P Dl Et)
      as (s' & cs & Hs & I1 & P1 & D1 & E1 & T1 & S1 & C1).
    { rewrite I', !app_length in Hf. rewrite app_length. lia. }
    rewrite Hs. cbn [bind].
    destruct (IH (fun gc Hin => Hall gc (or_intror Hin)) [10%N] s' f
                 (mkStmt (total s + zlen (pg ++ g)) (stmt_text o d c) cs :: acc)
                 (gap_nl d [] (gap_nil d)) I1 P1 D1 E1) as (ss & Hrun & Htx & Hps).
    { rewrite I1. rewrite I', !app_length in Hf. cbn [length] in *.
      destruct c; [congruence|]. destruct d; [congruence|]. cbn [length] in Hf. lia. }
    exists (mkStmt (total s + zlen (pg ++ g)) (stmt_text o d c) cs :: ss).
    rewrite Hrun. cbn [rev map seg_pos fst snd Text Pos]. rewrite <- app_assoc. cbn [app].
    splits; auto.
    + rewrite Htx. reflexivity.
    + rewrite Hps. f_equal; [rewrite zlen_app; lia|]. f_equal.
      rewrite T1. unfold seg_bytes. cbn [fst snd]. rewrite !zlen_app. change (zlen [10%N]) with 1. lia.
Qed.

(** the loop of [Scan] on gap, command, delimiter line, ..., gap: one statement per command,
    with the expected texts and offsets (the closing gap [gend] may be empty). *)
Theorem scan_loop_closed o d segs gend s f acc :
  GoCommand o = false -> delim_ok d = true -> gap_delim_ok d ->
  (forall gc, In gc segs -> Gap d (fst gc) /\ scan_closed o d (snd gc) = true) -> Gap d gend ->
  input s = segs_bytes d segs ++ gend -> pos s = 0 -> delim s = d -> endterm s = false ->
  (length (input s) + 4 <= f)%nat ->
  exists ss, scan_loop o f s acc = Ok (rev acc ++ ss) /\
    map Text ss = map (fun gc => stmt_text o d (snd gc)) segs /\
    map Pos ss = seg_pos d (total s) segs.
Proof.
  intros Hgo Hdok Hgd Hall Hend I P Dl Et Hf.
  destruct (scan_loop_closed_gen o d gend Hgo Hdok Hgd Hend segs Hall [] s f acc (gap_nil d) I P Dl Et Hf)
    as (ss & H1 & H2 & H3).
  exists ss. rewrite zlen_nil, Z.add_0_r in H3. auto.
Qed.

(** [Scan] itself when the file has no delimiter directive: the delimiter is [;]. *)
Corollary scan_closed_default o segs gend :
  GoCommand o = false -> 
  (forall gc, In gc segs -> Gap delimiter (fst gc) /\ scan_closed o delimiter (snd gc) = true) ->
  Gap delimiter gend ->
  directive_delimiter (segs_bytes delimiter segs ++ gend) = None ->
  exists ss, scan o (segs_bytes delimiter segs ++ gend) = Ok ss /\
    map Text ss = map (fun gc => stmt_text o delimiter (snd gc)) segs /\
    map Pos ss = seg_pos delimiter 0 segs.
Proof.
  intros Hgo Hall Hend Hdir. unfold scan, Scan, init. rewrite Hdir. cbn [bind].
  set (inp := segs_bytes delimiter segs ++ gend) in *.
  destruct (scan_loop_closed o delimiter segs gend
              (mkScanner inp inp 0 0 0 delimiter [] (endterm (new_scanner false))) (fuel_of inp) []
              Hgo eq_refl) as (ss & H1 & H2 & H3); auto.
  - intros _. simpl. intros [H|[]]. discriminate.
  - simpl. unfold fuel_of. lia.
  - exists ss. auto.
Qed.
