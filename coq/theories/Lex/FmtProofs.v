(** C07: the file-level round trips.  Every formatter's up file is a sequence of segments
    [gap ++ cmd ++ delimiter ++ "\n"] ([gap] = newlines and whole "--" comment lines) that the scanner
    reads back statement by statement (ClosedProofs.v: stmt_gap_closed / stmt_gap_eof), after
    [Scanner.init] has dealt with the [-- atlas:delimiter] header (DefaultFormatter with
    Plan.Delimiter). *)
From Coq Require Import List NArith ZArith Bool Arith Lia.
From Atlas Require Import Base.Bytes Lex.LexModel Lex.LexProofs Lex.ClosedModel Lex.ClosedProofs Lex.FmtModel.
Import ListNotations.
Open Scope Z_scope.

(** a file body: segments (gap, command), each written as gap ++ cmd ++ d ++ "\n", then a final gap *)
Definition seg (d : bytes) (gc : bytes * bytes) : bytes := fst gc ++ snd gc ++ d ++ [10%N].
Definition body (d : bytes) (segs : list (bytes * bytes)) (gend : bytes) : bytes :=
  concat (map (seg d) segs) ++ gend.

Lemma gap_delim_ok_semi : gap_delim_ok delimiter.
Proof. intros H. discriminate H. Qed.
Lemma gap_delim_ok_nodash d : hd 0%N d <> 45%N -> gap_delim_ok d.
Proof.
  intros H Hp. exfalso. destruct d as [|x d]; [discriminate|]. simpl in *.
  destruct (N.eqb x 45) eqn:E; [apply N.eqb_eq in E; congruence|discriminate].
Qed.

Lemma scan_loop_S o f s acc : scan_loop o (S f) s acc =
  bind (stmt o (S f) s) (fun r => match r with (_, None) => Ok (rev acc) | (s1, Some st) => scan_loop o f s1 (st :: acc) end).
Proof. reflexivity. Qed.

Lemma scan_loop_segs o d gend :
  GoCommand o = false -> delim_ok d = true -> gap_delim_ok d -> Gap d gend ->
  forall segs s f acc g,
  Forall (fun gc => Gap d (fst gc) /\ scan_closed o d (snd gc) = true) segs ->
  Gap d g -> input s = g ++ body d segs gend -> pos s = 0 -> delim s = d -> endterm s = false ->
  (length (input s) + 5 <= f)%nat ->
  exists ss, scan_loop o f s acc = Ok (rev acc ++ ss) /\
             map Text ss = map (fun gc => stmt_text o d (snd gc)) segs.
Proof.
  intros Hgo Hd Hgd Hgend. induction segs as [|[g1 c1] segs IH]; intros s f acc g Hall Hg Hin Hp Hdl Het Hf.
  - unfold body in Hin. simpl in Hin.
    destruct f as [|f]; [lia|]. rewrite scan_loop_S.
    destruct (stmt_gap_eof o d (g ++ gend) s (S f) Hgo Hd Hgd (Gap_app _ _ _ Hg Hgend) Hin Hp Hdl Het) as [s' Hs'].
    { rewrite Hin in Hf. lia. }
    rewrite Hs'. cbn [bind]. exists []. rewrite app_nil_r. split; reflexivity.
  - apply Forall_cons_iff in Hall as [[Hg1 Hc1] Hall']. simpl in Hg1, Hc1.
    destruct f as [|f]; [lia|]. rewrite scan_loop_S.
    assert (Hin' : input s = (g ++ g1) ++ c1 ++ d ++ [10%N] ++ body d segs gend).
    { rewrite Hin. unfold body. simpl. unfold seg at 1. simpl. repeat rewrite <- app_assoc. reflexivity. }
    destruct (stmt_gap_closed o d (g ++ g1) c1 (body d segs gend) s (S f) Hgo Hd Hgd Hc1 (Gap_app _ _ _ Hg Hg1) Hin' Hp Hdl Het)
      as (s' & cs & Hst & Hi' & Hp' & Hd' & He' & _ & _ & _).
    { rewrite Hin' in Hf. repeat rewrite app_length in Hf. repeat rewrite app_length. simpl in *. lia. }
    rewrite Hst. cbn [bind].
    destruct (IH s' f (mkStmt (total s + zlen (g ++ g1)) (stmt_text o d c1) cs :: acc) [10%N] Hall'
                 (gap_nl _ _ (gap_nil _))) as (ss & Hss & Hts); auto.
    { rewrite Hi'. rewrite Hin' in Hf. repeat rewrite app_length in Hf. simpl in *.
      assert (1 <= length c1)%nat.
      { destruct c1; [|simpl; lia]. unfold scan_closed in Hc1. simpl in Hc1. discriminate. }
      lia. }
    exists (mkStmt (total s + zlen (g ++ g1)) (stmt_text o d c1) cs :: ss).
    split.
    + rewrite Hss. simpl. rewrite <- app_assoc. reflexivity.
    + simpl. rewrite Hts. reflexivity.
Qed.

(** ** init *)
Lemma has_prefix_printable s p : has_prefix (printable_prefix s) p = true -> has_prefix s p = true.
Proof.
  revert s; induction p as [|b p IH]; intros s H; [reflexivity|].
  destruct s as [|a s]; simpl in H; [discriminate|].
  destruct (printable a); simpl in H; [|discriminate].
  apply andb_true_iff in H as [H1 H2]. simpl. rewrite H1. simpl. apply IH. exact H2.
Qed.
Lemma directive_none inp : has_prefix inp S_HDR = false -> directive_delimiter inp = None.
Proof.
  intros H. unfold directive_delimiter.
  destruct (has_prefix (printable_prefix inp) S_HDR) eqn:E; [|reflexivity].
  apply has_prefix_printable in E. congruence.
Qed.
Lemma init_plain inp : has_prefix inp S_HDR = false ->
  init (new_scanner false) inp = Ok (mkScanner inp inp 0 0 0 delimiter [] false).
Proof. intros H. unfold init. rewrite (directive_none _ H). reflexivity. Qed.

Definition texts_of (r : res (list Stmt)) : option (list bytes) := texts (of_scan r).

(** a body scanned with the default delimiter *)
Lemma scan_default_body o segs gend :
  GoCommand o = false -> Gap delimiter gend ->
  Forall (fun gc => Gap delimiter (fst gc) /\ scan_closed o delimiter (snd gc) = true) segs ->
  has_prefix (body delimiter segs gend) S_HDR = false ->
  texts_of (scan o (body delimiter segs gend)) = Some (map (fun gc => stmt_text o delimiter (snd gc)) segs).
Proof.
  intros Hgo Hge Hall Hh. unfold texts_of, scan, Scan. rewrite (init_plain _ Hh). cbn [bind].
  destruct (scan_loop_segs o delimiter gend Hgo eq_refl gap_delim_ok_semi Hge segs
              (mkScanner (body delimiter segs gend) (body delimiter segs gend) 0 0 0 delimiter [] false)
              (fuel_of (body delimiter segs gend)) [] [] Hall (gap_nil _)) as (ss & Hs & Ht); try reflexivity.
  { simpl. unfold fuel_of. lia. }
  rewrite Hs. simpl. rewrite Ht. reflexivity.
Qed.

(** one unfolding of the walker (generated from ClosedModel.v) *)
Lemma cw_unfold o d f' start prev depth n l : cw o d (S f') start prev depth n l =

    match n with
    | O => (depth =? 0)%nat
    | S _ =>
      let '(r, wz) := decode_rune l in
      let w := Z.to_nat wz in
      if (w =? 0)%nat || (n <? w)%nat then false else
      let n1 := (n - w)%nat in
      let l1 := skipn w l in
      let pv := byte_before w l in
      if N.eqb r 40 then cw o d f' false pv (S depth) n1 l1
      else if N.eqb r 41 then
        match depth with O => false | S d' => cw o d f' false pv d' n1 l1 end
      else if is_quote r then
        match qloop f' r (BackslashEscapes o) n1 l1 with
        | Some (n2, l2) => cw o d f' false (Some r) depth n2 l2
        | None => false
        end
      else if start && (w =? 1)%nat && has_prefix_ci l W_DELIMITER then false
      else if (depth =? 0)%nat && has_prefix l d then false
      else if MatchDollarQuote o && N.eqb r 36 && is_some (re_dollar_quote l) then
        match re_dollar_quote l with
        | Some m =>
          if (n <? m)%nat then false else
          match dloop f' (firstn m l) (n - m)%nat (skipn m l) with
          | Some (n2, l2) => cw o d f' false (Some 36%N) depth n2 l2
          | None => false
          end
        | None => false
        end
      else if N.eqb r 35 && HashComments o then
        if start then false else
        match cskip NL n1 l1 with
        | Some (n2, l2) => cw o d f' false (Some 10%N) depth n2 l2
        | None => false
        end
      else if N.eqb r 45 && rune_is (Some (fst (decode_rune l1))) 45 then
        if start then false else
        match n1 with
        | O => false
        | S n1' =>
          match cskip NL n1' (skipn 1 l1) with
          | Some (n2, l2) => cw o d f' false (Some 10%N) depth n2 l2
          | None => false
          end
        end
      else if N.eqb r 47 && rune_is (Some (fst (decode_rune l1))) 42 then
        if start then false else
        match n1 with
        | O => false
        | S n1' =>
          match cskip [42%N; 47%N] n1' (skipn 1 l1) with
          | Some (n2, l2) => cw o d f' false (Some 47%N) depth n2 l2
          | None => false
          end
        end
      else if begin_live o d &&
              (begin_hint (skipn (w - 1) l) ||
               begin_hint (match w, prev with
                           | 1%nat, Some p => p :: l
                           | 1%nat, None => l
                           | _, _ => skipn (w - 2) l
                           end))
      then false
      else cw o d f' false pv depth n1 l1
    end.
Proof. reflexivity. Qed.

(** ** closed commands do not start with a comment opener / the header *)
Lemma closed_not_dashdash o d cmd : scan_closed o d cmd = true -> has_prefix cmd [45%N; 45%N] = false.
Proof.
  intros H. destruct cmd as [|a [|b t]]; try reflexivity.
  { simpl. apply andb_false_r. }
  simpl has_prefix. destruct (N.eqb a 45) eqn:Ea; [|reflexivity]. destruct (N.eqb b 45) eqn:Eb; [|reflexivity].
  apply N.eqb_eq in Ea. apply N.eqb_eq in Eb. subst a b. exfalso.
  unfold scan_closed in H. apply andb_true_iff in H as [_ H].
  cbn [length] in H. rewrite cw_unfold in H.
  change ((45%N :: 45%N :: t) ++ follow d) with (45%N :: 45%N :: (t ++ follow d)) in H.
  change (decode_rune (45%N :: 45%N :: t ++ follow d)) with (45%N, 1%Z) in H.
  cbv zeta beta iota in H. change (Z.to_nat 1) with 1%nat in H.
  cbn -[has_prefix has_prefix_ci cw begin_hint] in H.
  destruct (has_prefix_ci _ W_DELIMITER) in H; [discriminate H|].
  destruct (has_prefix _ d) in H; [discriminate H|].
  destruct (MatchDollarQuote o && false && false) in H; discriminate H.
Qed.

(** ** comments *)
Definition S_ATLAS_DELIM : bytes := S_ATLAS ++ S_DELIMITER.     (* "atlas:delimiter" *)
(** a comment the templates can write on one line: no newline; it does not read as the
    [atlas:delimiter] directive when it is the first line of a sqltool file *)
Definition comment_ok2 (c : bytes) : bool := comment_ok c && negb (has_prefix c S_ATLAS_DELIM).

Lemma comment_ok_notin c : comment_ok c = true -> ~ In 10%N c.
Proof.
  unfold comment_ok. rewrite negb_true_iff. intros H Hin.
  assert (existsb (N.eqb 10) c = true) as E; [|congruence].
  apply existsb_exists. exists 10%N. split; [exact Hin|reflexivity].
Qed.

Lemma has_prefix_snoc a x p : has_prefix (a ++ [x]) p = true -> ~ In x p -> has_prefix a p = true.
Proof.
  revert a; induction p as [|b p IH]; intros a H Hn; [reflexivity|].
  destruct a as [|y a]; simpl in H.
  - apply andb_true_iff in H as [H _]. apply N.eqb_eq in H. subst. exfalso. apply Hn. left. reflexivity.
  - apply andb_true_iff in H as [H1 H2]. simpl. rewrite H1. simpl. apply IH; [exact H2|].
    intros Hin. apply Hn. right. exact Hin.
Qed.

Lemma comment_line_gap d pre c :
  ~ In 10%N pre -> comment_ok c = true -> has_prefix ([45%N; 45%N] ++ (pre ++ c) ++ [10%N]) d = false ->
  Gap d ([45%N; 45%N] ++ pre ++ c ++ [10%N]).
Proof.
  intros Hp Hc Hd.
  replace ([45%N; 45%N] ++ pre ++ c ++ [10%N]) with ([45%N; 45%N] ++ (pre ++ c) ++ [10%N] ++ []).
  - constructor; [|exact Hd|constructor].
    intros Hin. apply in_app_or in Hin as [Hin|Hin]; [auto|]. apply (comment_ok_notin _ Hc Hin).
  - simpl. rewrite <- app_assoc. reflexivity.
Qed.

(** ** golang-migrate / flyway up files (generic scanner, default delimiter) *)
Definition tool_seg (c : change) : bytes * bytes := (tool_comment S_DASH2_SP (c_comment c), c_cmd c).

Lemma tool_up_body p : tool_up p = body delimiter (map tool_seg (p_changes p)) [].
Proof.
  unfold tool_up, body. rewrite app_nil_r. f_equal. rewrite map_map. apply map_ext. intros c.
  unfold tool_change, seg, tool_seg. simpl. reflexivity.
Qed.

Lemma tool_comment_gap c : comment_ok c = true -> Gap delimiter (tool_comment S_DASH2_SP c).
Proof.
  intros Hc. destruct c as [|x c]; [constructor|].
  unfold tool_comment, S_DASH2_SP, S_NL.
  change ([45%N; 45%N; 32%N] ++ (x :: c) ++ [10%N]) with ([45%N; 45%N] ++ [32%N] ++ (x :: c) ++ [10%N]).
  apply comment_line_gap; [|exact Hc|reflexivity].
  intros [H|[]]. discriminate.
Qed.

Lemma not_in_10_atlas_delim : ~ In 10%N S_ATLAS_DELIM.
Proof. vm_compute. intuition discriminate. Qed.

(** the file does not start with the [-- atlas:delimiter] header *)
Lemma seg_no_hdr d o g c rest :
  scan_closed o d c = true -> (g = [] \/ exists cm, g = S_DASH2_SP ++ cm ++ S_NL /\ has_prefix cm S_ATLAS_DELIM = false) ->
  hd 0%N d <> 45%N -> d <> [] ->
  has_prefix (g ++ c ++ d ++ rest) S_HDR = false.
Proof.
  intros Hc [->|(cm & -> & Hcm)] Hd Hdn.
  - simpl. pose proof (closed_not_dashdash _ _ _ Hc) as Hdd.
    destruct c as [|a [|b t]].
    + unfold scan_closed in Hc. simpl in Hc. discriminate.
    + simpl. destruct (N.eqb a 45); [|reflexivity]. simpl.
      destruct d as [|x d']; [congruence|]. simpl in *.
      destruct (N.eqb x 45) eqn:E; [apply N.eqb_eq in E; congruence|reflexivity].
    + simpl in *. destruct (N.eqb a 45); [|reflexivity]. destruct (N.eqb b 45); [discriminate|reflexivity].
  - unfold S_DASH2_SP, S_NL, S_HDR.
    change (([45%N; 45%N; 32%N] ++ cm ++ [10%N]) ++ c ++ d ++ rest)
      with (45%N :: 45%N :: 32%N :: ((cm ++ [10%N]) ++ c ++ d ++ rest)).
    change ([45%N; 45%N; 32%N] ++ S_ATLAS ++ S_DELIMITER) with (45%N :: 45%N :: 32%N :: S_ATLAS_DELIM).
    cbn [has_prefix]. change (N.eqb 45 45) with true. change (N.eqb 32 32) with true. cbn [andb].
    rewrite has_prefix_app_nl; [|apply in_or_app; right; left; reflexivity|exact not_in_10_atlas_delim].
    destruct (has_prefix (cm ++ [10%N]) S_ATLAS_DELIM) eqn:E; [|reflexivity].
    apply has_prefix_snoc in E; [congruence|exact not_in_10_atlas_delim].
Qed.

Theorem tool_up_roundtrip p :
  Forall (fun c => scan_closed opts_generic delimiter (c_cmd c) = true /\ comment_ok2 (c_comment c) = true) (p_changes p) ->
  texts_of (Stmts (tool_up p)) = Some (map (fun c => stmt_text opts_generic delimiter (c_cmd c)) (p_changes p)).
Proof.
  intros Hall. unfold Stmts. rewrite tool_up_body.
  rewrite scan_default_body; [rewrite map_map; reflexivity|reflexivity|constructor| |].
  - rewrite Forall_map. eapply Forall_impl; [|exact Hall]. intros c [H1 H2]. simpl.
    split; [|exact H1]. apply tool_comment_gap. unfold comment_ok2 in H2. apply andb_true_iff in H2 as [H2 _]. exact H2.
  - rewrite <- tool_up_body. unfold tool_up. destruct (p_changes p) as [|c cs]; [reflexivity|].
    apply Forall_cons_iff in Hall as [[H1 H2] _]. simpl concat. unfold tool_change at 1.
    unfold S_SEMI_NL. change [59%N; 10%N] with (delimiter ++ [10%N]).
    repeat rewrite <- app_assoc.
    apply (seg_no_hdr delimiter opts_generic); [exact H1| |discriminate|discriminate].
    unfold comment_ok2 in H2. apply andb_true_iff in H2 as [_ H2]. rewrite negb_true_iff in H2.
    unfold tool_comment. destruct (c_comment c) as [|x cm] eqn:Ec; [left; reflexivity|].
    right. exists (x :: cm). split; [reflexivity|exact H2].
Qed.

(** ** the [-- atlas:delimiter] header: dir.go delim / lex.go init, setDelim *)
Lemma unescape_cons_ne b t : b <> 92%N -> unescape_delim (b :: t) = b :: unescape_delim t.
Proof.
  intros H. destruct b as [|p]; [destruct t; reflexivity|].
  repeat (destruct p as [p|p|]; try (destruct t; reflexivity); try (exfalso; apply H; reflexivity)).
Qed.
Lemma unescape_escape d : ~ In 92%N d -> unescape_delim (escape_delim d) = d.
Proof.
  induction d as [|b d IH]; intros Hn; [reflexivity|].
  assert (Hb : b <> 92%N) by (intros ->; apply Hn; left; reflexivity).
  assert (Hd : ~ In 92%N d) by (intros H; apply Hn; right; exact H).
  simpl. destruct (N.eqb b 10) eqn:E1; [apply N.eqb_eq in E1; subst; simpl; rewrite IH; auto|].
  destruct (N.eqb b 13) eqn:E2; [apply N.eqb_eq in E2; subst; simpl; rewrite IH; auto|].
  destruct (N.eqb b 9) eqn:E3; [apply N.eqb_eq in E3; subst; simpl; rewrite IH; auto|].
  rewrite unescape_cons_ne by exact Hb. rewrite IH; auto.
Qed.

Lemma printable_prefix_stop a r : forallb printable a = true -> printable_prefix (a ++ 10%N :: r) = a.
Proof.
  induction a as [|x a IH]; intros H; simpl; [reflexivity|].
  simpl in H. apply andb_true_iff in H as [H1 H2]. rewrite H1. rewrite IH by exact H2. reflexivity.
Qed.

Lemma index_of_nl a r : ~ In 10%N a -> index_of (a ++ 10%N :: r) NL = Some (length a).
Proof.
  induction a as [|x a IH]; intros H; simpl.
  - reflexivity.
  - destruct (N.eqb x 10) eqn:E; [apply N.eqb_eq in E; subst; exfalso; apply H; left; reflexivity|].
    simpl. rewrite IH; [reflexivity|]. intros Hin. apply H. right. exact Hin.
Qed.

Lemma has_atlas_w_cons_ne c y : atlas_w (c :: y) = false -> has_atlas_w (c :: y) = has_atlas_w y.
Proof. intros H. simpl has_atlas_w. rewrite H. reflexivity. Qed.

Lemma has_atlas_w_nocolon y : ~ In 58%N y -> has_atlas_w y = false.
Proof.
  induction y as [|c y IH]; intros H; [reflexivity|].
  simpl has_atlas_w. rewrite IH by (intros Hin; apply H; right; exact Hin). rewrite orb_false_r.
  unfold atlas_w. destruct (has_prefix (c :: y) S_ATLAS) eqn:E; [|reflexivity].
  apply has_prefix_app in E as [r Hr]. exfalso. apply H. rewrite Hr. unfold S_ATLAS. simpl.
  do 5 right. left. reflexivity.
Qed.

(** what [delim_ok] gives about the escaped delimiter *)
Lemma escape_facts d : forallb delim_byte_ok d = true ->
  forallb printable (escape_delim d) = true /\ ~ In 10%N (escape_delim d) /\ ~ In 58%N (escape_delim d) /\ ~ In 92%N d.
Proof.
  induction d as [|b d IH]; intros H; [repeat split; auto|].
  simpl in H. apply andb_true_iff in H as [Hb H]. destruct (IH H) as (I1 & I2 & I3 & I4).
  unfold delim_byte_ok, ascii in Hb.
  apply andb_true_iff in Hb as [Hb Hr]. apply andb_true_iff in Hb as [Hb H58]. apply andb_true_iff in Hb as [Hasc H92].
  rewrite negb_true_iff in H58, H92. apply N.eqb_neq in H58. apply N.eqb_neq in H92.
  simpl.
  destruct (N.eqb b 10) eqn:E1; [simpl; rewrite I1; repeat split; auto; simpl; intuition (try discriminate)|].
  destruct (N.eqb b 13) eqn:E2; [simpl; rewrite I1; repeat split; auto; simpl; intuition (try discriminate)|].
  destruct (N.eqb b 9) eqn:E3; [simpl; rewrite I1; repeat split; auto; simpl; intuition (try discriminate)|].
  simpl in Hr. apply N.eqb_neq in E1.
  assert (printable b = true) as Hp by (unfold printable; exact Hr).
  simpl. rewrite Hp, I1. repeat split; auto; simpl; intuition congruence.
Qed.

Lemma escape_hd d b : hd 0%N d = b -> d <> [] -> b <> 32%N -> hd 0%N (escape_delim d) <> 32%N /\ escape_delim d <> [].
Proof.
  destruct d as [|x d]; [congruence|]. simpl. intros <- _ Hb.
  destruct (N.eqb x 10); [split; discriminate|]. destruct (N.eqb x 13); [split; discriminate|].
  destruct (N.eqb x 9); [split; discriminate|]. split; [exact Hb|discriminate].
Qed.

Lemma init_delim d rest :
  delim_ok d = true ->
  exists s, init (new_scanner false) (delim_line d ++ 10%N :: rest) = Ok s /\
            input s = rest /\ pos s = 0 /\ delim s = d /\ endterm s = false.
Proof.
  intros Hd. unfold delim_ok in Hd. destruct d as [|d0 d'] eqn:Ed; [discriminate|]. rewrite <- Ed in *.
  apply andb_true_iff in Hd as [Hd Hl]. apply andb_true_iff in Hd as [Hall Hd0].
  destruct (escape_facts d Hall) as (P1 & P2 & P3 & P4).
  assert (Hd32 : d0 <> 32%N).
  { rewrite negb_true_iff in Hd0. repeat (apply orb_false_iff in Hd0 as [Hd0 ?]). apply N.eqb_neq. assumption. }
  destruct (escape_hd d d0) as [E1 E2]; [rewrite Ed; reflexivity|rewrite Ed; discriminate|exact Hd32|].
  set (inp := delim_line d ++ 10%N :: rest).
  assert (Hdir : directive_delimiter inp = Some (escape_delim d)).
  { unfold directive_delimiter, inp. rewrite printable_prefix_stop.
    2:{ unfold delim_line, S_DELIM_DIRECTIVE. rewrite forallb_app. rewrite P1. reflexivity. }
    unfold delim_line, S_DELIM_DIRECTIVE. rewrite <- app_assoc.
    rewrite (has_prefix_app_true S_HDR _ S_HDR) by (apply has_prefix_app; exists []; rewrite app_nil_r; reflexivity).
    rewrite skipn_app_l. cbn [app]. cbn [re_w N.eqb Pos.eqb orb andb N.leb N.compare Pos.compare Pos.compare_cont].
    change (re_w 32) with false. cbv iota.
    replace (skipn 4 (S_HDR ++ 32%N :: escape_delim d)) with
      ([116;108;97;115;58;100;101;108;105;109;105;116;101;114;32]%N ++ escape_delim d) by reflexivity.
    assert (has_atlas_w ([116;108;97;115;58;100;101;108;105;109;105;116;101;114;32]%N ++ escape_delim d) = false) as ->.
    { cbn -[has_atlas_w has_prefix]. 
      repeat (rewrite (has_atlas_w_cons_ne); [|reflexivity]). apply has_atlas_w_nocolon. exact P3. }
    change (N.eqb 32 32) with true. cbv iota. f_equal.
    destruct (escape_delim d) as [|c t]; [congruence|]. simpl in E1. simpl.
    destruct c as [|pc]; [reflexivity|]. 
    repeat (destruct pc as [pc|pc|]; try reflexivity; try (exfalso; apply E1; reflexivity)). }
  unfold init. fold inp. rewrite Hdir.
  assert (Hsd : forall s x, x <> [] -> setDelim s x = Ok (set_delim s (unescape_delim x)))
    by (intros s0 x; destruct x; [congruence|reflexivity]).
  rewrite Hsd by exact E2. cbn [bind].
  rewrite (unescape_escape d P4).
  unfold inp at 1. rewrite index_of_nl.
  2:{ unfold delim_line. intros Hin. apply in_app_or in Hin as [Hin|Hin]; [|exact (P2 Hin)].
      revert Hin. vm_compute. intuition discriminate. }
  eexists. split; [reflexivity|]. split; [|repeat split].
  unfold set_total, set_input, set_delim. cbn [input].
  unfold inp. replace (S (length (delim_line d))) with (length (delim_line d ++ [10%N])) by (rewrite app_length; simpl; lia).
  replace (delim_line d ++ 10%N :: rest) with ((delim_line d ++ [10%N]) ++ rest) by (rewrite <- app_assoc; reflexivity).
  apply skipn_app_l.
Qed.

(** ** DefaultFormatter *)
Definition atlas_seg (c : change) : bytes * bytes := (atlas_comment (c_comment c), c_cmd c).

Lemma atlas_changes_body dl cs :
  concat (map (atlas_change dl) cs) = body (or_delim dl) (map atlas_seg cs) [].
Proof.
  unfold body. rewrite app_nil_r. f_equal. rewrite map_map. apply map_ext. intros c. reflexivity.
Qed.

Lemma upper_not_nl b : b <> 10%N -> upper b <> 10%N.
Proof.
  unfold upper. intros H. destruct ((97 <=? b)%N && (b <=? 122)%N) eqn:E; [|exact H].
  apply andb_true_iff in E as [E1 E2]. apply N.leb_le in E1. apply N.leb_le in E2. lia.
Qed.
Lemma upper_not_a b : upper b <> 97%N.
Proof.
  unfold upper. destruct ((97 <=? b)%N && (b <=? 122)%N) eqn:E.
  - apply andb_true_iff in E as [E1 E2]. apply N.leb_le in E1. apply N.leb_le in E2. lia.
  - intros ->. discriminate.
Qed.

Lemma comment_ok_cons b t : comment_ok (b :: t) = true -> b <> 10%N /\ comment_ok t = true.
Proof.
  unfold comment_ok. simpl. rewrite negb_true_iff. intros H. apply orb_false_iff in H as [H1 H2].
  split; [|rewrite H2; reflexivity]. intros ->. discriminate.
Qed.

Lemma dash_not_delim d x : hd 0%N d <> 45%N -> d <> [] -> has_prefix (45%N :: x) d = false.
Proof.
  destruct d as [|y d]; [congruence|]. intros H _. cbn [has_prefix hd] in *.
  destruct (N.eqb 45 y) eqn:E; [apply N.eqb_eq in E; congruence|reflexivity].
Qed.

Lemma atlas_comment_gap d c : hd 0%N d <> 45%N -> d <> [] -> comment_ok c = true -> Gap d (atlas_comment c).
Proof.
  intros Hd Hn Hc. destruct c as [|b t]; [constructor|].
  destruct (comment_ok_cons _ _ Hc) as [Hb Ht].
  unfold atlas_comment, S_DASH2_SP, S_NL.
  replace ([45%N; 45%N; 32%N] ++ upper1 b ++ t ++ [10%N]) with ([45%N; 45%N] ++ (32%N :: upper1 b) ++ t ++ [10%N])
    by (simpl; reflexivity).
  apply comment_line_gap; [|exact Ht|apply dash_not_delim; assumption].
  unfold upper1. destruct (b <? 128)%N.
  - intros [H|[H|[]]]; [discriminate|]. exact (upper_not_nl b Hb H).
  - intros [H|[H|[H|[H|[]]]]]; discriminate.
Qed.

(** directive lines other than the delimiter one: whole [--] comment lines *)
Definition directive_ok (x : bytes) : bool :=
  has_prefix x [45%N; 45%N] && comment_ok x && negb (has_prefix x S_HDR).

Lemma directive_line_gap d x g : hd 0%N d <> 45%N -> d <> [] -> directive_ok x = true -> Gap d g -> Gap d (x ++ 10%N :: g).
Proof.
  intros Hd Hn Hx Hg. unfold directive_ok in Hx.
  apply andb_true_iff in Hx as [Hx _]. apply andb_true_iff in Hx as [Hp Hc].
  apply has_prefix_app in Hp as [b Hb]. subst x.
  replace (([45%N; 45%N] ++ b) ++ 10%N :: g) with ([45%N; 45%N] ++ b ++ [10%N] ++ g) by reflexivity.
  constructor; [|apply dash_not_delim; assumption|exact Hg].
  intros Hin. apply (comment_ok_notin _ Hc). right. right. exact Hin.
Qed.

Lemma dirs_gap d ds : hd 0%N d <> 45%N -> d <> [] -> Forall (fun x => directive_ok x = true) ds -> ds <> [] ->
  Gap d (join S_NL ds ++ [10%N; 10%N]).
Proof.
  intros Hd Hn. induction ds as [|x ds IH]; intros Hall Hne; [congruence|].
  apply Forall_cons_iff in Hall as [Hx Hall].
  destruct ds as [|y ds'].
  - simpl. apply directive_line_gap; auto. repeat constructor.
  - change (join S_NL (x :: y :: ds')) with (x ++ S_NL ++ join S_NL (y :: ds')).
    unfold S_NL at 1. repeat rewrite <- app_assoc. apply directive_line_gap; auto. apply IH; [exact Hall|discriminate].
Qed.

Lemma hdr_not_prefix_line x rest : has_prefix x S_HDR = false -> has_prefix (x ++ 10%N :: rest) S_HDR = false.
Proof.
  intros H. replace (x ++ 10%N :: rest) with ((x ++ [10%N]) ++ rest) by (rewrite <- app_assoc; reflexivity).
  rewrite has_prefix_app_nl; [|apply in_or_app; right; left; reflexivity|vm_compute; intuition discriminate].
  destruct (has_prefix (x ++ [10%N]) S_HDR) eqn:E; [|reflexivity].
  apply has_prefix_snoc in E; [congruence|vm_compute; intuition discriminate].
Qed.

Definition opt_gap (ds : list bytes) : bytes := match ds with [] => [] | _ => join S_NL ds ++ [10%N; 10%N] end.

(** the content with the default delimiter (no header line) *)
Lemma scan_plain o g segs gend :
  GoCommand o = false -> Gap delimiter g -> Gap delimiter gend ->
  Forall (fun gc => Gap delimiter (fst gc) /\ scan_closed o delimiter (snd gc) = true) segs ->
  has_prefix (g ++ body delimiter segs gend) S_HDR = false ->
  texts_of (scan o (g ++ body delimiter segs gend)) = Some (map (fun gc => stmt_text o delimiter (snd gc)) segs).
Proof.
  intros Hgo Hg Hge Hall Hh. unfold texts_of, scan, Scan. rewrite (init_plain _ Hh). cbn [bind].
  set (inp := g ++ body delimiter segs gend).
  destruct (scan_loop_segs o delimiter gend Hgo eq_refl gap_delim_ok_semi Hge segs
              (mkScanner inp inp 0 0 0 delimiter [] false)
              (fuel_of inp) [] g Hall Hg) as (ss & Hs & Ht); try reflexivity.
  { simpl. unfold fuel_of. lia. }
  rewrite Hs. simpl. rewrite Ht. reflexivity.
Qed.

Definition change_ok (o : opts) (d : bytes) (c : change) : Prop :=
  scan_closed o d (c_cmd c) = true /\ comment_ok (c_comment c) = true.

Theorem atlas_roundtrip o p :
  GoCommand o = false ->
  (p_delim p = [] \/ (delim_ok (p_delim p) = true /\ hd 0%N (p_delim p) <> 45%N)) ->
  Forall (fun x => directive_ok x = true) (p_directives p) ->
  Forall (change_ok o (or_delim (p_delim p))) (p_changes p) ->
  texts_of (scan o (atlas_content p)) =
  Some (map (fun c => stmt_text o (or_delim (p_delim p)) (c_cmd c)) (p_changes p)).
Proof.
  intros Hgo Hdl Hdirs Hall. unfold atlas_content. rewrite atlas_changes_body.
  destruct Hdl as [Hd|[Hd Hd45]].
  - (* default delimiter *)
    rewrite Hd in *. simpl or_delim in *. unfold directives. rewrite Hd. simpl app.
    change (match p_directives p with [] => [] | _ :: _ => join S_NL (p_directives p) ++ [10%N; 10%N] end)
      with (opt_gap (p_directives p)).
    rewrite scan_plain; [rewrite map_map; reflexivity|exact Hgo| |constructor| |].
    + unfold opt_gap. destruct (p_directives p) eqn:E; [constructor|]. rewrite <- E in *.
      apply dirs_gap; [discriminate|discriminate|exact Hdirs|rewrite E; discriminate].
    + rewrite Forall_map. eapply Forall_impl; [|exact Hall]. intros c [H1 H2]. simpl. split; [|exact H1].
      apply atlas_comment_gap; [discriminate|discriminate|exact H2].
    + unfold opt_gap. destruct (p_directives p) as [|x ds] eqn:E.
      * simpl app. unfold body. destruct (p_changes p) as [|c cs]; [reflexivity|].
        apply Forall_cons_iff in Hall as [[H1 H2] _]. simpl map. simpl concat. unfold seg at 1. simpl fst. simpl snd.
        repeat rewrite <- app_assoc.
        apply (seg_no_hdr delimiter o); [exact H1| |discriminate|discriminate].
        unfold atlas_comment. destruct (c_comment c) as [|b t]; [left; reflexivity|]. right.
        exists (upper1 b ++ t). split; [rewrite <- app_assoc; reflexivity|].
        unfold upper1. destruct (b <? 128)%N; simpl.
        -- destruct (N.eqb (upper b) 97) eqn:E2; [apply N.eqb_eq in E2; exfalso; exact (upper_not_a b E2)|reflexivity].
        -- reflexivity.
      * apply Forall_cons_iff in Hdirs as [Hx _]. unfold directive_ok in Hx. apply andb_true_iff in Hx as [_ Hx].
        rewrite negb_true_iff in Hx.
        destruct ds as [|y ds'].
        -- simpl join. repeat rewrite <- app_assoc. simpl app. apply hdr_not_prefix_line. exact Hx.
        -- change (join S_NL (x :: y :: ds')) with (x ++ S_NL ++ join S_NL (y :: ds')).
           unfold S_NL at 1. repeat rewrite <- app_assoc. simpl app. apply hdr_not_prefix_line. exact Hx.
  - (* custom delimiter: the header line is stripped by init *)
    assert (Hne : p_delim p <> []) by (intros E; rewrite E in Hd; discriminate).
    assert (Hor : or_delim (p_delim p) = p_delim p) by (destruct (p_delim p); [congruence|reflexivity]).
    rewrite Hor in *. set (d := p_delim p) in *.
    assert (Hdirs_eq : exists G, Gap d G /\ directives p = delim_line d ++ 10%N :: G).
    { unfold directives. fold d.
      assert (Hm : forall x : bytes, x <> [] -> match x with [] => [] | n :: l => [delim_line (n :: l)] end = [delim_line x])
        by (intros [|a0 b0] H0; [congruence|reflexivity]).
      rewrite (Hm d Hne).
      destruct (p_directives p) as [|x ds] eqn:E.
      - exists [10%N]. split; [repeat constructor|]. reflexivity.
      - exists (join S_NL (x :: ds) ++ [10%N; 10%N]). split.
        + apply dirs_gap; [exact Hd45|exact Hne|exact Hdirs|discriminate].
        + change ([delim_line d] ++ x :: ds) with (delim_line d :: x :: ds).
          change (join S_NL (delim_line d :: x :: ds)) with (delim_line d ++ S_NL ++ join S_NL (x :: ds)).
          unfold S_NL at 1. repeat rewrite <- app_assoc. reflexivity. }
    destruct Hdirs_eq as (G & HG & ->).
    replace ((delim_line d ++ 10%N :: G) ++ body d (map atlas_seg (p_changes p)) [])
      with (delim_line d ++ 10%N :: (G ++ body d (map atlas_seg (p_changes p)) []))
      by (rewrite <- app_assoc; reflexivity).
    unfold texts_of, scan, Scan.
    destruct (init_delim d (G ++ body d (map atlas_seg (p_changes p)) []) Hd) as (s & Hs & Hi & Hp & Hdd & He).
    rewrite Hs. cbn [bind].
    destruct (scan_loop_segs o d [] Hgo Hd (gap_delim_ok_nodash d Hd45) (gap_nil _) (map atlas_seg (p_changes p)) s
               (fuel_of (delim_line d ++ 10%N :: G ++ body d (map atlas_seg (p_changes p)) [])) [] G) as (ss & Hss & Ht); auto.
    + rewrite Forall_map. eapply Forall_impl; [|exact Hall]. intros c [H1 H2]. simpl. split; [|exact H1].
      apply atlas_comment_gap; [exact Hd45|exact Hne|exact H2].
    + rewrite Hi. unfold fuel_of. rewrite (app_length (delim_line d)). cbn [length].
      set (L := length (G ++ body d (map atlas_seg (p_changes p)) [])). lia.
    + rewrite Hss. simpl. rewrite Ht. rewrite map_map. reflexivity.
Qed.

(** ** LiquibaseFormatter (read with the dialect scanner, default delimiter) *)
Definition lq_head (now : bytes) (i : N) (c : change) : bytes :=
  S_CHANGESET ++ now ++ [45%N] ++ dec (i + 1) ++ S_NL ++
  (match c_comment c with [] => [] | cm => S_LCOMMENT ++ cm end) ++ S_NL.
Definition lq_rollbacks (c : change) : bytes := concat (map liquibase_rollback (c_reverse c)).
Fixpoint lq_segs (prefix now : bytes) (i : N) (cs : list change) : list (bytes * bytes) :=
  match cs with
  | [] => []
  | c :: t => (prefix ++ lq_head now i c, c_cmd c) :: lq_segs (lq_rollbacks c) now (i + 1) t
  end.
Fixpoint lq_end (prefix : bytes) (cs : list change) : bytes :=
  match cs with [] => prefix | c :: t => lq_end (lq_rollbacks c) t end.

Lemma lq_body now : forall cs prefix i,
  prefix ++ liquibase_changes now i cs = body delimiter (lq_segs prefix now i cs) (lq_end prefix cs).
Proof.
  unfold body. induction cs as [|c cs IH]; intros prefix i.
  - simpl. rewrite app_nil_r. reflexivity.
  - cbn [liquibase_changes lq_segs lq_end map concat]. rewrite <- app_assoc. rewrite <- IH.
    unfold seg, lq_head, lq_rollbacks, S_SEMI_NL, delimiter. cbn [fst snd].
    repeat rewrite <- app_assoc. reflexivity.
Qed.

Lemma dec_digits_no_nl fuel : forall n acc, ~ In 10%N acc -> ~ In 10%N (dec_digits fuel n acc).
Proof.
  induction fuel as [|f IH]; intros n acc H; simpl; [exact H|].
  assert (~ In 10%N ((48 + n mod 10)%N :: acc)) as H'.
  { intros [E|E]; [lia|exact (H E)]. }
  destruct (n <? 10)%N; [exact H'|apply IH; exact H'].
Qed.
Lemma dec_no_nl n : ~ In 10%N (dec n).
Proof. apply dec_digits_no_nl. intros []. Qed.

Definition liquibase_change_ok (o : opts) (c : change) : Prop :=
  scan_closed o delimiter (c_cmd c) = true /\ comment_ok (c_comment c) = true.

Lemma not_in_app (x : N) a b : ~ In x a -> ~ In x b -> ~ In x (a ++ b).
Proof. intros Ha Hb H. apply in_app_or in H as [H|H]; auto. Qed.

Definition S_ROLLBACK_BODY : bytes := [114;111;108;108;98;97;99;107;58;32]%N.   (* "rollback: " *)

Lemma Gap_comment_eq d body g x :
  x = [45%N;45%N] ++ body ++ [10%N] ++ g -> ~ In 10%N body -> has_prefix ([45%N;45%N] ++ body ++ [10%N]) d = false ->
  Gap d g -> Gap d x.
Proof. intros ->; constructor; auto. Qed.

(** every line of a (multi-line) reverse statement is a whole "--rollback: " comment line *)
Lemma rollback_lines_gap : forall r body0 g, ~ In 10%N body0 -> Gap delimiter g ->
  Gap delimiter ([45%N;45%N] ++ body0 ++ rollback_lines r ++ S_SEMI_NL ++ g).
Proof.
  induction r as [|b t IH]; intros body0 g Hb Hg.
  - cbn [rollback_lines app]. unfold S_SEMI_NL.
    eapply (Gap_comment_eq _ (body0 ++ [59%N]) g); [repeat rewrite <- app_assoc; reflexivity| |reflexivity|exact Hg].
    apply not_in_app; [exact Hb|intros [E|[]]; discriminate].
  - cbn [rollback_lines]. destruct (N.eqb b 10) eqn:E.
    + eapply (Gap_comment_eq _ body0 (S_ROLLBACK ++ rollback_lines t ++ S_SEMI_NL ++ g));
        [repeat rewrite <- app_assoc; reflexivity|exact Hb|reflexivity|].
      unfold S_ROLLBACK.
      change ([45;45;114;111;108;108;98;97;99;107;58;32]%N ++ rollback_lines t ++ S_SEMI_NL ++ g)
        with ([45%N;45%N] ++ S_ROLLBACK_BODY ++ rollback_lines t ++ S_SEMI_NL ++ g).
      apply IH; [vm_compute; intuition discriminate|exact Hg].
    + replace ([45%N; 45%N] ++ body0 ++ (b :: rollback_lines t) ++ S_SEMI_NL ++ g)
        with ([45%N; 45%N] ++ (body0 ++ [b]) ++ rollback_lines t ++ S_SEMI_NL ++ g)
        by (repeat rewrite <- app_assoc; reflexivity).
      apply IH; [|exact Hg]. apply not_in_app; [exact Hb|]. intros [E'|[]]. subst. discriminate.
Qed.

Lemma lq_rollbacks_gap c g : Gap delimiter g -> Gap delimiter (lq_rollbacks c ++ g).
Proof.
  unfold lq_rollbacks. induction (c_reverse c) as [|r rs IH]; intros Hg; [exact Hg|].
  cbn [map concat]. unfold liquibase_rollback at 1. unfold S_ROLLBACK.
  replace ((([45;45;114;111;108;108;98;97;99;107;58;32]%N ++ rollback_lines r ++ S_SEMI_NL) ++ concat (map liquibase_rollback rs)) ++ g)
    with ([45%N;45%N] ++ S_ROLLBACK_BODY ++ rollback_lines r ++ S_SEMI_NL ++ (concat (map liquibase_rollback rs) ++ g))
    by (unfold S_ROLLBACK_BODY; repeat rewrite <- app_assoc; reflexivity).
  apply rollback_lines_gap; [vm_compute; intuition discriminate|apply IH; exact Hg].
Qed.

Definition S_CHANGESET_BODY : bytes := [99;104;97;110;103;101;115;101;116;32;97;116;108;97;115;58]%N. (* "changeset atlas:" *)
Definition S_COMMENT_BODY : bytes := [99;111;109;109;101;110;116;58;32]%N.  (* "comment: " *)

Lemma lq_head_gap now i c g : comment_ok now = true -> comment_ok (c_comment c) = true ->
  Gap delimiter g -> exists h, lq_head now i c ++ g = 10%N :: h /\ Gap delimiter h.
Proof.
  intros Hnow Hc Hg.
  exists ([45%N;45%N] ++ (S_CHANGESET_BODY ++ now ++ [45%N] ++ dec (i + 1)) ++ [10%N] ++
          (match c_comment c with [] => [] | cm => [45%N;45%N] ++ (S_COMMENT_BODY ++ cm) end ++ 10%N :: g)).
  split.
  - unfold lq_head, S_CHANGESET, S_NL, S_LCOMMENT, S_CHANGESET_BODY, S_COMMENT_BODY.
    destruct (c_comment c); repeat (rewrite <- app_assoc || (progress cbn [app])); reflexivity.
  - constructor.
    + apply not_in_app; [vm_compute; intuition discriminate|].
      apply not_in_app; [apply comment_ok_notin; exact Hnow|].
      apply not_in_app; [intros [E|[]]; discriminate|apply dec_no_nl].
    + reflexivity.
    + destruct (c_comment c) as [|x cm] eqn:E.
      * simpl. constructor. exact Hg.
      * replace (([45%N; 45%N] ++ S_COMMENT_BODY ++ x :: cm) ++ 10%N :: g)
          with ([45%N; 45%N] ++ (S_COMMENT_BODY ++ x :: cm) ++ [10%N] ++ g)
          by (simpl; repeat rewrite <- app_assoc; reflexivity).
        constructor; [|reflexivity|exact Hg].
        apply not_in_app; [vm_compute; intuition discriminate|apply comment_ok_notin; exact Hc].
Qed.

Lemma lq_segs_ok o now : comment_ok now = true -> forall cs prefix i,
  (forall g, Gap delimiter g -> Gap delimiter (prefix ++ 10%N :: g)) ->
  Forall (liquibase_change_ok o) cs ->
  Forall (fun gc => Gap delimiter (fst gc) /\ scan_closed o delimiter (snd gc) = true) (lq_segs prefix now i cs).
Proof.
  intros Hnow. induction cs as [|c cs IH]; intros prefix i Hpre Hall; [constructor|].
  apply Forall_cons_iff in Hall as [(H1 & H2) Hall]. simpl. constructor.
  - simpl. split; [|exact H1].
    destruct (lq_head_gap now i c [] Hnow H2 (gap_nil _)) as (h & Hh & Hgh). rewrite app_nil_r in Hh.
    rewrite Hh. apply Hpre. exact Hgh.
  - apply IH; [|exact Hall]. intros g Hg. apply lq_rollbacks_gap. constructor. exact Hg.
Qed.

Lemma lq_end_gap o : forall cs prefix, Gap delimiter prefix -> Forall (liquibase_change_ok o) cs ->
  Gap delimiter (lq_end prefix cs).
Proof.
  induction cs as [|c cs IH]; intros prefix Hp Hall; [exact Hp|].
  apply Forall_cons_iff in Hall as [(H1 & H2) Hall]. simpl. apply IH; [|exact Hall].
  rewrite <- (app_nil_r (lq_rollbacks c)). apply lq_rollbacks_gap. constructor.
Qed.

Theorem liquibase_roundtrip o now p :
  GoCommand o = false -> comment_ok now = true -> p_changes p <> [] ->
  Forall (liquibase_change_ok o) (p_changes p) ->
  texts_of (scan o (liquibase_content now p)) = Some (map (fun c => stmt_text o delimiter (c_cmd c)) (p_changes p)).
Proof.
  intros Hgo Hnow Hne Hall. unfold liquibase_content. rewrite lq_body.
  destruct (p_changes p) as [|c cs] eqn:E; [congruence|]. rewrite <- E in *.
  assert (Hpre : forall g, Gap delimiter g -> Gap delimiter (S_LIQUIBASE ++ 10%N :: g)).
  { intros g Hg. unfold S_LIQUIBASE.
    change ([45;45;108;105;113;117;105;98;97;115;101;32;102;111;114;109;97;116;116;101;100;32;115;113;108]%N ++ 10%N :: g)
      with ([45%N;45%N] ++ [108;105;113;117;105;98;97;115;101;32;102;111;114;109;97;116;116;101;100;32;115;113;108]%N ++ [10%N] ++ g).
    constructor; [vm_compute; intuition discriminate|reflexivity|exact Hg]. }
  pose proof (scan_plain o [] (lq_segs S_LIQUIBASE now 0 (p_changes p)) (lq_end S_LIQUIBASE (p_changes p)) Hgo (gap_nil _)) as HS.
  simpl app in HS. rewrite HS.
  - f_equal. clear. generalize S_LIQUIBASE, 0%N. induction (p_changes p) as [|c cs IH]; intros pre i; [reflexivity|].
    simpl. f_equal. apply IH.
  - rewrite E in *. apply Forall_cons_iff in Hall as [(H1 & H2) Hall]. cbn [lq_end].
    apply (lq_end_gap o); [|exact Hall].
    rewrite <- (app_nil_r (lq_rollbacks c)). apply lq_rollbacks_gap. constructor.
  - apply lq_segs_ok; assumption.
  - rewrite <- lq_body. reflexivity.
Qed.

Close Scope Z_scope.
(** * DBMateFile.StmtDecls returns the up section unchanged (under a decidable line condition) *)

Lemma ulines_acc_line a : forall r cur, ~ In 10%N a ->
  ulines_acc (a ++ 10%N :: r) cur = drop_cr (rev cur ++ a) :: ulines_acc r [].
Proof.
  induction a as [|x a IH]; intros r cur H.
  - simpl. rewrite app_nil_r. reflexivity.
  - simpl. destruct (N.eqb x 10) eqn:E; [apply N.eqb_eq in E; subst; exfalso; apply H; left; reflexivity|].
    rewrite IH by (intros Hin; apply H; right; exact Hin). simpl. rewrite <- app_assoc. reflexivity.
Qed.

Lemma rev_head_in (l : bytes) x r : rev l = x :: r -> In x l.
Proof. intros H. apply in_rev. rewrite H. left. reflexivity. Qed.

Lemma drop_cr_id l : ~ In 13%N l -> drop_cr l = l.
Proof.
  intros H. unfold drop_cr. destruct (rev l) as [|x r] eqn:E; [reflexivity|].
  destruct (N.eq_dec x 13) as [->|Hx].
  - exfalso. apply H. eapply rev_head_in; exact E.
  - destruct x as [|p]; [reflexivity|].
    repeat (destruct p as [p|p|]; try reflexivity; try (exfalso; apply Hx; reflexivity)).
Qed.

Lemma split_first_nl (U : bytes) : In 10%N U -> exists a r, U = a ++ 10%N :: r /\ ~ In 10%N a.
Proof.
  induction U as [|x U IH]; intros H; [destruct H|].
  destruct (N.eq_dec x 10) as [->|Hx].
  - exists [], U. split; [reflexivity|intros []].
  - destruct H as [H|H]; [congruence|]. destruct (IH H) as (a & r & -> & Ha).
    exists (x :: a), r. split; [reflexivity|]. intros [E|E]; [congruence|exact (Ha E)].
Qed.

(** [U] is a sequence of complete ulines *)
Definition complete (U : bytes) : Prop := U = [] \/ exists U', U = U' ++ [10%N].

Lemma complete_split U : complete U -> U <> [] ->
  exists a r, U = a ++ 10%N :: r /\ ~ In 10%N a /\ complete r /\ (length r < length U)%nat.
Proof.
  intros [->|[U' ->]] Hne; [congruence|].
  destruct (split_first_nl (U' ++ [10%N])) as (a & r & E & Ha); [apply in_or_app; right; left; reflexivity|].
  exists a, r. split; [exact E|]. split; [exact Ha|]. split.
  - destruct r as [|y r']; [left; reflexivity|]. right.
    (* r is a suffix of U' ++ [10] and non-empty, so it ends with 10 *)
    assert (exists r'', y :: r' = r'' ++ [10%N]) as [r'' Hr].
    { apply (f_equal (@rev N)) in E. rewrite !rev_app_distr in E.
      change (rev (10%N :: y :: r')) with (rev (y :: r') ++ [10%N]) in E.
      destruct (rev (y :: r')) as [|z t] eqn:Er.
      - apply (f_equal (@length N)) in Er. rewrite rev_length in Er. simpl in Er. lia.
      - simpl in E. injection E as Ez _. subst z.
        exists (rev t). rewrite <- (rev_involutive (y :: r')). rewrite Er. reflexivity. }
    exists r''. exact Hr.
  - rewrite E. rewrite app_length. simpl. lia.
Qed.

Lemma ulines_complete_n n : forall U V, (length U <= n)%nat -> complete U -> ~ In 13%N U ->
  ulines (U ++ V) = ulines U ++ ulines V /\ join S_NL (ulines U ++ [[]]) = U /\
  (forall l, In l (ulines U) -> exists a r, U = a ++ l ++ 10%N :: r).
Proof.
  induction n as [|n IH]; intros U V Hl Hc Hcr.
  - destruct U; [|simpl in Hl; lia]. repeat split; try reflexivity. intros l [].
  - destruct U as [|x U0] eqn:EU; [repeat split; try reflexivity; intros l []|]. rewrite <- EU in *.
    destruct (complete_split U Hc) as (a & r & E & Ha & Hcr' & Hlen); [rewrite EU; discriminate|].
    assert (Hcra : ~ In 13%N a) by (intros H; apply Hcr; rewrite E; apply in_or_app; left; exact H).
    assert (Hcrr : ~ In 13%N r) by (intros H; apply Hcr; rewrite E; apply in_or_app; right; right; exact H).
    destruct (IH r V) as (I1 & I2 & I3); [lia|exact Hcr'|exact Hcrr|].
    unfold ulines in *. rewrite E. rewrite <- app_assoc. simpl app.
    rewrite !ulines_acc_line by exact Ha. simpl rev. simpl app. rewrite drop_cr_id by exact Hcra.
    split; [rewrite I1; reflexivity|]. split.
    + simpl app. destruct (ulines_acc r [] ++ [[]]) as [|y ys] eqn:Ey.
      * destruct (ulines_acc r []); discriminate.
      * change (join S_NL (a :: y :: ys)) with (a ++ S_NL ++ join S_NL (y :: ys)). rewrite I2. reflexivity.
    + intros l [<-|Hin].
      * exists [], r. reflexivity.
      * destruct (I3 l Hin) as (a' & r' & ->). exists (a ++ 10%N :: a'), r'. rewrite <- app_assoc. reflexivity.
Qed.

Lemma ulines_complete U V : complete U -> ~ In 13%N U ->
  ulines (U ++ V) = ulines U ++ ulines V /\ join S_NL (ulines U ++ [[]]) = U.
Proof. intros Hc Hr. destruct (ulines_complete_n (length U) U V (le_n _) Hc Hr) as (H1 & H2 & _). auto. Qed.


(** [lines] on complete text followed by anything; a line followed by a newline *)
Lemma lines_short U V : complete U -> ~ In 13%N U -> lines (U ++ V) = ulines U ++ lines V.
Proof. intros Hc Hr. unfold lines. destruct (ulines_complete U V Hc Hr) as [H _]. exact H. Qed.
Lemma lines_cons a r : ~ In 10%N a -> ~ In 13%N a -> lines (a ++ 10%N :: r) = a :: lines r.
Proof.
  intros Ha Hr. unfold lines, ulines. rewrite ulines_acc_line by exact Ha. cbn [rev app].
  rewrite drop_cr_id by exact Hr. reflexivity.
Qed.

(** no line of the up section is taken for a pragma, no carriage return *)
Definition dbmate_line_ok (l : bytes) : bool := negb (has_prefix l S_DBMATE) && negb (re_dbmate_pragma l).
Definition dbmate_ok (U : bytes) : bool :=
  forallb dbmate_line_ok (ulines U) && negb (existsb (N.eqb 13) U).

Lemma dbmate_loop_good : forall ls acc rest, forallb dbmate_line_ok ls = true ->
  dbmate_loop (ls ++ rest) true acc = dbmate_loop rest true (rev ls ++ acc).
Proof.
  induction ls as [|l ls IH]; intros acc rest H; [reflexivity|].
  simpl in H. apply andb_true_iff in H as [Hl Hls]. unfold dbmate_line_ok in Hl.
  apply andb_true_iff in Hl as [H1 H2]. rewrite negb_true_iff in H1, H2.
  cbn [dbmate_loop app]. rewrite H1. rewrite H2. cbn [negb andb]. rewrite IH by exact Hls.
  cbn [rev]. rewrite <- app_assoc. reflexivity.
Qed.

Theorem dbmate_text_up U D : complete U -> dbmate_ok U = true ->
  dbmate_text (S_DBMATE_UP ++ U ++ S_DBMATE_DOWN ++ D) = U.
Proof.
  intros Hc Hok. unfold dbmate_ok in Hok. apply andb_true_iff in Hok as [Hl Hcr].
  assert (Hcr' : ~ In 13%N U).
  { rewrite negb_true_iff in Hcr. intros Hin. assert (existsb (N.eqb 13) U = true); [|congruence].
    apply existsb_exists. exists 13%N. split; [exact Hin|reflexivity]. }
  unfold dbmate_text.
  assert (E : lines (S_DBMATE_UP ++ U ++ S_DBMATE_DOWN ++ D) =
              (S_DBMATE ++ S_up) :: ulines U ++ [] :: (S_DBMATE ++ S_down) :: lines D).
  { unfold S_DBMATE_UP, S_DBMATE_DOWN.
    replace ((S_DBMATE ++ [117; 112; 10]%N) ++ U ++ ([10%N] ++ S_DBMATE ++ [100; 111; 119; 110; 10]%N) ++ D)
      with ((S_DBMATE ++ S_up) ++ 10%N :: (U ++ ([] ++ 10%N :: ((S_DBMATE ++ S_down) ++ 10%N :: D))))
      by (unfold S_up, S_down; repeat (rewrite <- app_assoc; simpl); reflexivity).
    rewrite lines_cons by (vm_compute; intuition discriminate).
    rewrite (lines_short U _ Hc Hcr').
    rewrite lines_cons by (vm_compute; intuition discriminate).
    rewrite lines_cons by (vm_compute; intuition discriminate).
    reflexivity. }
  rewrite E.
  change (dbmate_loop ((S_DBMATE ++ S_up) :: ulines U ++ [] :: (S_DBMATE ++ S_down) :: lines D) false [])
    with (dbmate_loop (ulines U ++ [] :: (S_DBMATE ++ S_down) :: lines D) true []).
  rewrite dbmate_loop_good by exact Hl.
  change (dbmate_loop ([] :: (S_DBMATE ++ S_down) :: lines D) true (rev (ulines U) ++ []))
    with (rev ([] :: rev (ulines U) ++ [])).
  rewrite app_nil_r. simpl rev. rewrite rev_involutive.
  destruct (ulines_complete U [] Hc Hcr') as [_ H2]. exact H2.
Qed.

Lemma tool_up_complete p : complete (tool_up p).
Proof.
  unfold tool_up. induction (p_changes p) as [|c cs IH]; [left; reflexivity|].
  right. simpl concat. destruct IH as [->|[U' ->]].
  - rewrite app_nil_r. unfold tool_change, S_SEMI_NL.
    exists (tool_comment S_DASH2_SP (c_comment c) ++ c_cmd c ++ [59%N]). repeat rewrite <- app_assoc. reflexivity.
  - exists (tool_change c ++ U'). rewrite <- app_assoc. reflexivity.
Qed.

(** C07 for the readers of the sqltool formats that scan with the generic options *)
Theorem dbmate_roundtrip o p :
  Forall (fun c => scan_closed opts_generic delimiter (c_cmd c) = true /\ comment_ok2 (c_comment c) = true) (p_changes p) ->
  dbmate_ok (tool_up p) = true ->
  texts (read FDBMate o (dbmate_content p)) = Some (map (fun c => stmt_text opts_generic delimiter (c_cmd c)) (p_changes p)).
Proof.
  intros Hall Hok. unfold read, dbmate_content.
  rewrite (dbmate_text_up (tool_up p) (tool_down p) (tool_up_complete p) Hok).
  exact (tool_up_roundtrip p Hall).
Qed.

(** * after fix C07-sqltool-scanner-buffer a line of any length is read: the positive statement
    replacing the refutation (for every [long] without newline / carriage return that is not
    itself taken for a pragma) *)
Theorem long_line_repaired : forall long,
  ~ In 10%N long -> ~ In 13%N long -> dbmate_line_ok long = true ->
  let up := [83;69;76;69;67;84;32;49;59;10]%N ++ long ++ [10;83;69;76;69;67;84;32;50;59;10]%N in
  dbmate_text (S_DBMATE_UP ++ up ++ S_DBMATE_DOWN) = up.
Proof.
  intros long Hn Hr Hok up.
  replace (S_DBMATE_UP ++ up ++ S_DBMATE_DOWN) with (S_DBMATE_UP ++ up ++ S_DBMATE_DOWN ++ []) by (rewrite app_nil_r; reflexivity).
  apply dbmate_text_up.
  - right. exists ([83;69;76;69;67;84;32;49;59;10]%N ++ long ++ [10;83;69;76;69;67;84;32;50;59]%N).
    unfold up. repeat rewrite <- app_assoc. reflexivity.
  - unfold dbmate_ok. apply andb_true_iff. split.
    + unfold up.
      replace ([83;69;76;69;67;84;32;49;59;10]%N ++ long ++ [10;83;69;76;69;67;84;32;50;59;10]%N)
        with ([83;69;76;69;67;84;32;49;59]%N ++ 10%N :: (long ++ 10%N :: ([83;69;76;69;67;84;32;50;59]%N ++ 10%N :: [])))
        by (repeat (rewrite <- app_assoc; simpl); reflexivity).
      unfold ulines. rewrite ulines_acc_line by (vm_compute; intuition discriminate).
      rewrite ulines_acc_line by exact Hn. rewrite ulines_acc_line by (vm_compute; intuition discriminate).
      cbn [rev app ulines_acc]. rewrite (drop_cr_id long Hr).
      cbn [forallb]. rewrite Hok. vm_compute. reflexivity.
    + rewrite negb_true_iff. destruct (existsb (N.eqb 13) up) eqn:E; [|reflexivity].
      apply existsb_exists in E as (x & Hin & Hx). apply N.eqb_eq in Hx. subst x. unfold up in Hin.
      apply in_app_or in Hin as [Hin|Hin]; [revert Hin; vm_compute; intuition discriminate|].
      apply in_app_or in Hin as [Hin|Hin]; [exfalso; exact (Hr Hin)|revert Hin; vm_compute; intuition discriminate].
Qed.

(** the repaired pragma patterns only match lines that start with the pragma prefix *)
Lemma has_prefix_app_l s a b : has_prefix s (a ++ b) = true -> has_prefix s a = true.
Proof. intros H. apply has_prefix_app in H as [r ->]. rewrite <- app_assoc. apply has_prefix_app. eexists; reflexivity. Qed.
Lemma pragma_anchored line :
  (re_goose_pragma line = true -> has_prefix line S_GOOSE = true)
  /\ (re_dbmate_pragma line = true -> has_prefix line S_DBMATE = true).
Proof.
  split; intros H.
  - unfold re_goose_pragma in H. repeat (apply orb_true_iff in H as [H|H]); eapply has_prefix_app_l; exact H.
  - unfold re_dbmate_pragma in H. apply orb_true_iff in H as [H|H]; eapply has_prefix_app_l; exact H.
Qed.
