(** M-FMT, down side (C17): what the formatters of [sql/sqltool/tool.go] write into the
    *down* section of a migration file, together with the pieces of [sql/migrate] and
    [sql/internal/sqlx] they are computed from.  No proofs here.

      sql/migrate/migrate.go      Change{Cmd, Comment, Reverse any}, Change.ReverseStmts
      sql/internal/sqlx/plan.go   SetReversible
      sql/sqltool/tool.go         reverse (the [rev] template function, a hand-rolled swap loop),
                                  GolangMigrateFormatter, GooseFormatter, FlywayFormatter,
                                  LiquibaseFormatter, DBMateFormatter (templates)

    Go's [text/template] actions used by the templates:
      [{{ with X }} body {{ end }}]   body if X is "non-empty" (string <> "", len slice > 0)
      [{{ println . }}]               the value followed by "\n"
      [{{ printf "%s;\n" . }}]        the value followed by ";\n"
      [{{ range ... }}]               the body once per element, in slice order
      [{{- ] / [ -}}]                 trims the white space of the adjacent text node        *)
From Coq Require Import List NArith ZArith Bool Arith Lia.
From Atlas Require Import Base.Bytes.
Import ListNotations.
Open Scope Z_scope.

(** * sql/migrate/migrate.go *)

(** [Change.Reverse any // string | []string]: the three dynamic types the planners store
    ([nil], [string], [[]string]); any other type makes [ReverseStmts] return an error, which no
    planner does (the harness counts it). *)
Inductive reverse_any :=
| RNil
| RStr (s : bytes)
| RList (l : list bytes).

Record mchange := MChange { c_cmd : bytes; c_comment : bytes; c_reverse : reverse_any }.

(** migrate.go: func (c *Change) ReverseStmts() (cmd []string, err error) *)
Definition ReverseStmts (c : mchange) : list bytes :=
  match c_reverse c with
  | RNil => []
  | RStr r => [r]
  | RList r => r
  end.

(** * sql/internal/sqlx/plan.go *)

(** func SetReversible(p *migrate.Plan) error:
      reversible := true
      for _, c := range p.Changes { stmts, _ := c.ReverseStmts(); if len(stmts) == 0 { reversible = false } }
      p.Reversible = reversible                                                     *)
Fixpoint SetReversible_loop (changes : list mchange) (reversible : bool) : bool :=
  match changes with
  | [] => reversible
  | c :: rest =>
      let stmts := ReverseStmts c in
      SetReversible_loop rest (if Nat.eqb (length stmts) 0 then false else reversible)
  end.
Definition SetReversible (changes : list mchange) : bool := SetReversible_loop changes true.

(** The declarative reading the property uses. *)
Definition has_reverse (c : mchange) : bool := negb (Nat.eqb (length (ReverseStmts c)) 0).

(** * sql/sqltool/tool.go: reverse *)

Inductive res (A : Type) := Ok (a : A) | Panic | OutOfFuel.
Arguments Ok {A} a. Arguments Panic {A}. Arguments OutOfFuel {A}.

Section Reverse.
Context {A : Type}.

(** [changes[i]] with Go's bounds check. *)
Definition at_index (l : list A) (i : Z) : option A :=
  if i <? 0 then None else nth_error l (Z.to_nat i).

(** [rev[i] = x] on a slice of (possibly nil) pointers; [None] = index out of range. *)
Fixpoint set_nat (l : list (option A)) (k : nat) (x : A) : option (list (option A)) :=
  match l, k with
  | [], _ => None
  | _ :: t, O => Some (Some x :: t)
  | h :: t, S k' => match set_nat t k' x with Some t' => Some (h :: t') | None => None end
  end.
Definition set_index (l : list (option A)) (i : Z) (x : A) : option (list (option A)) :=
  if i <? 0 then None else set_nat l (Z.to_nat i) x.

(** for i, j := 0, n-1; i < j; i, j = i+1, j-1 { rev[i], rev[j] = changes[j], changes[i] }
    The right-hand sides are evaluated first, then the two stores happen left to right. *)
Fixpoint reverse_loop (fuel : nat) (changes : list A) (rev : list (option A)) (i j : Z)
  : res (list (option A)) :=
  if i <? j then
    match fuel with
    | O => OutOfFuel
    | S fuel' =>
        match at_index changes j, at_index changes i with
        | Some cj, Some ci =>
            match set_index rev i cj with
            | Some rev1 =>
                match set_index rev1 j ci with
                | Some rev2 => reverse_loop fuel' changes rev2 (i + 1) (j - 1)
                | None => Panic
                end
            | None => Panic
            end
        | _, _ => Panic
        end
    end
  else Ok rev.

(** func reverse(changes []*migrate.Change) []*migrate.Change
      n := len(changes); rev := make([]*migrate.Change, n)
      if n%2 == 1 { rev[n/2] = changes[n/2] }
      for ... (above)
      return rev                                                  ([None] = a nil pointer) *)
Definition reverse_slots (changes : list A) : res (list (option A)) :=
  let n := Z.of_nat (length changes) in
  let rev := repeat (@None A) (length changes) in
  let mid :=
    if n mod 2 =? 1 then
      match at_index changes (n / 2) with
      | Some c => match set_index rev (n / 2) c with Some r => Ok r | None => Panic end
      | None => Panic
      end
    else Ok rev in
  match mid with
  | Ok rev1 => reverse_loop (length changes) changes rev1 0 (n - 1)
  | Panic => Panic
  | OutOfFuel => OutOfFuel
  end.

(** The template then calls [.ReverseStmts] on every element: a nil pointer left in a slot
    would panic there. *)
Fixpoint all_some (l : list (option A)) : option (list A) :=
  match l with
  | [] => Some []
  | Some x :: t => match all_some t with Some t' => Some (x :: t') | None => None end
  | None :: _ => None
  end.
Definition reverse (changes : list A) : res (list A) :=
  match reverse_slots changes with
  | Ok slots => match all_some slots with Some l => Ok l | None => Panic end
  | Panic => Panic
  | OutOfFuel => OutOfFuel
  end.
End Reverse.

(** * Template text *)

Definition s_up_cmt : bytes := [45;45;32]%N. (* "-- " *)
Definition s_rev_cmt : bytes := [45;45;32;114;101;118;101;114;115;101;58;32]%N. (* "-- reverse: " *)
Definition s_semi_nl : bytes := [59;10]%N. (* ";\n" *)
Definition s_nl : bytes := [10]%N. (* "\n" *)
Definition s_goose_up : bytes := [45;45;32;43;103;111;111;115;101;32;85;112;10]%N. (* "-- +goose Up\n" *)
Definition s_goose_down : bytes := [10;45;45;32;43;103;111;111;115;101;32;68;111;119;110;10]%N. (* "\n-- +goose Down\n" *)
Definition s_dbmate_up : bytes := [45;45;32;109;105;103;114;97;116;101;58;117;112;10]%N. (* "-- migrate:up\n" *)
Definition s_dbmate_down : bytes := [10;45;45;32;109;105;103;114;97;116;101;58;100;111;119;110;10]%N. (* "\n-- migrate:down\n" *)
Definition s_lq_header : bytes := [45;45;108;105;113;117;105;98;97;115;101;32;102;111;114;109;97;116;116;101;100;32;115;113;108]%N. (* "--liquibase formatted sql" *)
Definition s_lq_changeset : bytes := [10;45;45;99;104;97;110;103;101;115;101;116;32;97;116;108;97;115;58]%N. (* "\n--changeset atlas:" *)
Definition s_lq_comment : bytes := [45;45;99;111;109;109;101;110;116;58;32]%N. (* "--comment: " *)
Definition s_lq_rollback : bytes := [45;45;114;111;108;108;98;97;99;107;58;32]%N. (* "--rollback: " *)
Definition s_dash : bytes := [45]%N. (* "-" *)

Definition nonempty (s : bytes) : bool := match s with [] => false | _ => true end.

(** {{ range .Changes }}{{ with .Comment }}-- {{ println . }}{{ end }}{{ printf "%s;\n" .Cmd }}{{ end }} *)
Definition up_change (c : mchange) : bytes :=
  (if nonempty (c_comment c) then s_up_cmt ++ c_comment c ++ s_nl else []) ++ c_cmd c ++ s_semi_nl.
Definition up_body (changes : list mchange) : bytes := concat (map up_change changes).

(** {{ with $stmts := .ReverseStmts }}{{ with $c.Comment }}-- reverse: {{ println . }}{{ end }}
    {{ range $stmts }}{{ printf "%s;\n" . }}{{ end }}{{ end }} *)
Definition down_change (c : mchange) : bytes :=
  match ReverseStmts c with
  | [] => []
  | stmts =>
      (if nonempty (c_comment c) then s_rev_cmt ++ c_comment c ++ s_nl else []) ++
      concat (map (fun s => s ++ s_semi_nl) stmts)
  end.

(** {{ range $c := rev .Changes }} ... {{ end }}: a panic of [rev] (or a nil slot) aborts
    [Format] with an error; the body is only defined on [Ok]. *)
Definition down_body (changes : list mchange) : res bytes :=
  match reverse changes with
  | Ok r => Ok (concat (map down_change r))
  | Panic => Panic
  | OutOfFuel => OutOfFuel
  end.

Definition rmap {A B} (f : A -> B) (x : res A) : res B :=
  match x with Ok a => Ok (f a) | Panic => Panic | OutOfFuel => OutOfFuel end.

(** GolangMigrateFormatter: files [*.up.sql] and [*.down.sql];
    FlywayFormatter: files [V*.sql] and [U*.sql] with the same two content templates. *)
Definition golang_migrate_up := up_body.
Definition golang_migrate_down := down_body.
Definition flyway_up := up_body.
Definition flyway_down := down_body.

(** GooseFormatter: one file, "-- +goose Up\n" up "\n-- +goose Down\n" down. *)
Definition goose_file (changes : list mchange) : res bytes :=
  rmap (fun d => s_goose_up ++ up_body changes ++ s_goose_down ++ d) (down_body changes).
(** DBMateFormatter: one file, "-- migrate:up\n" up "\n-- migrate:down\n" down. *)
Definition dbmate_file (changes : list mchange) : res bytes :=
  rmap (fun d => s_dbmate_up ++ up_body changes ++ s_dbmate_down ++ d) (down_body changes).

(** Decimal text of [inc $index]. *)
Fixpoint dec_loop (fuel : nat) (n : N) (acc : bytes) : bytes :=
  match fuel with
  | O => acc
  | S f =>
      let d := (48 + N.modulo n 10)%N in
      if (n <? 10)%N then d :: acc else dec_loop f (N.div n 10) (d :: acc)
  end.
Definition dec (n : nat) : bytes := dec_loop (S n) (N.of_nat n) [].

(** LiquibaseFormatter (forward order, the rollback statements are comment lines of their
    own changeset):
      {{- $now := now -}}
      --liquibase formatted sql
      {{- range $index, $change := .Changes }}
      --changeset atlas:{{ $now }}-{{ inc $index }}
      {{ with $change.Comment }}--comment: {{ . }}{{ end }}
      {{ $change.Cmd }};
      {{ with $stmts := .ReverseStmts }}{{ range $stmts }}{{ printf "--rollback: %s;\n" . }}{{ end }}{{ end }}
      {{- end }}                                                                            *)
(** the template function [rollback] (fix C17-liquibase-multiline-rollback):
      "--rollback: " + strings.ReplaceAll(stmt, "\n", "\n--rollback: ") + ";\n"
    every line of the statement is a rollback comment of its own *)
Definition lq_prefix_lines (s : bytes) : bytes :=
  flat_map (fun c => if N.eqb c 10 then 10%N :: s_lq_rollback else [c]) s.
Definition lq_rollback_line (s : bytes) : bytes := s_lq_rollback ++ lq_prefix_lines s ++ s_semi_nl.
Definition lq_changeset (now : bytes) (index : nat) (c : mchange) : bytes :=
  s_lq_changeset ++ now ++ s_dash ++ dec (S index) ++ s_nl ++
  (if nonempty (c_comment c) then s_lq_comment ++ c_comment c else []) ++ s_nl ++
  c_cmd c ++ s_semi_nl ++
  concat (map lq_rollback_line (ReverseStmts c)).
Fixpoint lq_changesets (now : bytes) (index : nat) (changes : list mchange) : bytes :=
  match changes with
  | [] => []
  | c :: rest => lq_changeset now index c ++ lq_changesets now (S index) rest
  end.
Definition liquibase_file (now : bytes) (changes : list mchange) : bytes :=
  s_lq_header ++ lq_changesets now 0 changes.

(** * A reader of down sections (what a migration tool does with the section)

    The statement scanner of [sql/migrate/lex.go] is M-LEX (C08) and its round trip through the
    formatters is C07; the theorems of C17 take that round trip as premises over an arbitrary
    [scan].  [line_scan] is one concrete reader that meets the premises (used for the
    non-vacuity examples and tied to [migrate.Stmts] by the harness on generated plans): a
    statement ends at ";\n" (or at the end of the text); between statements, lines starting with
    "--" and empty lines are skipped. *)
Inductive lmode := LStart | LComment | LStmt | LSkipNl.

Definition head_is (b : N) (s : bytes) : bool :=
  match s with c :: _ => N.eqb c b | [] => false end.

Fixpoint line_scan_go (m : lmode) (acc : bytes) (s : bytes) : list bytes :=
  match s with
  | [] => match m with LStmt => [List.rev acc] | _ => [] end
  | c :: rest =>
      match m with
      | LSkipNl => line_scan_go LStart [] rest
      | LComment => if N.eqb c 10 then line_scan_go LStart [] rest else line_scan_go LComment [] rest
      | LStart =>
          if N.eqb c 10 then line_scan_go LStart [] rest
          else if N.eqb c 45 && head_is 45 rest then line_scan_go LComment [] rest
          else if N.eqb c 59 && head_is 10 rest then List.rev acc :: line_scan_go LSkipNl [] rest
          else line_scan_go LStmt [c] rest
      | LStmt =>
          if N.eqb c 59 && head_is 10 rest then List.rev acc :: line_scan_go LSkipNl [] rest
          else line_scan_go LStmt (c :: acc) rest
      end
  end.
Definition line_scan (s : bytes) : list bytes := line_scan_go LStart [] s.

(** [line_closed s]: [s] is returned as one statement by [line_scan] when followed by ";\n":
    not empty, does not start with a newline or "--" or ";\n", contains no ";\n". *)
Fixpoint no_semi_nl (s : bytes) : bool :=
  match s with
  | [] => true
  | c :: rest => negb (N.eqb c 59 && head_is 10 rest) && no_semi_nl rest
  end.
Definition line_closed (s : bytes) : bool :=
  match s with
  | [] => false
  | c :: rest => negb (N.eqb c 10) && negb (N.eqb c 45 && head_is 45 rest) && no_semi_nl s
  end.
Fixpoint no_nl (s : bytes) : bool :=
  match s with [] => true | c :: rest => negb (N.eqb c 10) && no_nl rest end.

(** * Reading the rollback statements of a liquibase changeset

    Liquibase takes the rollback of a changeset from its "--rollback: " comment lines: their
    contents, joined line by line, are one SQL script, split at the ";" that end a line; changesets
    are rolled back from the last to the first.  [lq_rollbacks] is that reader for the text of one
    changeset. *)
Fixpoint lines_go (acc : bytes) (s : bytes) : list bytes :=
  match s with
  | [] => [List.rev acc]
  | c :: rest => if N.eqb c 10 then List.rev acc :: lines_go [] rest else lines_go (c :: acc) rest
  end.
Definition lines (s : bytes) : list bytes := lines_go [] s.

Fixpoint has_prefix (s p : bytes) {struct p} : bool :=
  match p, s with
  | [], _ => true
  | x :: p', y :: s' => N.eqb x y && has_prefix s' p'
  | _ :: _, [] => false
  end.

Definition lq_rollback_content (l : bytes) : list bytes :=
  if has_prefix l s_lq_rollback then [skipn (length s_lq_rollback) l] else [].
Definition lq_rollbacks (changeset : bytes) : list bytes :=
  line_scan (concat (map (fun l => l ++ s_nl) (flat_map lq_rollback_content (lines changeset)))).

(** the texts of the changesets of a file, in file order *)
Fixpoint lq_changeset_texts (now : bytes) (index : nat) (changes : list mchange) : list bytes :=
  match changes with
  | [] => []
  | c :: rest => lq_changeset now index c :: lq_changeset_texts now (S index) rest
  end.
(** what a rollback of the whole file executes: changesets last to first *)
Definition liquibase_down (now : bytes) (changes : list mchange) : list bytes :=
  flat_map lq_rollbacks (List.rev (lq_changeset_texts now 0 changes)).

(** no line of the statement (followed by its ";") looks like a rollback comment *)
Definition lq_cmd_ok (cmd : bytes) : bool :=
  forallb (fun l => negb (has_prefix l s_lq_rollback)) (lines (cmd ++ [59%N])).
