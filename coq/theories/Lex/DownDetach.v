(** C17, the down of a plan that went through sqlx.DetachCycles: which foreign keys the pieces of a
    detached change set create and drop.

    [detachReferences] (model: Plan/SortModel.v, C04's M-SORT, tied to the Go function there) splits every
    change in a piece that goes to [planned] and a piece that goes to [deferred].  The reverse of a
    piece re-creates what the piece drops (the reverse of DROP TABLE is the CREATE TABLE of the table
    the change carries, with the keys it carries; the reverse of DROP FOREIGN KEY is ADD CONSTRAINT) and
    drops what it creates.  So "the down restores every key exactly once" is: the keys dropped by the
    pieces are, as a multiset, the keys dropped by the original changes -- a key that occurs twice is
    added twice by the down (name taken), a key that is missing is lost by the down.

    Applicability of each statement at its position (parents exist, names free) is NOT modelled: that
    is the engine-free catalogue simulation of the harness (stage cycle), oracle only. *)
From Coq Require Import List Bool Arith Permutation.
From Atlas Require Import Plan.SortModel.
Import ListNotations.

Definition tc_adds (c : tchange) : list fkey :=
  match c with AddFK f => [f] | ModifyFK _ to => [to] | _ => [] end.
Definition tc_drops (c : tchange) : list fkey :=
  match c with DropFK f => [f] | ModifyFK from _ => [from] | _ => [] end.

(** keys a change creates when it runs (= keys its reverse drops) *)
Definition up_adds (c : change) : list fkey :=
  match c with
  | AddTable _ fks => fks
  | DropTable _ _ => []
  | ModifyTable _ cs => flat_map tc_adds cs
  end.
(** keys a change drops when it runs (= keys its reverse re-creates) *)
Definition up_drops (c : change) : list fkey :=
  match c with
  | AddTable _ _ => []
  | DropTable _ fks => fks
  | ModifyTable _ cs => flat_map tc_drops cs
  end.

Definition ext_fks (t : table) (fks : list fkey) := filter (fun f => negb (ptr_eqb (f_ref f) t)) fks.
Definition self_fks (t : table) (fks : list fkey) := filter (fun f => ptr_eqb (f_ref f) t) fks.

Lemma partition_perm {A B} (f : A -> list B) (p : A -> bool) l :
  Permutation (flat_map f (filter p l) ++ flat_map f (filter (fun x => negb (p x)) l)) (flat_map f l).
Proof.
  induction l as [|a l IH]; cbn; [constructor|].
  destruct (p a); cbn.
  - rewrite <- app_assoc. now apply Permutation_app_head.
  - etransitivity; [apply Permutation_app_swap_app|]. now apply Permutation_app_head.
Qed.

Lemma partition_perm_id {A} (p : A -> bool) (l : list A) :
  Permutation (filter p l ++ filter (fun x => negb (p x)) l) l.
Proof.
  pose proof (partition_perm (fun x => [x]) p l) as H.
  rewrite !flat_map_concat_map in H.
  assert (E : forall m : list A, concat (map (fun x => [x]) m) = m).
  { induction m; cbn; congruence. }
  now rewrite !E in H.
Qed.

Lemma flat_map_pieces {A B} (f : A -> list B) (g h : A -> list A) l :
  Permutation (flat_map f (flat_map g l ++ flat_map h l))
              (flat_map (fun c => flat_map f (g c ++ h c)) l).
Proof.
  induction l as [|a l IH]; cbn; [constructor|].
  rewrite !flat_map_app in *. rewrite <- !app_assoc.
  apply Permutation_app_head.
  etransitivity; [apply Permutation_app_swap_app|].
  apply Permutation_app_head. exact IH.
Qed.

Lemma map_addfk_adds l : flat_map tc_adds (map AddFK l) = l.
Proof. induction l; cbn; congruence. Qed.
Lemma map_addfk_drops l : flat_map tc_drops (map AddFK l) = [].
Proof. induction l; cbn; congruence. Qed.
Lemma map_dropfk_adds l : flat_map tc_adds (map DropFK l) = [].
Proof. induction l; cbn; congruence. Qed.
Lemma map_dropfk_drops l : flat_map tc_drops (map DropFK l) = l.
Proof. induction l; cbn; congruence. Qed.

Lemma is_addfk_drops cs : flat_map tc_drops (filter is_addfk cs) = [].
Proof. induction cs as [|c cs IH]; cbn; [reflexivity|]. destruct c; cbn; auto. Qed.

(** per change: the pieces create the keys of the change, each once *)
Lemma pieces_adds c : Permutation (flat_map up_adds (det_planned c ++ det_deferred c)) (up_adds c).
Proof.
  destruct c as [t fks|t fks|t cs]; cbn [det_planned det_deferred].
  - fold (ext_fks t fks). fold (self_fks t fks).
    destruct (ext_fks t fks) eqn:E; cbn.
    + now rewrite !app_nil_r.
    + rewrite map_addfk_adds, app_nil_r, <- E.
      apply (partition_perm_id (fun f => ptr_eqb (f_ref f) t)).
  - fold (ext_fks t fks). destruct (ext_fks t fks) eqn:E; cbn; [constructor|].
    rewrite map_dropfk_adds. constructor.
  - rewrite flat_map_app.
    change (flat_map up_adds) with
      (flat_map (fun c => match c with ModifyTable _ cs => flat_map tc_adds cs | AddTable _ fks => fks | DropTable _ _ => [] end)).
    assert (H : forall l, flat_map (fun c => match c with ModifyTable _ cs => flat_map tc_adds cs | AddTable _ fks => fks | DropTable _ _ => [] end)
                   (match l with [] => [] | _ => [ModifyTable t l] end) = flat_map tc_adds l).
    { intros [|x l]; cbn; [reflexivity|now rewrite app_nil_r]. }
    rewrite !H. cbn [up_adds].
    etransitivity; [apply Permutation_app_comm|].
    apply (partition_perm tc_adds is_addfk).
Qed.

(** per change: the pieces drop the keys of the change, each once -- provided a dropped table that
    has external keys has no self reference (its copy is dropped with NO key: [t.ForeignKeys = nil]) *)
Definition drop_ok (c : change) : Prop :=
  match c with DropTable t fks => ext_fks t fks = [] \/ self_fks t fks = [] | _ => True end.

Lemma pieces_drops c : drop_ok c -> Permutation (flat_map up_drops (det_planned c ++ det_deferred c)) (up_drops c).
Proof.
  destruct c as [t fks|t fks|t cs]; cbn [det_planned det_deferred drop_ok]; intros OK.
  - fold (ext_fks t fks). destruct (ext_fks t fks) eqn:E; cbn; [constructor|].
    rewrite map_addfk_drops. constructor.
  - fold (ext_fks t fks) in *. destruct (ext_fks t fks) eqn:E; cbn.
    + now rewrite app_nil_r.
    + rewrite map_dropfk_drops, app_nil_r, <- E.
      destruct OK as [O|O]; [discriminate O|].
      pose proof (partition_perm_id (fun f => ptr_eqb (f_ref f) t) fks) as P.
      unfold self_fks in O. rewrite O in P. exact P.
  - rewrite flat_map_app.
    assert (H : forall l, flat_map up_drops (match l with [] => [] | _ => [ModifyTable t l] end) = flat_map tc_drops l).
    { intros [|x l]; cbn; [reflexivity|now rewrite app_nil_r]. }
    rewrite !H. cbn [up_drops].
    etransitivity; [apply Permutation_app_comm|].
    apply (partition_perm tc_drops is_addfk).
Qed.

Lemma flat_map_perm_pointwise {A B} (f g : A -> list B) l :
  (forall a, In a l -> Permutation (f a) (g a)) -> Permutation (flat_map f l) (flat_map g l).
Proof.
  induction l as [|a l IH]; cbn; intros H; [constructor|].
  apply Permutation_app; [apply H; now left|apply IH; intros; apply H; now right].
Qed.

Lemma detach_adds_lemma changes :
  Permutation (flat_map up_adds (detachReferences changes)) (flat_map up_adds changes).
Proof.
  unfold detachReferences. etransitivity; [apply flat_map_pieces|].
  apply flat_map_perm_pointwise. intros a _. apply pieces_adds.
Qed.

Lemma detach_drops_lemma changes :
  (forall c, In c changes -> drop_ok c) ->
  Permutation (flat_map up_drops (detachReferences changes)) (flat_map up_drops changes).
Proof.
  intros OK. unfold detachReferences. etransitivity; [apply flat_map_pieces|].
  apply flat_map_perm_pointwise. intros a Ha. apply pieces_drops. now apply OK.
Qed.
