(** C08 for the option sets the drivers use (gen/Gen_ScanOpts.v is dumped from the tree under
    test on every run): the finite side condition and the specialised statements. *)
From Coq Require Import List NArith ZArith Bool Lia.
From Atlas Require Import Base.Bytes Lex.LexModel Lex.LexProofs Lex.LexDirective gen.Gen_ScanOpts.
From Atlas Require Lint.LintNolintModel.
Import ListNotations.
Open Scope Z_scope.

(** the option sets covered by the theorems: everything except the GO batch command (its
    statement text is cut before the consumed "GO", so [Pos] is off). BEGIN TRY / END CATCH
    matching (the scanner moves backwards there) is covered since the follow-up round. *)
Definition supported (o : opts) : bool := negb (GoCommand o).

Lemma driver_opts_supported : forallb supported gen_scan_opts = true.
Proof. vm_compute. reflexivity. Qed.

Lemma supported_spec o : supported o = true -> GoCommand o = false.
Proof. unfold supported. rewrite negb_true_iff. auto. Qed.

Lemma in_driver_supported o : In o gen_scan_opts -> supported o = true.
Proof. intros H. apply (proj1 (forallb_forall _ _) driver_opts_supported _ H). Qed.

Lemma scan_lossless o inp ss :
  supported o = true -> scan o inp = Ok ss ->
  exists hdr d0 rest, inp = hdr ++ rest /\ Header inp hdr d0 /\ Lossless o d0 (zlen hdr) rest ss.
Proof.
  intros Hs H. apply supported_spec in Hs. eapply Scan_lossless; eauto.
Qed.

Lemma scan_positions o inp ss :
  supported o = true -> scan o inp = Ok ss -> Forall (TextAt inp) ss /\ ordered 0 ss.
Proof.
  intros Hs H. destruct (scan_lossless _ _ _ Hs H) as (hdr & d0 & rest & -> & _ & HL).
  destruct (lossless_positions _ _ _ _ _ HL hdr eq_refl) as [P1 P2]. split; [exact P1|].
  eapply ordered_weaken; [|exact P2]. apply zlen_nonneg.
Qed.

Lemma scan_line o inp ss st :
  supported o = true -> scan o inp = Ok ss -> In st ss ->
  TextAt inp st /\ Line inp (Pos st) = Ok (line_of inp (Pos st)).
Proof.
  intros Hs H Hin. destruct (scan_positions _ _ _ Hs H) as [P1 _].
  pose proof (proj1 (Forall_forall _ _) P1 _ Hin) as Ht. split; [exact Ht|apply Line_spec; exact Ht].
Qed.

(** every option set (round 5): totality needs no side condition at all. *)
Lemma scan_total_all o inp : scan o inp <> OutOfFuel /\ scan o inp <> Panic.
Proof. split; [apply Scan_terminates|apply Scan_no_panic]. Qed.

Lemma scan_terminates o inp : supported o = true -> scan o inp <> OutOfFuel.
Proof. intros _. apply Scan_terminates. Qed.

Lemma scan_total o inp : supported o = true -> scan o inp <> OutOfFuel /\ scan o inp <> Panic.
Proof. intros _. apply scan_total_all. Qed.

Lemma scan_losslessG o inp ss :
  scan o inp = Ok ss ->
  exists hdr d0 rest, inp = hdr ++ rest /\ Header inp hdr d0 /\ LosslessG o d0 (zlen hdr) rest ss.
Proof. apply Scan_losslessG. Qed.

Lemma scan_positionsG o inp ss :
  scan o inp = Ok ss ->
  Forall (fun st => exists sh, 0 <= sh /\ (GoCommand o = false -> sh = 0) /\ TextAtShift inp sh st /\
                    Line inp (Pos st) = Ok (line_of inp (Pos st))) ss.
Proof.
  intros H. destruct (scan_losslessG _ _ _ H) as (hdr & d0 & rest & -> & _ & HL).
  pose proof (losslessG_positions _ _ _ _ _ HL hdr eq_refl) as HF.
  eapply Forall_impl; [|exact HF]. intros st (sh & H1 & H2 & H3 & H4).
  exists sh. repeat split; auto. apply Line_bounds. exact H4.
Qed.

(** every member of a statement's [Comments] is a terminated comment of the input (exactly which
    ones: the [GapCs] premise of [LosslessG]). *)
Lemma scan_comments o inp ss st c :
  scan o inp = Ok ss -> In st ss -> In c (Comments st) -> InGap o inp c.
Proof.
  intros H Hst Hc. destruct (scan_losslessG _ _ _ H) as (hdr & d0 & rest & -> & _ & HL).
  pose proof (losslessG_comments _ _ _ _ _ HL hdr) as HF.
  pose proof (proj1 (Forall_forall _ _) HF _ Hst) as HF2.
  exact (proj1 (Forall_forall _ _) HF2 _ Hc).
Qed.

Lemma scan_pos_bounds o inp ss st : scan o inp = Ok ss -> In st ss -> 0 <= Pos st <= zlen inp.
Proof.
  intros H Hst. destruct (scan_losslessG _ _ _ H) as (hdr & d0 & rest & -> & _ & HL).
  pose proof (losslessG_positions _ _ _ _ _ HL hdr eq_refl) as HF.
  destruct (proj1 (Forall_forall _ _) HF _ Hst) as (sh & _ & _ & _ & Hb). exact Hb.
Qed.

Lemma scan_line_cr o inp ss st : scan o inp = Ok ss -> In st ss ->
  Line inp (Pos st) = Ok (count_nl (strip_cr (firstn (Z.to_nat (Pos st)) inp)) + 1).
Proof. intros H Hst. apply Line_cr. eapply scan_pos_bounds; eauto. Qed.

(** [Stmt.Directive(name)] returns exactly the directives of the statement's own comments: each
    result comes from one member [c] of [Comments st] (a terminated comment of the input, which
    ones: [GapCs]) through [comment_directive], in the order of the comments. *)
Lemma scan_stmt_directive o inp ss st nm :
  scan o inp = Ok ss -> In st ss ->
  Stmt_Directive st nm = flat_map (LintNolintModel.comment_directive nm) (Comments st) /\
  (forall d, In d (Stmt_Directive st nm) ->
     exists c, In c (Comments st) /\ In d (LintNolintModel.comment_directive nm c) /\ InGap o inp c) /\
  (Comments st = [] -> Stmt_Directive st nm = []).
Proof.
  intros H Hst. split; [reflexivity|]. split.
  - intros d Hd. unfold Stmt_Directive, LintNolintModel.Stmt_Directive in Hd.
    apply in_flat_map in Hd as (c & Hc & Hd). exists c. split; [exact Hc|]. split; [exact Hd|].
    eapply scan_comments; eauto.
  - intros E. unfold Stmt_Directive. rewrite E. reflexivity.
Qed.

Lemma scan_directives_spec o nm inp :
  scan_directives o nm inp =
    match scan o inp with
    | Ok ss => Ok (map (fun st => (Pos st, Stmt_Directive st nm)) ss)
    | Err e => Err e | Panic => Panic | OutOfFuel => OutOfFuel
    end.
Proof. reflexivity. Qed.

(** the comment-group rule for a line comment (the form of the header directives): the group is
    emptied exactly when the byte after the comment's own newline - white space skipped or not -
    is another newline, i.e. an empty line follows. *)
Lemma has_prefix_nlnl_nl x : has_prefix x NLNL = true -> has_prefix x NL = true.
Proof.
  destruct x as [|a [|b t]]; simpl; try discriminate; intros H; apply andb_true_iff in H as [H _];
    rewrite H; reflexivity.
Qed.

Lemma line_comment_rule o body sp rest cs :
  index_of (body ++ NL) NL = Some (length body) -> Spaces sp -> starts_space rest = false ->
  SegC o (([45;45]%N ++ body ++ NL) ++ sp) rest cs
       (if has_prefix (sp ++ rest) NL then [] else cs ++ [[45;45]%N ++ body ++ NL]).
Proof.
  intros Hi Hsp Hr.
  pose proof (SC_comment o [45;45]%N body NL sp rest cs Hi (or_introl (conj eq_refl eq_refl)) Hsp Hr) as H.
  assert (blank_after NL (sp ++ rest) = has_prefix (sp ++ rest) NL) as E.
  { unfold blank_after. destruct (has_prefix (sp ++ rest) NLNL) eqn:E1.
    - apply has_prefix_nlnl_nl in E1. rewrite E1. reflexivity.
    - simpl. destruct (has_prefix (sp ++ rest) NL); reflexivity. }
  rewrite E in H. exact H.
Qed.
