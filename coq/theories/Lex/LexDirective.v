(** M-LEX, round 5: [Stmt.Directive(name)] on the statements the scanner returns - the composition
    of the scanner model (LexModel.scan: which comments a statement carries) with the model of
    lex.go [Stmt.Directive] / dir.go [directive] / [reDirective] written for C18
    (Lint/LintNolintModel.v, where the comment group is an input). No proofs in this file. *)
From Coq Require Import List NArith ZArith Bool.
From Atlas Require Import Base.Bytes Lex.LexModel.
From Atlas Require Lint.LintNolintModel.
Import ListNotations.

(** lex.go: Stmt.Directive(name) *)
Definition Stmt_Directive (st : Stmt) (nm : bytes) : list bytes :=
  LintNolintModel.Stmt_Directive (Comments st) nm.

(** [for _, s := range stmts { s.Directive(name) }] after [Scanner{o}.Scan(input)]. *)
Definition scan_directives (o : opts) (nm inp : bytes) : res (list (Z * list bytes)) :=
  match scan o inp with
  | Ok ss => Ok (map (fun st => (Pos st, Stmt_Directive st nm)) ss)
  | Err e => Err e
  | Panic => Panic
  | OutOfFuel => OutOfFuel
  end.
