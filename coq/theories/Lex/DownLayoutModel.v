(** M-FMT, down side (C17), round 5: readers of down sections that run in linear time and stack
    on lines of any length.  No proofs here.

    [DownModel.line_scan] / [DownModel.lines] give back a statement with [List.rev acc], which is
    quadratic in the length of the statement (and, once extracted, recursion as deep as the
    statement is long for every byte): fine as a specification, unusable on a single line of 64 KiB
    or more (DROP TABLE of a table with a huge CHECK ... IN list or 2000 columns planned without
    indentation).  The readers below do the same walk with [rev_append]; [DownLayoutProofs] proves
    them equal to the specification readers for every input, so the down-file theorems transfer
    with no bound on the length of a statement, a line or the file.  These are the readers the
    harness stage [layout] runs on the down sections of the real formatters.

    Nothing of [sql/sqltool/tool.go]'s *writing* side depends on a length: the down templates
    ([printf "%s;\n"], [println], the [rollback] template function = "--rollback: " +
    strings.ReplaceAll(stmt, "\n", "\n--rollback: ") + ";\n") copy their argument whole, which is
    what [DownModel.down_change] / [lq_rollback_line] do; the only length-sensitive code of the file
    is the [bufio.Scanner] of the goose / dbmate *import* side (C07), which raises its buffer to the
    file size. *)
From Coq Require Import List NArith Bool.
From Atlas Require Import Base.Bytes Lex.DownModel.
Import ListNotations.

(** [line_scan_go] with [rev_append acc []] for [List.rev acc] *)
Fixpoint line_scan_fast_go (m : lmode) (acc : bytes) (s : bytes) : list bytes :=
  match s with
  | [] => match m with LStmt => [rev_append acc []] | _ => [] end
  | c :: rest =>
      match m with
      | LSkipNl => line_scan_fast_go LStart [] rest
      | LComment => if N.eqb c 10 then line_scan_fast_go LStart [] rest else line_scan_fast_go LComment [] rest
      | LStart =>
          if N.eqb c 10 then line_scan_fast_go LStart [] rest
          else if N.eqb c 45 && head_is 45 rest then line_scan_fast_go LComment [] rest
          else if N.eqb c 59 && head_is 10 rest then rev_append acc [] :: line_scan_fast_go LSkipNl [] rest
          else line_scan_fast_go LStmt [c] rest
      | LStmt =>
          if N.eqb c 59 && head_is 10 rest then rev_append acc [] :: line_scan_fast_go LSkipNl [] rest
          else line_scan_fast_go LStmt (c :: acc) rest
      end
  end.
Definition line_scan_fast (s : bytes) : list bytes := line_scan_fast_go LStart [] s.

(** [lines] with [rev_append] *)
Fixpoint lines_fast_go (acc : bytes) (s : bytes) : list bytes :=
  match s with
  | [] => [rev_append acc []]
  | c :: rest => if N.eqb c 10 then rev_append acc [] :: lines_fast_go [] rest else lines_fast_go (c :: acc) rest
  end.
Definition lines_fast (s : bytes) : list bytes := lines_fast_go [] s.

(** the liquibase rollback reader over the fast line splitters *)
Definition lq_rollbacks_fast (changeset : bytes) : list bytes :=
  line_scan_fast (concat (map (fun l => l ++ s_nl) (flat_map lq_rollback_content (lines_fast changeset)))).
Definition liquibase_down_fast (now : bytes) (changes : list mchange) : list bytes :=
  flat_map lq_rollbacks_fast (List.rev (lq_changeset_texts now 0 changes)).

(** [lq_cmd_ok] over the fast line splitter *)
Definition lq_cmd_ok_fast (cmd : bytes) : bool :=
  forallb (fun l => negb (has_prefix l s_lq_rollback)) (lines_fast (cmd ++ [59%N])).

(** * Where a tool finds the down section of a one-file format

    goose and dbmate put both directions into one file; the down part is the text behind the marker
    line ("\n-- +goose Down\n" / "\n-- migrate:down\n").  [after_marker m s] is the text behind the
    first occurrence of [m] in [s] ([None]: no marker). *)
Fixpoint after_marker (m s : bytes) : option bytes :=
  if has_prefix s m then Some (skipn (length m) s)
  else match s with
       | [] => None
       | _ :: rest => after_marker m rest
       end.

(** does [m] occur in [s]? *)
Fixpoint occurs (m s : bytes) : bool :=
  has_prefix s m || match s with [] => false | _ :: rest => occurs m rest end.

(** the down statements of a goose / dbmate file as a tool reads them: everything behind the
    marker, scanned *)
Definition goose_down_stmts (file : bytes) : option (list bytes) :=
  match after_marker s_goose_down file with Some d => Some (line_scan_fast d) | None => None end.
Definition dbmate_down_stmts (file : bytes) : option (list bytes) :=
  match after_marker s_dbmate_down file with Some d => Some (line_scan_fast d) | None => None end.
