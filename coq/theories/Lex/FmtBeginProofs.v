(** C07: DefaultFormatter round trip for plans that mix closed commands and commands with one
    BEGIN ... END block (CREATE TRIGGER / PROCEDURE), MySQL and SQLite scanners, default delimiter. *)
From Coq Require Import List NArith ZArith Bool Arith Lia.
From Atlas Require Import Base.Bytes Lex.LexModel Lex.LexProofs Lex.ClosedModel Lex.ClosedProofs
  Lex.ClosedBeginModel Lex.ClosedBeginProofs Lex.FmtModel Lex.FmtProofs.
Import ListNotations.
Open Scope Z_scope.

(** a command the scanner reads back as one statement after any gap, whatever follows *)
Definition SegOK (o : opts) (cmd : bytes) : Prop :=
  forall g tail s f, Gap delimiter g ->
    input s = g ++ cmd ++ delimiter ++ [10%N] ++ tail -> pos s = 0 -> delim s = delimiter -> endterm s = false ->
    (length g + 2 * length cmd + 11 <= f)%nat ->
    exists s' cs,
      stmt o f s = Ok (s', Some (mkStmt (total s + zlen g) (stmt_text o delimiter cmd) cs)) /\
      input s' = 10%N :: tail /\ pos s' = 0 /\ delim s' = delimiter /\ endterm s' = false.

Lemma closed_SegOK o cmd : GoCommand o = false -> scan_closed o delimiter cmd = true -> SegOK o cmd.
Proof.
  intros Hgo Hc g tail s f Hg Hi Hp Hd He Hf.
  destruct (stmt_gap_closed o delimiter g cmd tail s f Hgo eq_refl gap_delim_ok_semi Hc Hg Hi Hp Hd He)
    as (s' & cs & A & B & C & D & E & _); [simpl; lia|].
  exists s', cs. repeat split; assumption.
Qed.

Lemma scan_loop_SegOK o gend : GoCommand o = false -> Gap delimiter gend ->
  forall segs s f acc g,
  Forall (fun gc => Gap delimiter (fst gc) /\ SegOK o (snd gc) /\ snd gc <> []) segs ->
  Gap delimiter g -> input s = g ++ body delimiter segs gend -> pos s = 0 -> delim s = delimiter -> endterm s = false ->
  (2 * length (input s) + 8 <= f)%nat ->
  exists ss, scan_loop o f s acc = Ok (rev acc ++ ss) /\
             map Text ss = map (fun gc => stmt_text o delimiter (snd gc)) segs.
Proof.
  intros Hgo Hgend. induction segs as [|[g1 c1] segs IH]; intros s f acc g Hall Hg Hin Hp Hdl Het Hf.
  - unfold body in Hin. simpl in Hin.
    destruct f as [|f]; [lia|]. rewrite scan_loop_S.
    destruct (stmt_gap_eof o delimiter (g ++ gend) s (S f) Hgo eq_refl gap_delim_ok_semi (Gap_app _ _ _ Hg Hgend) Hin Hp Hdl Het) as [s' Hs'].
    { rewrite Hin in Hf. lia. }
    rewrite Hs'. cbn [bind]. exists []. rewrite app_nil_r. split; reflexivity.
  - apply Forall_cons_iff in Hall as [(Hg1 & Hc1 & Hne) Hall']. simpl in Hg1, Hc1, Hne.
    destruct f as [|f]; [lia|]. rewrite scan_loop_S.
    assert (Hin' : input s = (g ++ g1) ++ c1 ++ delimiter ++ [10%N] ++ body delimiter segs gend).
    { rewrite Hin. unfold body. simpl. unfold seg at 1. simpl. repeat rewrite <- app_assoc. reflexivity. }
    destruct (Hc1 (g ++ g1) (body delimiter segs gend) s (S f) (Gap_app _ _ _ Hg Hg1) Hin' Hp Hdl Het)
      as (s' & cs & Hst & Hi' & Hp' & Hd' & He').
    { rewrite Hin' in Hf. repeat rewrite app_length in Hf. repeat rewrite app_length. simpl in *. lia. }
    rewrite Hst. cbn [bind].
    destruct (IH s' f (mkStmt (total s + zlen (g ++ g1)) (stmt_text o delimiter c1) cs :: acc) [10%N] Hall'
                 (gap_nl _ _ (gap_nil _))) as (ss & Hss & Hts); auto.
    { rewrite Hi'. rewrite Hin' in Hf. repeat rewrite app_length in Hf. simpl in *.
      assert (1 <= length c1)%nat by (destruct c1; [congruence|simpl; lia]). lia. }
    exists (mkStmt (total s + zlen (g ++ g1)) (stmt_text o delimiter c1) cs :: ss).
    split.
    + rewrite Hss. simpl. rewrite <- app_assoc. reflexivity.
    + simpl. rewrite Hts. reflexivity.
Qed.

Lemma seg_no_hdr' d g c rest :
  c <> [] -> has_prefix c [45%N; 45%N] = false ->
  (g = [] \/ exists cm, g = S_DASH2_SP ++ cm ++ S_NL /\ has_prefix cm S_ATLAS_DELIM = false) ->
  hd 0%N d <> 45%N -> d <> [] ->
  has_prefix (g ++ c ++ d ++ rest) S_HDR = false.
Proof.
  intros Hne Hdd [->|(cm & -> & Hcm)] Hd Hdn.
  - simpl. destruct c as [|a [|b t]].
    + congruence.
    + simpl. destruct (N.eqb a 45); [|reflexivity]. simpl.
      destruct d as [|x d']; [congruence|]. simpl in *.
      destruct (N.eqb x 45) eqn:E; [apply N.eqb_eq in E; congruence|reflexivity].
    + simpl in *. destruct (N.eqb a 45); [|reflexivity]. destruct (N.eqb b 45); [discriminate|reflexivity].
  - unfold S_DASH2_SP, S_NL, S_HDR.
    change (([45%N; 45%N; 32%N] ++ cm ++ [10%N]) ++ c ++ d ++ rest)
      with (45%N :: 45%N :: 32%N :: ((cm ++ [10%N]) ++ c ++ d ++ rest)).
    change ([45%N; 45%N; 32%N] ++ S_ATLAS ++ S_DELIMITER) with (45%N :: 45%N :: 32%N :: S_ATLAS_DELIM).
    cbn [has_prefix]. change (N.eqb 45 45) with true. change (N.eqb 32 32) with true. cbn [andb].
    rewrite has_prefix_app_nl; [|apply in_or_app; right; left; reflexivity|exact not_in_10_atlas_delim].
    destruct (has_prefix (cm ++ [10%N]) S_ATLAS_DELIM) eqn:E; [|reflexivity].
    apply has_prefix_snoc in E; [congruence|exact not_in_10_atlas_delim].
Qed.

(** per change: the command is read back after any gap; it is non-empty and does not start with
    a comment opener; the comment is newline-free *)
Definition change_segok (o : opts) (c : change) : Prop :=
  SegOK o (c_cmd c) /\ c_cmd c <> [] /\ has_prefix (c_cmd c) [45%N; 45%N] = false /\ comment_ok (c_comment c) = true.

Theorem atlas_roundtrip_segok o p :
  GoCommand o = false -> p_delim p = [] ->
  Forall (fun x => directive_ok x = true) (p_directives p) ->
  Forall (change_segok o) (p_changes p) ->
  texts_of (scan o (atlas_content p)) = Some (map (fun c => stmt_text o delimiter (c_cmd c)) (p_changes p)).
Proof.
  intros Hgo Hd Hdirs Hall. unfold atlas_content. rewrite atlas_changes_body. rewrite Hd. cbn [or_delim].
  unfold directives. rewrite Hd. cbn [app].
  change (match p_directives p with [] => [] | _ :: _ => join S_NL (p_directives p) ++ [10%N; 10%N] end)
    with (opt_gap (p_directives p)).
  assert (HG : Gap delimiter (opt_gap (p_directives p))).
  { unfold opt_gap. destruct (p_directives p) eqn:E; [constructor|]. rewrite <- E in *.
    apply dirs_gap; [discriminate|discriminate|exact Hdirs|rewrite E; discriminate]. }
  assert (Hh : has_prefix (opt_gap (p_directives p) ++ body delimiter (map atlas_seg (p_changes p)) []) S_HDR = false).
  { unfold opt_gap. destruct (p_directives p) as [|x ds] eqn:E.
    - simpl app. unfold body. destruct (p_changes p) as [|c cs]; [reflexivity|].
      apply Forall_cons_iff in Hall as [(H1 & H2 & H3 & H4) _]. simpl map. simpl concat. unfold seg at 1. simpl fst. simpl snd.
      repeat rewrite <- app_assoc.
      apply (seg_no_hdr' delimiter); [exact H2|exact H3| |discriminate|discriminate].
      unfold atlas_comment. destruct (c_comment c) as [|b t]; [left; reflexivity|]. right.
      exists (upper1 b ++ t). split; [rewrite <- app_assoc; reflexivity|].
      unfold upper1. destruct (b <? 128)%N; simpl.
      + destruct (N.eqb (upper b) 97) eqn:E2; [apply N.eqb_eq in E2; exfalso; exact (upper_not_a b E2)|reflexivity].
      + reflexivity.
    - apply Forall_cons_iff in Hdirs as [Hx _]. unfold directive_ok in Hx. apply andb_true_iff in Hx as [_ Hx].
      rewrite negb_true_iff in Hx.
      destruct ds as [|y ds'].
      + simpl join. repeat rewrite <- app_assoc. simpl app. apply hdr_not_prefix_line. exact Hx.
      + change (join S_NL (x :: y :: ds')) with (x ++ S_NL ++ join S_NL (y :: ds')).
        unfold S_NL at 1. repeat rewrite <- app_assoc. simpl app. apply hdr_not_prefix_line. exact Hx. }
  assert (Hsegs : Forall (fun gc => Gap delimiter (fst gc) /\ SegOK o (snd gc) /\ snd gc <> []) (map atlas_seg (p_changes p))).
  { rewrite Forall_map. eapply Forall_impl; [|exact Hall]. intros c (H1 & H2 & H3 & H4). cbn [fst snd atlas_seg].
    split; [apply atlas_comment_gap; [discriminate|discriminate|exact H4]|]. split; assumption. }
  fold (opt_gap (p_directives p)).
  remember (opt_gap (p_directives p)) as G eqn:EG. remember (map atlas_seg (p_changes p)) as segs eqn:Esegs.
  unfold texts_of, scan, Scan.
  rewrite (init_plain _ Hh). cbn [bind].
  set (inp := G ++ body delimiter segs []).
  destruct (scan_loop_SegOK o [] Hgo (gap_nil _) segs (mkScanner inp inp 0 0 0 delimiter [] false) (fuel_of inp) [] G)
    as (ss & Hs & Ht); try reflexivity; try exact HG; try exact Hsegs.
  rewrite Hs. cbn [app rev of_scan texts]. rewrite Ht. rewrite Esegs. rewrite !map_map. reflexivity.
Qed.

(** a command with one BEGIN ... END block is read back (ClosedBeginProofs.stmt_gap_closed_begin) *)
Lemma begin_SegOK o b : scan_closed_begin o b = true -> SegOK o (render_begin b).
Proof.
  intros Hb g tail s f Hg Hi Hp Hd He Hf.
  destruct (stmt_gap_closed_begin o b g tail s f Hb Hg Hi Hp Hd He) as (s' & cs & A & B & C & D & E & _); [lia|].
  exists s', cs. repeat split; assumption.
Qed.

Lemma begin_opts_go o : begin_opts o = true -> GoCommand o = false.
Proof.
  unfold begin_opts. intros H. apply andb_true_iff in H as [H _]. apply andb_true_iff in H as [_ H].
  apply negb_true_iff in H. exact H.
Qed.

(** per change: a closed command, or a command with one BEGIN ... END block *)
Definition change_closed_or_begin (o : opts) (c : change) : Prop :=
  comment_ok (c_comment c) = true /\
  (scan_closed o delimiter (c_cmd c) = true \/ exists b, c_cmd c = render_begin b /\ scan_closed_begin o b = true).

Lemma trimmed_ne c : trimmed c = true -> c <> [].
Proof. destruct c; [discriminate|discriminate]. Qed.

Lemma begin_facts o b : scan_closed_begin o b = true ->
  trimmed (render_begin b) = true /\ has_prefix (render_begin b) [45%N; 45%N] = false.
Proof.
  intros H. unfold scan_closed_begin in H.
  do 6 (apply andb_true_iff in H as [H _]).
  apply andb_true_iff in H as [H Hws1]. apply andb_true_iff in H as [H Hcw].
  apply andb_true_iff in H as [H Hpre]. apply andb_true_iff in H as [_ Ht].
  split; [exact Ht|].
  unfold render_begin. destruct (bc_pre b) as [|x [|y t]] eqn:Ep.
  - simpl in Hpre. discriminate.
  - cbn [app has_prefix]. destruct (N.eqb x 45); [|reflexivity]. cbn [andb].
    destruct (N.eqb (bc_ws1 b) 45) eqn:E; [|reflexivity].
    apply N.eqb_eq in E. rewrite E in Hws1. discriminate.
  - cbn [app has_prefix]. destruct (N.eqb x 45) eqn:Ex; [|reflexivity]. destruct (N.eqb y 45) eqn:Ey; [|reflexivity].
    apply N.eqb_eq in Ex. apply N.eqb_eq in Ey. subst x y. exfalso.
    cbn [length app] in Hcw. rewrite (ClosedBeginProofs.cw_dashdash o _ (length t)) in Hcw. discriminate.
Qed.

Theorem atlas_roundtrip_begin o p :
  GoCommand o = false -> p_delim p = [] ->
  Forall (fun x => directive_ok x = true) (p_directives p) ->
  Forall (change_closed_or_begin o) (p_changes p) ->
  texts_of (scan o (atlas_content p)) = Some (map (fun c => stmt_text o delimiter (c_cmd c)) (p_changes p)).
Proof.
  intros Hgo Hd Hdirs Hall. apply atlas_roundtrip_segok; auto.
  eapply Forall_impl; [|exact Hall]. intros c [Hc [Hcl|(b & Hb & Hbc)]].
  - unfold change_segok. split; [apply closed_SegOK; assumption|]. split.
    + unfold scan_closed in Hcl. apply andb_true_iff in Hcl as [Ht _]. apply trimmed_ne. exact Ht.
    + split; [exact (closed_not_dashdash _ _ _ Hcl)|exact Hc].
  - unfold change_segok. rewrite Hb. split; [apply begin_SegOK; exact Hbc|].
    destruct (begin_facts o b Hbc) as [Ht Hdd].
    split; [apply trimmed_ne; exact Ht|]. split; [exact Hdd|exact Hc].
Qed.
