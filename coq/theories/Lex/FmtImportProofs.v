(** C07 (import): one imported file is read back, by the atlas reader with the generic scanner,
    as the statements of the source file — under a decidable condition per statement. *)
From Coq Require Import List NArith ZArith Bool Arith Lia.
From Atlas Require Import Base.Bytes Lex.LexModel Lex.LexProofs Lex.ClosedModel Lex.ClosedProofs
  Lex.FmtModel Lex.FmtProofs Lex.FmtImportModel.
Import ListNotations.

(** a comment the import writes back as a whole "--" line: "--" body "\n" with no inner newline,
    not the atlas:delimiter header *)
Definition import_comment_ok (c : bytes) : bool :=
  match rev c with
  | 10%N :: rb => has_prefix c [45%N; 45%N] && negb (existsb (N.eqb 10) rb) && negb (has_prefix c S_HDR)
  | _ => false
  end.
(** the command of an imported statement is the source text without ONE trailing ";" and nothing
    else trimmed (strings.TrimSuffix): it may end in white space or in the line break that ends a
    trailing comment, hence [scan_closed_semi] (the delimiter the formatter appends stays in the
    text, only the start has to be trimmed) and not [scan_closed]. *)
Definition import_stmt_ok (s : Stmt) : bool :=
  forallb import_comment_ok (Comments s) && scan_closed_semi opts_generic (trim_suffix (Text s) delimiter).

(** ** the scanner loop over segments closed in the [scan_closed_semi] sense *)
Local Open Scope Z_scope.
Lemma scan_loop_segs_semi o gend :
  GoCommand o = false -> Gap delimiter gend ->
  forall segs s f acc g,
  Forall (fun gc => Gap delimiter (fst gc) /\ scan_closed_semi o (snd gc) = true) segs ->
  Gap delimiter g -> input s = g ++ body delimiter segs gend -> pos s = 0 -> delim s = delimiter -> endterm s = false ->
  (length (input s) + 5 <= f)%nat ->
  exists ss, scan_loop o f s acc = Ok (rev acc ++ ss) /\
             map Text ss = map (fun gc => snd gc ++ delimiter) segs.
Proof.
  intros Hgo Hgend. induction segs as [|[g1 c1] segs IH]; intros s f acc g Hall Hg Hin Hp Hdl Het Hf.
  - unfold body in Hin. simpl in Hin.
    destruct f as [|f]; [lia|]. rewrite scan_loop_S.
    destruct (stmt_gap_eof o delimiter (g ++ gend) s (S f) Hgo eq_refl gap_delim_ok_semi (Gap_app _ _ _ Hg Hgend) Hin Hp Hdl Het) as [s' Hs'].
    { rewrite Hin in Hf. lia. }
    rewrite Hs'. cbn [bind]. exists []. rewrite app_nil_r. split; reflexivity.
  - apply Forall_cons_iff in Hall as [[Hg1 Hc1] Hall']. simpl in Hg1, Hc1.
    destruct f as [|f]; [lia|]. rewrite scan_loop_S.
    assert (Hin' : input s = (g ++ g1) ++ c1 ++ delimiter ++ [10%N] ++ body delimiter segs gend).
    { rewrite Hin. unfold body. simpl. unfold seg at 1. simpl. repeat rewrite <- app_assoc. reflexivity. }
    destruct (stmt_gap_closed_semi o (g ++ g1) c1 (body delimiter segs gend) s (S f) Hgo Hc1 (Gap_app _ _ _ Hg Hg1) Hin' Hp Hdl Het)
      as (s' & cs & Hst & Hi' & Hp' & Hd' & He' & _ & _ & _).
    { rewrite Hin' in Hf. repeat rewrite app_length in Hf. repeat rewrite app_length. simpl in *. lia. }
    rewrite Hst. cbn [bind].
    destruct (IH s' f (mkStmt (total s + zlen (g ++ g1)) (c1 ++ delimiter) cs :: acc) [10%N] Hall'
                 (gap_nl _ _ (gap_nil _))) as (ss & Hss & Hts); auto.
    { rewrite Hi'. rewrite Hin' in Hf. repeat rewrite app_length in Hf. simpl in *.
      assert (1 <= length c1)%nat.
      { destruct c1; [|simpl; lia]. unfold scan_closed_semi in Hc1. rewrite andb_false_r in Hc1. discriminate. }
      lia. }
    exists (mkStmt (total s + zlen (g ++ g1)) (c1 ++ delimiter) cs :: ss).
    split.
    + rewrite Hss. simpl. rewrite <- app_assoc. reflexivity.
    + simpl. rewrite Hts. reflexivity.
Qed.

Lemma scan_plain_semi o g segs gend :
  GoCommand o = false -> Gap delimiter g -> Gap delimiter gend ->
  Forall (fun gc => Gap delimiter (fst gc) /\ scan_closed_semi o (snd gc) = true) segs ->
  has_prefix (g ++ body delimiter segs gend) S_HDR = false ->
  texts_of (scan o (g ++ body delimiter segs gend)) = Some (map (fun gc => snd gc ++ delimiter) segs).
Proof.
  intros Hgo Hg Hge Hall Hh. unfold texts_of, scan, Scan. rewrite (init_plain _ Hh). cbn [bind].
  set (inp := g ++ body delimiter segs gend).
  destruct (scan_loop_segs_semi o gend Hgo Hge segs
              (mkScanner inp inp 0 0 0 delimiter [] false)
              (fuel_of inp) [] g Hall Hg) as (ss & Hs & Ht); try reflexivity.
  { simpl. unfold fuel_of. lia. }
  rewrite Hs. simpl. rewrite Ht. reflexivity.
Qed.

Lemma closed_semi_not_dashdash o cmd : scan_closed_semi o cmd = true -> has_prefix cmd [45%N; 45%N] = false.
Proof.
  intros H. destruct cmd as [|a [|b t]]; try reflexivity.
  { simpl. apply andb_false_r. }
  simpl has_prefix. destruct (N.eqb a 45) eqn:Ea; [|reflexivity]. destruct (N.eqb b 45) eqn:Eb; [|reflexivity].
  apply N.eqb_eq in Ea. apply N.eqb_eq in Eb. subst a b. exfalso.
  unfold scan_closed_semi in H. apply andb_true_iff in H as [_ H].
  cbn [length] in H. rewrite cw_unfold in H.
  change ((45%N :: 45%N :: t) ++ follow delimiter) with (45%N :: 45%N :: (t ++ follow delimiter)) in H.
  change (decode_rune (45%N :: 45%N :: t ++ follow delimiter)) with (45%N, 1%Z) in H.
  cbv zeta beta iota in H. change (Z.to_nat 1) with 1%nat in H.
  cbn -[has_prefix has_prefix_ci cw begin_hint] in H.
  destruct (has_prefix_ci _ W_DELIMITER) in H; [discriminate H|].
  destruct (has_prefix _ delimiter) in H; [discriminate H|].
  destruct (MatchDollarQuote o && false && false) in H; discriminate H.
Qed.

Lemma seg_no_hdr_semi o c rest :
  scan_closed_semi o c = true -> has_prefix (c ++ delimiter ++ rest) S_HDR = false.
Proof.
  intros Hc. pose proof (closed_semi_not_dashdash _ _ Hc) as Hdd.
  destruct c as [|a [|b t]].
  - unfold scan_closed_semi in Hc. rewrite andb_false_r in Hc. discriminate.
  - simpl. destruct (N.eqb a 45); reflexivity.
  - simpl in *. destruct (N.eqb a 45); [|reflexivity]. destruct (N.eqb b 45); [discriminate|reflexivity].
Qed.
Local Close Scope Z_scope.

Definition import_gap (s : Stmt) : bytes :=
  concat (map (fun c => if has_suffix c S_NL then c else c ++ S_NL) (Comments s)).
Definition import_seg (s : Stmt) : bytes * bytes := (import_gap s, trim_suffix (Text s) delimiter).

Lemma import_comment_shape c : import_comment_ok c = true ->
  exists body, c = [45%N; 45%N] ++ body ++ [10%N] /\ ~ In 10%N body /\ has_prefix ([45%N;45%N] ++ body) S_HDR = false.
Proof.
  unfold import_comment_ok. destruct (rev c) as [|x rb] eqn:E; [discriminate|].
  destruct (N.eq_dec x 10) as [->|Hx].
  2:{ destruct x as [|px]; [discriminate|]. repeat (destruct px as [px|px|]; try discriminate). exfalso; apply Hx; reflexivity. }
  intros H. apply andb_true_iff in H as [H H3]. apply andb_true_iff in H as [H1 H2].
  assert (Hc : c = rev rb ++ [10%N]) by (rewrite <- (rev_involutive c), E; reflexivity).
  rewrite negb_true_iff in H2, H3.
  assert (Hn : ~ In 10%N (rev rb)).
  { intros Hin. apply in_rev in Hin. assert (existsb (N.eqb 10) rb = true); [|congruence].
    apply existsb_exists. exists 10%N. split; [exact Hin|reflexivity]. }
  rewrite Hc in H1. destruct (rev rb) as [|a [|b body]] eqn:Er.
  - simpl in H1. discriminate.
  - simpl in H1. apply andb_true_iff in H1 as [_ H1]. discriminate.
  - simpl in H1. apply andb_true_iff in H1 as [Ha H1]. apply andb_true_iff in H1 as [Hb _].
    apply N.eqb_eq in Ha. apply N.eqb_eq in Hb. subst a b.
    exists body. split; [rewrite Hc; reflexivity|]. split.
    + intros Hin. apply Hn. right. right. exact Hin.
    + rewrite Hc in H3. destruct (has_prefix ([45%N; 45%N] ++ body) S_HDR) eqn:E2; [|reflexivity].
      rewrite <- H3. symmetry. apply has_prefix_app_true with (t := [10%N]) in E2.
      rewrite <- app_assoc in E2. exact E2.
Qed.

Lemma import_gap_ok s : forallb import_comment_ok (Comments s) = true -> Gap delimiter (import_gap s).
Proof.
  unfold import_gap. induction (Comments s) as [|c cs IH]; intros H; [constructor|].
  simpl in H. apply andb_true_iff in H as [Hc Hcs]. cbn [map concat].
  destruct (import_comment_shape c Hc) as (body & -> & Hb & _).
  assert (has_suffix ([45%N; 45%N] ++ body ++ [10%N]) S_NL = true) as ->.
  { unfold has_suffix, S_NL. rewrite !app_length. cbn [length].
    replace (2 + (length body + 1) - 1)%nat with (length ([45%N;45%N] ++ body)) by (rewrite app_length; simpl; lia).
    replace ([45%N; 45%N] ++ body ++ [10%N]) with (([45%N; 45%N] ++ body) ++ [10%N]) by (rewrite <- app_assoc; reflexivity).
    rewrite skipn_app_l. simpl. destruct (length body + 1)%nat eqn:El; [lia|]. reflexivity. }
  repeat rewrite <- app_assoc. constructor; [exact Hb|reflexivity|apply IH; exact Hcs].
Qed.

(** the file the import writes for the statements [ss] of one source file *)
Lemma import_content_body version desc ss :
  atlas_content (import_plan version desc ss) = body delimiter (map import_seg ss) [].
Proof.
  unfold atlas_content, import_plan, directives. cbn [p_delim p_directives p_changes app].
  unfold body. rewrite !app_nil_r. f_equal. rewrite !map_map. apply map_ext. intros s.
  unfold atlas_change, seg, import_seg, import_cmd, import_gap, atlas_comment, or_delim, S_NL.
  cbn [fst snd c_comment c_cmd app]. repeat rewrite <- app_assoc. reflexivity.
Qed.

Theorem import_file_roundtrip version desc ss :
  forallb import_stmt_ok ss = true ->
  texts_of (Stmts (atlas_content (import_plan version desc ss))) =
  Some (map (fun s => trim_suffix (Text s) delimiter ++ delimiter) ss).
Proof.
  intros Hall. rewrite import_content_body. unfold Stmts.
  pose proof (scan_plain_semi opts_generic [] (map import_seg ss) [] eq_refl (gap_nil _) (gap_nil _)) as HS.
  cbn [app] in HS. rewrite HS.
  - rewrite map_map. reflexivity.
  - rewrite Forall_map. apply Forall_forall. intros s Hs.
    pose proof (proj1 (forallb_forall _ _) Hall s Hs) as H. unfold import_stmt_ok in H.
    apply andb_true_iff in H as [H1 H2]. cbn [fst snd import_seg]. split; [apply import_gap_ok; exact H1|exact H2].
  - destruct ss as [|s ss']; [reflexivity|].
    cbn [forallb] in Hall. apply andb_true_iff in Hall as [Hs _]. unfold import_stmt_ok in Hs.
    apply andb_true_iff in Hs as [H1 H2].
    unfold body. cbn [map concat]. unfold seg at 1. cbn [fst snd import_seg]. repeat rewrite <- app_assoc.
    unfold import_gap. destruct (Comments s) as [|c cs] eqn:Ec.
    + cbn [map concat app].
      apply (seg_no_hdr_semi opts_generic (trim_suffix (Text s) delimiter)
               (10%N :: concat (map (seg delimiter) (map import_seg ss')) ++ [])). exact H2.
    + cbn [forallb] in H1. apply andb_true_iff in H1 as [Hc _].
      destruct (import_comment_shape c Hc) as (b & -> & Hb & Hh).
      cbn [map concat].
      assert (has_suffix ([45%N; 45%N] ++ b ++ [10%N]) S_NL = true) as ->.
      { unfold has_suffix, S_NL. rewrite !app_length. cbn [length].
        replace (2 + (length b + 1) - 1)%nat with (length ([45%N;45%N] ++ b)) by (rewrite app_length; simpl; lia).
        replace ([45%N; 45%N] ++ b ++ [10%N]) with (([45%N; 45%N] ++ b) ++ [10%N]) by (rewrite <- app_assoc; reflexivity).
        rewrite skipn_app_l. simpl. destruct (length b + 1)%nat eqn:El; [lia|]. reflexivity. }
      replace ((([45%N; 45%N] ++ b ++ [10%N]) ++ concat (map (fun c0 => if has_suffix c0 S_NL then c0 else c0 ++ S_NL) cs)) ++
               trim_suffix (Text s) delimiter ++ delimiter ++ [10%N] ++ concat (map (seg delimiter) (map import_seg ss')) ++ [])
        with (([45%N; 45%N] ++ b) ++ 10%N :: (concat (map (fun c0 => if has_suffix c0 S_NL then c0 else c0 ++ S_NL) cs) ++
               trim_suffix (Text s) delimiter ++ delimiter ++ [10%N] ++ concat (map (seg delimiter) (map import_seg ss')) ++ []))
        by (repeat rewrite <- app_assoc; reflexivity).
      apply hdr_not_prefix_line. exact Hh.
Qed.

(** * the whole directory: if the import keeps the file order, the statement sequence is kept *)

(** per source file: the source reader succeeds, every statement is [import_stmt_ok] and ends with
    the default delimiter (true of every reader here: they scan with ';') *)
Definition import_source_ok (F : format) (content : bytes) : bool :=
  match read F opts_generic content with
  | RStmts ss => forallb import_stmt_ok ss && forallb (fun s => has_suffix (Text s) delimiter) ss
  | _ => false
  end.

Lemma find_name_cons (n : bytes) c (l : list (bytes * bytes)) m :
  bytes_eqb n m = false -> find (fun f => bytes_eqb (fst f) m) ((n, c) :: l) = find (fun f => bytes_eqb (fst f) m) l.
Proof. intros H. simpl. rewrite H. reflexivity. Qed.

Lemma dir_stmts_skip n c l : forall names, ~ In n names ->
  dir_stmts ((n, c) :: l) names = dir_stmts l names.
Proof.
  induction names as [|m ms IH]; intros H; [reflexivity|].
  simpl. assert (bytes_eqb n m = false) as E.
  { apply bytes_eqb_neq. intros ->. apply H. left. reflexivity. }
  rewrite E. rewrite IH by (intros I; apply H; right; exact I). reflexivity.
Qed.

Lemma import_all_spec F now files : forall olds news out,
  import_all F now files olds news = Some out -> length olds = length news ->
  (forall o, In o olds -> exists c, find (fun f => bytes_eqb (fst f) o) files = Some (o, c) /\ import_source_ok F c = true) ->
  NoDup (map fst out) ->
  dir_stmts out (map fst out) = source_stmts F files olds.
Proof.
  induction olds as [|o ot IH]; intros news out H Hlen Hok Hnd.
  - destruct news; [|discriminate]. simpl in H. injection H as <-. reflexivity.
  - destruct news as [|n nt]; [discriminate|]. simpl in Hlen. injection Hlen as Hlen.
    destruct (Hok o (or_introl eq_refl)) as (c & Hf & Hc).
    cbn [import_all] in H. rewrite Hf in H.
    destruct (import_file F now o n c) as [[name cont]|] eqn:Ei; [|discriminate].
    destruct (import_all F now files ot nt) as [r|] eqn:Er; [|discriminate].
    injection H as <-. cbn [map fst] in *. inversion Hnd as [|x l Hni Hnd']; subst.
    cbn [source_stmts]. rewrite Hf.
    unfold import_source_ok in Hc. destruct (read F opts_generic c) as [ss| | |] eqn:Erd; try discriminate.
    apply andb_true_iff in Hc as [Hc1 Hc2].
    (* the imported file reads back as the source statements *)
    assert (Hrt : texts (of_scan (Stmts cont)) = Some (map Text ss)).
    { unfold import_file in Ei. rewrite Erd in Ei. injection Ei as _ <-.
      pose proof (import_file_roundtrip (file_version F n) (file_desc F n) ss Hc1) as H.
      unfold texts_of in H. rewrite H. f_equal. apply map_ext_in. intros s Hin.
      pose proof (proj1 (forallb_forall _ _) Hc2 s Hin) as Hs. cbn beta in Hs.
      unfold trim_suffix. rewrite Hs. symmetry. exact (LexProofs.has_suffix_app _ _ Hs). }
    cbn [dir_stmts find fst]. rewrite bytes_eqb_refl. rewrite Hrt.
    rewrite dir_stmts_skip by exact Hni.
    rewrite (IH nt r Er Hlen); [|intros o' Ho'; apply Hok; right; exact Ho'|exact Hnd'].
    cbn [texts]. reflexivity.
Qed.

(** the atlas directory lists files by name: the target names must already be in that order *)
Fixpoint names_eqb (a b : list bytes) : bool :=
  match a, b with
  | [], [] => true
  | x :: a', y :: b' => bytes_eqb x y && names_eqb a' b'
  | _, _ => false
  end.
Lemma names_eqb_eq a : forall b, names_eqb a b = true -> a = b.
Proof.
  induction a as [|x a IH]; intros [|y b] H; simpl in H; try discriminate; [reflexivity|].
  apply andb_true_iff in H as [H1 H2]. apply bytes_eqb_eq in H1. rewrite H1, (IH _ H2). reflexivity.
Qed.
Definition import_order_ok (out : list (bytes * bytes)) : bool :=
  names_eqb (local_files (map fst out)) (map fst out).

Theorem import_dir_roundtrip F now files out :
  import_dir F now files = Some out ->
  import_order_ok out = true -> NoDup (map fst out) ->
  (forall o, In o (dir_files F (map fst files)) ->
     exists c, find (fun f => bytes_eqb (fst f) o) files = Some (o, c) /\ import_source_ok F c = true) ->
  imported_stmts out = source_stmts F files (dir_files F (map fst files)).
Proof.
  intros Hi Ho Hnd Hok. unfold imported_stmts. rewrite (names_eqb_eq _ _ Ho).
  unfold import_dir in Hi. eapply import_all_spec; eauto.
  unfold import_names. destruct F; try reflexivity.
  (* Flyway: set_repeatable keeps the length *)
  generalize (dir_files FFlyway (map fst files)). intros l. generalize [48%N], false.
  induction l as [|x l IH]; intros prev seen; [reflexivity|]. cbn [set_repeatable length].
  destruct (seen || _); cbn [length]; f_equal; apply IH.
Qed.
