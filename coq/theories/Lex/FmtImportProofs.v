(** C07 (import): one imported file is read back, by the atlas reader with the generic scanner,
    as the statements of the source file — under a decidable condition per statement. *)
From Coq Require Import List NArith ZArith Bool Arith Lia.
From Atlas Require Import Base.Bytes Lex.LexModel Lex.LexProofs Lex.ClosedModel Lex.ClosedProofs
  Lex.FmtModel Lex.FmtProofs Lex.FmtImportModel.
Import ListNotations.

(** a comment the import writes back as a whole "--" line: "--" body "\n" with no inner newline,
    not the atlas:delimiter header *)
Definition import_comment_ok (c : bytes) : bool :=
  match rev c with
  | 10%N :: rb => has_prefix c [45%N; 45%N] && negb (existsb (N.eqb 10) rb) && negb (has_prefix c S_HDR)
  | _ => false
  end.
Definition import_stmt_ok (s : Stmt) : bool :=
  forallb import_comment_ok (Comments s) && scan_closed opts_generic delimiter (trim_suffix (Text s) delimiter).

Definition import_gap (s : Stmt) : bytes :=
  concat (map (fun c => if has_suffix c S_NL then c else c ++ S_NL) (Comments s)).
Definition import_seg (s : Stmt) : bytes * bytes := (import_gap s, trim_suffix (Text s) delimiter).

Lemma import_comment_shape c : import_comment_ok c = true ->
  exists body, c = [45%N; 45%N] ++ body ++ [10%N] /\ ~ In 10%N body /\ has_prefix ([45%N;45%N] ++ body) S_HDR = false.
Proof.
  unfold import_comment_ok. destruct (rev c) as [|x rb] eqn:E; [discriminate|].
  destruct (N.eq_dec x 10) as [->|Hx].
  2:{ destruct x as [|px]; [discriminate|]. repeat (destruct px as [px|px|]; try discriminate). exfalso; apply Hx; reflexivity. }
  intros H. apply andb_true_iff in H as [H H3]. apply andb_true_iff in H as [H1 H2].
  assert (Hc : c = rev rb ++ [10%N]) by (rewrite <- (rev_involutive c), E; reflexivity).
  rewrite negb_true_iff in H2, H3.
  assert (Hn : ~ In 10%N (rev rb)).
  { intros Hin. apply in_rev in Hin. assert (existsb (N.eqb 10) rb = true); [|congruence].
    apply existsb_exists. exists 10%N. split; [exact Hin|reflexivity]. }
  rewrite Hc in H1. destruct (rev rb) as [|a [|b body]] eqn:Er.
  - simpl in H1. discriminate.
  - simpl in H1. apply andb_true_iff in H1 as [_ H1]. discriminate.
  - simpl in H1. apply andb_true_iff in H1 as [Ha H1]. apply andb_true_iff in H1 as [Hb _].
    apply N.eqb_eq in Ha. apply N.eqb_eq in Hb. subst a b.
    exists body. split; [rewrite Hc; reflexivity|]. split.
    + intros Hin. apply Hn. right. right. exact Hin.
    + rewrite Hc in H3. destruct (has_prefix ([45%N; 45%N] ++ body) S_HDR) eqn:E2; [|reflexivity].
      rewrite <- H3. symmetry. apply has_prefix_app_true with (t := [10%N]) in E2.
      rewrite <- app_assoc in E2. exact E2.
Qed.

Lemma import_gap_ok s : forallb import_comment_ok (Comments s) = true -> Gap delimiter (import_gap s).
Proof.
  unfold import_gap. induction (Comments s) as [|c cs IH]; intros H; [constructor|].
  simpl in H. apply andb_true_iff in H as [Hc Hcs]. cbn [map concat].
  destruct (import_comment_shape c Hc) as (body & -> & Hb & _).
  assert (has_suffix ([45%N; 45%N] ++ body ++ [10%N]) S_NL = true) as ->.
  { unfold has_suffix, S_NL. rewrite !app_length. cbn [length].
    replace (2 + (length body + 1) - 1)%nat with (length ([45%N;45%N] ++ body)) by (rewrite app_length; simpl; lia).
    replace ([45%N; 45%N] ++ body ++ [10%N]) with (([45%N; 45%N] ++ body) ++ [10%N]) by (rewrite <- app_assoc; reflexivity).
    rewrite skipn_app_l. simpl. destruct (length body + 1)%nat eqn:El; [lia|]. reflexivity. }
  repeat rewrite <- app_assoc. constructor; [exact Hb|reflexivity|apply IH; exact Hcs].
Qed.

(** the file the import writes for the statements [ss] of one source file *)
Lemma import_content_body version desc ss :
  atlas_content (import_plan version desc ss) = body delimiter (map import_seg ss) [].
Proof.
  unfold atlas_content, import_plan, directives. cbn [p_delim p_directives p_changes app].
  unfold body. rewrite !app_nil_r. f_equal. rewrite !map_map. apply map_ext. intros s.
  unfold atlas_change, seg, import_seg, import_cmd, import_gap, atlas_comment, or_delim, S_NL.
  cbn [fst snd c_comment c_cmd app]. repeat rewrite <- app_assoc. reflexivity.
Qed.

Theorem import_file_roundtrip version desc ss :
  forallb import_stmt_ok ss = true ->
  texts_of (Stmts (atlas_content (import_plan version desc ss))) =
  Some (map (fun s => trim_suffix (Text s) delimiter ++ delimiter) ss).
Proof.
  intros Hall. rewrite import_content_body. unfold Stmts.
  pose proof (scan_plain opts_generic [] (map import_seg ss) [] eq_refl (gap_nil _) (gap_nil _)) as HS.
  cbn [app] in HS. rewrite HS.
  - rewrite map_map. reflexivity.
  - rewrite Forall_map. apply Forall_forall. intros s Hs.
    pose proof (proj1 (forallb_forall _ _) Hall s Hs) as H. unfold import_stmt_ok in H.
    apply andb_true_iff in H as [H1 H2]. cbn [fst snd import_seg]. split; [apply import_gap_ok; exact H1|exact H2].
  - destruct ss as [|s ss']; [reflexivity|].
    cbn [forallb] in Hall. apply andb_true_iff in Hall as [Hs _]. unfold import_stmt_ok in Hs.
    apply andb_true_iff in Hs as [H1 H2].
    unfold body. cbn [map concat]. unfold seg at 1. cbn [fst snd import_seg]. repeat rewrite <- app_assoc.
    unfold import_gap. destruct (Comments s) as [|c cs] eqn:Ec.
    + cbn [map concat app].
      apply (seg_no_hdr delimiter opts_generic [] (trim_suffix (Text s) delimiter)
               (10%N :: concat (map (seg delimiter) (map import_seg ss')) ++ []));
        [exact H2|left; reflexivity|discriminate|discriminate].
    + cbn [forallb] in H1. apply andb_true_iff in H1 as [Hc _].
      destruct (import_comment_shape c Hc) as (b & -> & Hb & Hh).
      cbn [map concat].
      assert (has_suffix ([45%N; 45%N] ++ b ++ [10%N]) S_NL = true) as ->.
      { unfold has_suffix, S_NL. rewrite !app_length. cbn [length].
        replace (2 + (length b + 1) - 1)%nat with (length ([45%N;45%N] ++ b)) by (rewrite app_length; simpl; lia).
        replace ([45%N; 45%N] ++ b ++ [10%N]) with (([45%N; 45%N] ++ b) ++ [10%N]) by (rewrite <- app_assoc; reflexivity).
        rewrite skipn_app_l. simpl. destruct (length b + 1)%nat eqn:El; [lia|]. reflexivity. }
      replace ((([45%N; 45%N] ++ b ++ [10%N]) ++ concat (map (fun c0 => if has_suffix c0 S_NL then c0 else c0 ++ S_NL) cs)) ++
               trim_suffix (Text s) delimiter ++ delimiter ++ [10%N] ++ concat (map (seg delimiter) (map import_seg ss')) ++ [])
        with (([45%N; 45%N] ++ b) ++ 10%N :: (concat (map (fun c0 => if has_suffix c0 S_NL then c0 else c0 ++ S_NL) cs) ++
               trim_suffix (Text s) delimiter ++ delimiter ++ [10%N] ++ concat (map (seg delimiter) (map import_seg ss')) ++ []))
        by (repeat rewrite <- app_assoc; reflexivity).
      apply hdr_not_prefix_line. exact Hh.
Qed.
