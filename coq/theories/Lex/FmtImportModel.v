(** M-FMT (import): cmd/atlas/internal/cmdapi/migrate.go: migrateImportRun — every file of the
    source directory (in the order of the source reader's Files()) is read with f.StmtDecls() ("not
    driver aware": the generic scanner / the Goose and DBMate readers), each statement becomes a
    Change whose Cmd is its comments followed by its text without a trailing ';', and the plan
    {Version: f.Version(), Name: f.Desc()} is written with the DefaultFormatter.
    File.Version/Desc: sql/migrate/dir.go LocalFile, sql/sqltool/tool.go GolangMigrateFile.Desc,
    FlywayFile.Version/Desc, SetRepeatableVersion.  No proofs here. *)
From Coq Require Import List NArith ZArith Bool Arith.
From Atlas Require Import Base.Bytes Lex.LexModel Lex.ClosedModel Lex.FmtModel.
Import ListNotations.

(** strings.SplitN(s, sep, 2) *)
Definition split2 (s sep : bytes) : bytes * option bytes :=
  match index_of s sep with
  | Some i => (firstn i s, Some (skipn (i + length sep) s))
  | None => (s, None)
  end.

(** LocalFile.Version / Desc *)
Definition local_version (n : bytes) : bytes := fst (split2 (trim_suffix n S_SQL) [95%N]).
Definition local_desc (n : bytes) : bytes :=
  match snd (split2 n [95%N]) with Some r => trim_suffix r S_SQL | None => [] end.
(** GolangMigrateFile.Desc *)
Definition golang_desc (n : bytes) : bytes := trim_suffix (local_desc n) [46;117;112]%N.
(** flywayDesc *)
Definition flyway_desc (n : bytes) : bytes :=
  match snd (split2 n [95;95]%N) with Some r => trim_suffix r S_SQL | None => [] end.

Definition file_version (F : format) (n : bytes) : bytes :=
  match F with FFlyway => flyway_version n | _ => local_version n end.
Definition file_desc (F : format) (n : bytes) : bytes :=
  match F with FFlyway => flyway_desc n | FGolangMigrate => golang_desc n | _ => local_desc n end.

(** SetRepeatableVersion: from the first file without a version on, files are renamed
    V<v>R__<desc> where v is the version of the preceding file ("0" if there is none). *)
Fixpoint set_repeatable (prev : bytes) (seen : bool) (names : list bytes) : list bytes :=
  match names with
  | [] => []
  | n :: t =>
    if seen || match flyway_version n with [] => true | _ => false end then
      (match prev with
       | [] => n   (* v == "": nothing is renamed *)
       | v => [86%N] ++ v ++ [82;95;95]%N ++ flyway_desc n
       end) :: set_repeatable prev true t
    else n :: set_repeatable (flyway_version n) false t
  end.
Definition import_names (F : format) (names : list bytes) : list bytes :=
  match F with
  | FFlyway => set_repeatable [48%N] false names
  | _ => names
  end.

(** the Change.Cmd of an imported statement *)
Definition import_cmd (s : Stmt) : bytes :=
  concat (map (fun c => if has_suffix c S_NL then c else c ++ S_NL) (Comments s))
  ++ trim_suffix (Text s) delimiter.
Definition import_plan (version desc : bytes) (ss : list Stmt) : plan :=
  mkPlan version desc [] [] (map (fun s => mkChange (import_cmd s) [] []) ss).

(** one imported file: (target name, content); [None] = the source reader fails *)
Definition import_file (F : format) (now : bytes) (oldname newname content : bytes) : option (bytes * bytes) :=
  match read F opts_generic content with
  | RStmts ss =>
    let p := import_plan (file_version F newname) (file_desc F newname) ss in
    Some (atlas_name now p, atlas_content p)
  | _ => None
  end.

Fixpoint import_all (F : format) (now : bytes) (files : list (bytes * bytes)) (olds news : list bytes)
  : option (list (bytes * bytes)) :=
  match olds, news with
  | o :: ot, n :: nt =>
    match find (fun f => bytes_eqb (fst f) o) files with
    | Some (_, content) =>
      match import_file F now o n content, import_all F now files ot nt with
      | Some x, Some r => Some (x :: r)
      | _, _ => None
      end
    | None => None
    end
  | _, _ => Some []
  end.

(** migrateImportRun: source files (name, content) -> target files in writing order *)
Definition import_dir (F : format) (now : bytes) (files : list (bytes * bytes)) : option (list (bytes * bytes)) :=
  let olds := dir_files F (map fst files) in
  import_all F now files olds (import_names F olds).

(** the statement sequence of a directory read as the atlas format with the generic scanner
    (LocalDir.Files order, File.Stmts) *)
Fixpoint dir_stmts (files : list (bytes * bytes)) (names : list bytes) : option (list bytes) :=
  match names with
  | [] => Some []
  | n :: t =>
    match find (fun f => bytes_eqb (fst f) n) files with
    | Some (_, content) =>
      match texts (of_scan (Stmts content)), dir_stmts files t with
      | Some a, Some b => Some (a ++ b)
      | _, _ => None
      end
    | None => None
    end
  end.
Definition imported_stmts (files : list (bytes * bytes)) : option (list bytes) :=
  dir_stmts files (local_files (map fst files)).
(** the source sequence, with the source reader *)
Fixpoint source_stmts (F : format) (files : list (bytes * bytes)) (names : list bytes) : option (list bytes) :=
  match names with
  | [] => Some []
  | n :: t =>
    match find (fun f => bytes_eqb (fst f) n) files with
    | Some (_, content) =>
      match texts (read F opts_generic content), source_stmts F files t with
      | Some a, Some b => Some (a ++ b)
      | _, _ => None
      end
    | None => None
    end
  end.
