(** C17, the flag and the reverse of one ALTER TABLE: how [alterTable] of sql/mysql/migrate_oss.go and
    sql/postgres/migrate_oss.go accumulate, arm by arm over the sub-changes of a ModifyTable, the flag
    [reversible] and the list [reverse] of reverse sub-changes, and what becomes of them:

      var ( reverse []schema.Change; reversible = true )
      build := func(changes) { for each change: switch { ... reverse = append(reverse, <inverse>) ... } }
      cmd := build(changes)
      if reversible { sqlx.ReverseChanges(reverse); change.Reverse = build(reverse) }

    An arm is abstracted to its kind and the key of the object it touches (what the reverse-skeleton
    reader of the harness prints for the clause).  No proofs here. *)
From Coq Require Import List NArith Bool Arith.
From Atlas Require Import Base.Bytes.
Import ListNotations.

Inductive akind :=
| KOther          (* appends its inverse: Add/Drop/Modify/Rename Column, Add/Drop/Rename Index, Add/Drop/Modify
                     PrimaryKey, Add ForeignKey, ModifyCheck, ModifyAttr, MySQL DropCheck / DropForeignKey *)
| KDropConst      (* PostgreSQL [dropConst]: DropIndex / DropPrimaryKey / DropCheck / DropForeignKey, moved to the
                     front by [sort.SliceStable] before the statement is built; appends its inverse *)
| KCheckNamed     (* AddCheck with a name:  if reversible = reversible && true;  reversible { append DropCheck } *)
| KCheckUnnamed   (* AddCheck without a name: reversible = reversible && false; nothing appended *)
| KGenerated      (* PostgreSQL ModifyColumn with ChangeGenerated: reversible = false; the inverse is appended *)
| KAttr.          (* MySQL AddAttr / DropAttr: the attribute is written, nothing is appended and reversible = false
                     (no statement restores the previous, implicit value; fix C17-mysql-table-attr-reverse) *)

Record arm := mkArm { a_kind : akind; a_key : bytes }.

(** one pass of the closure [build] over [changes]: the state is ([reverse], [reversible]) *)
Fixpoint alter_loop (arms : list arm) (reverse : list arm) (reversible : bool) : list arm * bool :=
  match arms with
  | [] => (reverse, reversible)
  | a :: rest =>
      match a_kind a with
      | KOther | KDropConst => alter_loop rest (reverse ++ [a]) reversible
      | KCheckNamed =>
          let reversible' := reversible && true in
          if reversible' then alter_loop rest (reverse ++ [a]) reversible'
          else alter_loop rest reverse reversible'
      | KCheckUnnamed =>
          let reversible' := reversible && false in
          if reversible' then alter_loop rest (reverse ++ [a]) reversible'
          else alter_loop rest reverse reversible'
      | KGenerated => alter_loop rest (reverse ++ [a]) false
      | KAttr => alter_loop rest reverse false
      end
  end.

(** [if reversible { sqlx.ReverseChanges(reverse); Reverse = build(reverse) }]: the arms of the reverse
    statement in order, [None] = the change carries no reverse *)
Definition alter_reverse (arms : list arm) : option (list arm) :=
  let '(reverse, reversible) := alter_loop arms [] true in
  if reversible then Some (rev reverse) else None.

(** sql/mysql: the sub-changes reach [alterTable] in the order given *)
Definition alterTable_mysql (arms : list arm) : option (list arm) := alter_reverse arms.

(** sql/postgres: [sort.SliceStable(changes, func(i, j) { return dropConst(changes[i]) && !dropConst(changes[j]) })]
    -- a stable sort by that order is the stable partition: the constraint drops first *)
Definition is_drop_const (a : arm) : bool := match a_kind a with KDropConst => true | _ => false end.
Definition pg_sorted (arms : list arm) : list arm :=
  filter is_drop_const arms ++ filter (fun a => negb (is_drop_const a)) arms.
Definition alterTable_postgres (arms : list arm) : option (list arm) := alter_reverse (pg_sorted arms).

(** the declarative reading *)
Definition arm_reversible (a : arm) : bool :=
  match a_kind a with KCheckUnnamed | KGenerated | KAttr => false | _ => true end.
Definition arm_has_inverse (a : arm) : bool :=
  match a_kind a with KAttr | KCheckUnnamed => false | _ => true end.

(** the object sequence the harness reads from the reverse statement: adjacent equal keys merged *)
Fixpoint merge_adjacent (l : list bytes) : list bytes :=
  match l with
  | [] => []
  | x :: rest =>
      match rest with
      | y :: _ => if bytes_eqb x y then merge_adjacent rest else x :: merge_adjacent rest
      | [] => [x]
      end
  end.
Definition reverse_objects (r : option (list arm)) : option (list bytes) :=
  match r with Some l => Some (merge_adjacent (map a_key l)) | None => None end.
