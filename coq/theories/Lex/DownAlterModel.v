(** C17, the flag and the reverse of one ALTER TABLE: how [alterTable] of sql/mysql/migrate_oss.go and
    sql/postgres/migrate_oss.go accumulate, arm by arm over the sub-changes of a ModifyTable, the flag
    [reversible] and the list [reverse] of reverse sub-changes, and what becomes of them:

      var ( reverse []schema.Change; reversible = true )
      build := func(changes) { for each change: switch { ... reverse = append(reverse, <inverse>) ... } }
      cmd := build(changes)
      if reversible { sqlx.ReverseChanges(reverse); change.Reverse = build(reverse) }

    An arm is abstracted to its kind and the key of the object it touches (what the reverse-skeleton
    reader of the harness prints for the clause).  No proofs here. *)
From Coq Require Import List NArith Bool Arith.
From Atlas Require Import Base.Bytes.
Import ListNotations.

(** the change kinds a PostgreSQL ModifyColumn carries ([schema.ChangeKind] bits that reach
    [alterColumn]; ChangeComment is taken out by modifyTable and becomes a COMMENT ON statement) *)
Record ckinds := mkKinds { k_type : bool; k_null : bool; k_default : bool; k_attr : bool; k_generated : bool }.
Definition clear_generated (k : ckinds) : ckinds :=   (* change.Change & ^schema.ChangeGenerated *)
  mkKinds (k_type k) (k_null k) (k_default k) (k_attr k) false.

Inductive akind :=
| KOther          (* appends its inverse: Add/Drop/Modify/Rename Column, Add/Drop/Rename Index, Add/Drop/Modify
                     PrimaryKey, Add ForeignKey, ModifyCheck, ModifyAttr, MySQL DropCheck / DropForeignKey *)
| KDropConst      (* PostgreSQL [dropConst]: DropIndex / DropPrimaryKey / DropCheck / DropForeignKey, moved to the
                     front by [sort.SliceStable] before the statement is built; appends its inverse *)
| KCheckNamed     (* AddCheck with a name:  if reversible = reversible && true;  reversible { append DropCheck } *)
| KCheckUnnamed   (* AddCheck without a name: reversible = reversible && false; nothing appended *)
| KGenerated      (* PostgreSQL ModifyColumn with ChangeGenerated only: reversible = false; the inverse is appended *)
| KModCol (k : ckinds)
                  (* PostgreSQL ModifyColumn, per kind:
                       if change.Change.Is(schema.ChangeGenerated) { reversible = false }
                       reverse = append(reverse, &schema.ModifyColumn{From: To, To: From,
                                                   Change: change.Change & ^schema.ChangeGenerated})
                     and alterColumn writes one "ALTER COLUMN c <clause>" per kind, in the order of its
                     switch: TYPE, NULL, DEFAULT, IDENTITY (ChangeAttr), DROP EXPRESSION (ChangeGenerated) *)
| KAttr.          (* MySQL AddAttr / DropAttr: the attribute is written, nothing is appended and reversible = false
                     (no statement restores the previous, implicit value; fix C17-mysql-table-attr-reverse) *)

Record arm := mkArm { a_kind : akind; a_key : bytes }.

(** one pass of the closure [build] over [changes]: the state is ([reverse], [reversible]) *)
Fixpoint alter_loop (arms : list arm) (reverse : list arm) (reversible : bool) : list arm * bool :=
  match arms with
  | [] => (reverse, reversible)
  | a :: rest =>
      match a_kind a with
      | KOther | KDropConst => alter_loop rest (reverse ++ [a]) reversible
      | KCheckNamed =>
          let reversible' := reversible && true in
          if reversible' then alter_loop rest (reverse ++ [a]) reversible'
          else alter_loop rest reverse reversible'
      | KCheckUnnamed =>
          let reversible' := reversible && false in
          if reversible' then alter_loop rest (reverse ++ [a]) reversible'
          else alter_loop rest reverse reversible'
      | KGenerated => alter_loop rest (reverse ++ [a]) false
      | KModCol k =>
          alter_loop rest (reverse ++ [mkArm (KModCol (clear_generated k)) (a_key a)])
                     (if k_generated k then false else reversible)
      | KAttr => alter_loop rest reverse false
      end
  end.

(** [if reversible { sqlx.ReverseChanges(reverse); Reverse = build(reverse) }]: the arms of the reverse
    statement in order, [None] = the change carries no reverse *)
Definition alter_reverse (arms : list arm) : option (list arm) :=
  let '(reverse, reversible) := alter_loop arms [] true in
  if reversible then Some (rev reverse) else None.

(** sql/mysql: the sub-changes reach [alterTable] in the order given *)
Definition alterTable_mysql (arms : list arm) : option (list arm) := alter_reverse arms.

(** sql/postgres: [sort.SliceStable(changes, func(i, j) { return dropConst(changes[i]) && !dropConst(changes[j]) })]
    -- a stable sort by that order is the stable partition: the constraint drops first *)
Definition is_drop_const (a : arm) : bool := match a_kind a with KDropConst => true | _ => false end.
Definition pg_sorted (arms : list arm) : list arm :=
  filter is_drop_const arms ++ filter (fun a => negb (is_drop_const a)) arms.
Definition alterTable_postgres (arms : list arm) : option (list arm) := alter_reverse (pg_sorted arms).

(** the declarative reading *)
Definition arm_reversible (a : arm) : bool :=
  match a_kind a with
  | KCheckUnnamed | KGenerated | KAttr => false
  | KModCol k => negb (k_generated k)
  | _ => true
  end.
Definition arm_has_inverse (a : arm) : bool :=
  match a_kind a with KAttr | KCheckUnnamed => false | _ => true end.

(** the object sequence the harness reads from the reverse statement: adjacent equal keys merged *)
Fixpoint merge_adjacent (l : list bytes) : list bytes :=
  match l with
  | [] => []
  | x :: rest =>
      match rest with
      | y :: _ => if bytes_eqb x y then merge_adjacent rest else x :: merge_adjacent rest
      | [] => [x]
      end
  end.
(** the clauses of an arm, as the harness names them: "<KIND>:<object>"; a [KModCol] arm has one
    clause per kind ([a_key] is the column name), the other arms carry their clause key *)
Definition C_TYPE : bytes := [67;79;76;85;77;78;45;84;89;80;69;58]%N.                         (* "COLUMN-TYPE:" *)
Definition C_NULL : bytes := [67;79;76;85;77;78;45;78;85;76;76;58]%N.                         (* "COLUMN-NULL:" *)
Definition C_DEFAULT : bytes := [67;79;76;85;77;78;45;68;69;70;65;85;76;84;58]%N.             (* "COLUMN-DEFAULT:" *)
Definition C_IDENTITY : bytes := [67;79;76;85;77;78;45;73;68;69;78;84;73;84;89;58]%N.         (* "COLUMN-IDENTITY:" *)
Definition C_EXPRESSION : bytes := [67;79;76;85;77;78;45;69;88;80;82;69;83;83;73;79;78;58]%N. (* "COLUMN-EXPRESSION:" *)
Definition kind_clauses (k : ckinds) (col : bytes) : list bytes :=
  (if k_type k then [C_TYPE ++ col] else []) ++ (if k_null k then [C_NULL ++ col] else []) ++
  (if k_default k then [C_DEFAULT ++ col] else []) ++ (if k_attr k then [C_IDENTITY ++ col] else []) ++
  (if k_generated k then [C_EXPRESSION ++ col] else []).
Definition arm_clauses (a : arm) : list bytes :=
  match a_kind a with
  | KModCol k => kind_clauses k (a_key a)
  | _ => [a_key a]
  end.
Definition reverse_objects (r : option (list arm)) : option (list bytes) :=
  match r with Some l => Some (merge_adjacent (flat_map arm_clauses l)) | None => None end.

(** the arm [alterTable] appends for an arm (its inverse): the same arm, a ModifyColumn without the
    ChangeGenerated bit *)
Definition inverse_arm (a : arm) : arm :=
  match a_kind a with
  | KModCol k => mkArm (KModCol (clear_generated k)) (a_key a)
  | _ => a
  end.
