(** Fix C08-nested-begin (sql/migrate/lex.go: [Scanner.failed], [tryBlock], [blockDone]): the Go
    scanner remembers, per block kind and per length of the text after the block opener, the
    nested block scans that failed, and does not repeat them. The table is an evaluation device:
    LexModel.v (the input/output specification) has none. This file proves what makes the
    table sound and small:

    - [suffix_len_eq]: all scanners of one [Scan] work on suffixes of the same text, so the length
      of the remaining text identifies it (the table key);
    - [atomic_loop_context_free], [trycatch_loop_context_free], [begin_loop_context_free],
      [block_context_free]: whether a nested block scan fails, and by how much it advances the
      cursor when it succeeds, depends only on the text from the opener on and (for BEGIN) on the
      delimiter — not on the enclosing scanner that starts it;
    - [failed_table_bounded]: a table that only ever receives keys not yet in it, with
      [rest <= n], holds at most [3 * (n + 1)] keys: at most that many nested scans fail per
      [Scan], whatever the nesting. *)
From Coq Require Import List NArith ZArith Bool Arith Lia.
From Atlas Require Import Base.Bytes Lex.LexModel Lex.LexProofs.
Import ListNotations.
Open Scope Z_scope.

(** * The key identifies the text *)
Definition Suffix (a b : bytes) : Prop := exists p, b = p ++ a.

Lemma suffix_len_eq a a' b : Suffix a b -> Suffix a' b -> length a = length a' -> a = a'.
Proof.
  intros [p Hp] [p' Hp'] Hl. subst b.
  assert (length p = length p') as Hlp.
  { apply (f_equal (@length N)) in Hp'. rewrite !app_length in Hp'. lia. }
  revert p' Hp' Hlp. induction p as [|x p IH]; intros [|y p'] Hp' Hlp; simpl in *; try lia; auto.
  inversion Hp'. eapply IH; eauto.
Qed.
Lemma suffix_skipn (l : bytes) k : Suffix (skipn k l) l.
Proof. exists (firstn k l). symmetry. apply firstn_skipn. Qed.
Lemma suffix_trans a b c : Suffix a b -> Suffix b c -> Suffix a c.
Proof. intros [p ->] [q ->]. exists (q ++ p). rewrite app_assoc. reflexivity. Qed.

(** * Outcomes do not depend on the enclosing scanner *)
(** same verdict (nil error or not), same advance of the cursor; crashes/fuel alike. *)
Definition same_outcome (s s' : scanner) (r r' : nres) : Prop :=
  match r, r' with
  | Ok (a, e), Ok (a', e') => (e = None <-> e' = None) /\ pos a - pos s = pos a' - pos s'
  | Err _, Err _ => True
  | Panic, Panic => True
  | OutOfFuel, OutOfFuel => True
  | _, _ => False
  end.

Lemma nfail_wf s p k : wf s -> 0 <= p <= zlen (input s) -> exists e, nfail s p k = Ok (s, Some e).
Proof.
  intros (W1 & W2 & W3) Hp. unfold nfail, error_at.
  pose proof (slice_to_safe (src s) (zlen (src s) - zlen (input s) + p) ltac:(lia)) as Hs.
  destruct (slice_to (src s) _) eqn:E; simpl in Hs; try contradiction.
  - simpl. eauto.
  - unfold slice_to in E. destruct (_ || _); discriminate.
  - unfold slice_to in E. destruct (_ || _); discriminate.
Qed.

Lemma same_outcome_nfail s s' k k' :
  wf s -> wf s' -> same_outcome s s' (nfail s (pos s) k) (nfail s' (pos s') k').
Proof.
  intros W W'. destruct (nfail_wf s (pos s) k W ltac:(apply W)) as [e ->].
  destruct (nfail_wf s' (pos s') k' W' ltac:(apply W')) as [e' ->].
  simpl. split; [split; discriminate|lia].
Qed.

Section ContextFree.
Variable o : opts.
Variable nested : scanner -> res (scanner * option Stmt).

Lemma atomic_loop_context_free f : forall s s' body, wf s -> wf s' ->
  same_outcome s s' (atomic_loop nested f s body) (atomic_loop nested f s' body).
Proof.
  induction f as [|f IH]; intros s s' body W W'; simpl; [exact I|].
  destruct (nested body) as [[body' [st|]]|e| |]; try exact I.
  - destruct (re_end (Text st)); [simpl; split; [tauto|lia]|apply IH; auto].
  - apply same_outcome_nfail; auto.
  - apply same_outcome_nfail; auto.
Qed.
Lemma trycatch_loop_context_free f : forall s s' body, wf s -> wf s' ->
  same_outcome s s' (trycatch_loop nested f s body) (trycatch_loop nested f s' body).
Proof.
  induction f as [|f IH]; intros s s' body W W'; simpl; [exact I|].
  destruct (nested body) as [[body' [st|]]|e| |]; try exact I.
  - destruct (re_end_catch (Text st)); [|apply IH; auto].
    destruct (has_suffix _ _); simpl; (split; [tauto|lia]).
  - apply same_outcome_nfail; auto.
  - apply same_outcome_nfail; auto.
Qed.
Lemma begin_loop_context_free f : forall s s' group, wf s -> wf s' -> delim s = delim s' ->
  same_outcome s s' (begin_loop o nested f s group) (begin_loop o nested f s' group).
Proof.
  induction f as [|f IH]; intros s s' group W W' Hd; simpl; [exact I|].
  destruct (nested group) as [[group' [st|]]|e| |]; try exact I.
  - rewrite Hd. destruct (re_end (Text st)).
    + destruct (_ || _); [simpl; split; [tauto|lia]|apply IH; auto].
    + destruct (_ && _); [simpl; split; [tauto|lia]|apply IH; auto].
  - apply same_outcome_nfail; auto.
  - apply same_outcome_nfail; auto.
Qed.

(** the common shape of skipBegin / skipBeginAtomic / skipBeginTryCatch. *)
Definition block (re : bytes -> option nat) (loop : nat -> scanner -> scanner -> nres) (et : bool)
                 (kmiss : errkind) (f : nat) (s : scanner) : nres :=
  do tl <- slice_from (input s) (pos s - 1);
  match re tl with
  | None => nfail s (pos s) kmiss
  | Some n =>
    let s1 := addPos s (Z.of_nat n - 1) in
    do bi <- slice_from (input s1) (pos s1);
    match init (new_scanner et) bi with
    | Ok body => loop f s1 body
    | Err e => Ok (s1, Some e)
    | Panic => Panic
    | OutOfFuel => OutOfFuel
    end
  end.

Lemma skipBegin_is_block f s : skipBegin o nested f s = block re_begin (begin_loop o nested) (BeginEndTerminator o) EMissingBegin f s.
Proof. reflexivity. Qed.
Lemma skipBeginAtomic_is_block f s : skipBeginAtomic nested f s = block re_begin_atomic (atomic_loop nested) false EMissingBeginAtomic f s.
Proof. reflexivity. Qed.
Lemma skipBeginTryCatch_is_block f s : skipBeginTryCatch nested f s = block re_begin_try (trycatch_loop nested) false EMissingBeginTry f s.
Proof. reflexivity. Qed.

Lemma block_context_free re loop et kmiss f s s' :
  (forall t n, re t = Some n -> (1 <= n <= length t)%nat) ->
  (forall f s s' body, wf s -> wf s' -> delim s = delim s' -> same_outcome s s' (loop f s body) (loop f s' body)) ->
  wf s -> wf s' -> 1 <= pos s -> 1 <= pos s' -> delim s = delim s' ->
  skipn (Z.to_nat (pos s - 1)) (input s) = skipn (Z.to_nat (pos s' - 1)) (input s') ->
  same_outcome s s' (block re loop et kmiss f s) (block re loop et kmiss f s').
Proof.
  intros Hre Hloop W W' Hp Hp' Hd Htl. unfold block.
  pose proof W as (W1 & W2 & W3). pose proof W' as (W1' & W2' & W3').
  unfold slice_from at 1 3.
  destruct (pos s - 1 <? 0) eqn:E1; [bnorm; lia|]. destruct (zlen (input s) <? pos s - 1) eqn:E2; [bnorm; lia|].
  destruct (pos s' - 1 <? 0) eqn:E1'; [bnorm; lia|]. destruct (zlen (input s') <? pos s' - 1) eqn:E2'; [bnorm; lia|].
  cbn [orb bind]. rewrite <- Htl. set (tl := skipn (Z.to_nat (pos s - 1)) (input s)) in *.
  destruct (re tl) as [n|] eqn:E; [|apply same_outcome_nfail; auto].
  apply Hre in E.
  assert (zlen tl = zlen (input s) - (pos s - 1)) as Hz by (apply zlen_skipn; lia).
  assert (zlen tl = zlen (input s') - (pos s' - 1)) as Hz' by (rewrite Htl; apply zlen_skipn; lia).
  unfold zlen in Hz at 1, Hz' at 1.
  cbv zeta.
  assert (wf (addPos s (Z.of_nat n - 1))) as Ws1 by (apply wf_addPos; [exact W|lia]).
  assert (wf (addPos s' (Z.of_nat n - 1))) as Ws1' by (apply wf_addPos; [exact W'|lia]).
  assert (skipn (Z.to_nat (pos (addPos s (Z.of_nat n - 1)))) (input (addPos s (Z.of_nat n - 1))) =
          skipn (Z.to_nat (pos (addPos s' (Z.of_nat n - 1)))) (input (addPos s' (Z.of_nat n - 1)))) as Hbi.
  { simpl. replace (pos s + (Z.of_nat n - 1)) with ((pos s - 1) + Z.of_nat n) by lia.
    replace (pos s' + (Z.of_nat n - 1)) with ((pos s' - 1) + Z.of_nat n) by lia.
    rewrite !skipn_to_nat_add by lia. fold tl. rewrite <- Htl. reflexivity. }
  pose proof (slice_from_safe _ _ (proj1 Ws1)) as S1. pose proof (slice_from_safe _ _ (proj1 Ws1')) as S1'.
  destruct (slice_from (input (addPos s (Z.of_nat n - 1))) _) as [bi| | |] eqn:Eb; simpl in S1; try contradiction;
    [|unfold slice_from in Eb; destruct (_ || _); discriminate|unfold slice_from in Eb; destruct (_ || _); discriminate].
  destruct (slice_from (input (addPos s' (Z.of_nat n - 1))) _) as [bi'| | |] eqn:Eb'; simpl in S1'; try contradiction;
    [|unfold slice_from in Eb'; destruct (_ || _); discriminate|unfold slice_from in Eb'; destruct (_ || _); discriminate].
  cbn [bind]. assert (bi' = bi) as -> by (simpl in S1, S1', Hbi; congruence).
  destruct (init (new_scanner et) bi) as [body|e| |]; try exact I.
  - pose proof (Hloop f _ _ body Ws1 Ws1' Hd) as HL.
    destruct (loop f (addPos s (Z.of_nat n - 1)) body) as [[a e]| | |], (loop f (addPos s' (Z.of_nat n - 1)) body) as [[a' e']| | |];
      simpl in *; auto. destruct HL as [H1 H2]. split; [exact H1|lia].
  - simpl. split; [split; discriminate|lia].
Qed.

(** the three block scanners, as the Go code keys its table: kind + text after the opener. *)
Theorem skipBegin_context_free f s s' :
  wf s -> wf s' -> 1 <= pos s -> 1 <= pos s' -> delim s = delim s' ->
  skipn (Z.to_nat (pos s - 1)) (input s) = skipn (Z.to_nat (pos s' - 1)) (input s') ->
  same_outcome s s' (skipBegin o nested f s) (skipBegin o nested f s').
Proof.
  intros. rewrite !skipBegin_is_block. apply block_context_free; auto.
  - intros t n E. split; [eapply re_begin_pos; exact E|eapply re_begin_len; exact E].
  - intros. apply begin_loop_context_free; auto.
Qed.
Theorem skipBeginAtomic_context_free f s s' :
  wf s -> wf s' -> 1 <= pos s -> 1 <= pos s' -> delim s = delim s' ->
  skipn (Z.to_nat (pos s - 1)) (input s) = skipn (Z.to_nat (pos s' - 1)) (input s') ->
  same_outcome s s' (skipBeginAtomic nested f s) (skipBeginAtomic nested f s').
Proof.
  intros. rewrite !skipBeginAtomic_is_block. apply block_context_free; auto.
  - intros t n E. split; [eapply re_begin_word_pos; exact E|eapply re_begin_word_len; exact E].
  - intros. apply atomic_loop_context_free; auto.
Qed.
Theorem skipBeginTryCatch_context_free f s s' :
  wf s -> wf s' -> 1 <= pos s -> 1 <= pos s' -> delim s = delim s' ->
  skipn (Z.to_nat (pos s - 1)) (input s) = skipn (Z.to_nat (pos s' - 1)) (input s') ->
  same_outcome s s' (skipBeginTryCatch nested f s) (skipBeginTryCatch nested f s').
Proof.
  intros. rewrite !skipBeginTryCatch_is_block. apply block_context_free; auto.
  - intros t n E. split; [eapply re_begin_word_pos; exact E|eapply re_begin_word_len; exact E].
  - intros. apply trycatch_loop_context_free; auto.
Qed.
End ContextFree.

(** * The table is small *)
Inductive kind := KAtomic | KTry | KBegin.
Definition key := (kind * nat)%type.
Definition key_eq_dec (a b : key) : {a = b} + {a <> b}.
Proof. decide equality; [apply Nat.eq_dec|decide equality]. Defined.

(** [blockDone]: a failed scan adds its key (the scan was only started because [tryBlock] did not
    find the key). *)
Definition record (t : list key) (k : key) : list key := if in_dec key_eq_dec k t then t else k :: t.

Lemma record_nodup t k : NoDup t -> NoDup (record t k).
Proof. intros H. unfold record. destruct (in_dec key_eq_dec k t); [exact H|constructor; auto]. Qed.

Definition all_keys (n : nat) : list key :=
  map (pair KAtomic) (seq 0 (S n)) ++ map (pair KTry) (seq 0 (S n)) ++ map (pair KBegin) (seq 0 (S n)).

Lemma in_all_keys n k : (snd k <= n)%nat -> In k (all_keys n).
Proof.
  destruct k as [[| |] r]; intros H; cbn [snd] in H; unfold all_keys; rewrite !in_app_iff;
    [left|right; left|right; right]; apply in_map; apply in_seq; lia.
Qed.

Theorem failed_table_bounded n (ks : list key) :
  Forall (fun k => (snd k <= n)%nat) ks ->
  (length (fold_left record ks []) <= 3 * (n + 1))%nat.
Proof.
  intros Hks.
  assert (NoDup (fold_left record ks []) /\ incl (fold_left record ks []) (all_keys n)) as [Hnd Hin].
  { assert (forall t, NoDup t -> incl t (all_keys n) ->
              NoDup (fold_left record ks t) /\ incl (fold_left record ks t) (all_keys n)) as G.
    { induction Hks as [|k ks Hk Hks IH]; intros t Ht Hi; simpl; [auto|].
      apply IH; [apply record_nodup; exact Ht|].
      unfold record. destruct (in_dec key_eq_dec k t); [exact Hi|].
      intros x [<-|Hx]; [apply in_all_keys; exact Hk|apply Hi; exact Hx]. }
    apply G; [constructor|intros x []]. }
  pose proof (NoDup_incl_length Hnd Hin) as Hl.
  unfold all_keys in Hl. rewrite !app_length, !map_length, !seq_length in Hl. lia.
Qed.
