(** Proofs about the linear readers of [DownLayoutModel]: they are the specification readers of
    [DownModel] on every input, so every down-file statement holds for them with no bound on the
    length of a statement / line / file; [line_closed] is insensitive to length; where the down
    section of a goose / dbmate file starts. *)
From Coq Require Import List NArith ZArith Bool Arith Lia.
From Atlas Require Import Base.Bytes Lex.DownModel Lex.DownProofs Lex.DownLayoutModel.
Import ListNotations.
Local Open Scope nat_scope.

Lemma line_scan_fast_go_eq s : forall m acc, line_scan_fast_go m acc s = line_scan_go m acc s.
Proof.
  induction s as [|c rest IH]; intros m acc; simpl.
  - destruct m; try reflexivity. now rewrite rev_append_rev, app_nil_r.
  - rewrite !rev_append_rev, !app_nil_r.
    destruct m; repeat rewrite IH; reflexivity.
Qed.

Lemma line_scan_fast_eq s : line_scan_fast s = line_scan s.
Proof. apply line_scan_fast_go_eq. Qed.

Lemma lines_fast_go_eq s : forall acc, lines_fast_go acc s = lines_go acc s.
Proof.
  induction s as [|c rest IH]; intros acc; simpl.
  - now rewrite rev_append_rev, app_nil_r.
  - destruct (N.eqb c 10); rewrite IH; [|reflexivity]. now rewrite rev_append_rev, app_nil_r.
Qed.

Lemma lines_fast_eq s : lines_fast s = lines s.
Proof. apply lines_fast_go_eq. Qed.

Lemma lq_cmd_ok_fast_eq cmd : lq_cmd_ok_fast cmd = lq_cmd_ok cmd.
Proof. unfold lq_cmd_ok_fast, lq_cmd_ok. now rewrite lines_fast_eq. Qed.

Lemma lq_rollbacks_fast_eq cs : lq_rollbacks_fast cs = lq_rollbacks cs.
Proof. unfold lq_rollbacks_fast, lq_rollbacks. now rewrite line_scan_fast_eq, lines_fast_eq. Qed.

Lemma liquibase_down_fast_eq now changes : liquibase_down_fast now changes = liquibase_down now changes.
Proof.
  unfold liquibase_down_fast, liquibase_down.
  induction (List.rev (lq_changeset_texts now 0 changes)) as [|t ts IH]; simpl; [reflexivity|].
  now rewrite lq_rollbacks_fast_eq, IH.
Qed.

(** ** [line_closed] does not look at lengths *)

Lemma no_semi_nl_app s t :
  no_semi_nl s = true -> no_semi_nl t = true -> head_is 10 t = false -> no_semi_nl (s ++ t) = true.
Proof.
  intros Hs Ht Hh. induction s as [|c s IH]; simpl; [exact Ht|].
  simpl in Hs. apply andb_true_iff in Hs as [H1 H2].
  rewrite IH by exact H2. rewrite andb_true_r.
  destruct s as [|c' s']; simpl in *.
  - rewrite Hh. now rewrite andb_false_r.
  - exact H1.
Qed.

Lemma no_semi_nl_repeat c k : c <> 10%N -> no_semi_nl (repeat c k) = true.
Proof.
  intros Hc. induction k as [|k IH]; simpl; [reflexivity|]. rewrite IH, andb_true_r.
  destruct k; simpl.
  - now rewrite andb_false_r.
  - apply N.eqb_neq in Hc. rewrite Hc. now rewrite andb_false_r.
Qed.

Lemma head_is_repeat c k : c <> 10%N -> head_is 10 (repeat c k) = false.
Proof. intros Hc. destruct k; simpl; [reflexivity|]. now apply N.eqb_neq. Qed.

(** a closed statement stays closed whatever is appended, as long as the appended text holds no
    ";\n" and does not start with a newline: in particular any number of any non-newline byte *)
Lemma line_closed_app s t :
  line_closed s = true -> no_semi_nl t = true -> head_is 10 t = false -> head_is 45 t = false ->
  line_closed (s ++ t) = true.
Proof.
  intros Hs Ht Hh Hd. destruct s as [|c s]; [discriminate|].
  unfold line_closed in *. cbn [app].
  apply andb_true_iff in Hs as [H12 H3]. apply andb_true_iff in H12 as [H1 H2].
  rewrite H1. cbn [andb].
  change (c :: s ++ t) with ((c :: s) ++ t).
  rewrite (no_semi_nl_app (c :: s) t H3 Ht Hh), andb_true_r.
  destruct s as [|c' s']; cbn [app].
  - rewrite Hd. now rewrite andb_false_r.
  - exact H2.
Qed.

Lemma line_closed_pad s c k :
  line_closed s = true -> c <> 10%N -> c <> 45%N -> line_closed (s ++ repeat c k) = true.
Proof.
  intros Hs Hc Hd. apply line_closed_app; [exact Hs|now apply no_semi_nl_repeat|now apply head_is_repeat|].
  destruct k; simpl; [reflexivity|]. now apply N.eqb_neq.
Qed.

Lemma head_is_repeat_app b c k t :
  c <> b -> head_is b t = false -> head_is b (repeat c k ++ t) = false.
Proof. intros Hc Ht. destruct k; simpl; [exact Ht|]. now apply N.eqb_neq. Qed.

(** a closed head, any number of one byte, a tail: the shape of a one-line CREATE TABLE with a huge list *)
Lemma line_closed_long s c k t :
  line_closed s = true -> c <> 10%N -> c <> 45%N ->
  no_semi_nl t = true -> head_is 10 t = false -> head_is 45 t = false ->
  line_closed (s ++ repeat c k ++ t) = true.
Proof.
  intros Hs Hc Hd Ht H10 H45. apply line_closed_app; [exact Hs| | |].
  - apply no_semi_nl_app; [now apply no_semi_nl_repeat|exact Ht|exact H10].
  - now apply head_is_repeat_app.
  - now apply head_is_repeat_app.
Qed.

Lemma length_pad (s : bytes) c k : length (s ++ repeat c k) = (length s + k)%nat.
Proof. now rewrite app_length, repeat_length. Qed.

(** ** The concrete reader on the four down sections, any length *)

Lemma down_sections_line_scan changes :
  (forall c, In c changes -> change_ok line_closed no_nl c) ->
  exists d,
    golang_migrate_down changes = Ok d /\ flyway_down changes = Ok d /\
    goose_file changes = Ok (s_goose_up ++ up_body changes ++ s_goose_down ++ d) /\
    dbmate_file changes = Ok (s_dbmate_up ++ up_body changes ++ s_dbmate_down ++ d) /\
    line_scan_fast d = flat_map ReverseStmts (List.rev changes).
Proof.
  intros H.
  destruct (down_body_scan line_scan line_closed no_nl line_scan_nil line_scan_stmt line_scan_comment changes H)
    as (d & E & S).
  exists d. unfold golang_migrate_down, flyway_down, goose_file, dbmate_file. rewrite E.
  repeat split; try reflexivity. now rewrite line_scan_fast_eq.
Qed.

(** ** Where the down section starts *)

Lemma has_prefix_app_long m : forall s t, length m <= length s -> has_prefix (s ++ t) m = has_prefix s m.
Proof.
  induction m as [|x m IH]; intros s t Hl; [reflexivity|]. simpl in Hl.
  destruct s as [|y s]; simpl in Hl; [lia|]. simpl. rewrite IH by lia. reflexivity.
Qed.

Lemma has_prefix_self m d : has_prefix (m ++ d) m = true.
Proof. induction m as [|x m IH]; simpl; [reflexivity|]. now rewrite N.eqb_refl, IH. Qed.

Lemma skipn_self (m d : bytes) : skipn (length m) (m ++ d) = d.
Proof. induction m; simpl; auto. Qed.

(** no occurrence of the marker starts inside [pre] (it may not even straddle the end of [pre]) *)
Fixpoint no_early (m pre : bytes) : bool :=
  match pre with
  | [] => true
  | _ :: p => negb (has_prefix (pre ++ m) m) && no_early m p
  end.

Lemma after_marker_here m s : has_prefix s m = true -> after_marker m s = Some (skipn (length m) s).
Proof. intros H. destruct s; simpl; now rewrite H. Qed.

Lemma after_marker_skip m c s : has_prefix (c :: s) m = false -> after_marker m (c :: s) = after_marker m s.
Proof. intros H. cbn [after_marker]. now rewrite H. Qed.

Lemma after_marker_first m : forall pre d,
  no_early m pre = true -> after_marker m (pre ++ m ++ d) = Some d.
Proof.
  induction pre as [|c p IH]; intros d H.
  - cbn [app]. rewrite after_marker_here by apply has_prefix_self. now rewrite skipn_self.
  - cbn [no_early] in H. apply andb_true_iff in H as [H1 H2]. apply negb_true_iff in H1.
    cbn [app]. rewrite after_marker_skip; [now apply IH|].
    change (c :: p ++ m ++ d) with ((c :: p) ++ m ++ d). rewrite app_assoc.
    rewrite has_prefix_app_long; [exact H1|]. rewrite app_length. simpl. lia.
Qed.

Lemma goose_down_section changes :
  (forall c, In c changes -> change_ok line_closed no_nl c) ->
  no_early s_goose_down (s_goose_up ++ up_body changes) = true ->
  exists file, goose_file changes = Ok file /\
    goose_down_stmts file = Some (flat_map ReverseStmts (List.rev changes)).
Proof.
  intros H Hn. destruct (down_sections_line_scan changes H) as (d & _ & _ & G & _ & S).
  eexists; split; [exact G|]. unfold goose_down_stmts.
  rewrite (app_assoc s_goose_up), after_marker_first; [now rewrite S|exact Hn].
Qed.

Lemma dbmate_down_section changes :
  (forall c, In c changes -> change_ok line_closed no_nl c) ->
  no_early s_dbmate_down (s_dbmate_up ++ up_body changes) = true ->
  exists file, dbmate_file changes = Ok file /\
    dbmate_down_stmts file = Some (flat_map ReverseStmts (List.rev changes)).
Proof.
  intros H Hn. destruct (down_sections_line_scan changes H) as (d & _ & _ & _ & G & S).
  eexists; split; [exact G|]. unfold dbmate_down_stmts.
  rewrite (app_assoc s_dbmate_up), after_marker_first; [now rewrite S|exact Hn].
Qed.
