From Coq Require Import List NArith ZArith Bool Arith Lia.
From Atlas Require Import Base.Bytes Lex.LexModel Lex.LexProofs Lex.ClosedModel Lex.QuoteModel.
Import ListNotations.

(** * UTF-8: a rune is one ASCII byte or a group of non-ASCII bytes *)
Lemma decode_rune_ascii l r w :
  decode_rune l = (r, w) -> l <> [] ->
  (1 <= Z.to_nat w <= length l)%nat /\
  ((r < 128)%N -> w = 1%Z /\ exists t, l = r :: t) /\
  (forall b, (b < 128)%N -> r <> b -> ~ In b (firstn (Z.to_nat w) l)).
Proof.
  intros H Hne. destruct l as [|s0 t]; [congruence|clear Hne].
  unfold decode_rune, cont, RuneError in H.
  repeat match type of H with
  | (if ?c then _ else _) = _ => destruct c eqn:?
  | (match ?t with [] => _ | _ :: _ => _ end) = _ => destruct t
  | (let lo := _ in _) = _ => cbv zeta in H
  end; inversion H; subst; clear H; bnorm;
  repeat match goal with H : context[if ?c then _ else _] |- _ => destruct c eqn:? end; bnorm;
  (split; [simpl length; lia|]);
  (split; [intros Hr; first [lia | split; [reflexivity|eauto]]
         | intros b Hb Hr; simpl; intros Hin; repeat (destruct Hin as [Hin|Hin]; try lia); try lia]).
Qed.

Lemma decode_rune_hi l r w b :
  decode_rune l = (r, w) -> l <> [] -> (128 <= r)%N -> In b (firstn (Z.to_nat w) l) -> (128 <= b)%N.
Proof.
  intros H Hne Hr Hin. destruct (N.lt_ge_cases b 128) as [Hb|Hb]; [|exact Hb].
  destruct (decode_rune_ascii _ _ _ H Hne) as (_ & _ & Hn).
  exfalso. apply (Hn b Hb); [lia|exact Hin].
Qed.

Lemma firstn_In_le {A} (x : A) : forall n m (l : list A), (n <= m)%nat -> In x (firstn n l) -> In x (firstn m l).
Proof.
  induction n as [|n IH]; intros m l Hle Hin; [destruct l; destruct Hin|].
  destruct l as [|a l]; [destruct Hin|]. destruct m as [|m]; [lia|].
  simpl in *. destruct Hin as [Hin|Hin]; [left; exact Hin|right; apply (IH m); [lia|exact Hin]].
Qed.

(** * The quote walker, byte by byte

    [bw q esc sk n l]: [sk] = the previous byte was an escaping backslash.  For an ASCII quote
    [q] the rune-wise walker [qloop] and the byte-wise one agree: a multi-byte rune is a group of
    bytes >= 128, none of which is a quote or a backslash. *)
Fixpoint bw (q : N) (esc sk : bool) (n : nat) (l : bytes) : option (nat * bytes) :=
  match n, l with
  | S n', b :: l' =>
    if sk then bw q esc false n' l'
    else if N.eqb b 92 && esc then bw q esc true n' l'
    else if N.eqb b q then Some (n', l')
    else bw q esc false n' l'
  | _, _ => None
  end.

Lemma qloop_S f q esc n l : qloop (S f) q esc n l =
    match n with
    | O => None
    | S _ =>
      let '(r, wz) := decode_rune l in
      let w := Z.to_nat wz in
      if (w =? 0)%nat || (n <? w)%nat then None else
      let n1 := (n - w)%nat in
      let l1 := skipn w l in
      if N.eqb r 92 && esc then
        match n1 with
        | O => None
        | S _ =>
          let '(_, wz2) := decode_rune l1 in
          let w2 := Z.to_nat wz2 in
          if (w2 =? 0)%nat || (n1 <? w2)%nat then None else qloop f q esc (n1 - w2)%nat (skipn w2 l1)
        end
      else if N.eqb r q then Some (n1, l1)
      else qloop f q esc n1 l1
    end.
Proof. reflexivity. Qed.

Lemma bw_none_hi q esc : (q < 128)%N -> forall n l,
  (forall b, In b (firstn n l) -> (128 <= b)%N) -> bw q esc false n l = None.
Proof.
  intros Hq. induction n as [|n IH]; intros l Hhi; [reflexivity|].
  destruct l as [|b l]; [reflexivity|]. simpl.
  assert (128 <= b)%N as Hb by (apply Hhi; left; reflexivity).
  replace (N.eqb b 92) with false by (symmetry; apply N.eqb_neq; lia).
  replace (N.eqb b q) with false by (symmetry; apply N.eqb_neq; lia).
  simpl. apply IH. intros c Hc. apply Hhi. right. exact Hc.
Qed.

Lemma bw_skip_hi q esc : (q < 128)%N -> forall w n l,
  (forall b, In b (firstn w l) -> (128 <= b)%N) -> (w <= n)%nat -> (w <= length l)%nat ->
  bw q esc false n l = bw q esc false (n - w) (skipn w l).
Proof.
  intros Hq. induction w as [|w IH]; intros n l Hhi Hn Hl.
  - rewrite Nat.sub_0_r. reflexivity.
  - destruct l as [|b l]; [simpl in Hl; lia|]. destruct n as [|n]; [lia|]. simpl in Hl.
    assert (128 <= b)%N as Hb by (apply Hhi; left; reflexivity).
    simpl.
    replace (N.eqb b 92) with false by (symmetry; apply N.eqb_neq; lia).
    replace (N.eqb b q) with false by (symmetry; apply N.eqb_neq; lia).
    simpl. apply IH; [|lia|lia]. intros c Hc. apply Hhi. right. exact Hc.
Qed.

(** skipping one whole rune after a backslash *)
Lemma bw_skip_rune q esc : (q < 128)%N -> forall l r wz n,
  decode_rune l = (r, wz) -> l <> [] -> (Z.to_nat wz <= n)%nat ->
  bw q esc true n l = bw q esc false (n - Z.to_nat wz) (skipn (Z.to_nat wz) l).
Proof.
  intros Hq l r wz n E Hne Hn.
  destruct (decode_rune_ascii _ _ _ E Hne) as (Hw & Hlo & _).
  destruct (N.lt_ge_cases r 128) as [Hr|Hr].
  - destruct (Hlo Hr) as [-> [t ->]]. change (Z.to_nat 1) with 1%nat in *.
    destruct n as [|n]; [lia|]. simpl. rewrite Nat.sub_0_r. reflexivity.
  - pose proof (fun b => decode_rune_hi _ _ _ b E Hne Hr) as Hhi.
    destruct l as [|b l]; [congruence|]. destruct n as [|n]; [lia|].
    destruct (Z.to_nat wz) as [|w]; [lia|]. simpl in Hw.
    change (bw q esc true (S n) (b :: l)) with (bw q esc false n l).
    simpl skipn. simpl Nat.sub. apply bw_skip_hi; [exact Hq| |lia|lia].
    intros c Hc. apply Hhi. right. exact Hc.
Qed.

Lemma bw_none_rune q esc : (q < 128)%N -> forall l r wz n,
  decode_rune l = (r, wz) -> l <> [] -> (n < Z.to_nat wz)%nat ->
  bw q esc true n l = None.
Proof.
  intros Hq l r wz n E Hne Hn.
  destruct (decode_rune_ascii _ _ _ E Hne) as (Hw & Hlo & _).
  destruct n as [|n]; [reflexivity|].
  destruct (N.lt_ge_cases r 128) as [Hr|Hr].
  - destruct (Hlo Hr) as [-> _]. change (Z.to_nat 1) with 1%nat in *. lia.
  - pose proof (fun b => decode_rune_hi _ _ _ b E Hne Hr) as Hhi.
    destruct l as [|b l]; [congruence|].
    change (bw q esc true (S n) (b :: l)) with (bw q esc false n l).
    apply bw_none_hi; [exact Hq|]. intros c Hc. apply Hhi.
    apply (firstn_In_le c (S n)); [lia|]. right. exact Hc.
Qed.

Theorem qloop_bw q esc : (q < 128)%N -> forall f n l, (n <= f)%nat ->
  qloop f q esc n l = bw q esc false n l.
Proof.
  intros Hq. induction f as [|f IH]; intros n l Hf.
  - destruct n; [reflexivity|lia].
  - rewrite qloop_S. destruct n as [|n]; [reflexivity|].
    destruct l as [|s0 t]; [reflexivity|].
    destruct (decode_rune (s0 :: t)) as [r wz] eqn:E.
    assert (s0 :: t <> []) as Hne by discriminate.
    destruct (decode_rune_ascii _ _ _ E Hne) as (Hw & Hlo & _).
    cbv zeta.
    destruct (Z.to_nat wz =? 0)%nat eqn:E0; [apply Nat.eqb_eq in E0; lia|].
    destruct (N.lt_ge_cases r 128) as [Hr|Hr].
    + destruct (Hlo Hr) as [-> [t' Ht]]. inversion Ht; subst s0 t'. clear Ht.
      change (Z.to_nat 1) with 1%nat. simpl orb. simpl skipn. simpl Nat.sub. rewrite Nat.sub_0_r.
      simpl bw.
      destruct (N.eqb r 92 && esc) eqn:Eesc.
      * destruct n as [|n]; [reflexivity|].
        destruct t as [|t0 t1]; [reflexivity|].
        destruct (decode_rune (t0 :: t1)) as [r2 wz2] eqn:E2.
        assert (t0 :: t1 <> []) as Hne2 by discriminate.
        destruct (decode_rune_ascii _ _ _ E2 Hne2) as (Hw2 & _ & _).
        destruct (Z.to_nat wz2 =? 0)%nat eqn:E20; [apply Nat.eqb_eq in E20; lia|].
        simpl orb.
        destruct (S n <? Z.to_nat wz2)%nat eqn:Elt.
        -- apply Nat.ltb_lt in Elt. symmetry. eapply bw_none_rune; eauto.
        -- apply Nat.ltb_ge in Elt. rewrite IH by lia. symmetry. eapply bw_skip_rune; eauto.
      * destruct (N.eqb r q); [reflexivity|]. apply IH. lia.
    + pose proof (fun b => decode_rune_hi _ _ _ b E Hne Hr) as Hhi.
      simpl orb.
      destruct (S n <? Z.to_nat wz)%nat eqn:Elt.
      * apply Nat.ltb_lt in Elt. symmetry. apply bw_none_hi; [exact Hq|].
        intros c Hc. apply Hhi. apply (firstn_In_le c (S n)); [lia|exact Hc].
      * apply Nat.ltb_ge in Elt.
        replace (N.eqb r 92) with false by (symmetry; apply N.eqb_neq; lia).
        replace (N.eqb r q) with false by (symmetry; apply N.eqb_neq; lia).
        simpl andb. cbv iota. rewrite IH by lia. symmetry. apply bw_skip_hi; [exact Hq|exact Hhi|lia|lia].
Qed.

(** * Sequences of quoted strings, byte-wise *)
Definition seg_result (f : nat) (esc : bool) (r : option (nat * bytes)) : bool :=
  match r with
  | Some (O, _) => true
  | Some (n2, l2) => qsegs f esc n2 l2
  | None => false
  end.

Lemma is_quote_cases q : is_quote q = true -> q = 39%N \/ q = 34%N \/ q = 96%N.
Proof. unfold is_quote. intros H. lia. Qed.
Lemma is_quote_ascii q : is_quote q = true -> (q < 128)%N.
Proof. intros H. apply is_quote_cases in H. lia. Qed.

Lemma qsegs_S f esc n1 q l1 :
  qsegs (S f) esc (S n1) (q :: l1) = is_quote q && seg_result f esc (bw q esc false n1 l1).
Proof.
  destruct (is_quote q) eqn:Eq.
  - change (qsegs (S f) esc (S n1) (q :: l1)) with (is_quote q && seg_result f esc (qloop (S n1) q esc n1 l1)).
    rewrite Eq. rewrite qloop_bw by (try apply is_quote_ascii; auto). reflexivity.
  - change (qsegs (S f) esc (S n1) (q :: l1)) with (is_quote q && seg_result f esc (qloop (S n1) q esc n1 l1)).
    rewrite Eq. reflexivity.
Qed.

Lemma quoted_token_wrap esc q body :
  quoted_token esc ([q] ++ body ++ [q]) =
  is_quote q && seg_result (S (S (length body))) esc (bw q esc false (S (length body)) (body ++ [q; 59%N; 10%N])).
Proof.
  unfold quoted_token. simpl app. simpl length. rewrite app_length. simpl length.
  rewrite Nat.add_1_r. rewrite qsegs_S. rewrite <- app_assoc. reflexivity.
Qed.

(** * 1. / 4. the single-quote wrap *)
Lemma double_sq_length s : (length s <= length (double_sq s))%nat.
Proof. induction s as [|c t IH]; simpl; [lia|]. destruct (N.eqb c 39); simpl; lia. Qed.

Lemma sq_walk esc : forall s f rest, (esc = true -> ~ In 92%N s) -> (length s < f)%nat ->
  seg_result f esc (bw 39 esc false (S (length (double_sq s))) (double_sq s ++ 39%N :: rest)) = true.
Proof.
  induction s as [|c t IH]; intros f rest Hesc Hf.
  - reflexivity.
  - simpl in Hf. assert (esc = true -> ~ In 92%N t) as Hesc' by (intros E I; apply (Hesc E); right; exact I).
    simpl double_sq. destruct (N.eqb c 39) eqn:Ec.
    + apply N.eqb_eq in Ec. subst c.
      simpl app. simpl length.
      change (bw 39 esc false (S (S (S (length (double_sq t))))) (39%N :: 39%N :: double_sq t ++ 39%N :: rest))
        with (Some (S (S (length (double_sq t))), 39%N :: double_sq t ++ 39%N :: rest)).
      destruct f as [|f]; [lia|].
      unfold seg_result. rewrite qsegs_S. simpl andb. apply IH; [exact Hesc'|lia].
    + simpl app. simpl length.
      assert (N.eqb c 92 && esc = false) as E92.
      { destruct esc; [|apply andb_false_r]. rewrite andb_true_r. apply N.eqb_neq. intros ->.
        apply (Hesc eq_refl). left. reflexivity. }
      simpl bw. rewrite E92, Ec. apply IH; [exact Hesc'|lia].
Qed.

Theorem sq_wrap_esc_closed esc s : (esc = true -> ~ In 92%N s) ->
  quoted_token esc ([39%N] ++ double_sq s ++ [39%N]) = true.
Proof.
  intros Hesc. rewrite quoted_token_wrap. simpl andb.
  apply sq_walk; [exact Hesc|]. pose proof (double_sq_length s). lia.
Qed.

Theorem sq_wrap_closed s : quoted_token false ([39%N] ++ double_sq s ++ [39%N]) = true.
Proof. apply sq_wrap_esc_closed. discriminate. Qed.

Theorem sq_wrap_closed_noback s : ~ In 92%N s -> quoted_token true ([39%N] ++ double_sq s ++ [39%N]) = true.
Proof. intros H. apply sq_wrap_esc_closed. intros _. exact H. Qed.

Theorem pg_quote_closed s : is_quoted s [39%N] = false -> quoted_token false (pg_quote s) = true.
Proof. intros H. unfold pg_quote. rewrite H. apply sq_wrap_closed. Qed.

Theorem single_quote_closed s t :
  is_quoted s [39%N] = false -> single_quote s = Some t -> quoted_token false t = true.
Proof.
  intros H. unfold single_quote. rewrite H. destruct (is_quoted s [34%N]); [discriminate|].
  intros E. inversion E. apply sq_wrap_closed.
Qed.
