(** C07, clause "quote_closed": the literals and identifiers written by the quoting functions of
    QuoteModel.v are closed tokens ([quoted_token]) for the scanners that read them back.

    Method: for an ASCII quote byte the rune-wise walker [qloop] equals a byte-wise walker [bw]
    ([qloop_bw]: a multi-byte rune is a group of bytes >= 128, [decode_rune_ascii]); everything
    else is byte-level reasoning.

    Proved (all inputs):
      sq_wrap_closed, pg_quote_closed, single_quote_closed   '..' wrap, no backslash escapes
      sq_wrap_closed_noback                                  '..' wrap, backslash escapes, no backslash in s
      go_quote_closed, mysql_quote_closed                    strconv.Quote, backslash escapes, every np
      ident_closed_notin   ~ In q s            -> closed
      ident_closed_even    even_runs q s       -> closed
      ident_closed_iff     closed <-> even_runs q s, when s has no quote byte other than q
    Witnesses (closed terms): ident_not_closed, ident_closed_doubled (so "closed <-> ~ In q s" is
    false), ident_closed_mixed (so the side condition of ident_closed_iff is needed),
    sq_wrap_esc_not_closed. *)
From Coq Require Import List NArith ZArith Bool Arith Lia.
From Atlas Require Import Base.Bytes Lex.LexModel Lex.LexProofs Lex.ClosedModel Lex.QuoteModel.
Import ListNotations.

(** * UTF-8: a rune is one ASCII byte or a group of non-ASCII bytes *)
Lemma decode_rune_ascii l r w :
  decode_rune l = (r, w) -> l <> [] ->
  (1 <= Z.to_nat w <= length l)%nat /\
  ((r < 128)%N -> w = 1%Z /\ exists t, l = r :: t) /\
  (forall b, (b < 128)%N -> r <> b -> ~ In b (firstn (Z.to_nat w) l)).
Proof.
  intros H Hne. destruct l as [|s0 t]; [congruence|clear Hne].
  unfold decode_rune, cont, RuneError in H.
  repeat match type of H with
  | (if ?c then _ else _) = _ => destruct c eqn:?
  | (match ?t with [] => _ | _ :: _ => _ end) = _ => destruct t
  | (let lo := _ in _) = _ => cbv zeta in H
  end; inversion H; subst; clear H; bnorm;
  repeat match goal with H : context[if ?c then _ else _] |- _ => destruct c eqn:? end; bnorm;
  (split; [simpl length; lia|]);
  (split; [intros Hr; first [lia | split; [reflexivity|eauto]]
         | intros b Hb Hr; simpl; intros Hin; repeat (destruct Hin as [Hin|Hin]; try lia); try lia]).
Qed.

Lemma decode_rune_hi l r w b :
  decode_rune l = (r, w) -> l <> [] -> (128 <= r)%N -> In b (firstn (Z.to_nat w) l) -> (128 <= b)%N.
Proof.
  intros H Hne Hr Hin. destruct (N.lt_ge_cases b 128) as [Hb|Hb]; [|exact Hb].
  destruct (decode_rune_ascii _ _ _ H Hne) as (_ & _ & Hn).
  exfalso. apply (Hn b Hb); [lia|exact Hin].
Qed.

Lemma firstn_In_le {A} (x : A) : forall n m (l : list A), (n <= m)%nat -> In x (firstn n l) -> In x (firstn m l).
Proof.
  induction n as [|n IH]; intros m l Hle Hin; [destruct l; destruct Hin|].
  destruct l as [|a l]; [destruct Hin|]. destruct m as [|m]; [lia|].
  simpl in *. destruct Hin as [Hin|Hin]; [left; exact Hin|right; apply (IH m); [lia|exact Hin]].
Qed.

(** * The quote walker, byte by byte

    [bw q esc sk n l]: [sk] = the previous byte was an escaping backslash.  For an ASCII quote
    [q] the rune-wise walker [qloop] and the byte-wise one agree: a multi-byte rune is a group of
    bytes >= 128, none of which is a quote or a backslash. *)
Fixpoint bw (q : N) (esc sk : bool) (n : nat) (l : bytes) : option (nat * bytes) :=
  match n, l with
  | S n', b :: l' =>
    if sk then bw q esc false n' l'
    else if N.eqb b 92 && esc then bw q esc true n' l'
    else if N.eqb b q then Some (n', l')
    else bw q esc false n' l'
  | _, _ => None
  end.

Lemma qloop_S f q esc n l : qloop (S f) q esc n l =
    match n with
    | O => None
    | S _ =>
      let '(r, wz) := decode_rune l in
      let w := Z.to_nat wz in
      if (w =? 0)%nat || (n <? w)%nat then None else
      let n1 := (n - w)%nat in
      let l1 := skipn w l in
      if N.eqb r 92 && esc then
        match n1 with
        | O => None
        | S _ =>
          let '(_, wz2) := decode_rune l1 in
          let w2 := Z.to_nat wz2 in
          if (w2 =? 0)%nat || (n1 <? w2)%nat then None else qloop f q esc (n1 - w2)%nat (skipn w2 l1)
        end
      else if N.eqb r q then Some (n1, l1)
      else qloop f q esc n1 l1
    end.
Proof. reflexivity. Qed.

Lemma bw_none_hi q esc : (q < 128)%N -> forall n l,
  (forall b, In b (firstn n l) -> (128 <= b)%N) -> bw q esc false n l = None.
Proof.
  intros Hq. induction n as [|n IH]; intros l Hhi; [reflexivity|].
  destruct l as [|b l]; [reflexivity|]. simpl.
  assert (128 <= b)%N as Hb by (apply Hhi; left; reflexivity).
  replace (N.eqb b 92) with false by (symmetry; apply N.eqb_neq; lia).
  replace (N.eqb b q) with false by (symmetry; apply N.eqb_neq; lia).
  simpl. apply IH. intros c Hc. apply Hhi. right. exact Hc.
Qed.

Lemma bw_skip_hi q esc : (q < 128)%N -> forall w n l,
  (forall b, In b (firstn w l) -> (128 <= b)%N) -> (w <= n)%nat -> (w <= length l)%nat ->
  bw q esc false n l = bw q esc false (n - w) (skipn w l).
Proof.
  intros Hq. induction w as [|w IH]; intros n l Hhi Hn Hl.
  - rewrite Nat.sub_0_r. reflexivity.
  - destruct l as [|b l]; [simpl in Hl; lia|]. destruct n as [|n]; [lia|]. simpl in Hl.
    assert (128 <= b)%N as Hb by (apply Hhi; left; reflexivity).
    simpl.
    replace (N.eqb b 92) with false by (symmetry; apply N.eqb_neq; lia).
    replace (N.eqb b q) with false by (symmetry; apply N.eqb_neq; lia).
    simpl. apply IH; [|lia|lia]. intros c Hc. apply Hhi. right. exact Hc.
Qed.

(** skipping one whole rune after a backslash *)
Lemma bw_skip_rune q esc : (q < 128)%N -> forall l r wz n,
  decode_rune l = (r, wz) -> l <> [] -> (Z.to_nat wz <= n)%nat ->
  bw q esc true n l = bw q esc false (n - Z.to_nat wz) (skipn (Z.to_nat wz) l).
Proof.
  intros Hq l r wz n E Hne Hn.
  destruct (decode_rune_ascii _ _ _ E Hne) as (Hw & Hlo & _).
  destruct (N.lt_ge_cases r 128) as [Hr|Hr].
  - destruct (Hlo Hr) as [-> [t ->]]. change (Z.to_nat 1) with 1%nat in *.
    destruct n as [|n]; [lia|]. simpl. rewrite Nat.sub_0_r. reflexivity.
  - pose proof (fun b => decode_rune_hi _ _ _ b E Hne Hr) as Hhi.
    destruct l as [|b l]; [congruence|]. destruct n as [|n]; [lia|].
    destruct (Z.to_nat wz) as [|w]; [lia|]. simpl in Hw.
    change (bw q esc true (S n) (b :: l)) with (bw q esc false n l).
    simpl skipn. simpl Nat.sub. apply bw_skip_hi; [exact Hq| |lia|lia].
    intros c Hc. apply Hhi. right. exact Hc.
Qed.

Lemma bw_none_rune q esc : (q < 128)%N -> forall l r wz n,
  decode_rune l = (r, wz) -> l <> [] -> (n < Z.to_nat wz)%nat ->
  bw q esc true n l = None.
Proof.
  intros Hq l r wz n E Hne Hn.
  destruct (decode_rune_ascii _ _ _ E Hne) as (Hw & Hlo & _).
  destruct n as [|n]; [reflexivity|].
  destruct (N.lt_ge_cases r 128) as [Hr|Hr].
  - destruct (Hlo Hr) as [-> _]. change (Z.to_nat 1) with 1%nat in *. lia.
  - pose proof (fun b => decode_rune_hi _ _ _ b E Hne Hr) as Hhi.
    destruct l as [|b l]; [congruence|].
    change (bw q esc true (S n) (b :: l)) with (bw q esc false n l).
    apply bw_none_hi; [exact Hq|]. intros c Hc. apply Hhi.
    apply (firstn_In_le c (S n)); [lia|]. right. exact Hc.
Qed.

Theorem qloop_bw q esc : (q < 128)%N -> forall f n l, (n <= f)%nat ->
  qloop f q esc n l = bw q esc false n l.
Proof.
  intros Hq. induction f as [|f IH]; intros n l Hf.
  - destruct n; [reflexivity|lia].
  - rewrite qloop_S. destruct n as [|n]; [reflexivity|].
    destruct l as [|s0 t]; [reflexivity|].
    destruct (decode_rune (s0 :: t)) as [r wz] eqn:E.
    assert (s0 :: t <> []) as Hne by discriminate.
    destruct (decode_rune_ascii _ _ _ E Hne) as (Hw & Hlo & _).
    cbv zeta.
    destruct (Z.to_nat wz =? 0)%nat eqn:E0; [apply Nat.eqb_eq in E0; lia|].
    destruct (N.lt_ge_cases r 128) as [Hr|Hr].
    + destruct (Hlo Hr) as [-> [t' Ht]]. inversion Ht; subst s0 t'. clear Ht.
      change (Z.to_nat 1) with 1%nat. simpl orb. simpl skipn. simpl Nat.sub. rewrite Nat.sub_0_r.
      simpl bw.
      destruct (N.eqb r 92 && esc) eqn:Eesc.
      * destruct n as [|n]; [reflexivity|].
        destruct t as [|t0 t1]; [reflexivity|].
        destruct (decode_rune (t0 :: t1)) as [r2 wz2] eqn:E2.
        assert (t0 :: t1 <> []) as Hne2 by discriminate.
        destruct (decode_rune_ascii _ _ _ E2 Hne2) as (Hw2 & _ & _).
        destruct (Z.to_nat wz2 =? 0)%nat eqn:E20; [apply Nat.eqb_eq in E20; lia|].
        simpl orb.
        destruct (S n <? Z.to_nat wz2)%nat eqn:Elt.
        -- apply Nat.ltb_lt in Elt. symmetry. eapply bw_none_rune; eauto.
        -- apply Nat.ltb_ge in Elt. rewrite IH by lia. symmetry. eapply bw_skip_rune; eauto.
      * destruct (N.eqb r q); [reflexivity|]. apply IH. lia.
    + pose proof (fun b => decode_rune_hi _ _ _ b E Hne Hr) as Hhi.
      simpl orb.
      destruct (S n <? Z.to_nat wz)%nat eqn:Elt.
      * apply Nat.ltb_lt in Elt. symmetry. apply bw_none_hi; [exact Hq|].
        intros c Hc. apply Hhi. apply (firstn_In_le c (S n)); [lia|exact Hc].
      * apply Nat.ltb_ge in Elt.
        replace (N.eqb r 92) with false by (symmetry; apply N.eqb_neq; lia).
        replace (N.eqb r q) with false by (symmetry; apply N.eqb_neq; lia).
        simpl andb. cbv iota. rewrite IH by lia. symmetry. apply bw_skip_hi; [exact Hq|exact Hhi|lia|lia].
Qed.

(** * Sequences of quoted strings, byte-wise *)
Definition seg_result (f : nat) (esc : bool) (r : option (nat * bytes)) : bool :=
  match r with
  | Some (O, _) => true
  | Some (n2, l2) => qsegs f esc n2 l2
  | None => false
  end.

Lemma is_quote_cases q : is_quote q = true -> q = 39%N \/ q = 34%N \/ q = 96%N.
Proof. unfold is_quote. intros H. lia. Qed.
Lemma is_quote_ascii q : is_quote q = true -> (q < 128)%N.
Proof. intros H. apply is_quote_cases in H. lia. Qed.

Lemma qsegs_S f esc n1 q l1 :
  qsegs (S f) esc (S n1) (q :: l1) = is_quote q && seg_result f esc (bw q esc false n1 l1).
Proof.
  destruct (is_quote q) eqn:Eq.
  - change (qsegs (S f) esc (S n1) (q :: l1)) with (is_quote q && seg_result f esc (qloop (S n1) q esc n1 l1)).
    rewrite Eq. rewrite qloop_bw by (try apply is_quote_ascii; auto). reflexivity.
  - change (qsegs (S f) esc (S n1) (q :: l1)) with (is_quote q && seg_result f esc (qloop (S n1) q esc n1 l1)).
    rewrite Eq. reflexivity.
Qed.

Lemma quoted_token_wrap esc q body :
  quoted_token esc ([q] ++ body ++ [q]) =
  is_quote q && seg_result (S (S (length body))) esc (bw q esc false (S (length body)) (body ++ [q; 59%N; 10%N])).
Proof.
  unfold quoted_token. simpl app. simpl length. rewrite app_length. simpl length.
  rewrite Nat.add_1_r. rewrite qsegs_S. rewrite <- app_assoc. reflexivity.
Qed.

(** * 1. / 4. the single-quote wrap *)
Lemma double_sq_length s : (length s <= length (double_sq s))%nat.
Proof. induction s as [|c t IH]; simpl; [lia|]. destruct (N.eqb c 39); simpl; lia. Qed.

Lemma sq_walk esc : forall s f rest, (esc = true -> ~ In 92%N s) -> (length s < f)%nat ->
  seg_result f esc (bw 39 esc false (S (length (double_sq s))) (double_sq s ++ 39%N :: rest)) = true.
Proof.
  induction s as [|c t IH]; intros f rest Hesc Hf.
  - reflexivity.
  - simpl in Hf. assert (esc = true -> ~ In 92%N t) as Hesc' by (intros E I; apply (Hesc E); right; exact I).
    simpl double_sq. destruct (N.eqb c 39) eqn:Ec.
    + apply N.eqb_eq in Ec. subst c.
      simpl app. simpl length.
      change (bw 39 esc false (S (S (S (length (double_sq t))))) (39%N :: 39%N :: double_sq t ++ 39%N :: rest))
        with (Some (S (S (length (double_sq t))), 39%N :: double_sq t ++ 39%N :: rest)).
      destruct f as [|f]; [lia|].
      unfold seg_result. rewrite qsegs_S. simpl andb. apply IH; [exact Hesc'|lia].
    + simpl app. simpl length.
      assert (N.eqb c 92 && esc = false) as E92.
      { destruct esc; [|apply andb_false_r]. rewrite andb_true_r. apply N.eqb_neq. intros ->.
        apply (Hesc eq_refl). left. reflexivity. }
      simpl bw. rewrite E92, Ec. apply IH; [exact Hesc'|lia].
Qed.

Theorem sq_wrap_esc_closed esc s : (esc = true -> ~ In 92%N s) ->
  quoted_token esc ([39%N] ++ double_sq s ++ [39%N]) = true.
Proof.
  intros Hesc. rewrite quoted_token_wrap. simpl andb.
  apply sq_walk; [exact Hesc|]. pose proof (double_sq_length s). lia.
Qed.

Theorem sq_wrap_closed s : quoted_token false ([39%N] ++ double_sq s ++ [39%N]) = true.
Proof. apply sq_wrap_esc_closed. discriminate. Qed.

Theorem sq_wrap_closed_noback s : ~ In 92%N s -> quoted_token true ([39%N] ++ double_sq s ++ [39%N]) = true.
Proof. intros H. apply sq_wrap_esc_closed. intros _. exact H. Qed.

Theorem pg_quote_closed s : is_quoted s [39%N] = false -> quoted_token false (pg_quote s) = true.
Proof. intros H. unfold pg_quote. rewrite H. apply sq_wrap_closed. Qed.

Theorem single_quote_closed unq s t :
  is_quoted s [39%N] = false -> single_quote unq s = Some t -> quoted_token false t = true.
Proof.
  intros H. unfold single_quote. rewrite H. destruct (is_quoted s [34%N]).
  - destruct (unq s) as [v|]; [|discriminate]. intros E. injection E as <-. apply sq_wrap_closed.
  - intros E. injection E as <-. apply sq_wrap_closed.
Qed.
(** an input already quoted with ' is passed through: the output is closed exactly when the input is *)
Theorem single_quote_passthrough unq s :
  is_quoted s [39%N] = true -> single_quote unq s = Some s.
Proof. intros H. unfold single_quote. rewrite H. reflexivity. Qed.

(** * 2. strconv.Quote *)
(** no bare double quote, every backslash is followed by a byte *)
Fixpoint clean (l : bytes) : bool :=
  match l with
  | [] => true
  | b :: t =>
    if N.eqb b 92 then match t with [] => false | _ :: t' => clean t' end
    else negb (N.eqb b 34) && clean t
  end.

Lemma clean_app : forall m a b, (length a <= m)%nat -> clean a = true -> clean (a ++ b) = clean b.
Proof.
  induction m as [|m IH]; intros a b Hm Ha.
  - destruct a; [reflexivity|simpl in Hm; lia].
  - destruct a as [|x a]; [reflexivity|]. simpl in Hm. simpl in Ha. simpl app. simpl clean.
    destruct (N.eqb x 92).
    + destruct a as [|y a]; [discriminate|]. simpl app. simpl in Hm. apply IH; [lia|exact Ha].
    + apply andb_true_iff in Ha as [Hx Ha]. rewrite Hx. simpl. apply IH; [lia|exact Ha].
Qed.

Lemma clean_raw a : ~ In 34%N a -> ~ In 92%N a -> clean a = true.
Proof.
  induction a as [|x a IH]; intros H34 H92; [reflexivity|]. simpl.
  replace (N.eqb x 92) with false by (symmetry; apply N.eqb_neq; intros ->; apply H92; left; reflexivity).
  replace (N.eqb x 34) with false by (symmetry; apply N.eqb_neq; intros ->; apply H34; left; reflexivity).
  simpl. apply IH; intros I; [apply H34|apply H92]; right; exact I.
Qed.

Lemma hexdigit_ok n : hexdigit n <> 34%N /\ hexdigit n <> 92%N.
Proof. unfold hexdigit. destruct (n <? 10)%N eqn:E; lia. Qed.

Lemma clean_hex2 b : clean (hex2 b) = true.
Proof.
  unfold hex2. apply clean_raw; simpl; intros [H|[H|[]]];
    first [apply (proj1 (hexdigit_ok _)) in H | apply (proj2 (hexdigit_ok _)) in H]; exact H.
Qed.
Lemma clean_hex4 b : clean (hex4 b) = true.
Proof. unfold hex4. rewrite (clean_app _ _ _ (le_n _) (clean_hex2 _)). apply clean_hex2. Qed.
Lemma clean_hex8 b : clean (hex8 b) = true.
Proof. unfold hex8. rewrite (clean_app _ _ _ (le_n _) (clean_hex4 _)). apply clean_hex4. Qed.

Lemma go_quote_loop_clean np : forall f s, clean (go_quote_loop np f s) = true.
Proof.
  induction f as [|f IH]; intros s; [reflexivity|].
  simpl go_quote_loop. destruct s as [|c t]; [reflexivity|].
  destruct (decode_rune (c :: t)) as [r wz] eqn:E.
  assert (c :: t <> []) as Hne by discriminate.
  destruct (decode_rune_ascii _ _ _ E Hne) as (_ & _ & Hn).
  match goal with |- clean (?out ++ _) = true => assert (clean out = true) as Hout end.
  2:{ rewrite (clean_app _ _ _ (le_n _) Hout). apply IH. }
  repeat match goal with |- clean (if ?c then _ else _) = true => destruct c eqn:? end;
    try reflexivity; bnorm.
  - change (clean (hex2 c) = true). apply clean_hex2.
  - apply clean_raw; apply Hn; lia.
  - change (clean (hex2 r) = true). apply clean_hex2.
  - change (clean (hex4 r) = true). apply clean_hex4.
  - change (clean (hex8 r) = true). apply clean_hex8.
Qed.

Lemma bw_clean : forall m body k rest, (length body <= m)%nat -> clean body = true ->
  bw 34 true false (length body + S k) (body ++ 34%N :: rest) = Some (k, rest).
Proof.
  induction m as [|m IH]; intros body k rest Hm Hc.
  - destruct body; [reflexivity|simpl in Hm; lia].
  - destruct body as [|x body]; [reflexivity|]. simpl in Hm. simpl in Hc.
    simpl app. simpl length. simpl plus. simpl bw. destruct (N.eqb x 92).
    + destruct body as [|y body]; [discriminate|]. simpl. simpl in Hm. apply IH; [lia|exact Hc].
    + apply andb_true_iff in Hc as [Hx Hc]. apply negb_true_iff in Hx. simpl andb. cbv iota.
      rewrite Hx. apply IH; [lia|exact Hc].
Qed.

Theorem go_quote_closed np s : quoted_token true (go_quote np s) = true.
Proof.
  unfold go_quote. rewrite quoted_token_wrap. change (is_quote 34) with true. rewrite andb_true_l.
  pose proof (bw_clean _ (go_quote_loop np (length s) s) 0 [59%N; 10%N] (le_n _) (go_quote_loop_clean np _ s)) as H.
  rewrite Nat.add_1_r in H. rewrite H. reflexivity.
Qed.

Theorem mysql_quote_closed np s :
  is_quoted s [34%N; 39%N] = false -> quoted_token true (mysql_quote np s) = true.
Proof. intros H. unfold mysql_quote. rewrite H. apply go_quote_closed. Qed.

(** * 3. Builder.Ident: first the spelling before the fix ([raw_ident]), then the repaired one *)
Lemma ident_wrap q s : s <> [] -> raw_ident q q s = [q] ++ s ++ [q].
Proof. destruct s; [congruence|reflexivity]. Qed.

(** every maximal run of [q] bytes has even length ([odd] = parity of the run being read) *)
Fixpoint er (q : N) (odd : bool) (s : bytes) : bool :=
  match s with
  | [] => negb odd
  | b :: t => if N.eqb b q then er q (negb odd) t else negb odd && er q false t
  end.
Definition even_runs (q : N) (s : bytes) : bool := er q false s.

(** the two states of the walk over [s ++ [q]]: inside a string / between two strings *)
Definition st_in (f : nat) (q : N) (s rest : bytes) : bool :=
  seg_result f false (bw q false false (S (length s)) (s ++ q :: rest)).
Definition st_out (f : nat) (q : N) (s rest : bytes) : bool :=
  qsegs f false (S (length s)) (s ++ q :: rest).

Lemma st_in_nil f q rest : st_in f q [] rest = true.
Proof. unfold st_in. simpl. rewrite andb_false_r, N.eqb_refl. reflexivity. Qed.
Lemma st_in_q f q t rest : st_in f q (q :: t) rest = st_out f q t rest.
Proof. unfold st_in, st_out. simpl bw. rewrite andb_false_r, N.eqb_refl. reflexivity. Qed.
Lemma st_in_other f q b t rest : N.eqb b q = false -> st_in f q (b :: t) rest = st_in f q t rest.
Proof. intros E. unfold st_in. simpl. rewrite andb_false_r, E. reflexivity. Qed.
Lemma st_out_nil f q rest : is_quote q = true -> st_out (S f) q [] rest = false.
Proof. intros Hq. unfold st_out. simpl app. simpl length. rewrite qsegs_S. rewrite Hq. reflexivity. Qed.
Lemma st_out_q f q t rest : is_quote q = true -> st_out (S f) q (q :: t) rest = st_in f q t rest.
Proof. intros Hq. unfold st_out, st_in. simpl app. simpl length. rewrite qsegs_S. rewrite Hq. reflexivity. Qed.
Lemma st_out_other f q b t rest : is_quote b = false -> st_out (S f) q (b :: t) rest = false.
Proof. intros Hb. unfold st_out. simpl app. simpl length. rewrite qsegs_S. rewrite Hb. reflexivity. Qed.

Lemma er_walk q rest : is_quote q = true -> forall s f, (length s < f)%nat ->
  (er q false s = true -> st_in f q s rest = true) /\ (er q true s = true -> st_out f q s rest = true).
Proof.
  intros Hq. induction s as [|b t IH]; intros f Hf.
  - split; [intros _; apply st_in_nil|discriminate].
  - simpl in Hf. simpl er. destruct (N.eqb b q) eqn:Eb.
    + apply N.eqb_eq in Eb. subst b. split; intros H.
      * rewrite st_in_q. apply IH; [lia|exact H].
      * destruct f as [|f]; [lia|]. rewrite st_out_q by exact Hq. apply IH; [lia|exact H].
    + split; intros H; [|discriminate].
      rewrite st_in_other by exact Eb. apply IH; [lia|exact H].
Qed.

Lemma er_walk_exact q rest : is_quote q = true -> forall s f, (length s < f)%nat ->
  (forall b, In b s -> is_quote b = true -> b = q) ->
  st_in f q s rest = er q false s /\ st_out f q s rest = er q true s.
Proof.
  intros Hq. induction s as [|b t IH]; intros f Hf Honly.
  - destruct f as [|f]; [lia|]. split; [apply st_in_nil|apply st_out_nil; exact Hq].
  - simpl in Hf. destruct f as [|f]; [lia|].
    assert (forall c, In c t -> is_quote c = true -> c = q) as Honly' by (intros c Hc; apply Honly; right; exact Hc).
    simpl er. destruct (N.eqb b q) eqn:Eb.
    + apply N.eqb_eq in Eb. subst b. split.
      * rewrite st_in_q. apply IH; [lia|exact Honly'].
      * rewrite st_out_q by exact Hq. apply IH; [lia|exact Honly'].
    + split.
      * rewrite st_in_other by exact Eb. apply IH; [lia|exact Honly'].
      * apply st_out_other. destruct (is_quote b) eqn:Ebq; [|reflexivity].
        apply N.eqb_neq in Eb. exfalso. apply Eb. apply Honly; [left; reflexivity|exact Ebq].
Qed.

Lemma quoted_token_ident q s : is_quote q = true -> s <> [] ->
  quoted_token false (raw_ident q q s) = st_in (S (S (length s))) q s [59%N; 10%N].
Proof.
  intros Hq Hs. rewrite ident_wrap by exact Hs. rewrite quoted_token_wrap. rewrite Hq. reflexivity.
Qed.

Lemma er_notin q s : ~ In q s -> er q false s = true.
Proof.
  induction s as [|b t IH]; intros H; [reflexivity|]. simpl.
  replace (N.eqb b q) with false by (symmetry; apply N.eqb_neq; intros ->; apply H; left; reflexivity).
  apply IH. intros I. apply H. right. exact I.
Qed.

(** 3c, one direction, no side condition *)
Theorem ident_closed_even q s : is_quote q = true -> s <> [] ->
  even_runs q s = true -> quoted_token false (raw_ident q q s) = true.
Proof.
  intros Hq Hs He. rewrite quoted_token_ident by assumption.
  apply (er_walk q _ Hq s); [lia|exact He].
Qed.

(** 3a *)
Theorem ident_closed_notin q s : is_quote q = true -> s <> [] ->
  ~ In q s -> quoted_token false (raw_ident q q s) = true.
Proof. intros Hq Hs H. apply ident_closed_even; [exact Hq|exact Hs|apply er_notin; exact H]. Qed.

(** 3c, exact, when the name contains no quote character other than [q] *)
Theorem ident_closed_iff q s : is_quote q = true -> s <> [] ->
  (forall b, In b s -> is_quote b = true -> b = q) ->
  (quoted_token false (raw_ident q q s) = true <-> even_runs q s = true).
Proof.
  intros Hq Hs Honly. rewrite quoted_token_ident by assumption.
  destruct (er_walk_exact q [59%N; 10%N] Hq s (S (S (length s))) ltac:(lia) Honly) as [-> _].
  reflexivity.
Qed.

(** 3b: witnesses *)
(* a";b : the token "a";b" is not closed *)
Example ident_not_closed : quoted_token false (raw_ident 34 34 [97; 34; 59; 98]%N) = false.
Proof. vm_compute. reflexivity. Qed.
(* a""b : contains the quote and is closed, so [~ In q s] is sufficient but not necessary *)
Example ident_closed_doubled : quoted_token false (raw_ident 34 34 [97; 34; 34; 98]%N) = true.
Proof. vm_compute. reflexivity. Qed.
(* a"'"'"b : closed ("a" '"' "b") with odd runs: the side condition of [ident_closed_iff] is needed *)
Example ident_closed_mixed :
  quoted_token false (raw_ident 34 34 [97; 34; 39; 34; 39; 34; 98]%N) = true /\ even_runs 34 [97; 34; 39; 34; 39; 34; 98]%N = false.
Proof. vm_compute. split; reflexivity. Qed.
(* 4: with backslash escapes the single-quote wrap of  ab\  is not closed *)
Example sq_wrap_esc_not_closed :
  quoted_token true ([39%N] ++ double_sq [97; 98; 92]%N ++ [39%N]) = false.
Proof. vm_compute. reflexivity. Qed.

(** ** the repaired Builder.Ident: closed for EVERY name *)
Lemma double_q_ne q s : s <> [] -> double_q q s <> [].
Proof. destruct s as [|c t]; [congruence|]. simpl. destruct (N.eqb c q); discriminate. Qed.
Lemma ident_raw q s : ident q q s = raw_ident q q (double_q q s).
Proof.
  destruct s as [|c t]; [reflexivity|]. unfold ident, raw_ident.
  destruct (double_q q (c :: t)) eqn:E; [exfalso; revert E; apply double_q_ne; discriminate|reflexivity].
Qed.
Lemma er_double q : forall s, er q false (double_q q s) = true.
Proof.
  induction s as [|c t IH]; [reflexivity|]. cbn [double_q]. destruct (N.eqb c q) eqn:E.
  - cbn [er]. rewrite !N.eqb_refl. cbn [negb]. exact IH.
  - cbn [er]. rewrite E. cbn [negb andb]. exact IH.
Qed.
Theorem ident_closed q s : is_quote q = true -> s <> [] -> quoted_token false (ident q q s) = true.
Proof.
  intros Hq Hs. rewrite ident_raw. apply ident_closed_even; [exact Hq|apply double_q_ne; exact Hs|apply er_double].
Qed.

(** with backslash escapes (MySQL scanner): closed when the name has no backslash *)
Lemma dq_walk q : is_quote q = true -> q <> 92%N -> forall s f rest, ~ In 92%N s -> (length s < f)%nat ->
  seg_result f true (bw q true false (S (length (double_q q s))) (double_q q s ++ q :: rest)) = true.
Proof.
  intros Hq Hq92. induction s as [|c t IH]; intros f rest Hb Hf.
  - simpl. assert (N.eqb q 92 = false) as -> by (apply N.eqb_neq; exact Hq92). simpl. rewrite N.eqb_refl. reflexivity.
  - simpl in Hf. assert (Hb' : ~ In 92%N t) by (intros I; apply Hb; right; exact I).
    simpl double_q. destruct (N.eqb c q) eqn:Ec.
    + apply N.eqb_eq in Ec. subst c. cbn [app length bw].
      assert (N.eqb q 92 = false) as E92 by (apply N.eqb_neq; exact Hq92).
      rewrite E92. cbn [andb]. rewrite N.eqb_refl.
      destruct f as [|f]; [lia|]. unfold seg_result. rewrite qsegs_S. rewrite Hq. cbn [andb].
      apply IH; [exact Hb'|lia].
    + cbn [app length bw].
      assert (N.eqb c 92 = false) as -> by (apply N.eqb_neq; intros ->; apply Hb; left; reflexivity).
      cbn [andb]. rewrite Ec. apply IH; [exact Hb'|lia].
Qed.

Theorem ident_closed_esc q s : is_quote q = true -> s <> [] -> ~ In 92%N s ->
  quoted_token true (ident q q s) = true.
Proof.
  intros Hq Hs Hb. assert (Hq92 : q <> 92%N) by (apply is_quote_cases in Hq; lia).
  unfold ident. destruct s as [|c t] eqn:Es; [congruence|]. rewrite <- Es in *.
  rewrite quoted_token_wrap. rewrite Hq. cbn [andb].
  apply (dq_walk q Hq Hq92 s (S (S (length (double_q q s)))) [59%N; 10%N] Hb).
  assert (length s <= length (double_q q s))%nat.
  { clear. induction s as [|x r IH]; simpl; [lia|]. destruct (N.eqb x q); simpl; lia. }
  lia.
Qed.
