(** M-FMT (closed commands): the decidable, purely syntactic predicate [scan_closed o d cmd]
    of property C07 — "the statement scanner with options [o] and delimiter [d] reads the
    command [cmd], written as [cmd ++ d ++ "\n"] in a file, back as exactly one statement,
    whatever follows in the file".

    The predicate is a *byte walker over [cmd] alone* (it never runs the scanner of LexModel.v and
    knows nothing about the rest of the file): it tracks the parenthesis depth, skips quoted
    strings under [o]'s escape rule, dollar-quoted strings, and terminated comments, and rejects
      - a closing parenthesis without an opener / an opener that is not closed,
      - a quote, a dollar quote or a comment opener ([#], [--], [/*]) that is not closed inside [cmd],
      - a comment opener at the very start of [cmd] (the scanner would strip it into [Stmt.Comments]),
      - the delimiter at depth 0 (also one that straddles the end of [cmd] and the delimiter written
        after it),
      - a leading [DELIMITER] word (the MySQL client command),
      - when the delimiter is [;] and a BEGIN matcher is enabled in [o]: the word BEGIN (after optional
        white space) at one of the two look-ahead offsets of sql/migrate/lex.go: Scanner.stmt
        (conservative: BEGIN ... END blocks are not covered by the theorem, only by the tie),
      - a command that is empty or not trimmed ([strings.TrimSpace cmd <> cmd]).
    The look-ahead [follow d = d ++ "\n"] is what every formatter writes after a command.

    This file contains no proofs (ClosedProofs.v: the walker is sound for LexModel.stmt). *)
From Coq Require Import List NArith ZArith Bool Arith.
From Atlas Require Import Base.Bytes Lex.LexModel.
Import ListNotations.

(** what follows a command in a formatted file *)
Definition follow (d : bytes) : bytes := d ++ [10%N].

Definition is_quote (r : N) : bool := N.eqb r 39 || N.eqb r 34 || N.eqb r 96.
Definition ascii (b : N) : bool := (b <? 128)%N.

(** delimiters covered by the theorems: non-empty, ASCII, not starting with a parenthesis or a
    quote character (the scanner tests those before the delimiter), stable under the
    [\n]/[\r]/[\t] escaping of sql/migrate/dir.go: delim + lex.go: setDelim (no backslash), no
    space at either end, no colon (the greedy first group of [reDirective] would move to a later
    ["atlas:"]) and printable after escaping (the directive regexp reads the argument with
    [[ -~]*] after [" +"]). *)
Definition delim_byte_ok (b : N) : bool :=
  ascii b && negb (N.eqb b 92) && negb (N.eqb b 58) &&
  (N.eqb b 10 || N.eqb b 13 || N.eqb b 9 || ((32 <=? b)%N && (b <=? 126)%N)).
Definition delim_ok (d : bytes) : bool :=
  match d with
  | [] => false
  | b :: _ =>
    forallb delim_byte_ok d &&
    negb (N.eqb b 40 || N.eqb b 41 || is_quote b || N.eqb b 32) &&
    negb (N.eqb (last d 0%N) 32)
  end.

(** BEGIN word after optional [\s]: over-approximates reBegin, reBeginAtomic, reBeginTry. *)
Definition begin_hint (x : bytes) : bool := has_prefix_ci (skip_s_list x) W_BEGIN.

(** are the BEGIN matchers of Scanner.stmt live? *)
Definition begin_live (o : opts) (d : bytes) : bool :=
  bytes_eqb d delimiter && (MatchBegin o || MatchBeginAtomic o || MatchBeginTryCatch o).

(** last byte of the first [w] bytes of [l] *)
Definition byte_before (w : nat) (l : bytes) : option N := nth_error l (w - 1).

(** skipQuote: from just after the opening quote [q]; [n] = bytes of [cmd] left, [l] = those
    bytes followed by the look-ahead.  Result: what is left after the closing quote. *)
Fixpoint qloop (f : nat) (q : N) (esc : bool) (n : nat) (l : bytes) : option (nat * bytes) :=
  match f with
  | O => None
  | S f' =>
    match n with
    | O => None
    | S _ =>
      let '(r, wz) := decode_rune l in
      let w := Z.to_nat wz in
      if (w =? 0)%nat || (n <? w)%nat then None else
      let n1 := (n - w)%nat in
      let l1 := skipn w l in
      if N.eqb r 92 && esc then
        match n1 with
        | O => None
        | S _ =>
          let '(_, wz2) := decode_rune l1 in
          let w2 := Z.to_nat wz2 in
          if (w2 =? 0)%nat || (n1 <? w2)%nat then None else qloop f' q esc (n1 - w2)%nat (skipn w2 l1)
        end
      else if N.eqb r q then Some (n1, l1)
      else qloop f' q esc n1 l1
    end
  end.

(** skipDollarQuote: from just after the opening tag [m]. *)
Fixpoint dloop (f : nat) (m : bytes) (n : nat) (l : bytes) : option (nat * bytes) :=
  match f with
  | O => None
  | S f' =>
    match n with
    | O => None
    | S _ =>
      let '(r, wz) := decode_rune l in
      let w := Z.to_nat wz in
      if (w =? 0)%nat || (n <? w)%nat then None else
      if N.eqb r 36 && has_prefix l m then
        if (n <? length m)%nat then None else Some ((n - length m)%nat, skipn (length m) l)
      else dloop f' m (n - w)%nat (skipn w l)
    end
  end.

(** Scanner.comment, from just after the opener: the terminator [right] must lie inside [cmd]. *)
Definition cskip (right : bytes) (n : nat) (l : bytes) : option (nat * bytes) :=
  match index_of l right with
  | Some i => let k := (i + length right)%nat in
              if (n <? k)%nat then None else Some ((n - k)%nat, skipn k l)
  | None => None
  end.

Section Walk.
Variable o : opts.
Variable d : bytes.

(** one command: [start] = at offset 0 of [cmd]; [prev] = the byte before [l] (if any);
    [depth] = open parentheses; [n] = bytes of [cmd] left; [l] = those bytes ++ [follow d]. *)
Fixpoint cw (f : nat) (start : bool) (prev : option N) (depth : nat) (n : nat) (l : bytes) : bool :=
  match f with
  | O => false
  | S f' =>
    match n with
    | O => (depth =? 0)%nat
    | S _ =>
      let '(r, wz) := decode_rune l in
      let w := Z.to_nat wz in
      if (w =? 0)%nat || (n <? w)%nat then false else
      let n1 := (n - w)%nat in
      let l1 := skipn w l in
      let pv := byte_before w l in
      if N.eqb r 40 then cw f' false pv (S depth) n1 l1
      else if N.eqb r 41 then
        match depth with O => false | S d' => cw f' false pv d' n1 l1 end
      else if is_quote r then
        match qloop f' r (BackslashEscapes o) n1 l1 with
        | Some (n2, l2) => cw f' false (Some r) depth n2 l2
        | None => false
        end
      else if start && (w =? 1)%nat && has_prefix_ci l W_DELIMITER then false
      else if (depth =? 0)%nat && has_prefix l d then false
      else if MatchDollarQuote o && N.eqb r 36 && is_some (re_dollar_quote l) then
        match re_dollar_quote l with
        | Some m =>
          if (n <? m)%nat then false else
          match dloop f' (firstn m l) (n - m)%nat (skipn m l) with
          | Some (n2, l2) => cw f' false (Some 36%N) depth n2 l2
          | None => false
          end
        | None => false
        end
      else if N.eqb r 35 && HashComments o then
        if start then false else
        match cskip NL n1 l1 with
        | Some (n2, l2) => cw f' false (Some 10%N) depth n2 l2
        | None => false
        end
      else if N.eqb r 45 && rune_is (Some (fst (decode_rune l1))) 45 then
        if start then false else
        match n1 with
        | O => false
        | S n1' =>
          match cskip NL n1' (skipn 1 l1) with
          | Some (n2, l2) => cw f' false (Some 10%N) depth n2 l2
          | None => false
          end
        end
      else if N.eqb r 47 && rune_is (Some (fst (decode_rune l1))) 42 then
        if start then false else
        match n1 with
        | O => false
        | S n1' =>
          match cskip [42%N; 47%N] n1' (skipn 1 l1) with
          | Some (n2, l2) => cw f' false (Some 47%N) depth n2 l2
          | None => false
          end
        end
      else if begin_live o d &&
              (begin_hint (skipn (w - 1) l) ||
               begin_hint (match w, prev with
                           | 1%nat, Some p => p :: l
                           | 1%nat, None => l
                           | _, _ => skipn (w - 2) l
                           end))
      then false
      else cw f' false pv depth n1 l1
    end
  end.
End Walk.

(** [strings.TrimSpace cmd = cmd], [cmd <> ""] *)
Definition trimmed (cmd : bytes) : bool :=
  match cmd with [] => false | _ => bytes_eqb (trim_space cmd) cmd end.

Definition scan_closed (o : opts) (d : bytes) (cmd : bytes) : bool :=
  trimmed cmd && cw o d (S (length cmd)) true None 0 (length cmd) (cmd ++ follow d).

(** the text [Scanner.emit] reports for a closed command: the default delimiter stays in the text. *)
Definition stmt_text (o : opts) (d : bytes) (cmd : bytes) : bytes :=
  if OmitDelimiter o || negb (bytes_eqb d delimiter) then cmd else cmd ++ d.

(** a comment line body: no newline (the templates write it raw after ["-- "]). *)
Definition comment_ok (c : bytes) : bool := negb (existsb (N.eqb 10) c).

(** Why a command is not closed (diagnostics for the tie / the oracle's classifier; not used by the
    theorems): first offending construct. *)
Inductive reason :=
| RClosed | RNotTrimmed | REmpty | ROther.
Definition closed_reason (o : opts) (d : bytes) (cmd : bytes) : reason :=
  match cmd with
  | [] => REmpty
  | _ => if negb (trimmed cmd) then RNotTrimmed
         else if scan_closed o d cmd then RClosed else ROther
  end.

(** ** closed for the default delimiter with the delimiter kept in the text
    Scanner.emit keeps the default delimiter in the statement text when OmitDelimiter is off, so
    what strings.TrimSpace removes from [cmd ++ ";"] can only be at the START of [cmd]: [cmd] may
    END in white space — e.g. the line break that ends a trailing line comment
    ([INSERT ... -- seed row\n] followed by [;]).  Same walker, weaker trimming condition. *)
Definition ltrimmed (cmd : bytes) : bool :=
  match cmd with [] => false | _ => bytes_eqb (trim_left_space cmd) cmd end.
Definition scan_closed_semi (o : opts) (cmd : bytes) : bool :=
  negb (OmitDelimiter o) && ltrimmed cmd &&
  cw o delimiter (S (length cmd)) true None 0 (length cmd) (cmd ++ follow delimiter).
