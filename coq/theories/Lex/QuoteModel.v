(** M-BUILD (quoting): the literal and identifier quoting functions of the SQL builders.

    sql/internal/sqlx/sqlx.go: IsQuoted, Builder.Ident; sql/internal/sqlx/diff.go: SingleQuote;
    sql/postgres/migrate_oss.go: quote; sql/mysql/migrate_oss.go: quote (= strconv.Quote for
    strings that are not already quoted); sql/mysql/convert.go: formatValues.

    strconv.Quote depends on unicode.IsPrint for non-ASCII runes: the model takes the list [np]
    of the non-ASCII runes that are NOT printable (the harness computes it with the real
    unicode.IsPrint for every input; the theorems hold for every list).  No proofs here. *)
From Coq Require Import List NArith ZArith Bool Arith.
From Atlas Require Import Base.Bytes Lex.LexModel Lex.ClosedModel.
Import ListNotations.

(** sqlx.IsQuoted(s, q): first and last byte are [q] and the bytes [1 .. last-2] contain no
    unescaped [q] (NB: the loop stops at [i < last-1], the byte at [last-1] is never examined). *)
Fixpoint is_quoted_loop (fuel : nat) (q : N) (body : bytes) (i last : nat) : bool :=
  (* body = s[i..]; examine while i < last - 1 *)
  match fuel with
  | O => true
  | S f =>
    if (last - 1 <=? i)%nat then true else
    match body with
    | [] => true
    | c :: rest =>
      if N.eqb c 92 then is_quoted_loop f q (skipn 1 rest) (i + 2) last
      else if N.eqb c q then
        match rest with
        | c2 :: rest2 => if N.eqb c2 q then is_quoted_loop f q rest2 (i + 2) last else false
        | [] => false
        end
      else is_quoted_loop f q rest (i + 1) last
    end
  end.
Definition is_quoted1 (s : bytes) (q : N) : bool :=
  let last := (length s - 1)%nat in
  if (last <? 1)%nat then false else
  match s with
  | c0 :: rest => N.eqb c0 q && N.eqb (nth last s 0%N) q && is_quoted_loop (length s) q rest 1 last
  | [] => false
  end.
Definition is_quoted (s : bytes) (qs : list N) : bool := existsb (is_quoted1 s) qs.

(** strings.ReplaceAll(s, "'", "''") *)
Fixpoint double_sq (s : bytes) : bytes :=
  match s with
  | [] => []
  | c :: t => if N.eqb c 39 then 39%N :: 39%N :: double_sq t else c :: double_sq t
  end.

(** sql/postgres/migrate_oss.go: quote *)
Definition pg_quote (s : bytes) : bytes :=
  if is_quoted s [39%N] then s else [39%N] ++ double_sq s ++ [39%N].

(** sqlx.SingleQuote:  an input already quoted with ' is returned as is; an input quoted with the double quote (a
    default that InspectSchema returns from a legacy SQLite schema / a SQL schema file:
    DEFAULT its in double quotes) goes through strconv.Unquote and is then quoted like a raw input; everything
    else is wrapped in ' with the apostrophes doubled.  strconv.Unquote (Go string-literal syntax)
    is the Section parameter [unq] ([None] = its error, which SingleQuote returns); the harness
    passes the real result for every input, the theorems hold for every function. *)
Section SingleQuote.
Variable unq : bytes -> option bytes.
Definition single_quote (s : bytes) : option bytes :=
  if is_quoted s [39%N] then Some s
  else if is_quoted s [34%N] then
    match unq s with
    | Some v => Some ([39%N] ++ double_sq v ++ [39%N])
    | None => None
    end
  else Some ([39%N] ++ double_sq s ++ [39%N]).
End SingleQuote.

(** strconv.Quote *)
Definition hexdigit (n : N) : N := if (n <? 10)%N then (48 + n)%N else (87 + n)%N.
Definition hex2 (b : N) : bytes := [hexdigit (b / 16); hexdigit (b mod 16)].
Definition hex4 (r : N) : bytes := hex2 (r / 256) ++ hex2 (r mod 256).
Definition hex8 (r : N) : bytes := hex4 (r / 65536) ++ hex4 (r mod 65536).
Section Quote.
Variable np : list N.   (* non-printable non-ASCII runes (unicode.IsPrint = false) *)
Definition is_print (r : N) : bool :=
  if (r <? 128)%N then (32 <=? r)%N && (r <=? 126)%N else negb (existsb (N.eqb r) np).
Fixpoint go_quote_loop (fuel : nat) (s : bytes) : bytes :=
  match fuel with
  | O => []
  | S f =>
    match s with
    | [] => []
    | c :: _ =>
      let '(r, wz) := decode_rune s in
      let w := Z.to_nat wz in
      let rest := skipn w s in
      let out :=
        if (w =? 1)%nat && N.eqb r RuneError then [92%N; 120%N] ++ hex2 c      (* \xNN for an invalid byte *)
        else if N.eqb r 34 || N.eqb r 92 then [92%N; r]
        else if is_print r then firstn w s
        else if N.eqb r 7 then [92;97]%N else if N.eqb r 8 then [92;98]%N
        else if N.eqb r 12 then [92;102]%N else if N.eqb r 10 then [92;110]%N
        else if N.eqb r 13 then [92;114]%N else if N.eqb r 9 then [92;116]%N
        else if N.eqb r 11 then [92;118]%N
        else if (r <? 32)%N || N.eqb r 127 then [92%N; 120%N] ++ hex2 r
        else if (r <? 65536)%N then [92%N; 117%N] ++ hex4 r
        else [92%N; 85%N] ++ hex8 r in
      out ++ go_quote_loop f rest
    end
  end.
Definition go_quote (s : bytes) : bytes := [34%N] ++ go_quote_loop (length s) s ++ [34%N].

(** sql/mysql/migrate_oss.go: quote *)
Definition mysql_quote (s : bytes) : bytes :=
  if is_quoted s [34%N; 39%N] then s else go_quote s.
End Quote.

(** sql/mysql/convert.go: formatValues *)
Definition S_COMMA : bytes := [44%N].
Fixpoint join_comma (l : list bytes) : bytes :=
  match l with [] => [] | [x] => x | x :: t => x ++ S_COMMA ++ join_comma t end.
Definition format_value (v : bytes) : bytes :=
  if is_quoted v [34%N; 39%N] then v else [39%N] ++ v ++ [39%N].
Definition format_values (vs : list bytes) : bytes := join_comma (map format_value vs).

(** sqlx.Builder.Ident (fix C16-ident-double-quote-char): opening quote, the name with every
    closing-quote byte written twice, closing quote (the trailing space that the builder appends
    is not part of the token).  [raw_ident] is the spelling before the fix (the name as is). *)
Fixpoint double_q (q : N) (s : bytes) : bytes :=
  match s with
  | [] => []
  | c :: t => if N.eqb c q then q :: q :: double_q q t else c :: double_q q t
  end.
Definition ident (qo qc : N) (s : bytes) : bytes :=
  match s with [] => [] | _ => [qo] ++ double_q qc s ++ [qc] end.
Definition raw_ident (qo qc : N) (s : bytes) : bytes :=
  match s with [] => [] | _ => [qo] ++ s ++ [qc] end.

(** a closed literal token for a scanner whose backslash handling is [esc]: the token is a
    sequence of complete quoted strings, i.e. the walker of ClosedModel.v (and Scanner.skipQuote)
    started at its first byte is outside every quote exactly when the token ends, whatever follows.
    (A doubled quote inside a literal is, for the scanner, one string ending and the next one
    starting.) *)
Fixpoint qsegs (f : nat) (esc : bool) (n : nat) (l : bytes) : bool :=
  match f with
  | O => false
  | S f' =>
    match n, l with
    | S n1, q :: l1 =>
      is_quote q &&
      match qloop (S n1) q esc n1 l1 with
      | Some (O, _) => true
      | Some (n2, l2) => qsegs f' esc n2 l2
      | None => false
      end
    | _, _ => false
    end
  end.
Definition quoted_token (esc : bool) (tok : bytes) : bool :=
  qsegs (S (length tok)) esc (length tok) (tok ++ [59%N; 10%N]).
Definition lit_closed (o : opts) (tok : bytes) : bool := quoted_token (BackslashEscapes o) tok.
