(** C07_roundtrip in one statement: the decidable hypothesis [roundtrip_hyp F o now p] (per
    formatter, the side conditions of FmtProofs.v / FmtGooseProofs.v as one boolean, also evaluated
    by the extracted model and by a Go port on every generated case) implies the round trip. *)
From Coq Require Import List NArith ZArith Bool Arith Lia.
From Atlas Require Import Base.Bytes Lex.LexModel Lex.ClosedModel Lex.ClosedNLModel Lex.FmtModel
  Lex.FmtProofs Lex.FmtGooseProofs.
Import ListNotations.

Definition roundtrip_hyp (F : format) (o : opts) (now : bytes) (p : plan) : bool :=
  match F with
  | FAtlas =>
    (match p_delim p with
     | [] => true
     | d => delim_ok d && negb (N.eqb (hd 0%N d) 45)
     end)
    && forallb directive_ok (p_directives p)
    && forallb (fun c => scan_closed o (or_delim (p_delim p)) (c_cmd c) && comment_ok (c_comment c)) (p_changes p)
  | FGolangMigrate | FFlyway =>
    forallb (fun c => scan_closed opts_generic delimiter (c_cmd c) && comment_ok2 (c_comment c)) (p_changes p)
  | FLiquibase =>
    comment_ok now && negb (match p_changes p with [] => true | _ => false end)
    && forallb (fun c => scan_closed o delimiter (c_cmd c) && comment_ok (c_comment c)) (p_changes p)
  | FDBMate =>
    forallb (fun c => scan_closed opts_generic delimiter (c_cmd c) && comment_ok2 (c_comment c)) (p_changes p)
    && dbmate_ok (tool_up p)
  | FGoose =>
    forallb (fun c => goose_change_ok c && comment_ok (c_comment c)
                      && scan_closed_nl opts_generic GOOSE_DELIM (c_cmd c ++ [59%N])) (p_changes p)
  end.

Lemma read_atlas o c : read FAtlas o c = of_scan (scan o c). Proof. reflexivity. Qed.
Lemma read_liquibase o c : read FLiquibase o c = of_scan (scan o c). Proof. reflexivity. Qed.
Lemma read_golang o c : read FGolangMigrate o c = of_scan (Stmts c). Proof. reflexivity. Qed.
Lemma read_flyway o c : read FFlyway o c = of_scan (Stmts c). Proof. reflexivity. Qed.
Lemma up_atlas now p : up_content FAtlas now p = atlas_content p. Proof. reflexivity. Qed.
Lemma up_golang now p : up_content FGolangMigrate now p = tool_up p. Proof. reflexivity. Qed.
Lemma up_flyway now p : up_content FFlyway now p = tool_up p. Proof. reflexivity. Qed.
Lemma up_liquibase now p : up_content FLiquibase now p = liquibase_content now p. Proof. reflexivity. Qed.
Lemma up_dbmate now p : up_content FDBMate now p = dbmate_content p. Proof. reflexivity. Qed.
Lemma up_goose now p : up_content FGoose now p = goose_content p. Proof. reflexivity. Qed.
Lemma texts_of_eq r : texts_of r = texts (of_scan r). Proof. reflexivity. Qed.
Lemma roundtrip_eq F o now p : roundtrip F o now p = texts (read F o (up_content F now p)). Proof. reflexivity. Qed.
Lemma planned_eq o d p : planned o d p = Some (map (fun c => stmt_text o d (c_cmd c)) (p_changes p)).
Proof. reflexivity. Qed.

Lemma forallb_Forall {A} (f : A -> bool) (P : A -> Prop) l :
  (forall x, f x = true -> P x) -> forallb f l = true -> Forall P l.
Proof.
  intros H Hf. apply Forall_forall. intros x Hx. apply H. exact (proj1 (forallb_forall f l) Hf x Hx).
Qed.

Theorem roundtrip_of_hyp F o now p :
  GoCommand o = false -> roundtrip_hyp F o now p = true ->
  roundtrip F o now p = planned (reader_opts F o) (reader_delim F p) p.
Proof.
  intros Hgo H. destruct F; cbn [roundtrip_hyp reader_opts reader_delim] in *.
  - (* atlas *)
    apply andb_true_iff in H as [H H3]. apply andb_true_iff in H as [H1 H2].
    rewrite roundtrip_eq, up_atlas, read_atlas, planned_eq, <- texts_of_eq.
    apply atlas_roundtrip; [exact Hgo| | |].
    + destruct (p_delim p) as [|x d'] eqn:E; [left; reflexivity|right].
      apply andb_true_iff in H1 as [D1 D2]. split; [exact D1|].
      rewrite negb_true_iff in D2. apply N.eqb_neq in D2. exact D2.
    + eapply forallb_Forall; [|exact H2]. auto.
    + eapply forallb_Forall; [|exact H3]. intros c Hc. apply andb_true_iff in Hc as [C1 C2]. split; assumption.
  - (* golang-migrate *)
    rewrite roundtrip_eq, up_golang, read_golang, planned_eq, <- texts_of_eq.
    apply tool_up_roundtrip. eapply forallb_Forall; [|exact H]. intros c Hc. apply andb_true_iff in Hc as [C1 C2]. split; assumption.
  - (* goose *)
    rewrite roundtrip_eq, up_goose, planned_eq. apply goose_roundtrip.
    eapply forallb_Forall; [|exact H]. intros c Hc. apply andb_true_iff in Hc as [Hc C3]. apply andb_true_iff in Hc as [C1 C2].
    repeat split; assumption.
  - (* flyway *)
    rewrite roundtrip_eq, up_flyway, read_flyway, planned_eq, <- texts_of_eq.
    apply tool_up_roundtrip. eapply forallb_Forall; [|exact H]. intros c Hc. apply andb_true_iff in Hc as [C1 C2]. split; assumption.
  - (* liquibase *)
    apply andb_true_iff in H as [H H3]. apply andb_true_iff in H as [H1 H2].
    rewrite roundtrip_eq, up_liquibase, read_liquibase, planned_eq, <- texts_of_eq.
    apply liquibase_roundtrip; [exact Hgo|exact H1| |].
    + destruct (p_changes p); [discriminate|discriminate].
    + eapply forallb_Forall; [|exact H3]. intros c Hc. apply andb_true_iff in Hc as [C1 C2]. split; assumption.
  - (* dbmate *)
    apply andb_true_iff in H as [H1 H2]. rewrite roundtrip_eq, up_dbmate, planned_eq.
    apply dbmate_roundtrip; [|exact H2].
    eapply forallb_Forall; [|exact H1]. intros c Hc. apply andb_true_iff in Hc as [C1 C2]. split; assumption.
Qed.
