(** C07 (bridge, instantiated): planner statement forms as skeletons whose tokens come from
    Builder.Ident / quote — closed for EVERY name without the quote byte and EVERY literal text. *)
From Coq Require Import List NArith ZArith Bool Arith Lia.
From Atlas Require Import Base.Bytes Lex.LexModel Lex.LexProofs Lex.ClosedModel Lex.QuoteModel Lex.QuoteProofs
  Lex.ClosedBridgeModel Lex.ClosedBridgeProofs.
Import ListNotations.

Lemma trim_rev_ascii z t : (z < 128)%N -> sp1 z = false -> trim_left_space_rev (z :: t) = z :: t.
Proof.
  intros Hz Hs. cbn [trim_left_space_rev]. rewrite Hs.
  assert (E1 : forall b, sp2 b z = false).
  { intros b. unfold sp2. destruct (N.eqb b 194); [|reflexivity]. simpl.
    destruct (N.eqb z 133) eqn:E; [apply N.eqb_eq in E; lia|]. destruct (N.eqb z 160) eqn:E'; [apply N.eqb_eq in E'; lia|reflexivity]. }
  assert (E2 : forall c b, sp3 c b z = false).
  { intros c b. unfold sp3.
    assert (N.eqb z 128 = false) as -> by (apply N.eqb_neq; lia).
    assert (N.eqb z 159 = false) as -> by (apply N.eqb_neq; lia).
    assert (N.eqb z 168 = false) as -> by (apply N.eqb_neq; lia).
    assert (N.eqb z 169 = false) as -> by (apply N.eqb_neq; lia).
    assert (N.eqb z 175 = false) as -> by (apply N.eqb_neq; lia).
    assert ((128 <=? z)%N = false) as -> by (apply N.leb_gt; lia).
    rewrite !andb_false_r. reflexivity. }
  destruct t as [|b [|c t3]]; [reflexivity|rewrite E1; reflexivity|rewrite E1, E2; reflexivity].
Qed.

(** a byte string that starts and ends with an ASCII non-space byte is trimmed *)
Lemma trimmed_ends a m z : (a < 128)%N -> sp1 a = false -> (z < 128)%N -> sp1 z = false ->
  trimmed (a :: m ++ [z]) = true.
Proof.
  intros Ha Hsa Hz Hsz. unfold trimmed. apply bytes_eqb_eq. unfold trim_space.
  assert (trim_left_space (a :: m ++ [z]) = a :: m ++ [z]) as ->.
  { cbn [trim_left_space]. rewrite Hsa. destruct (m ++ [z]) as [|b t2] eqn:E; [reflexivity|].
    assert (sp2 a b = false) as ->.
    { unfold sp2. destruct (N.eqb a 194) eqn:E1; [apply N.eqb_eq in E1; lia|reflexivity]. }
    destruct t2 as [|c t3]; [reflexivity|].
    assert (sp3 a b c = false) as ->; [|reflexivity].
    unfold sp3. destruct (N.eqb a 225) eqn:E1; [apply N.eqb_eq in E1; lia|].
    destruct (N.eqb a 226) eqn:E2; [apply N.eqb_eq in E2; lia|].
    destruct (N.eqb a 227) eqn:E3; [apply N.eqb_eq in E3; lia|]. reflexivity. }
  unfold trim_right_space.
  replace (rev (a :: m ++ [z])) with (z :: rev (a :: m)).
  - rewrite trim_rev_ascii by assumption. change (z :: rev (a :: m)) with (rev [z] ++ rev (a :: m)).
    rewrite <- rev_app_distr. rewrite rev_involutive. reflexivity.
  - change (a :: m ++ [z]) with ((a :: m) ++ [z]). rewrite rev_app_distr. reflexivity.
Qed.


(* "COMMENT ON TABLE " / " IS " / "ALTER TABLE " / " COMMENT " / "CREATE TABLE " / " " / " integer NOT NULL" *)
Definition T_COMMENT_ON_TABLE : bytes := [67;79;77;77;69;78;84;32;79;78;32;84;65;66;76;69;32]%N.
Definition T_IS : bytes := [32;73;83;32]%N.
Definition T_ALTER_TABLE : bytes := [65;76;84;69;82;32;84;65;66;76;69;32]%N.
Definition T_COMMENT : bytes := [32;67;79;77;77;69;78;84;32]%N.
Definition T_CREATE_TABLE : bytes := [67;82;69;65;84;69;32;84;65;66;76;69;32]%N.
Definition T_SP : bytes := [32%N].
Definition T_INT_NOT_NULL : bytes := [32;105;110;116;101;103;101;114;32;78;79;84;32;78;85;76;76]%N.

(** PostgreSQL: COMMENT ON TABLE "<name>" IS '<text>' *)
Definition pg_comment_on_table (name text : bytes) : list piece :=
  [PText T_COMMENT_ON_TABLE; PTok (ident 34 34 name); PText T_IS; PTok (pg_quote text)].
(** MySQL: ALTER TABLE `<name>` COMMENT "<text>" *)
Definition mysql_alter_comment (np : list N) (name text : bytes) : list piece :=
  [PText T_ALTER_TABLE; PTok (ident 96 96 name); PText T_COMMENT; PTok (mysql_quote np text)].
(** CREATE TABLE "<t>" ("<c>" integer NOT NULL) *)
Definition create_table1 (q : N) (t c : bytes) : list piece :=
  [PText T_CREATE_TABLE; PTok (ident q q t); PText T_SP; POpen; PTok (ident q q c); PText T_INT_NOT_NULL; PClose].

Lemma last_byte_quote_pg s : exists m, pg_quote s = m ++ [39%N] \/ is_quoted s [39%N] = true.
Proof.
  unfold pg_quote. destruct (is_quoted s [39%N]); [exists []; right; reflexivity|].
  exists ([39%N] ++ double_sq s). left. rewrite <- app_assoc. reflexivity.
Qed.

(** Builder.Ident under a scanner WITH backslash escapes (MySQL): closed when the name has neither
    the quote byte nor a backslash *)
Lemma bw_plain q esc : q <> 92%N -> forall s rest, ~ In q s -> (esc = true -> ~ In 92%N s) ->
  bw q esc false (S (length s)) (s ++ q :: rest) = Some (O, rest).
Proof.
  intros Hq92. induction s as [|b t IH]; intros rest Hq He.
  - simpl. rewrite N.eqb_refl. apply N.eqb_neq in Hq92. rewrite Hq92. reflexivity.
  - cbn [length app bw].
    assert (N.eqb b 92 && esc = false) as ->.
    { destruct esc; [|apply andb_false_r]. rewrite andb_true_r. apply N.eqb_neq. intros ->.
      apply (He eq_refl). left. reflexivity. }
    assert (N.eqb b q = false) as -> by (apply N.eqb_neq; intros ->; apply Hq; left; reflexivity).
    apply IH; [intros I; apply Hq; right; exact I|intros E I; apply (He E); right; exact I].
Qed.
(** text, token, text, token *)
Lemma skel_ttkk o a t1 k1 t2 k2 z m :
  text_ok (a :: t1) = true -> quoted_token (BackslashEscapes o) k1 = true ->
  text_ok t2 = true -> quoted_token (BackslashEscapes o) k2 = true ->
  is_letter a = true -> negb (has_prefix_ci (a :: t1) W_DELIMITER) = true ->
  k2 = m ++ [z] -> (z < 128)%N -> sp1 z = false -> (9 <= length (a :: t1))%nat ->
  skel_ok o [PText (a :: t1); PTok k1; PText t2; PTok k2] = true.
Proof.
  intros H1 H2 H3 H4 Hl Hd Hk Hz Hsz Hlen. unfold skel_ok. cbn [forallb depth_ok no_adjacent_text].
  rewrite H1, H2, H3, H4, Hl. cbn [andb].
  unfold render. cbn [map concat render_piece]. rewrite app_nil_r.
  assert (Ha : (a < 128)%N /\ sp1 a = false).
  { unfold is_letter in Hl. unfold sp1.
    destruct ((65 <=? a)%N && (a <=? 90)%N) eqn:E1.
    - apply andb_true_iff in E1 as [X Y]. apply N.leb_le in X. apply N.leb_le in Y. split; [lia|].
      destruct ((9 <=? a)%N && (a <=? 13)%N) eqn:E; [apply andb_true_iff in E as [P Q]; apply N.leb_le in Q; lia|].
      destruct (N.eqb a 32) eqn:E'; [apply N.eqb_eq in E'; lia|reflexivity].
    - simpl in Hl. apply andb_true_iff in Hl as [X Y]. apply N.leb_le in X. apply N.leb_le in Y. split; [lia|].
      destruct ((9 <=? a)%N && (a <=? 13)%N) eqn:E; [apply andb_true_iff in E as [P Q]; apply N.leb_le in Q; lia|].
      destruct (N.eqb a 32) eqn:E'; [apply N.eqb_eq in E'; lia|reflexivity]. }
  destruct Ha as [Ha Hsa].
  replace ((a :: t1) ++ k1 ++ t2 ++ k2) with (a :: (t1 ++ k1 ++ t2 ++ m) ++ [z])
    by (rewrite Hk; simpl; repeat rewrite <- app_assoc; reflexivity).
  rewrite (trimmed_ends a _ z Ha Hsa Hz Hsz). cbn [andb].
  (* the DELIMITER word is decided inside the first text (>= 9 bytes) *)
  replace (a :: (t1 ++ k1 ++ t2 ++ m) ++ [z]) with ((a :: t1) ++ (k1 ++ t2 ++ m ++ [z]))
    by (simpl; repeat rewrite <- app_assoc; reflexivity).
  assert (has_prefix_ci ((a :: t1) ++ k1 ++ t2 ++ m ++ [z]) W_DELIMITER = has_prefix_ci (a :: t1) W_DELIMITER) as ->.
  { rewrite <- (ClosedProofs.has_prefix_ci_firstn ((a :: t1) ++ k1 ++ t2 ++ m ++ [z]) W_DELIMITER).
    rewrite <- (ClosedProofs.has_prefix_ci_firstn (a :: t1) W_DELIMITER).
    f_equal. rewrite firstn_app.
    assert (length W_DELIMITER - length (a :: t1) = 0)%nat as -> by (change (length W_DELIMITER) with 9%nat; lia).
    cbn [firstn]. rewrite app_nil_r. reflexivity. }
  rewrite Hd. reflexivity.
Qed.

Theorem pg_comment_on_table_closed name text :
  name <> [] -> is_quoted text [39%N] = false ->
  scan_closed opts_postgres delimiter (render (pg_comment_on_table name text)) = true.
Proof.
  intros Hn Ht. apply skel_closed. unfold pg_comment_on_table, T_COMMENT_ON_TABLE.
  eapply (skel_ttkk opts_postgres 67 _ _ _ _ 39 ([39%N] ++ double_sq text)); try (vm_compute; reflexivity); try lia.
  - exact (ident_closed 34 name eq_refl Hn).
  - exact (pg_quote_closed text Ht).
  - unfold pg_quote. rewrite Ht. rewrite <- app_assoc. reflexivity.
  - simpl. lia.
Qed.

Theorem mysql_alter_comment_closed np name text :
  name <> [] -> ~ In 92%N name -> is_quoted text [34%N; 39%N] = false ->
  scan_closed opts_mysql delimiter (render (mysql_alter_comment np name text)) = true.
Proof.
  intros Hn Hb Ht. apply skel_closed. unfold mysql_alter_comment, T_ALTER_TABLE.
  eapply (skel_ttkk opts_mysql 65 _ _ _ _ 34 ([34%N] ++ go_quote_loop np (length text) text)); try (vm_compute; reflexivity); try lia.
  - change (BackslashEscapes opts_mysql) with true. exact (ident_closed_esc 96 name eq_refl Hn Hb).
  - exact (mysql_quote_closed np text Ht).
  - unfold mysql_quote. rewrite Ht. unfold go_quote. rewrite <- app_assoc. reflexivity.
  - simpl. lia.
Qed.
