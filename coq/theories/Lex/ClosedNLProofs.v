(** M-FMT (closed commands, Goose variant): the scanner reads [cmd ++ "\n" ++ d ++ "\n"] back as the
    one statement [cmd] when [scan_closed_nl o d cmd] — the simulation of ClosedProofs.v with the
    look-ahead [follow_nl d].  After the command the scanner reads the newline as an ordinary rune
    (the delimiter does not start with a newline, no BEGIN matcher is live: [d <> ";"]), then
    breaks at the delimiter; [emit] trims the delimiter and the newline. *)
From Coq Require Import List NArith ZArith Bool Arith Lia.
From Atlas Require Import Base.Bytes Lex.LexModel Lex.LexProofs Lex.ClosedModel Lex.ClosedProofs Lex.ClosedNLModel.
From Coq Require Import ZifyBool ZifyNat ZifyN.
Import ListNotations.
Open Scope Z_scope.

Section NL.
Variable o : opts.
Variable d : bytes.
Variable tail : bytes.
Variable T : Z.
Variable SRC : bytes.
Variable nested : scanner -> res (scanner * option Stmt).
Hypothesis Hgo : GoCommand o = false.
Hypothesis Hdok : delim_ok d = true.
Hypothesis Hhd : hd 0%N d <> 10%N.
Hypothesis Hsemi : bytes_eqb d delimiter = false.

Lemma follow_nl_props :
  (exists a x, follow_nl d = a ++ [x; 10%N] /\ (x < 128)%N) /\
  (length d <= length (follow_nl d))%nat /\ (d = [59%N] -> In 59%N (follow_nl d)).
Proof.
  unfold follow_nl. split; [|split].
  - destruct (follow_split d Hdok) as (a & x & E & Hx). exists ([10%N] ++ a), x.
    rewrite E, <- app_assoc. auto.
  - rewrite !app_length. simpl. lia.
  - intros ->. right. left. reflexivity.
Qed.

(** the newline after the command is an ordinary rune *)
Lemma nl_step F s pre opos : At d tail T SRC s pre (follow_nl d) -> pre <> [] ->
  exists s1, At d tail T SRC s1 (pre ++ [10%N]) (d ++ [10%N]) /\
    stmt_iter o nested F s 0 opos = Ok (Continue s1 0 opos).
Proof.
  intros HA Hne.
  destruct (delim_ok_inv d Hdok) as [Hasc (d0 & d' & Hd & _)].
  assert (d0 <> 10%N) as Hd0 by (rewrite Hd in Hhd; exact Hhd).
  pose proof HA as (I & P & Tt & Dl & Et & Sr).
  assert (input s = pre ++ 10%N :: (d ++ [10%N]) ++ tail) as I0 by (rewrite I; reflexivity).
  rewrite stmt_iter_eq, (next_ascii_at s pre 10%N _ I0 P ltac:(lia)). cbn [bind].
  set (s1 := addPos (set_width s 1) 1).
  assert (At d tail T SRC s1 (pre ++ [10%N]) (d ++ [10%N])) as HA1.
  { apply At_move with (pre := pre) (l := follow_nl d); [exact HA| |].
    - unfold follow_nl. rewrite <- !app_assoc. reflexivity.
    - rewrite zlen_app. reflexivity. }
  assert (pos s1 = zlen pre + 1) as P1 by (unfold s1; simpl; lia).
  assert (1 <= zlen pre) as Hp1 by (destruct pre; [congruence|rewrite zlen_cons; pose proof (zlen_nonneg pre); lia]).
  assert (delim s1 = d) as D1 by exact Dl.
  exists s1. split; [exact HA1|].
  unfold iter_some. cbn [N.eqb Pos.eqb orb]. unfold iter_rest.
  rewrite ck_delimcmd_skip by lia.
  rewrite ck_go_skip by exact Hgo.
  rewrite ck_delim_skip.
  2:{ intros _. exists ((follow_nl d) ++ tail). split.
      - unfold s1. simpl. rewrite I. apply slice_from_app. lia.
      - rewrite D1, Hd. unfold follow_nl. cbn [app has_prefix].
        replace (N.eqb 10 d0) with false by lia. reflexivity. }
  rewrite ck_dollar_skip by (cbn [N.eqb Pos.eqb]; rewrite andb_false_r; discriminate).
  rewrite ck_hash_skip by reflexivity.
  rewrite ck_dash_skip by (cbn [N.eqb Pos.eqb]; discriminate).
  rewrite ck_slash_skip by (cbn [N.eqb Pos.eqb]; discriminate).
  rewrite ck_endterm_skip by exact Et.
  rewrite ck_atomic_skip by (rewrite D1, Hsemi; discriminate).
  rewrite ck_try_skip by (rewrite D1, Hsemi; discriminate).
  rewrite ck_begin_skip by (rewrite D1, Hsemi; discriminate).
  reflexivity.
Qed.

Lemma final_nl F s pre opos : At d tail T SRC s pre (follow_nl d) -> pre <> [] -> (2 <= F)%nat ->
  exists s1, At d tail T SRC s1 (pre ++ [10%N] ++ d) [10%N] /\
    stmt_loop o nested F s 0 opos = (do es <- emit o s1 (pre ++ [10%N] ++ d); Ok (snd es, Some (fst es))).
Proof.
  intros HA Hne HF. destruct F as [|F]; [lia|].
  destruct (nl_step F s pre opos HA Hne) as (s1 & HA1 & Hit).
  rewrite stmt_loop_S, Hit. cbn [bind].
  destruct (final_plain o d tail T SRC nested Hgo Hdok F s1 (pre ++ [10%N]) opos HA1) as (s2 & HA2 & Hrun).
  { destruct pre; discriminate. }
  { lia. }
  rewrite Hrun. rewrite <- app_assoc in *. exists s2. split; [exact HA2|reflexivity].
Qed.

Definition cw_sim_nl :=
  cw_sim o d (follow_nl d) tail T SRC nested Hgo
         (proj1 follow_nl_props) (proj1 (proj2 follow_nl_props)) (proj2 (proj2 follow_nl_props))
         ([10%N] ++ d) 2%nat final_nl.
End NL.

(** * [emit]: the delimiter and the newline before it are trimmed *)
Lemma trim_space_nl c : trim_space c = c -> c <> [] -> trim_space (c ++ [10%N]) = c.
Proof.
  intros H Hne. destruct (trim_space_fix c H) as [Hs Hr].
  unfold trim_space. rewrite (trim_left_id (c ++ [10%N])) by (apply starts_space_app_ascii; auto; lia).
  unfold trim_right_space in *. rewrite rev_app_distr. cbn [rev app trim_left_space_rev].
  replace (sp1 10) with true by reflexivity. exact Hr.
Qed.

Lemma emit_text_nl o d cmd : trimmed cmd = true -> bytes_eqb d delimiter = false ->
  trim_space (if OmitDelimiter o || negb (bytes_eqb d delimiter)
              then trim_suffix (cmd ++ [10%N] ++ d) d else cmd ++ [10%N] ++ d) = cmd.
Proof.
  intros Ht Hs. destruct (trimmed_inv cmd Ht) as [Hne Hts].
  rewrite Hs, orb_true_r. rewrite app_assoc, trim_suffix_app_eq. apply trim_space_nl; assumption.
Qed.

(** * Main theorem *)
Theorem stmt_gap_closed_nl o d g cmd tail s f :
  GoCommand o = false -> delim_ok d = true -> gap_delim_ok d -> hd 0%N d <> 10%N ->
  scan_closed_nl o d cmd = true -> Gap d g ->
  input s = g ++ cmd ++ [10%N] ++ d ++ [10%N] ++ tail -> pos s = 0 -> delim s = d -> endterm s = false ->
  (length g + length cmd + length d + 5 <= f)%nat ->
  exists s' cs,
    stmt o f s = Ok (s', Some (mkStmt (total s + zlen g) cmd cs)) /\
    input s' = 10%N :: tail /\ pos s' = 0 /\ delim s' = d /\ endterm s' = false /\
    total s' = total s + zlen g + zlen cmd + 1 + zlen d /\ src s' = src s /\ comments s' = [].
Proof.
  intros Hgo Hdok Hgd Hhd Hsc HG I P Dl Et Hf.
  unfold scan_closed_nl in Hsc. apply andb_true_iff in Hsc as [Hsc Hcw].
  apply andb_true_iff in Hsc as [Htr Hsemi]. apply negb_true_iff in Hsemi.
  destruct (trimmed_inv cmd Htr) as [Hne Hts]. destruct (trim_space_fix cmd Hts) as [Hss _].
  set (X := cmd ++ [10%N] ++ d ++ [10%N] ++ tail) in *.
  assert (starts_space X = false) as HX.
  { unfold X. cbn [app]. apply starts_space_app_ascii; auto. lia. }
  destruct f as [|f']; [lia|].
  change (stmt o (S f') s) with (stmt_loop o (stmt o f') f' (skipSpaces s) 0 0).
  destruct (gap_loop o (stmt o f') d X Hgo HX g (Gap_GapS d g Hgd HG) (skipSpaces s) 0 f')
    as (s0 & F0 & I0 & P0 & D0 & E0 & S0 & T0 & HF0 & Hloop).
  { simpl. rewrite I. reflexivity. }
  { exact P. }
  { exact Dl. }
  { slia. }
  rewrite Hloop.
  assert (total s0 = total s + zlen g) as T0'.
  { simpl in T0. rewrite I, zlen_app in T0. slia. }
  assert (At d tail (total s0) (src s) s0 [] (cmd ++ follow_nl d)) as HA0.
  { unfold At. splits; auto.
    - rewrite I0. unfold X, follow_nl. repeat (rewrite <- app_assoc || cbn [app]). reflexivity.
    - rewrite zlen_nil. slia.
    - rewrite E0. exact Et. }
  destruct (cw_sim_nl o d tail (total s0) (src s) (stmt o f') Hgo Hdok Hhd Hsemi _ _ _ _ _ _ Hcw
              cmd [] s0 0 F0 eq_refl eq_refl HA0) as (s1 & HA1 & Hrun).
  { left. auto. }
  { exact Hne. }
  { slia. }
  change (Z.of_nat 0) with 0 in Hrun. rewrite Hrun.
  change ([] ++ cmd ++ [10%N] ++ d) with (cmd ++ [10%N] ++ d) in *.
  destruct HA1 as (I1 & P1 & T1 & D1 & E1 & S1).
  unfold emit. rewrite I1, slice_from_app by exact P1. cbn [bind snd fst].
  eexists. eexists. split; [|splits].
  - rewrite D1, (emit_text_nl o d cmd Htr Hsemi).
    replace (total s1 - zlen (cmd ++ [10%N] ++ d)) with (total s + zlen g) by slia. reflexivity.
  - reflexivity.
  - reflexivity.
  - exact D1.
  - exact E1.
  - simpl. rewrite T1, !zlen_app. change (zlen [10%N]) with 1. slia.
  - exact S1.
  - reflexivity.
Qed.

(** * The whole file *)
Definition seg_bytes_nl (d : bytes) (gc : bytes * bytes) : bytes :=
  fst gc ++ snd gc ++ [10%N] ++ d ++ [10%N].
Definition segs_bytes_nl (d : bytes) (segs : list (bytes * bytes)) : bytes :=
  concat (map (seg_bytes_nl d) segs).
Fixpoint seg_pos_nl (d : bytes) (off : Z) (segs : list (bytes * bytes)) : list Z :=
  match segs with
  | [] => []
  | gc :: r => (off + zlen (fst gc)) :: seg_pos_nl d (off + zlen (seg_bytes_nl d gc)) r
  end.

Lemma scan_loop_closed_nl_gen o d gend :
  GoCommand o = false -> delim_ok d = true -> gap_delim_ok d -> hd 0%N d <> 10%N -> Gap d gend ->
  forall segs, (forall gc, In gc segs -> Gap d (fst gc) /\ scan_closed_nl o d (snd gc) = true) ->
  forall pg s f acc, Gap d pg ->
    input s = pg ++ segs_bytes_nl d segs ++ gend -> pos s = 0 -> delim s = d -> endterm s = false ->
    (length (input s) + 4 <= f)%nat ->
  exists ss, scan_loop o f s acc = Ok (rev acc ++ ss) /\
    map Text ss = map snd segs /\
    map Pos ss = seg_pos_nl d (total s + zlen pg) segs.
Proof.
  intros Hgo Hdok Hgd Hhd Hend. induction segs as [|[g c] r IH]; intros Hall pg s f acc Hpg I P Dl Et Hf.
  - destruct f as [|f]; [lia|]. rewrite scan_loop_S.
    destruct (stmt_gap_eof o d (pg ++ gend) s (S f) Hgo Hdok Hgd (Gap_app _ _ _ Hpg Hend)) as (s' & Hs); auto.
    { rewrite I in Hf. exact Hf. }
    rewrite Hs. cbn [bind]. exists []. rewrite app_nil_r. auto.
  - destruct (Hall (g, c) (or_introl eq_refl)) as [Hg Hc]. cbn [fst snd] in Hg, Hc.
    set (tail := segs_bytes_nl d r ++ gend).
    assert (input s = (pg ++ g) ++ c ++ [10%N] ++ d ++ [10%N] ++ tail) as I'.
    { rewrite I. unfold tail, segs_bytes_nl. cbn [map concat]. unfold seg_bytes_nl at 1. cbn [fst snd].
      rewrite <- !app_assoc. reflexivity. }
    destruct f as [|f]; [lia|]. rewrite scan_loop_S.
    destruct (stmt_gap_closed_nl o d (pg ++ g) c tail s (S f) Hgo Hdok Hgd Hhd Hc (Gap_app _ _ _ Hpg Hg) I' P Dl Et)
      as (s' & cs & Hs & I1 & P1 & D1 & E1 & T1 & S1 & C1).
    { rewrite I', !app_length in Hf. rewrite app_length. cbn [length] in Hf. lia. }
    rewrite Hs. cbn [bind].
    destruct (IH (fun gc Hin => Hall gc (or_intror Hin)) [10%N] s' f
                 (mkStmt (total s + zlen (pg ++ g)) c cs :: acc)
                 (gap_nl d [] (gap_nil d)) I1 P1 D1 E1) as (ss & Hrun & Htx & Hps).
    { rewrite I1. rewrite I', !app_length in Hf. cbn [length] in *. lia. }
    exists (mkStmt (total s + zlen (pg ++ g)) c cs :: ss).
    rewrite Hrun. cbn [rev map seg_pos_nl fst snd Text Pos]. rewrite <- app_assoc. cbn [app].
    splits; auto.
    + rewrite Htx. reflexivity.
    + rewrite Hps. f_equal; [rewrite zlen_app; lia|]. f_equal.
      rewrite T1. unfold seg_bytes_nl. cbn [fst snd]. rewrite !zlen_app. change (zlen [10%N]) with 1. lia.
Qed.

Theorem scan_loop_closed_nl o d segs gend s f acc :
  GoCommand o = false -> delim_ok d = true -> gap_delim_ok d -> hd 0%N d <> 10%N ->
  (forall gc, In gc segs -> Gap d (fst gc) /\ scan_closed_nl o d (snd gc) = true) -> Gap d gend ->
  input s = segs_bytes_nl d segs ++ gend -> pos s = 0 -> delim s = d -> endterm s = false ->
  (length (input s) + 4 <= f)%nat ->
  exists ss, scan_loop o f s acc = Ok (rev acc ++ ss) /\
    map Text ss = map snd segs /\
    map Pos ss = seg_pos_nl d (total s) segs.
Proof.
  intros Hgo Hdok Hgd Hhd Hall Hend I P Dl Et Hf.
  destruct (scan_loop_closed_nl_gen o d gend Hgo Hdok Hgd Hhd Hend segs Hall [] s f acc (gap_nil d) I P Dl Et Hf)
    as (ss & H1 & H2 & H3).
  exists ss. rewrite zlen_nil, Z.add_0_r in H3. auto.
Qed.

(** the delimiter Goose inserts satisfies the side conditions *)
Lemma goose_delim_ok :
  delim_ok GOOSE_DELIM_NL = true /\ gap_delim_ok GOOSE_DELIM_NL /\ hd 0%N GOOSE_DELIM_NL <> 10%N /\
  bytes_eqb GOOSE_DELIM_NL delimiter = false.
Proof.
  split; [reflexivity|]. split; [|split; [discriminate|reflexivity]].
  intros _ Hin. simpl in Hin. repeat (destruct Hin as [Hin|Hin]; [discriminate|]). exact Hin.
Qed.
