(** C15 — HCL round trip for every dialect and type.

    Full statement (properties.jsonl): for every dialect, writing any schema as HCL and
    evaluating that HCL gives a schema with the same tables, columns, types (with all their
    parameters), nullability, defaults, keys, indexes, foreign keys, checks and attributes, so
    the diff between the two is empty in both directions; marshalling the result again gives
    the same bytes. Formatting a column type and parsing the result is a fixpoint for every
    type of the dialect.

    What is proved here is the type layer (M-TYPE): FormatType/ParseType per dialect (SQLite, MySQL,
    PostgreSQL) and the
    TypeRegistry / HCL type-expression layer over the registries dumped from the running Go
    code (gen/Gen_Registry_*.v). The table/column/index/foreign-key/check/attribute layer
    (sql/internal/specutil, */sqlspec*.go) is not modelled; it is covered by the schema-level
    oracle of harness/cmd/types only (theorems about it would be named _partial). *)
From Coq Require Import String.
From Coq Require Import List NArith ZArith Bool.
From Atlas Require Import Base.Bytes Hcl.Str Hcl.RegistryDefs Hcl.Registry
  Hcl.TypesSqlite Hcl.SqliteProofs gen.Gen_Registry_sqlite
  Hcl.TypesMysql Hcl.MysqlProofs Hcl.MysqlValuesProofs gen.Gen_Registry_mysql gen.Gen_Registry_postgres Hcl.RegistryWf
  Hcl.TypesPg Hcl.PgProofs Hcl.RegistryRoundtrip.
Import ListNotations.

(** * SQLite *)

(** Fixpoint, full strength: false. sqlite.FormatType prints T verbatim (lower-cased), so a
    T that carries parameters re-parses to a different type. *)
Theorem C15_format_parse_fix_sqlite_refuted :
  exists t s, Sqlite.FormatType t = Ok s /\
    ~ (exists t', Sqlite.ParseType s = Ok t' /\ Sqlite.FormatType t' = Ok s).
Proof. exact SqliteProofs.sqlite_fix_refuted. Qed.
Print Assumptions C15_format_parse_fix_sqlite_refuted.

(** Exact characterisation: the fixpoint holds for [s = FormatType t] iff [s] is non-empty,
    has a first part, and that part is either unknown to ParseType (user-defined type, kept
    verbatim) or is the whole text. *)
Theorem C15_format_parse_fix_sqlite_except :
  forall t s, Sqlite.FormatType t = Ok s ->
    ((exists t', Sqlite.ParseType s = Ok t' /\ Sqlite.FormatType t' = Ok s) <-> name_okb s = true).
Proof. intros t s _. exact (SqliteProofs.sqlite_fix_iff s). Qed.
Print Assumptions C15_format_parse_fix_sqlite_except.

(** ... and every type name of the registry dumped from the code satisfies it (finite,
    re-checked against gen/Gen_Registry_sqlite.v on every run). *)
Theorem C15_registry_names_sqlite :
  forallb (fun s => name_okb (ts_T s)) registry_sqlite = true.
Proof. exact SqliteProofs.registry_names_ok. Qed.
Print Assumptions C15_registry_names_sqlite.

Example C15_ex_sqlite_fix :
  name_okb (bs "varying character") = true /\ name_okb (bs "My_Type(3)") = true /\ name_okb (bs "VARCHAR") = false.
Proof. vm_compute. auto. Qed.

(** * MySQL *)

(** Fixpoint, full strength: false. An ENUM/SET value that ends (or begins) with a quote is
    stripped by ParseType's strings.Trim (reproduced on the Go code: known finding
    C15-mysql-enum-value-edge-quote); a T that is not a name of the class re-parses as
    UnsupportedType, which FormatType rejects. *)
Theorem C15_format_parse_fix_mysql_refuted :
  exists t s, Mysql.FormatType t = Ok s /\
    ~ (exists t', Mysql.ParseType s = Ok t' /\ Mysql.FormatType t' = Ok s).
Proof. exact MysqlProofs.mysql_fix_refuted. Qed.
Print Assumptions C15_format_parse_fix_mysql_refuted.

(** A second, independent witness (found in round 5, reproduced on the Go code: known finding
    C15-mysql-enum-value-comma): the value "," -- enum(',') is split at quote-comma-quote into two
    empty values. *)
Theorem C15_format_parse_fix_mysql_refuted_comma :
  exists t s, Mysql.FormatType t = Ok s /\
    ~ (exists t', Mysql.ParseType s = Ok t' /\ Mysql.FormatType t' = Ok s).
Proof. exact MysqlProofs.mysql_fix_refuted_comma. Qed.
Print Assumptions C15_format_parse_fix_mysql_refuted_comma.

(** What holds, for unbounded size / precision / scale / time precision and for value lists of any
    length: every type of every class whose T is (case-insensitively) a name of its class and
    whose size parameters are non-negative ([MysqlProofs.wf]), and every ENUM / SET whose values
    contain no quote, no double quote and no slash and whose first value is not exactly ","
    ([MysqlValuesProofs.vals_ok]), is a fixpoint. The two refutations above are the only
    counterexample families known (a quote at the edge of a value; first value ","); values
    containing a double quote or a slash are excluded by the proof only (formatValues leaves an
    already double-quoted value alone; parseColumn looks for a trailing comment), the model covers
    them and is tied to the Go code. *)
Theorem C15_format_parse_fix_mysql :
  forall t s, MysqlValuesProofs.wf_all t = true -> Mysql.FormatType t = Ok s ->
    exists t', Mysql.ParseType s = Ok t' /\ Mysql.FormatType t' = Ok s.
Proof. exact MysqlValuesProofs.mysql_fix_all. Qed.
Print Assumptions C15_format_parse_fix_mysql.

(** the split/join inversion behind it: for values without a quote whose first one is not ",",
    Trim o Split(_, "','") gives back exactly the values formatValues joined. *)
Theorem C15_mysql_split_join_inv :
  forall v vs, MysqlValuesProofs.no39 v = true -> forallb MysqlValuesProofs.no39 vs = true -> v <> [44%N] ->
    map (trim_c 39) (split (join [44%N] (map MysqlValuesProofs.q (v :: vs))) MysqlValuesProofs.sep3) = v :: vs.
Proof. exact MysqlValuesProofs.split_join_inv. Qed.
Print Assumptions C15_mysql_split_join_inv.

Example C15_ex_mysql_values :
  MysqlValuesProofs.wf_all (Mysql.EnumType (bs "enum") [bs "a,b"; bs ","; bs "c)"; bs ""]) = true /\
  Mysql.FormatType (Mysql.SetType [bs "x"; bs "y z"]) = Ok (bs "set('x','y z')") /\
  MysqlValuesProofs.wf_all (Mysql.SetType [bs "x"; bs "y z"]) = true /\
  MysqlValuesProofs.wf_all (Mysql.EnumType (bs "enum") [bs ","; bs "b"]) = false /\
  MysqlValuesProofs.wf_all (Mysql.EnumType (bs "enum") [bs "x'"]) = false /\
  MysqlValuesProofs.wf_all (Mysql.EnumType (bs "enum") []) = false.
Proof. vm_compute. repeat split; reflexivity. Qed.

Example C15_ex_mysql_fix :
  MysqlValuesProofs.wf_all (Mysql.DecimalType (bs "NUMERIC") 65 30 true) = true /\
  Mysql.FormatType (Mysql.DecimalType (bs "NUMERIC") 65 30 true) = Ok (bs "decimal(65,30) unsigned") /\
  MysqlProofs.wf (Mysql.TimeType (bs "timestamp") (Some 6%Z) None) = true.
Proof. vm_compute. auto. Qed.

(** * PostgreSQL *)

(** Fixpoint, full strength: false. FormatType prints the name of a user-defined / enum / domain /
    composite type verbatim, so a type whose name is a built-in name re-parses as the built-in
    type (EnumType "int" -> "int" -> IntegerType -> "integer"). Not a finding: such a name cannot
    be created in PostgreSQL without quoting, and the HCL layer refers to enums by reference. *)
Theorem C15_format_parse_fix_pg_refuted :
  exists t s, Pg.FormatType t = Ok s /\
    ~ (exists t', Pg.ParseType s = Ok t' /\ Pg.FormatType t' = Ok s).
Proof. exact PgProofs.pg_fix_refuted. Qed.
Print Assumptions C15_format_parse_fix_pg_refuted.

(** What holds, for unbounded bit length / character size / time precision / numeric precision and
    scale: every type of every class whose T is (case-insensitively) a name of its class and
    whose parameters are non-negative ([PgProofs.wf_all]) is a fixpoint of
    ParseType o FormatType -- through the hand matchers of reArray and reInterval. Per class:
    user-defined / enum / domain / composite names are single words without ( ) , space [ that
    are not built-in names ([udt_ok]); interval fields are the 13 fields of reInterval with
    precision nil or 0..6 (what PostgreSQL accepts); an array type is [n[]] where n is the text
    arrayType extracts and ParseType accepts n ([arr_wf]; the element is parsed recursively). *)
Theorem C15_format_parse_fix_pg :
  forall t s, PgProofs.wf_all t = true -> Pg.FormatType t = Ok s ->
    exists t', Pg.ParseType s = Ok t' /\ Pg.FormatType t' = Ok s.
Proof. exact PgProofs.pg_fix_all. Qed.
Print Assumptions C15_format_parse_fix_pg.

Example C15_ex_pg_fix :
  PgProofs.wf_all (Pg.DecimalType (bs "NUMERIC") 1000 30) = true /\
  Pg.FormatType (Pg.DecimalType (bs "NUMERIC") 1000 30) = Ok (bs "numeric(1000,30)") /\
  PgProofs.wf_all (Pg.TimeType (bs "timestamp with time zone") (Some 3%Z)) = true /\
  Pg.FormatType (Pg.TimeType (bs "timestamp with time zone") (Some 3%Z)) = Ok (bs "timestamptz(3)") /\
  PgProofs.wf_all (Pg.IntervalType (bs "interval") (bs "DAY TO SECOND") (Some 2%Z)) = true /\
  PgProofs.wf_all (Pg.ArrayType (bs "character varying(5)[]")) = true /\
  PgProofs.wf_all (Pg.ArrayType (bs "int[][]")) = false /\
  PgProofs.wf_all (Pg.EnumType (bs "my_enum")) = true /\ PgProofs.wf_all (Pg.EnumType (bs "int")) = false.
Proof. vm_compute. repeat split; reflexivity. Qed.

(** reArray hand matcher: a text whose last byte is not ']' ' ' 'y' 'Y' is never read as an array
    (for every text, by induction over the automaton), and neither is a text without ' ' and '['. *)
Theorem C15_pg_array_matcher_negative :
  forall s, PgProofs.endset (last s 0%N) = false \/ PgProofs.no_sp_lb s = true -> Pg.arrayType s = None.
Proof.
  intros s [H|H]; [apply PgProofs.arrayType_none; exact H|].
  unfold Pg.arrayType. rewrite PgProofs.arr_scan_none_nosp by exact H. reflexivity.
Qed.
Print Assumptions C15_pg_array_matcher_negative.

Example C15_ex_pg_array :
  Pg.arrayType (bs "int ARRAY[3] [ ]") = Some (bs "int") /\ Pg.arrayType (bs "a[] ARRAY") = Some (bs "a[]") /\
  Pg.arrayType (bs "numeric(10,2)") = None /\ Pg.intervalField (bs "interval year to second") = Some (bs "second").
Proof. vm_compute. repeat split; reflexivity. Qed.

(** The recursion of ParseType through array element types never needs more fuel: one more unit of
    fuel never changes a successful outcome's success (so fuel = S (length typ) is a faithful bound). *)
Theorem C15_pg_parse_fuel_mono :
  forall f s t, Pg.ParseType_f f s = Ok t -> exists t', Pg.ParseType_f (S f) s = Ok t'.
Proof. exact PgProofs.ParseType_f_mono. Qed.
Print Assumptions C15_pg_parse_fuel_mono.

Example C15_ex_pg_fuel : exists t, Pg.ParseType_f 3 (bs "a[] ARRAY[]") = Ok t.
Proof. eexists. vm_compute. reflexivity. Qed.

(** ... and the array of every type name of the registry dumped from the code is well formed
    (finite; re-checked against gen/Gen_Registry_postgres.v on every run). *)
Theorem C15_registry_arrays_pg :
  forallb (fun s => PgProofs.arr_wf (ts_T s ++ bs "[]")) registry_postgres = true.
Proof. vm_compute. reflexivity. Qed.
Print Assumptions C15_registry_arrays_pg.

(** * Registries (all three dialects) *)

(** The closures the hand model knows: MySQL enum/set FromSpec; PostgreSQL time Format and
    interval ToSpec/FromSpec are dumped and flagged but not modelled (PostgreSQL type model:
    see notes/C15.md), so for PostgreSQL the flag only records which specs are custom. *)
Definition mysql_custom_ok (s : TypeSpec) : bool :=
  (bytes_eqb (ts_name s) (bs "enum") || bytes_eqb (ts_name s) (bs "set"))
  && ts_from_custom s && negb (ts_to_custom s) && negb (ts_fmt_custom s).
Definition no_custom (_ : TypeSpec) : bool := false.
Definition pg_custom_flagged (s : TypeSpec) : bool :=
  (ts_fmt_custom s && negb (ts_from_custom s) && negb (ts_to_custom s)
     && existsb (bytes_eqb (ts_name s)) (map bs ["time"; "timetz"; "timestamptz"; "timestamp"]%string))
  || (ts_from_custom s && ts_to_custom s && negb (ts_fmt_custom s)).

(** C15_registry_roundtrip, finite side condition: every spec of every dumped registry is
    well formed (validSpec order rules, supported kinds, unique attribute / T / Name keys,
    closures accounted for, unsigned is an optional bool). Re-checked against the registry
    dumped from the running code on every run. PARTIAL: the generic lemma "for a well-formed
    spec Type (eval (print (Convert t))) is FormatType-equal to t" is proved only in the two
    structural parts below (required-prefix / slice-last); the end-to-end statement is covered by
    the tie (model = Go on every spec x parameter grid) and the oracle. *)
Theorem C15_registry_wf_partial :
  registry_wf no_custom registry_sqlite = true /\
  registry_wf mysql_custom_ok registry_mysql = true /\
  registry_wf pg_custom_flagged registry_postgres = true.
Proof. vm_compute. auto. Qed.
Print Assumptions C15_registry_wf_partial.

(** what validSpec buys for every registered spec: positional (required) parameters form a
    prefix of the attribute list and a variadic (slice) attribute is the last one, which is what
    typeFuncSpec / typeFuncSpecImpl rely on when they assign arguments by position. *)
Theorem C15_valid_spec_positional :
  forall s, valid_spec s = true ->
    forall pre a post, ts_attrs s = pre ++ a :: post ->
      (ta_required a = true -> forallb ta_required pre = true) /\
      (kind_eqb (ta_kind a) KSlice = true -> post = []).
Proof.
  intros s H pre a post E. split; intros Ha.
  - exact (proj2 (valid_spec_required_prefix _ _ H pre a post E Ha)).
  - exact (valid_spec_slice_last _ _ H pre a post E Ha).
Qed.
Print Assumptions C15_valid_spec_positional.

Example C15_ex_valid_spec :
  valid_spec (mkSpec "x" "x" [mkAttr "a" KInt false; mkAttr "b" KInt true] "" false false false) = false /\
  valid_spec (mkSpec "x" "x" [mkAttr "a" KInt true; mkAttr "b" KSlice false] "" false false false) = true.
Proof. vm_compute. auto. Qed.

(** * C15_registry_roundtrip, the print / eval half (generic over every registry)

    Full statement (not proved): for every spec of the three registries and every parameter
    valuation, Type (eval (print (Convert t))) is FormatType-equal to t. What is proved here is the
    inversion of the HCL type-expression printer by the evaluator (hclType / typeFuncSpec /
    typeFuncSpecImpl), for EVERY registry with unique T and Name keys (the finite side condition
    C15_registry_wf_partial establishes for the three dumped registries), every spec and every
    valuation, in the two shapes that need no optional / variadic argument:
    - a type without attributes of a spec without required arguments prints as the bare name and
      evaluates back to itself;
    - a type carrying exactly the positional (required, non-variadic) arguments of its spec, with
      values of the declared kinds, prints as name(v1,...,vn) and evaluates back to itself.
    PARTIAL: optional trailing arguments, the variadic (slice) argument, the `unsigned` column
    attribute, Convert (field reflection, zero-skipping) and Type (PrintType + ParseType) are not
    in these lemmas; they are covered by the tie and the oracle (the zero-skipping of Convert is
    the source of known findings 3, 4 and 7). *)
Theorem C15_registry_roundtrip_bare_partial :
  forall reg fmt spec,
    nodup_b (map ts_T reg) = true -> nodup_b (map ts_name reg) = true -> In spec reg ->
    ts_fmt_custom spec = false -> type_func_req_args spec = [] ->
    hcl_type reg fmt {| h_T := ts_T spec; h_attrs := [] |} = Ok (PExpr (HIdent (ts_name spec))) /\
    hcl_eval reg (HIdent (ts_name spec)) = Ok {| h_T := ts_T spec; h_attrs := [] |}.
Proof. exact RegistryRoundtrip.bare_roundtrip. Qed.
Print Assumptions C15_registry_roundtrip_bare_partial.

Theorem C15_registry_roundtrip_positional_partial :
  forall reg fmt spec fargs vs,
    nodup_b (map ts_T reg) = true -> nodup_b (map ts_name reg) = true -> In spec reg ->
    ts_fmt_custom spec = false ->
    type_func_args spec = fargs -> fargs <> [] ->
    forallb ta_required fargs = true ->
    forallb (fun p => negb (kind_eqb (ta_kind p) KSlice)) fargs = true ->
    nodup_b (map ta_name fargs) = true ->
    length vs = length fargs ->
    forallb (fun '(p, v) => aval_kind_ok (ta_kind p) v) (combine fargs vs) = true ->
    forallb RegistryRoundtrip.not_list vs = true ->
    let typ := {| h_T := ts_T spec; h_attrs := RegistryRoundtrip.zip_attrs fargs vs |} in
    hcl_type reg fmt typ = Ok (PExpr (HCall (ts_name spec) vs)) /\
    hcl_eval reg (HCall (ts_name spec) vs) = Ok typ.
Proof. exact RegistryRoundtrip.positional_roundtrip. Qed.
Print Assumptions C15_registry_roundtrip_positional_partial.

Example C15_ex_registry_roundtrip :
  let s := mkSpec "vc" "varchar" [mkAttr "size" KInt true] "" false false false in
  hcl_type [s] (fun _ _ => Err) {| h_T := bs "varchar"; h_attrs := [{| a_K := bs "size"; a_V := AInt 255 |}] |}
    = Ok (PExpr (HCall (bs "vc") [AInt 255])) /\
  hcl_eval [s] (HCall (bs "vc") [AInt 255])
    = Ok {| h_T := bs "varchar"; h_attrs := [{| a_K := bs "size"; a_V := AInt 255 |}] |} /\
  hcl_eval [s] (HIdent (bs "vc")) = Err.
Proof. vm_compute. repeat split; reflexivity. Qed.

(** ... and with optional trailing arguments: the type carries any prefix vs of the function arguments
    that covers the required ones (what Convert produces, up to its zero-skipping), no argument is
    variadic. Subsumes the positional case. Still PARTIAL for the same reasons (variadic argument,
    `unsigned`, Convert, Type). *)
Theorem C15_registry_roundtrip_prefix_partial :
  forall reg fmt spec fargs vs,
    nodup_b (map ts_T reg) = true -> nodup_b (map ts_name reg) = true -> In spec reg ->
    ts_fmt_custom spec = false ->
    type_func_args spec = fargs ->
    forallb (fun p => negb (kind_eqb (ta_kind p) KSlice)) fargs = true ->
    nodup_b (map ta_name fargs) = true ->
    vs <> [] ->
    (length (filter ta_required fargs) <= length vs)%nat -> (length vs <= length fargs)%nat ->
    forallb (fun '(p, v) => aval_kind_ok (ta_kind p) v) (combine (filter ta_required fargs) vs) = true ->
    forallb RegistryRoundtrip.not_list vs = true ->
    let typ := {| h_T := ts_T spec; h_attrs := RegistryRoundtrip.zip_attrs fargs vs |} in
    hcl_type reg fmt typ = Ok (PExpr (HCall (ts_name spec) vs)) /\
    hcl_eval reg (HCall (ts_name spec) vs) = Ok typ.
Proof. exact RegistryRoundtrip.prefix_roundtrip. Qed.
Print Assumptions C15_registry_roundtrip_prefix_partial.

Example C15_ex_registry_roundtrip_prefix :
  let s := mkSpec "decimal" "decimal" [mkAttr "precision" KInt false; mkAttr "scale" KInt false] "" false false false in
  hcl_type [s] (fun _ _ => Err) {| h_T := bs "decimal"; h_attrs := [{| a_K := bs "precision"; a_V := AInt 10 |}] |}
    = Ok (PExpr (HCall (bs "decimal") [AInt 10])) /\
  hcl_eval [s] (HCall (bs "decimal") [AInt 10])
    = Ok {| h_T := bs "decimal"; h_attrs := [{| a_K := bs "precision"; a_V := AInt 10 |}] |} /\
  hcl_eval [s] (HCall (bs "decimal") [AInt 10; AInt 2; AInt 3]) = Err.
Proof. vm_compute. repeat split; reflexivity. Qed.

(** ... and the variadic argument alone (enum("a","b"), set("x")): a spec whose only attribute is a
    slice, for every non-empty value list. *)
Theorem C15_registry_roundtrip_variadic_partial :
  forall reg fmt spec a l,
    nodup_b (map ts_T reg) = true -> nodup_b (map ts_name reg) = true -> In spec reg ->
    ts_fmt_custom spec = false ->
    ts_attrs spec = [a] -> kind_eqb (ta_kind a) KSlice = true -> bytes_eqb (ta_name a) unsigned_name = false ->
    l <> [] ->
    let typ := {| h_T := ts_T spec; h_attrs := [{| a_K := ta_name a; a_V := AList l |}] |} in
    hcl_type reg fmt typ = Ok (PExpr (HCall (ts_name spec) (map AStr l))) /\
    hcl_eval reg (HCall (ts_name spec) (map AStr l)) = Ok typ.
Proof. exact RegistryRoundtrip.variadic_roundtrip. Qed.
Print Assumptions C15_registry_roundtrip_variadic_partial.

(** Coverage (finite, re-checked on every run): every spec of the three dumped registries has one of
    the two argument shapes of the lemmas above -- no variadic function argument (bare / positional /
    prefix) with distinct names, or a single variadic attribute. *)
Definition spec_shape_ok (s : TypeSpec) : bool :=
  (forallb (fun p => negb (kind_eqb (ta_kind p) KSlice)) (type_func_args s) && nodup_b (map ta_name (type_func_args s)))
  || match ts_attrs s with
     | [a] => kind_eqb (ta_kind a) KSlice && negb (bytes_eqb (ta_name a) unsigned_name)
     | _ => false
     end.
Theorem C15_registry_shapes :
  forallb spec_shape_ok registry_sqlite = true /\
  forallb spec_shape_ok registry_mysql = true /\
  forallb spec_shape_ok registry_postgres = true.
Proof. vm_compute. auto. Qed.
Print Assumptions C15_registry_shapes.

Example C15_ex_registry_roundtrip_variadic :
  let s := mkSpec "enum" "enum" [mkAttr "values" KSlice true] "" false false false in
  hcl_eval [s] (HCall (bs "enum") [AStr (bs "a"); AStr (bs "b")])
    = Ok {| h_T := bs "enum"; h_attrs := [{| a_K := bs "values"; a_V := AList [bs "a"; bs "b"] |}] |} /\
  hcl_eval [s] (HCall (bs "enum") []) = Err /\ spec_shape_ok s = true.
Proof. vm_compute. repeat split; reflexivity. Qed.
