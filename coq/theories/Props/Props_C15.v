(** C15 — HCL round trip for every dialect and type.

    Full statement (properties.jsonl): for every dialect, writing any schema as HCL and
    evaluating that HCL gives a schema with the same tables, columns, types (with all their
    parameters), nullability, defaults, keys, indexes, foreign keys, checks and attributes, so
    the diff between the two is empty in both directions; marshalling the result again gives
    the same bytes. Formatting a column type and parsing the result is a fixpoint for every
    type of the dialect.

    What is proved here is the type layer (M-TYPE): FormatType/ParseType per dialect and the
    TypeRegistry / HCL type-expression layer over the registries dumped from the running Go
    code (gen/Gen_Registry_*.v). The table/column/index/foreign-key/check/attribute layer
    (sql/internal/specutil, */sqlspec*.go) is not modelled; it is covered by the schema-level
    oracle of harness/cmd/types only (theorems about it would be named _partial). *)
From Coq Require Import String.
From Coq Require Import List NArith ZArith Bool.
From Atlas Require Import Base.Bytes Hcl.Str Hcl.RegistryDefs Hcl.Registry
  Hcl.TypesSqlite Hcl.SqliteProofs gen.Gen_Registry_sqlite.
Import ListNotations.

(** * SQLite *)

(** Fixpoint, full strength: false. sqlite.FormatType prints T verbatim (lower-cased), so a
    T that carries parameters re-parses to a different type. *)
Theorem C15_format_parse_fix_sqlite_refuted :
  exists t s, Sqlite.FormatType t = Ok s /\
    ~ (exists t', Sqlite.ParseType s = Ok t' /\ Sqlite.FormatType t' = Ok s).
Proof. exact SqliteProofs.sqlite_fix_refuted. Qed.
Print Assumptions C15_format_parse_fix_sqlite_refuted.

(** Exact characterisation: the fixpoint holds for [s = FormatType t] iff [s] is non-empty,
    has a first part, and that part is either unknown to ParseType (user-defined type, kept
    verbatim) or is the whole text. *)
Theorem C15_format_parse_fix_sqlite_except :
  forall t s, Sqlite.FormatType t = Ok s ->
    ((exists t', Sqlite.ParseType s = Ok t' /\ Sqlite.FormatType t' = Ok s) <-> name_okb s = true).
Proof. intros t s _. exact (SqliteProofs.sqlite_fix_iff s). Qed.
Print Assumptions C15_format_parse_fix_sqlite_except.

(** ... and every type name of the registry dumped from the code satisfies it (finite,
    re-checked against gen/Gen_Registry_sqlite.v on every run). *)
Theorem C15_registry_names_sqlite :
  forallb (fun s => name_okb (ts_T s)) registry_sqlite = true.
Proof. exact SqliteProofs.registry_names_ok. Qed.
Print Assumptions C15_registry_names_sqlite.

Example C15_ex_sqlite_fix :
  name_okb (bs "varying character") = true /\ name_okb (bs "My_Type(3)") = true /\ name_okb (bs "VARCHAR") = false.
Proof. vm_compute. auto. Qed.
