(** C15 — HCL round trip for every dialect and type (work in progress). *)
From Atlas Require Import Hcl.Str Hcl.RegistryDefs Hcl.Registry Hcl.TypesSqlite.
