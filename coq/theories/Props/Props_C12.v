(** C12 -- resuming a partially applied file whose applied part changed is
    refused, cleanly; a tail edit resumes.  Only statements, [exact], and
    [Print Assumptions] live here.  [HS] (base64 . sha256 in the Go code) is
    an arbitrary function: nothing is assumed of it, so a refusal can only be
    escaped through an *exhibited* collision. *)
From Coq Require Import List NArith Bool Arith.
From Atlas Require Import Base.Bytes Exec.ExecModel Exec.ExecProofs.
Import ListNotations.

Section C12.
Variable hash : Type.
Variable hash_eqb : hash -> hash -> bool.
Variable HS : bytes -> hash.
Hypothesis hash_eqb_spec : forall a b, hash_eqb a b = true <-> a = b.

(** 1. The applied prefix (first [r_applied r] statements) no longer matches
    what was recorded -- edited, reordered, removed, or the file is now
    shorter than the applied count: the run executes nothing, leaves the
    revision table exactly as it was, and returns HistoryChanged (or the
    injected write error if the very first bookkeeping write fails) -- or
    two different byte strings with the same [HS] are exhibited. *)
Theorem C12_refuse :
  forall (t : list (rev hash)) (fs : list bool) (f : file) (r : rev hash) (old : list bytes),
  tbl_get t (f_version f) = Some r ->
  0 < r_applied r -> recorded hash HS r old ->
  firstn (r_applied r) (f_stmts f) <> firstn (r_applied r) old ->
  forall o t' fs' es, execute hash hash_eqb HS f t fs = (o, t', fs', es) ->
  collision_at hash HS old (f_stmts f) (r_applied r) \/
  (exec_events es = [] /\ t' = t /\
   (hd false fs = true -> o = OWriteErr) /\
   (hd false fs = false -> exists i, o = OHistory i /\ 1 <= i <= r_applied r)).
Proof. exact (C12_refuse_lemma hash hash_eqb HS hash_eqb_spec). Qed.

(** 2. It never crashes: for every file, table and fault stream, provided the
    stored revision of that file carries at least [Applied] partial hashes
    (the invariant of every table the executor itself wrote, see C09). *)
Theorem C12_no_panic :
  forall (f : file) (t : list (rev hash)) (fs : list bool),
  (forall r, tbl_get t (f_version f) = Some r -> r_applied r <= length (r_hashes r)) ->
  forall o t' fs' es, execute hash hash_eqb HS f t fs = (o, t', fs', es) -> o <> OPanic.
Proof. exact (C12_no_panic_lemma hash hash_eqb HS hash_eqb_spec). Qed.

(** 3. Only the not-yet-applied tail was edited: a fault-free run executes
    exactly the new tail, and the stored revision is complete afterwards
    (Applied = Total = new length, no partial hashes), other revisions untouched. *)
Theorem C12_tail_edit_resumes :
  forall (t : list (rev hash)) (f : file) (r : rev hash) (old : list bytes),
  tbl_get t (f_version f) = Some r -> recorded hash HS r old ->
  firstn (r_applied r) (f_stmts f) = firstn (r_applied r) old ->
  exists t' es r',
    execute hash hash_eqb HS f t [] = (ODone, t', [], es) /\
    journal es = map (pair (f_version f)) (skipn (r_applied r) (f_stmts f)) /\
    tbl_get t' (f_version f) = Some r' /\
    r_applied r' = length (f_stmts f) /\ r_total r' = length (f_stmts f) /\ r_hashes r' = [] /\
    (forall v', v' <> f_version f -> tbl_get t' v' = tbl_get t v').
Proof. exact (C12_tail_lemma hash hash_eqb HS hash_eqb_spec). Qed.

End C12.

Print Assumptions C12_refuse.
Print Assumptions C12_no_panic.
Print Assumptions C12_tail_edit_resumes.

(** Non-vacuity: a concrete table/file meeting the hypotheses of 1 and 3,
    with [HS] the identity on byte strings (a legitimate instance). *)
Definition ex_HS (b : bytes) : bytes := b.
Definition ex_old : list bytes := [[65%N]; [66%N]; [67%N]].
Definition ex_rev : rev bytes := mkRev [49%N] 2 3 (firstn 2 (sums bytes ex_HS ex_old)) true 2%N.
Definition ex_file_changed : file := mkFile [49%N] [[65%N]; [67%N]; [67%N]] false.
Definition ex_file_tail : file := mkFile [49%N] [[65%N]; [66%N]; [68%N]; [69%N]] false.

Example C12_refuse_nonvacuous :
  tbl_get [ex_rev] (f_version ex_file_changed) = Some ex_rev /\
  0 < r_applied ex_rev /\ recorded bytes ex_HS ex_rev ex_old /\
  firstn (r_applied ex_rev) (f_stmts ex_file_changed) <> firstn (r_applied ex_rev) ex_old /\
  fst (fst (fst (execute bytes bytes_eqb ex_HS ex_file_changed [ex_rev] []))) = OHistory 2.
Proof. vm_compute. repeat split; auto; discriminate. Qed.

Example C12_tail_nonvacuous :
  recorded bytes ex_HS ex_rev ex_old /\
  firstn (r_applied ex_rev) (f_stmts ex_file_tail) = firstn (r_applied ex_rev) ex_old /\
  fst (fst (fst (execute bytes bytes_eqb ex_HS ex_file_tail [ex_rev] []))) = ODone.
Proof. vm_compute. repeat split; auto. Qed.
