(** C12 -- resuming a partially applied file whose applied part changed is
    refused, cleanly; a tail edit resumes.  Only statements, [exact], and
    [Print Assumptions] live here.  [HS] (base64 . sha256 in the Go code) is
    an arbitrary function: nothing is assumed of it, so a refusal can only be
    escaped through an *exhibited* collision. *)
From Coq Require Import List NArith Bool Arith.
From Atlas Require Import Base.Bytes Exec.ExecModel Exec.ExecProofs Exec.RunModel Exec.PendingProofs Exec.StoreModel Exec.StoreProofs.
Import ListNotations.

Section C12.
Variable hash : Type.
Variable hash_eqb : hash -> hash -> bool.
Variable HS : bytes -> hash.
Hypothesis hash_eqb_spec : forall a b, hash_eqb a b = true <-> a = b.

(** 1. The applied prefix (first [r_applied r] statements) no longer matches
    what was recorded -- edited, reordered, removed, or the file is now
    shorter than the applied count: the run executes nothing, leaves the
    revision table exactly as it was, and returns HistoryChanged (or the
    injected write error if the very first bookkeeping write fails) -- or
    two different byte strings with the same [HS] are exhibited. *)
Theorem C12_refuse :
  forall (t : list (rev hash)) (fs : list bool) (f : file) (r : rev hash) (old : list bytes),
  tbl_get t (f_version f) = Some r ->
  0 < r_applied r -> recorded hash HS r old ->
  firstn (r_applied r) (f_stmts f) <> firstn (r_applied r) old ->
  forall o t' fs' es, execute hash hash_eqb HS f t fs = (o, t', fs', es) ->
  collision_at hash HS old (f_stmts f) (r_applied r) \/
  (exec_events es = [] /\ t' = t /\
   (hd false fs = true -> o = OWriteErr) /\
   (hd false fs = false -> exists i, o = OHistory i /\ 1 <= i <= r_applied r)).
Proof. exact (C12_refuse_lemma hash hash_eqb HS hash_eqb_spec). Qed.

(** 2. It never crashes: for every file, table and fault stream, provided the
    stored revision of that file carries at least [Applied] partial hashes
    (the invariant of every table the executor itself wrote, see C09). *)
Theorem C12_no_panic :
  forall (f : file) (t : list (rev hash)) (fs : list bool),
  (forall r, tbl_get t (f_version f) = Some r -> r_applied r <= length (r_hashes r)) ->
  forall o t' fs' es, execute hash hash_eqb HS f t fs = (o, t', fs', es) -> o <> OPanic.
Proof. exact (C12_no_panic_lemma hash hash_eqb HS hash_eqb_spec). Qed.

(** 3. Only the not-yet-applied tail was edited: a fault-free run executes
    exactly the new tail, and the stored revision is complete afterwards
    (Applied = Total = new length, no partial hashes), other revisions untouched. *)
Theorem C12_tail_edit_resumes :
  forall (t : list (rev hash)) (f : file) (r : rev hash) (old : list bytes),
  tbl_get t (f_version f) = Some r -> recorded hash HS r old ->
  firstn (r_applied r) (f_stmts f) = firstn (r_applied r) old ->
  exists t' es r',
    execute hash hash_eqb HS f t [] = (ODone, t', [], es) /\
    journal es = map (pair (f_version f)) (skipn (r_applied r) (f_stmts f)) /\
    tbl_get t' (f_version f) = Some r' /\
    r_applied r' = length (f_stmts f) /\ r_total r' = length (f_stmts f) /\ r_hashes r' = [] /\
    (forall v', v' <> f_version f -> tbl_get t' v' = tbl_get t v').
Proof. exact (C12_tail_lemma hash hash_eqb HS hash_eqb_spec). Qed.

(** ** The storage layer (EntRevisions) under the executor -- M-STORE.

    The three theorems above are about [execute] over a table [t] with
    [tbl_get] / [tbl_put].  What the CLI runs is [Execute] over [EntRevisions];
    [execute_st] is that composition, every storage call may fail.  The
    contract of the store the theorems rest on is exactly:
      (a) a lookup returns the stored row with all its columns, NotExist
          exactly when there is no row, and the error itself when the SELECT
          fails (never NotExist for an error);
      (b) an upsert overwrites every column of the row (what is read back is
          the revision written) and no other row; a failed upsert changes nothing;
      (c) ReadRevisions lists the rows by version ([read_revisions], M-PEND).
    (a) and (b) are theorems of the model of EntRevisions below; that the real
    EntRevisions has them is what stages cli / fault of the tie test through the
    real binary; [C12_lax_lookup_refuted] shows (a) is needed. *)

(** (a) *)
Theorem C12_store_read_exact :
  forall (t : list (rev hash)) (fs : list bool) (v : bytes),
  read_revision hash t fs v =
  (if hd false fs then RdError
   else match tbl_get t v with Some r => RdRow r | None => RdNotExist end, tl fs).
Proof. exact (read_revision_spec hash). Qed.

(** (b) *)
Theorem C12_store_upsert_overwrites :
  forall (t : list (rev hash)) fs r ok t' fs' e,
  write t fs r = (ok, t', fs', e) ->
  (ok = true -> forall fs2, hd false fs2 = false ->
     fst (read_revision hash t' fs2 (r_version r)) = RdRow r) /\
  (ok = false -> t' = t) /\
  (forall v, v <> r_version r -> tbl_get t' v = tbl_get t v).
Proof.
  intros t fs r ok t' fs' e W. split; [|split].
  - intros Hok fs2 Hf. exact (write_then_read hash t fs r ok t' fs' e fs2 W Hok Hf).
  - exact (write_fail_unchanged hash t fs r ok t' fs' e W).
  - intros v Hv. exact (write_then_read_other hash t fs r ok t' fs' e v W Hv).
Qed.

(** (c) ReadRevisions (one row per version, the primary key) lists exactly the
    stored rows, strictly ordered by version -- what [Executor.Pending] (M-PEND,
    C11) assumes of its reader when it takes the last element as the latest revision. *)
Theorem C12_store_lists_by_version :
  forall (t : list (rev hash)) (fs : list bool),
  NoDup (map (@r_version hash) t) ->
  match fst (read_revisions_f hash t fs) with
  | Some l => hd false fs = false /\ sorted_revs l /\ (forall y, In y l <-> In y t)
  | None => hd false fs = true
  end.
Proof.
  intros t fs Hnd. unfold read_revisions_f. rewrite (pop_hd_tl fs).
  destruct (hd false fs); cbn [fst]; [reflexivity|].
  split; [reflexivity|]. split; [exact (read_revisions_sorted hash t Hnd)|].
  intros y. exact (read_revisions_In hash t y).
Qed.

(** 4. Reading the revision fails (a transient error of the SELECT): the run
    fails with that error, executes nothing, writes nothing, the table is
    unchanged -- and no following file runs, in both transaction modes. *)
Theorem C12_read_error_refuses :
  forall (txfile : bool) (f : file) (rest : list file) (t : list (rev hash)) (fs : list bool),
  hd false fs = true ->
  execute_st hash hash_eqb HS f t fs = (SReadErr, t, tl fs, []) /\
  apply_files hash hash_eqb HS txfile (f :: rest) t fs = (SReadErr, t, tl fs, [], []).
Proof. exact (C12_read_error_lemma hash hash_eqb HS). Qed.

(** 5. = 1 over the store: the applied part was edited -- whatever storage call
    fails (the lookup, the first write, the deferred write), no statement is
    executed and the table is what it was; the run never ends as Done; with no
    fault on the lookup and the first write it is HistoryChanged. *)
Theorem C12_refuse_any_storage_fault :
  forall (t : list (rev hash)) (fs : list bool) (f : file) (r : rev hash) (old : list bytes),
  tbl_get t (f_version f) = Some r ->
  0 < r_applied r -> recorded hash HS r old ->
  firstn (r_applied r) (f_stmts f) <> firstn (r_applied r) old ->
  forall o t' fs' es, execute_st hash hash_eqb HS f t fs = (o, t', fs', es) ->
  collision_at hash HS old (f_stmts f) (r_applied r) \/
  (exec_events es = [] /\ t' = t /\ o <> SExec ODone /\
   (hd false fs = true -> o = SReadErr /\ es = []) /\
   (hd false fs = false -> hd false (tl fs) = true -> o = SExec OWriteErr) /\
   (hd false fs = false -> hd false (tl fs) = false ->
      exists i, o = SExec (OHistory i) /\ 1 <= i <= r_applied r)).
Proof. exact (C12_refuse_st_lemma hash hash_eqb HS hash_eqb_spec). Qed.

(** 6. ... and the file loop of `atlas migrate apply` stops at the refused file:
    nothing of it or of any following file is executed or committed, the
    table is what it was, under --tx-mode none and file, for every fault stream. *)
Theorem C12_refuse_stops_apply :
  forall (txfile : bool) (t : list (rev hash)) (fs : list bool) (f : file) (rest : list file)
         (r : rev hash) (old : list bytes),
  tbl_get t (f_version f) = Some r ->
  0 < r_applied r -> recorded hash HS r old ->
  firstn (r_applied r) (f_stmts f) <> firstn (r_applied r) old ->
  forall o t' fs' es j, apply_files hash hash_eqb HS txfile (f :: rest) t fs = (o, t', fs', es, j) ->
  collision_at hash HS old (f_stmts f) (r_applied r) \/
  (exec_events es = [] /\ j = [] /\ t' = t /\ o <> SExec ODone).
Proof. exact (C12_refuse_apply_lemma hash hash_eqb HS hash_eqb_spec). Qed.

(** 7. = 3 over the store. *)
Theorem C12_tail_edit_resumes_store :
  forall (t : list (rev hash)) (f : file) (r : rev hash) (old : list bytes),
  tbl_get t (f_version f) = Some r -> recorded hash HS r old ->
  firstn (r_applied r) (f_stmts f) = firstn (r_applied r) old ->
  exists t' es r',
    execute_st hash hash_eqb HS f t [] = (SExec ODone, t', [], es) /\
    journal es = map (pair (f_version f)) (skipn (r_applied r) (f_stmts f)) /\
    tbl_get t' (f_version f) = Some r' /\
    r_applied r' = length (f_stmts f) /\ r_total r' = length (f_stmts f) /\ r_hashes r' = [] /\
    (forall v', v' <> f_version f -> tbl_get t' v' = tbl_get t v').
Proof. exact (C12_tail_st_lemma hash hash_eqb HS hash_eqb_spec). Qed.

(** 8. = 2 over the store: no panic, whatever the storage does. *)
Theorem C12_no_panic_store :
  forall (f : file) (t : list (rev hash)) (fs : list bool),
  (forall r, tbl_get t (f_version f) = Some r -> r_applied r <= length (r_hashes r)) ->
  forall o t' fs' es, execute_st hash hash_eqb HS f t fs = (o, t', fs', es) -> o <> SExec OPanic.
Proof. exact (C12_no_panic_st_lemma hash hash_eqb HS hash_eqb_spec). Qed.

(** 9. The whole command, `atlas migrate apply` ([cli_apply] = migrateApplyRun from
    Pending on: two ReadRevisions, then the file loop), on a one-file directory
    whose partially applied file had its applied part edited: for every fault
    stream (lookups, listings, upserts), both transaction modes, every executor
    configuration and count argument, nothing is executed or committed, the table
    is what it was, and the command does not report success. *)
Theorem C12_refuse_cli_apply :
  forall (txfile : bool) (c : PendingModel.cfg) (n : nat) (fs : list bool) (f : file) (r : rev hash) (old : list bytes),
  f_ckpt f = false -> r_version r = f_version f -> r_applied r <> r_total r ->
  0 < r_applied r -> recorded hash HS r old ->
  firstn (r_applied r) (f_stmts f) <> firstn (r_applied r) old ->
  forall o t' fs' es j, cli_apply hash hash_eqb HS txfile c n [f] [r] fs = (o, t', fs', es, j) ->
  collision_at hash HS old (f_stmts f) (r_applied r) \/
  (exec_events es = [] /\ j = [] /\ t' = [r] /\
   o <> CRun (SExec ODone) /\ o <> CPend PendingModel.PNoPending).
Proof. exact (C12_refuse_cli_lemma hash hash_eqb HS hash_eqb_spec). Qed.

(** 10. The whole command when only the tail was edited (or nothing), no fault:
    `atlas migrate apply` executes exactly the new tail, leaves one complete
    revision (Applied = Total = new statement count, no partial hashes), and
    the next `atlas migrate apply` finds nothing to do and changes nothing --
    for both transaction modes, every executor configuration and count argument. *)
Theorem C12_tail_edit_cli_apply :
  forall (txfile : bool) (c : PendingModel.cfg) (n : nat) (f : file) (r : rev hash) (old : list bytes),
  f_ckpt f = false -> r_version r = f_version f -> r_applied r <> r_total r ->
  recorded hash HS r old ->
  firstn (r_applied r) (f_stmts f) = firstn (r_applied r) old ->
  exists es r',
    cli_apply hash hash_eqb HS txfile c n [f] [r] [] =
      (CRun (SExec ODone), [r'], [], es, map (pair (f_version f)) (skipn (r_applied r) (f_stmts f))) /\
    r_version r' = f_version f /\
    r_applied r' = length (f_stmts f) /\ r_total r' = length (f_stmts f) /\ r_hashes r' = [] /\
    cli_apply hash hash_eqb HS txfile c n [f] [r'] [] = (CPend PendingModel.PNoPending, [r'], [], [], []).
Proof. exact (C12_tail_cli_lemma hash hash_eqb HS hash_eqb_spec). Qed.

(** 11. Whatever fails in the storage layer or in the statements, for every
    file (edited or not) and every table: the revision of the file stored
    before [Execute] is still stored afterwards and its [Applied] did not
    decrease -- it is never replaced by a fresh one -- and the statements
    executed are a prefix of the part of the file after the recorded progress
    (nothing before statement Applied+1 is ever run again). *)
Theorem C12_progress_never_lost :
  forall (f : file) (t : list (rev hash)) (fs : list bool) (r : rev hash),
  tbl_get t (f_version f) = Some r ->
  forall o t' fs' es, execute_st hash hash_eqb HS f t fs = (o, t', fs', es) ->
  (exists r', tbl_get t' (f_version f) = Some r' /\ r_applied r <= r_applied r') /\
  exists m, journal es = map (pair (f_version f)) (firstn m (skipn (r_applied r) (f_stmts f))).
Proof. exact (C12_progress_lemma hash hash_eqb HS). Qed.

(** 12, 13. End to end, without any premise on the stored hashes: [after_attempts
    f_old t] = the table was reached from one without a revision of the file by
    any number of earlier attempts on the unchanged file, each with an arbitrary
    fault stream (statements, lookups, upserts), attempted only while pending.
    If the file is then partially applied and
    - its applied part is edited: the next attempt, under every fault stream,
      executes nothing, leaves the table as it is and does not end as Done (or
      exhibits a collision between the two versions of the file);
    - only its tail is edited: the fault-free next attempt runs exactly the new
      tail and leaves a complete revision. *)
Theorem C12_end_to_end_refuse :
  forall (f_old f_new : file) (t : list (rev hash)) (r : rev hash),
  after_attempts hash hash_eqb HS f_old t -> f_version f_new = f_version f_old ->
  tbl_get t (f_version f_old) = Some r -> 0 < r_applied r -> r_applied r <> r_total r ->
  firstn (r_applied r) (f_stmts f_new) <> firstn (r_applied r) (f_stmts f_old) ->
  forall fs o t' fs' es, execute_st hash hash_eqb HS f_new t fs = (o, t', fs', es) ->
  collision_at hash HS (f_stmts f_old) (f_stmts f_new) (r_applied r) \/
  (exec_events es = [] /\ t' = t /\ o <> SExec ODone).
Proof. exact (C12_end_to_end_refuse_lemma hash hash_eqb HS hash_eqb_spec). Qed.

Theorem C12_end_to_end_tail :
  forall (f_old f_new : file) (t : list (rev hash)) (r : rev hash),
  after_attempts hash hash_eqb HS f_old t -> f_version f_new = f_version f_old ->
  tbl_get t (f_version f_old) = Some r -> r_applied r <> r_total r ->
  firstn (r_applied r) (f_stmts f_new) = firstn (r_applied r) (f_stmts f_old) ->
  exists t' es r',
    execute_st hash hash_eqb HS f_new t [] = (SExec ODone, t', [], es) /\
    journal es = map (pair (f_version f_new)) (skipn (r_applied r) (f_stmts f_new)) /\
    tbl_get t' (f_version f_new) = Some r' /\
    r_applied r' = length (f_stmts f_new) /\ r_total r' = length (f_stmts f_new) /\ r_hashes r' = [] /\
    (forall v', v' <> f_version f_new -> tbl_get t' v' = tbl_get t v').
Proof. exact (C12_end_to_end_tail_lemma hash hash_eqb HS hash_eqb_spec). Qed.

(** 14. Attribution. The first [j] statements are as recorded and statement
    [j+1] -- one of the applied ones, whichever attempt applied it -- is not (it was
    edited, or the file now ends before it): the history-changed error names
    exactly statement [j+1] (Go: HistoryChangedError.Stmt), or the two versions
    of the file collide under [HS] at that very prefix. *)
Theorem C12_refuse_names_first_edited :
  forall (t : list (rev hash)) (fs : list bool) (f : file) (r : rev hash) (old : list bytes) (j : nat),
  tbl_get t (f_version f) = Some r -> recorded hash HS r old ->
  j < r_applied r ->
  firstn j (f_stmts f) = firstn j old ->
  firstn (S j) (f_stmts f) <> firstn (S j) old ->
  hd false fs = false ->
  forall o t' fs' es, execute hash hash_eqb HS f t fs = (o, t', fs', es) ->
  o = OHistory (S j) \/
  (concat (firstn (S j) (f_stmts f)) <> concat (firstn (S j) old) /\
   HS (concat (firstn (S j) (f_stmts f))) = HS (concat (firstn (S j) old))).
Proof. exact (C12_attribution_lemma hash hash_eqb HS hash_eqb_spec). Qed.

(** 15, 16. The same, for histories in which the file also changes between the
    attempts: [file_history f t] = attempts through the store under arbitrary
    fault streams (only while the file is pending) interleaved with edits that
    leave the recorded applied part alone (tail-only edits; any edit while no
    revision exists). This is the "fails twice" history: attempt 1 stops at k+1,
    the tail is fixed, attempt 2 applies more and stops at k2+1. Whatever the
    history, the stored partial hashes are those of the statements really
    applied ([file_history_stored_ok]), hence
    - an edit of any applied statement (applied by whichever attempt) is refused
      under every fault stream -- [C12_refuse_names_first_edited] says which
      statement is named;
    - a tail-only edit resumes and completes. *)
Theorem C12_history_refuse :
  forall (f f_new : file) (t : list (rev hash)) (r : rev hash),
  file_history hash hash_eqb HS f t -> f_version f_new = f_version f ->
  tbl_get t (f_version f) = Some r -> 0 < r_applied r -> r_applied r <> r_total r ->
  firstn (r_applied r) (f_stmts f_new) <> firstn (r_applied r) (f_stmts f) ->
  forall fs o t' fs' es, execute_st hash hash_eqb HS f_new t fs = (o, t', fs', es) ->
  collision_at hash HS (f_stmts f) (f_stmts f_new) (r_applied r) \/
  (exec_events es = [] /\ t' = t /\ o <> SExec ODone /\
   (hd false fs = false -> hd false (tl fs) = false ->
      exists i, o = SExec (OHistory i) /\ 1 <= i <= r_applied r)).
Proof. exact (C12_history_refuse_lemma hash hash_eqb HS hash_eqb_spec). Qed.

Theorem C12_history_tail :
  forall (f f_new : file) (t : list (rev hash)) (r : rev hash),
  file_history hash hash_eqb HS f t -> f_version f_new = f_version f ->
  tbl_get t (f_version f) = Some r -> r_applied r <> r_total r ->
  firstn (r_applied r) (f_stmts f_new) = firstn (r_applied r) (f_stmts f) ->
  exists t' es r',
    execute_st hash hash_eqb HS f_new t [] = (SExec ODone, t', [], es) /\
    journal es = map (pair (f_version f_new)) (skipn (r_applied r) (f_stmts f_new)) /\
    tbl_get t' (f_version f_new) = Some r' /\
    r_applied r' = length (f_stmts f_new) /\ r_total r' = length (f_stmts f_new) /\ r_hashes r' = [] /\
    (forall v', v' <> f_version f_new -> tbl_get t' v' = tbl_get t v').
Proof. exact (C12_history_tail_lemma hash hash_eqb HS hash_eqb_spec). Qed.

End C12.

Print Assumptions C12_refuse.
Print Assumptions C12_no_panic.
Print Assumptions C12_tail_edit_resumes.
Print Assumptions C12_store_read_exact.
Print Assumptions C12_store_upsert_overwrites.
Print Assumptions C12_store_lists_by_version.
Print Assumptions C12_read_error_refuses.
Print Assumptions C12_refuse_any_storage_fault.
Print Assumptions C12_refuse_stops_apply.
Print Assumptions C12_tail_edit_resumes_store.
Print Assumptions C12_no_panic_store.
Print Assumptions C12_refuse_cli_apply.
Print Assumptions C12_tail_edit_cli_apply.
Print Assumptions C12_progress_never_lost.
Print Assumptions C12_end_to_end_refuse.
Print Assumptions C12_end_to_end_tail.
Print Assumptions C12_refuse_names_first_edited.
Print Assumptions C12_history_refuse.
Print Assumptions C12_history_tail.

(** Non-vacuity: a concrete table/file meeting the hypotheses of 1 and 3,
    with [HS] the identity on byte strings (a legitimate instance). *)
Definition ex_HS (b : bytes) : bytes := b.
Definition ex_old : list bytes := [[65%N]; [66%N]; [67%N]].
Definition ex_rev : rev bytes := mkRev [49%N] 2 3 (firstn 2 (sums bytes ex_HS ex_old)) true 2%N.
Definition ex_file_changed : file := mkFile [49%N] [[65%N]; [67%N]; [67%N]] false.
Definition ex_file_tail : file := mkFile [49%N] [[65%N]; [66%N]; [68%N]; [69%N]] false.

Example C12_refuse_nonvacuous :
  tbl_get [ex_rev] (f_version ex_file_changed) = Some ex_rev /\
  0 < r_applied ex_rev /\ recorded bytes ex_HS ex_rev ex_old /\
  firstn (r_applied ex_rev) (f_stmts ex_file_changed) <> firstn (r_applied ex_rev) ex_old /\
  fst (fst (fst (execute bytes bytes_eqb ex_HS ex_file_changed [ex_rev] []))) = OHistory 2.
Proof. vm_compute. repeat split; auto; discriminate. Qed.

Example C12_tail_nonvacuous :
  recorded bytes ex_HS ex_rev ex_old /\
  firstn (r_applied ex_rev) (f_stmts ex_file_tail) = firstn (r_applied ex_rev) ex_old /\
  fst (fst (fst (execute bytes bytes_eqb ex_HS ex_file_tail [ex_rev] []))) = ODone.
Proof. vm_compute. repeat split; auto. Qed.

(** ** the store: non-vacuity and the witness that clause (a) is needed *)
Definition ex_file2 : file := mkFile [50%N] [[90%N]] false.

Example C12_store_read_exact_nonvacuous :
  read_revision bytes [ex_rev] [false] [49%N] = (RdRow ex_rev, []) /\
  read_revision bytes [ex_rev] [false] [50%N] = (RdNotExist, []) /\
  read_revision bytes [ex_rev] [true] [49%N] = (RdError, []).
Proof. vm_compute. auto. Qed.

Example C12_store_upsert_nonvacuous :
  let r' := mkRev [49%N] 3 4 [] false 2%N in
  exists t', write [ex_rev] [] r' = (true, t', [], EWrite r' true) /\
             fst (read_revision bytes t' [] [49%N]) = RdRow r'.
Proof. vm_compute. eexists; split; reflexivity. Qed.

Example C12_read_error_nonvacuous :
  execute_st bytes bytes_eqb ex_HS ex_file_tail [ex_rev] [true] = (SReadErr, [ex_rev], [], []).
Proof. vm_compute. reflexivity. Qed.

(** every single storage fault on the edited-prefix file: nothing executed, table unchanged *)
Example C12_refuse_any_storage_fault_nonvacuous :
  forallb (fun fs =>
    match execute_st bytes bytes_eqb ex_HS ex_file_changed [ex_rev] fs with
    | (o, t', _, es) =>
        match exec_events es with [] => true | _ => false end &&
        match t' with [r] => Nat.eqb (r_applied r) 2 && Nat.eqb (r_total r) 3 && Nat.eqb (length (r_hashes r)) 2 | _ => false end &&
        match o with SExec ODone => false | _ => true end
    end) [[]; [true]; [false; true]; [false; false; true]] = true /\
  fst (fst (fst (execute_st bytes bytes_eqb ex_HS ex_file_changed [ex_rev] []))) = SExec (OHistory 2).
Proof. vm_compute. auto. Qed.

Example C12_refuse_stops_apply_nonvacuous :
  apply_files bytes bytes_eqb ex_HS true [ex_file_changed; ex_file2] [ex_rev] [] =
    (SExec (OHistory 2), [ex_rev], [], [EWrite ex_rev true; EWrite ex_rev true], []) /\
  fst (fst (fst (fst (apply_files bytes bytes_eqb ex_HS false [ex_file_changed; ex_file2] [ex_rev] [])))) = SExec (OHistory 2).
Proof. vm_compute. auto. Qed.

Example C12_tail_store_nonvacuous :
  fst (fst (fst (execute_st bytes bytes_eqb ex_HS ex_file_tail [ex_rev] []))) = SExec ODone /\
  snd (apply_files bytes bytes_eqb ex_HS false [ex_file_tail; ex_file2] [ex_rev] []) =
    [([49%N], [68%N]); ([49%N], [69%N]); ([50%N], [90%N])].
Proof. vm_compute. auto. Qed.

Example C12_refuse_cli_apply_nonvacuous :
  let c := PendingModel.mkCfg PendingModel.Linear None true true in
  cli_apply bytes bytes_eqb ex_HS false c 0 [ex_file_changed] [ex_rev] [] =
    (CRun (SExec (OHistory 2)), [ex_rev], [], [EWrite ex_rev true; EWrite ex_rev true], []) /\
  fst (fst (fst (fst (cli_apply bytes bytes_eqb ex_HS true c 0 [ex_file_changed] [ex_rev] [false; false; true])))) = CRun SReadErr /\
  fst (fst (fst (fst (cli_apply bytes bytes_eqb ex_HS true c 0 [ex_file_tail] [ex_rev] [])))) = CRun (SExec ODone).
Proof. vm_compute. auto. Qed.

Example C12_tail_edit_cli_apply_nonvacuous :
  let c := PendingModel.mkCfg PendingModel.Linear None true true in
  let done := mkRev [49%N] 4 4 [] false 2%N in
  r_applied ex_rev <> r_total ex_rev /\
  snd (cli_apply bytes bytes_eqb ex_HS false c 0 [ex_file_tail] [ex_rev] []) = [([49%N], [68%N]); ([49%N], [69%N])] /\
  snd (fst (fst (fst (cli_apply bytes bytes_eqb ex_HS false c 0 [ex_file_tail] [ex_rev] [])))) = [done] /\
  cli_apply bytes bytes_eqb ex_HS false c 0 [ex_file_tail] [done] [] = (CPend PendingModel.PNoPending, [done], [], [], []).
Proof. vm_compute. repeat split; auto; discriminate. Qed.

(** a write fault after the first statement of the tail: one statement ran, Applied went from 2 to 2 (the
    write of 3 failed) -- not back to 0; with the lax store of [C12_lax_lookup_refuted] the prefix is re-run *)
Example C12_progress_never_lost_nonvacuous :
  (let '(o, t', _, es) := execute_st bytes bytes_eqb ex_HS ex_file_tail [ex_rev] [false; false; false; true] in
   (o, map (@r_applied bytes) t', journal es)) = (SExec OWriteErr, [2], [([49%N], [68%N])]) /\
  (let '(o, t', _, es) := execute_st_lax bytes bytes_eqb ex_HS ex_file_tail [ex_rev] [true] in
   (o, journal es)) = (SExec ODone, map (pair [49%N]) (f_stmts ex_file_tail)).
Proof. vm_compute. auto. Qed.

Example C12_store_lists_by_version_nonvacuous :
  let a := mkRev [50%N] 1 1 [] false 2%N in
  fst (read_revisions_f bytes [a; ex_rev] []) = Some [ex_rev; a] /\
  fst (read_revisions_f bytes [a; ex_rev] [true]) = None.
Proof. vm_compute. auto. Qed.

(** [ex_rev] is what a first attempt on [ex_old] that fails at its third statement leaves behind *)
Definition ex_file_old : file := mkFile [49%N] ex_old false.
Example C12_end_to_end_nonvacuous :
  after_attempts bytes bytes_eqb ex_HS ex_file_old [ex_rev] /\
  f_version ex_file_changed = f_version ex_file_old /\ r_applied ex_rev <> r_total ex_rev /\
  firstn (r_applied ex_rev) (f_stmts ex_file_changed) <> firstn (r_applied ex_rev) (f_stmts ex_file_old) /\
  firstn (r_applied ex_rev) (f_stmts ex_file_tail) = firstn (r_applied ex_rev) (f_stmts ex_file_old).
Proof.
  split.
  - eapply (AA_again bytes bytes_eqb ex_HS ex_file_old [] [false; false; false; false; false; false; true]).
    + apply AA_first. reflexivity.
    + intros r H. discriminate.
    + vm_compute. reflexivity.
  - vm_compute. repeat split; auto; discriminate.
Qed.

(** [ex_file_changed] = A C C against A B C with two applied: statement 2 is the first edited one;
    a file cut to one statement is reported at statement 2 as well *)
Example C12_refuse_names_first_edited_nonvacuous :
  firstn 1 (f_stmts ex_file_changed) = firstn 1 ex_old /\
  firstn 2 (f_stmts ex_file_changed) <> firstn 2 ex_old /\
  fst (fst (fst (execute bytes bytes_eqb ex_HS ex_file_changed [ex_rev] []))) = OHistory 2 /\
  fst (fst (fst (execute bytes bytes_eqb ex_HS (mkFile [49%N] [[65%N]] false) [ex_rev] []))) = OHistory 2 /\
  fst (fst (fst (execute bytes bytes_eqb ex_HS (mkFile [49%N] [[66%N]; [66%N]; [67%N]] false) [ex_rev] []))) = OHistory 1.
Proof. vm_compute. repeat split; auto; discriminate. Qed.

(** a double failure: A B C fails at its 2nd statement; the tail becomes D E F (A D E F); the second attempt
    applies D and E and fails at F: the stored revision records A D E, of both attempts *)
Definition ex_file_mid : file := mkFile [49%N] [[65%N]; [68%N]; [69%N]; [70%N]] false.
Example C12_history_nonvacuous :
  exists t r,
    file_history bytes bytes_eqb ex_HS ex_file_mid t /\
    tbl_get t [49%N] = Some r /\ r_applied r = 3 /\ r_total r = 4 /\
    r_hashes r = firstn 3 (sums bytes ex_HS (f_stmts ex_file_mid)) /\
    (* D (applied by the second attempt) edited: refused, statement 2 named *)
    fst (fst (fst (execute_st bytes bytes_eqb ex_HS (mkFile [49%N] [[65%N]; [71%N]; [69%N]; [70%N]] false) t []))) = SExec (OHistory 2) /\
    (* tail fixed: completes *)
    fst (fst (fst (execute_st bytes bytes_eqb ex_HS (mkFile [49%N] [[65%N]; [68%N]; [69%N]; [72%N]; [73%N]] false) t []))) = SExec ODone.
Proof.
  eexists _, _. split.
  - eapply (FH_attempt bytes bytes_eqb ex_HS ex_file_mid _ [false; false; false; false; false; false; true]).
    + eapply (FH_tail_edit bytes bytes_eqb ex_HS ex_file_old ex_file_mid).
      * eapply (FH_attempt bytes bytes_eqb ex_HS ex_file_old [] [false; false; false; false; true]).
        -- apply FH_first. reflexivity.
        -- intros r H. discriminate.
        -- vm_compute. reflexivity.
      * reflexivity.
      * intros r H. vm_compute in H. inversion H; subst. split; [vm_compute; discriminate|reflexivity].
    + intros r H. vm_compute in H. inversion H; subst. vm_compute. discriminate.
    + vm_compute. reflexivity.
  - vm_compute. repeat split; reflexivity.
Qed.

(** Clause (a) is needed. With a store that reports a failing lookup as
    "revision does not exist" ([execute_st_lax]: `if err != nil { return nil,
    ErrRevisionNotExist }` in EntRevisions.ReadRevision), one transient error of
    the SELECT makes the executor run the edited, partially applied file again
    from its first statement and replace the stored revision by a fresh one:
    the hypotheses of 5 hold, its conclusion does not (no collision exists for
    [ex_HS], the identity). *)
Theorem C12_lax_lookup_refuted :
  exists (t : list (rev bytes)) (f : file) (r : rev bytes) (old : list bytes) (fs : list bool),
    tbl_get t (f_version f) = Some r /\ 0 < r_applied r /\ recorded bytes ex_HS r old /\
    firstn (r_applied r) (f_stmts f) <> firstn (r_applied r) old /\
    (forall j, concat (firstn (S j) (f_stmts f)) <> concat (firstn (S j) old) ->
               ex_HS (concat (firstn (S j) (f_stmts f))) <> ex_HS (concat (firstn (S j) old))) /\
    exists t' fs' es,
      execute_st_lax bytes bytes_eqb ex_HS f t fs = (SExec ODone, t', fs', es) /\
      journal es = map (pair (f_version f)) (f_stmts f) /\ t' <> t.
Proof.
  exists [ex_rev], ex_file_changed, ex_rev, ex_old, [true].
  split; [reflexivity|]. split; [vm_compute; auto|]. split; [vm_compute; auto|].
  split; [vm_compute; discriminate|]. split; [intros j H; exact H|].
  vm_compute. eexists _, _, _. split; [reflexivity|]. split; [reflexivity|discriminate].
Qed.
Print Assumptions C12_lax_lookup_refuted.

(** * Round 5: white-space edits, file names, the hash chain (M-EDIT, Exec/EditModel.v)

    [C12_refuse] and its store-level forms quantify over arbitrary byte-string
    statements, and the hash input of the model is the exact statement text
    ([ExecModel.sums]: [HS (acc ++ s)], nothing trimmed, nothing added): an edit
    that changes only white space *inside the scanned text* of an applied
    statement is an edit like any other.  What follows states that explicitly,
    and puts three things the earlier rounds left outside into the model:
    the file name ([LocalFile.Version] / [Desc]), the "h1:" text of a stored
    partial hash, and the shape of the hash chain. *)
From Atlas Require Import Exec.EditModel Exec.EditProofs.

Section C12_round5.
Variable hash : Type.
Variable hash_eqb : hash -> hash -> bool.
Variable HS : bytes -> hash.
Hypothesis hash_eqb_spec : forall a b, hash_eqb a b = true <-> a = b.

(** A white-space edit of a statement: another byte string with the same
    non-blank bytes (blank, tab, LF, CR removed). *)
Definition whitespace_edit (s s' : bytes) : Prop := s <> s' /\ strip_ws s = strip_ws s'.

(** 20. Statement [j] of the applied part was re-spaced (a double blank in a
    literal became single, a line break became a blank, re-indentation, tabs
    for blanks, CRLF for LF, blanks before the delimiter ...): over the store
    and under every fault stream, nothing is executed, the table is what it
    was, the run is neither Done nor a panic; without a storage fault it is
    HistoryChanged -- or a collision of [HS] is exhibited.  ([refused_st] is
    the conclusion of theorem 5 plus [o <> SExec OPanic].) *)
Theorem C12_whitespace_edit_refused :
  forall (t : list (rev hash)) (fs : list bool) (f : file) (r : rev hash) (old : list bytes)
         (j : nat) (s s' : bytes),
  tbl_get t (f_version f) = Some r -> recorded hash HS r old ->
  j < r_applied r ->
  nth_error old j = Some s -> nth_error (f_stmts f) j = Some s' ->
  whitespace_edit s s' ->
  forall o t' fs' es, execute_st hash hash_eqb HS f t fs = (o, t', fs', es) ->
  collision_at hash HS old (f_stmts f) (r_applied r) \/
  refused_st hash t fs (r_applied r) o t' es.
Proof.
  intros t fs f r old j s s' Hget Hrec Hj Ho Hn [Hne _].
  exact (whitespace_edit_refused hash hash_eqb HS hash_eqb_spec t fs f r old j s s' Hget Hrec Hj Ho Hn Hne).
Qed.

(** 21. What a file name means ([LocalFile.Version] / [LocalFile.Desc]): a name
    "<v>.sql" (what `atlas migrate new` writes without a name) has version [v]
    and an empty description; "<v>_<d>.sql" has version [v] and description [d]
    for EVERY byte string [d] (further underscores, "h1:", blanks, quotes,
    formatting verbs, any length); [v] is any byte string without '_'. *)
Theorem C12_name_shapes :
  forall (v d : bytes), ~ In 95%N v ->
  version_of_name (v ++ dot_sql) = v /\ desc_of_name (v ++ dot_sql) = [] /\
  version_of_name (v ++ 95%N :: d ++ dot_sql) = v /\ desc_of_name (v ++ 95%N :: d ++ dot_sql) = d.
Proof.
  intros v d Hv. split; [exact (version_of_name_plain v Hv)|].
  split; [exact (desc_of_name_plain v Hv dot_sql_no_under)|].
  split; [exact (version_of_name_desc v d Hv)|exact (desc_of_name_desc v d Hv)].
Qed.

(** 22. The refusal for a file of ANY name: the revision is found by the
    version extracted from the name; whatever the name is, an edited applied
    part is refused cleanly (never Done, never a panic). *)
Theorem C12_named_refuse :
  forall (name : bytes) (stmts : list bytes) (ck : bool)
         (t : list (rev hash)) (fs : list bool) (r : rev hash) (old : list bytes),
  tbl_get t (version_of_name name) = Some r ->
  0 < r_applied r -> recorded hash HS r old ->
  firstn (r_applied r) stmts <> firstn (r_applied r) old ->
  forall o t' fs' es,
  execute_st hash hash_eqb HS (file_of (mkNFile name stmts ck)) t fs = (o, t', fs', es) ->
  collision_at hash HS old stmts (r_applied r) \/ refused_st hash t fs (r_applied r) o t' es.
Proof.
  intros name stmts ck t fs r old Hget Hk Hrec Hdiff.
  exact (refuse_st_refused hash hash_eqb HS hash_eqb_spec t fs (file_of (mkNFile name stmts ck)) r old Hget Hk Hrec Hdiff).
Qed.

(** 23. The outcome does not depend on the file name beyond version
    extraction: two names with the same version give the same [Execute]
    (outcome, table, faults consumed, events), and the same history of whole
    `migrate apply` commands wherever the file stands in the directory. *)
Theorem C12_refusal_independent_of_name :
  forall (n1 n2 : bytes) (stmts : list bytes) (ck : bool),
  version_of_name n1 = version_of_name n2 ->
  (forall t fs,
     execute_st hash hash_eqb HS (file_of (mkNFile n1 stmts ck)) t fs =
     execute_st hash hash_eqb HS (file_of (mkNFile n2 stmts ck)) t fs) /\
  (forall txfile order pre post faults rs t,
     ncli_history hash hash_eqb HS (mkNCliRun txfile order (pre ++ mkNFile n1 stmts ck :: post) faults :: rs) t =
     ncli_history hash hash_eqb HS (mkNCliRun txfile order (pre ++ mkNFile n2 stmts ck :: post) faults :: rs) t).
Proof.
  intros n1 n2 stmts ck Hv. split.
  - intros t fs. rewrite (file_of_same_version n1 n2 stmts ck Hv). reflexivity.
  - intros txfile order pre post faults rs t. unfold ncli_history. cbn [map]. unfold cli_run_of at 1 3.
    cbn [ncr_txfile ncr_order ncr_dir ncr_faults]. rewrite !map_app. cbn [map].
    rewrite (file_of_same_version n1 n2 stmts ck Hv). reflexivity.
Qed.

(** 24. The hash chain: [sums] has one entry per statement, and entry [i] is
    [HS] of the texts of statements 0..i concatenated -- the texts alone, in
    order, without separator (Go: one running sha256 state, [h.Write(stmt.Text)],
    [sums[i] = base64(h.Sum(nil))]).  The tie compares the raw values with
    Go's on every history of stages api / wsapi / wscli. *)
Theorem C12_partial_hash_chain :
  forall (ss : list bytes),
  length (sums hash HS ss) = length ss /\
  forall i, i < length ss -> nth_error (sums hash HS ss) i = Some (HS (concat (firstn (S i) ss))).
Proof. exact (sums_chain hash HS). Qed.

(** 26. [Revision.Hash] (the whole-file hash of atlas.sum): [Execute] stores it
    when it creates a revision and never compares it; this tree has no
    checkRevisionHash.  A completely applied file ([Applied = Total]) is not
    returned by [Pending] whatever its statements are now: `migrate apply` on a
    directory whose only file is completely applied answers "nothing to do",
    executes nothing and leaves the table alone -- for EVERY content [stmts'] of
    the file.  (So C12's refusal is about partially applied files only; an edit
    of a completely applied file is not detected at apply time.  Stage wsapi
    replays it: the 4th run of every history restores the old content.) *)
Theorem C12_completed_file_edit_not_detected :
  forall (txfile : bool) (c : PendingModel.cfg) (n : nat) (v : bytes) (stmts' : list bytes) (r : rev hash),
  r_version r = v -> r_applied r = r_total r ->
  cli_apply hash hash_eqb HS txfile c n [mkFile v stmts' false] [r] [] =
    (CPend PendingModel.PNoPending, [r], [], [], []).
Proof.
  intros txfile c n v stmts' r Hv Hd.
  exact (completed_file_not_checked hash hash_eqb HS txfile c n (mkFile v stmts' false) r eq_refl Hv Hd).
Qed.

(** 27. = 20 without a premise on the stored hashes: the table was reached by
    any history of attempts on the file under arbitrary storage/statement
    faults, interleaved with tail-only edits ([file_history], theorems 15/16);
    then statement [j] of the part applied so far is re-spaced: refused under
    every fault stream, HistoryChanged when no storage call fails. *)
Theorem C12_whitespace_edit_refused_end_to_end :
  forall (f f_new : file) (t : list (rev hash)) (r : rev hash) (j : nat) (s s' : bytes),
  file_history hash hash_eqb HS f t -> f_version f_new = f_version f ->
  tbl_get t (f_version f) = Some r -> r_applied r <> r_total r ->
  j < r_applied r ->
  nth_error (f_stmts f) j = Some s -> nth_error (f_stmts f_new) j = Some s' ->
  whitespace_edit s s' ->
  forall fs o t' fs' es, execute_st hash hash_eqb HS f_new t fs = (o, t', fs', es) ->
  collision_at hash HS (f_stmts f) (f_stmts f_new) (r_applied r) \/
  (exec_events es = [] /\ t' = t /\ o <> SExec ODone /\
   (hd false fs = false -> hd false (tl fs) = false ->
      exists i, o = SExec (OHistory i) /\ 1 <= i <= r_applied r)).
Proof.
  intros f f_new t r j s s' HH Hv Hget Hpart Hj Ho Hn [Hne _].
  apply (C12_history_refuse_lemma hash hash_eqb HS hash_eqb_spec f f_new t r HH Hv Hget); [|exact Hpart|].
  - destruct (r_applied r); [inversion Hj|apply Nat.lt_0_succ].
  - exact (firstn_differs (f_stmts f) (f_stmts f_new) (r_applied r) j s s' Hj Ho Hn Hne).
Qed.

End C12_round5.

(** 25. The stored text of a partial hash is "h1:" + sum and the comparison is
    [sums[i] != strings.TrimPrefix(stored, "h1:")]: on stored texts this is
    equality of the sums, so the instance of the abstract pair ([HS],
    [hash_eqb]) the tie runs -- [hs_stored raw], [stored_eqb] -- satisfies the
    premise [hash_eqb_spec] of every theorem above, for every [raw]. *)
Theorem C12_h1_prefix_transparent :
  forall (a b : bytes),
  sum_eqb_stored a (stored_hash b) = bytes_eqb a b /\
  (stored_eqb (stored_hash a) (stored_hash b) = true <-> stored_hash a = stored_hash b) /\
  trim_prefix (stored_hash a) h1_prefix = a.
Proof.
  intros a b. split; [exact (sum_eqb_stored_hash a b)|]. split; [exact (stored_eqb_spec a b)|].
  exact (trim_prefix_app h1_prefix a).
Qed.

Print Assumptions C12_whitespace_edit_refused.
Print Assumptions C12_name_shapes.
Print Assumptions C12_named_refuse.
Print Assumptions C12_refusal_independent_of_name.
Print Assumptions C12_partial_hash_chain.
Print Assumptions C12_h1_prefix_transparent.
Print Assumptions C12_completed_file_edit_not_detected.
Print Assumptions C12_whitespace_edit_refused_end_to_end.

(** Non-vacuity (round 5).  [ws_old]: VALUES ('a  b') / X / Y, two applied;
    [ws_new]: the double blank of statement 1 became single. *)
Definition ws_s  : bytes := [39; 97; 32; 32; 98; 39]%N.   (* 'a  b' *)
Definition ws_s' : bytes := [39; 97; 32; 98; 39]%N.        (* 'a b'  *)
Definition ws_old : list bytes := [ws_s; [88%N]; [89%N]].
Definition ws_rev : rev bytes := mkRev [50%N] 2 3 (firstn 2 (sums bytes ex_HS ws_old)) true 2%N.
Definition name_plain : bytes := [50; 46; 115; 113; 108]%N.                   (* "2.sql" *)
Definition name_long  : bytes := [50; 95; 97; 95; 95; 104; 49; 58; 46; 115; 113; 108]%N.  (* "2_a__h1:.sql" *)

Example C12_whitespace_edit_refused_nonvacuous :
  whitespace_edit ws_s ws_s' /\
  recorded bytes ex_HS ws_rev ws_old /\
  fst (fst (fst (execute_st bytes bytes_eqb ex_HS (mkFile [50%N] [ws_s'; [88%N]; [89%N]] false) [ws_rev] []))) = SExec (OHistory 1) /\
  (* the same re-spacing in the tail resumes *)
  fst (fst (fst (execute_st bytes bytes_eqb ex_HS (mkFile [50%N] [ws_s; [88%N]; ws_s'] false) [ws_rev] []))) = SExec ODone.
Proof. vm_compute. repeat split; auto; discriminate. Qed.

Example C12_name_shapes_nonvacuous :
  version_of_name name_plain = [50%N] /\ desc_of_name name_plain = [] /\
  version_of_name name_long = [50%N] /\ desc_of_name name_long = [97; 95; 95; 104; 49; 58]%N /\
  (* a name without the suffix, and "x.sql.sql": only one suffix is cut *)
  version_of_name [55; 46; 115; 113; 108; 46; 115; 113; 108]%N = [55; 46; 115; 113; 108]%N.
Proof. vm_compute. repeat split; reflexivity. Qed.

Example C12_named_refuse_nonvacuous :
  version_of_name name_plain = version_of_name name_long /\
  fst (fst (fst (execute_st bytes bytes_eqb ex_HS (file_of (mkNFile name_plain [ws_s'; [88%N]; [89%N]] false)) [ws_rev] []))) = SExec (OHistory 1) /\
  fst (fst (fst (execute_st bytes bytes_eqb ex_HS (file_of (mkNFile name_long [ws_s'; [88%N]; [89%N]] false)) [ws_rev] []))) = SExec (OHistory 1).
Proof. vm_compute. repeat split; reflexivity. Qed.

Example C12_partial_hash_chain_nonvacuous :
  sums bytes ex_HS [[65%N]; [66%N; 59%N]; [67%N]] = [[65%N]; [65%N; 66%N; 59%N]; [65%N; 66%N; 59%N; 67%N]].
Proof. vm_compute. reflexivity. Qed.

Example C12_h1_prefix_nonvacuous :
  stored_hash [65%N] = [104; 49; 58; 65]%N /\
  sum_eqb_stored [65%N] (stored_hash [65%N]) = true /\ sum_eqb_stored [65%N] (stored_hash [66%N]) = false /\
  (* a stored text without the prefix (written by an older version) is compared as it is *)
  sum_eqb_stored [65%N] [65%N] = true.
Proof. vm_compute. repeat split; reflexivity. Qed.

Example C12_completed_file_edit_not_detected_nonvacuous :
  cli_apply bytes bytes_eqb ex_HS false (PendingModel.mkCfg PendingModel.Linear None true true) 0
    [mkFile [50%N] [[90%N]; [91%N]] false] [mkRev [50%N] 3 3 [] false 2%N] [] =
  (CPend PendingModel.PNoPending, [mkRev [50%N] 3 3 [] false 2%N], [], [], []).
Proof. vm_compute. reflexivity. Qed.

(** the table after one real attempt on [ws_old] (fails at its 3rd statement), then statement 2 "X" -> "X " *)
Example C12_whitespace_edit_refused_end_to_end_nonvacuous :
  exists t r,
    file_history bytes bytes_eqb ex_HS (mkFile [50%N] ws_old false) t /\
    tbl_get t [50%N] = Some r /\ r_applied r = 2 /\ r_total r = 3 /\
    whitespace_edit [88%N] [88%N; 32%N] /\
    fst (fst (fst (execute_st bytes bytes_eqb ex_HS (mkFile [50%N] [ws_s; [88%N; 32%N]; [89%N]] false) t []))) = SExec (OHistory 2).
Proof.
  eexists _, _. split.
  - eapply (FH_attempt bytes bytes_eqb ex_HS (mkFile [50%N] ws_old false) [] [false; false; false; false; false; false; true]).
    + apply FH_first. reflexivity.
    + intros r H. discriminate.
    + vm_compute. reflexivity.
  - vm_compute. repeat split; auto; discriminate.
Qed.
