(** C11 -- pending-file computation follows the documented semantics.
    (First instalment: the first-run decisions; the history theorems are
    being added in Exec/PendingProofs.v.) *)
From Coq Require Import List NArith Bool Arith.
From Atlas Require Import Base.Bytes Exec.ExecModel Exec.PendingModel.
Import ListNotations.

(** First run on a non-clean database without baseline / allow-dirty is refused,
    whatever the directory holds, and nothing is written. *)
Theorem C11_first_run_dirty_refused :
  forall (hash : Type) (c : cfg) (all : list file),
  c_dirty c = true -> c_allow_dirty c = false -> c_baseline c = None ->
  pending (hash := hash) c all [] = (PNotClean, None).
Proof.
  intros hash c all Hd Ha Hb. unfold pending. simpl. rewrite Hd, Ha, Hb. reflexivity.
Qed.
Print Assumptions C11_first_run_dirty_refused.

Example C11_first_run_dirty_nonvacuous :
  pending (hash := bytes) (mkCfg Linear None false true) [mkFile [49%N] [[65%N]] false] [] = (PNotClean, None).
Proof. vm_compute. reflexivity. Qed.
