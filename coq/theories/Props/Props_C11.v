(** C11 -- the pending-file computation follows the documented semantics for
    every history.  Only statements, [exact], [Print Assumptions] and
    non-vacuity [Example]s live here; definitions and proofs are in
    Exec/PendingProofs.v, the model ([pending] = [Executor.Pending],
    [execute_n] = [Executor.ExecuteN]) in Exec/PendingModel.v / RunModel.v.

    Vocabulary (all defined in PendingProofs.v):
    - [sorted_files all]  : directory order = strictly increasing version order;
    - [sorted_revs revs]  : the revision reader returns strictly increasing versions
                            (proved of [read_revisions] below, [C11_reader_sorted]);
    - [newer v all]       : non-checkpoint files with version > v, directory order;
    - [ooo_files fv lv revs all] : non-checkpoint files with fv <= version < lv and
                            no completely applied revision -- never applied, or only
                            partially ("out of order"), directory order;
    - [done_rev revs v]   : some revision of version v is completely applied;
    - [result_files r]    : the files a decision names ([PFiles p] => p,
                            [PNonLinear s p] => s ++ p, otherwise none);
    - [finish p]          : [PNoPending] if p is empty, else [PFiles p].

    No statement needs "only the last revision may be partial": since the repair of
    C11-nonlinear-partial-not-resumed a partially applied revision that is not the greatest
    one is an out-of-order file ([C11_partial_not_last]). *)
From Coq Require Import List NArith Bool Arith Sorted.
From Atlas Require Import Base.Bytes Exec.ExecModel Exec.PendingModel Exec.RunModel Exec.PendingProofs
  Exec.StatusModel Exec.StatusProofs Exec.HistoryModel Exec.HistoryProofs.
Import ListNotations.

Section C11.
Variable hash : Type.
Notation rev := (rev hash).

(** 0. Refinement: on sorted input the transcription of [Executor.Pending] (indices,
    binary searches, fallthrough) computes exactly the declarative, filter-based
    specification [pending_spec]. Everything below is a corollary. *)
Theorem C11_refines :
  forall (c : cfg) (all : list file) (revs : list rev),
  sorted_files all -> sorted_revs revs ->
  pending c all revs = pending_spec c all revs.
Proof. exact (pending_refines hash). Qed.

(** The two filters used in the statements mean what their names say. *)
Theorem C11_newer_spec :
  forall (v : bytes) (all : list file) (f : file),
  In f (newer v all) <-> In f all /\ f_ckpt f = false /\ bytes_ltb v (f_version f) = true.
Proof. exact newer_In. Qed.

Theorem C11_ooo_spec :
  forall (fv lv : bytes) (revs : list rev) (all : list file) (f : file),
  In f (ooo_files fv lv revs all) <->
  In f all /\ f_ckpt f = false /\ bytes_leb fv (f_version f) = true /\
  bytes_ltb (f_version f) lv = true /\ done_rev revs (f_version f) = false.
Proof. exact (ooo_files_In hash). Qed.

Theorem C11_done_rev_spec :
  forall (revs : list rev) (v : bytes),
  done_rev revs v = true <-> exists r, In r revs /\ r_version r = v /\ r_applied r = r_total r.
Proof. exact (done_rev_In hash). Qed.

(** (A) Never a fully applied version again: no file named by the decision (to run,
    or listed in the non-linear error) has a complete revision. *)
Theorem C11_never_applied_again :
  forall (c : cfg) (all : list file) (revs : list rev) (f : file) (r : rev),
  sorted_files all -> sorted_revs revs ->
  In f (result_files (fst (pending c all revs))) ->
  In r revs -> r_version r = f_version f -> r_applied r <> r_total r.
Proof. exact (never_applied_again hash). Qed.

(** (B) Always every version newer than the last applied one: a non-checkpoint file
    newer than the last revision is in the pending list; the only other outcome is
    the missing-migration error, exactly when the last revision is partial and no
    file (checkpoint or not) carries its version. In particular never "no pending files". *)
Theorem C11_all_newer_pending :
  forall (c : cfg) (all : list file) (revs : list rev) (r0 : rev) (f : file),
  sorted_files all -> sorted_revs revs -> revs <> [] ->
  In f all -> f_ckpt f = false -> bytes_ltb (r_version (last revs r0)) (f_version f) = true ->
  match fst (pending c all revs) with
  | PFiles p => In f p
  | PNonLinear _ p => In f p
  | PMissing v => v = r_version (last revs r0) /\ ~ complete (last revs r0) /\
                  (forall g, In g all -> f_version g <> v)
  | _ => False
  end.
Proof. exact (all_newer_pending hash). Qed.

(** (C) The partially applied file first.
    (C1) the partial revision is a checkpoint file: it, then every newer migration. *)
Theorem C11_partial_first_checkpoint :
  forall (c : cfg) (all : list file) (revs : list rev) (r0 : rev) (g : file),
  sorted_files all -> sorted_revs revs -> revs <> [] ->
  r_applied (last revs r0) <> r_total (last revs r0) ->
  In g all -> f_version g = r_version (last revs r0) -> f_ckpt g = true ->
  pending c all revs = (PFiles (g :: newer (r_version (last revs r0)) all), None).
Proof. exact (partial_first_ckpt hash). Qed.

(** (C2) it is a migration file [g]: [g] is the first file after the out-of-order
    ones (which are run first / rejected / skipped according to the order). *)
Theorem C11_partial_first :
  forall (c : cfg) (all : list file) (revs : list rev) (r0 : rev) (g : file),
  sorted_files all -> sorted_revs revs -> revs <> [] ->
  r_applied (last revs r0) <> r_total (last revs r0) ->
  In g all -> f_version g = r_version (last revs r0) -> f_ckpt g = false ->
  pending c all revs =
  (match c_order c with
   | LinearSkip => PFiles (g :: newer (r_version (last revs r0)) all)
   | NonLinear => PFiles (ooo_files (r_version (hd r0 revs)) (r_version (last revs r0)) revs all
                          ++ g :: newer (r_version (last revs r0)) all)
   | Linear => match ooo_files (r_version (hd r0 revs)) (r_version (last revs r0)) revs all with
               | [] => PFiles (g :: newer (r_version (last revs r0)) all)
               | _ => PNonLinear (ooo_files (r_version (hd r0 revs)) (r_version (last revs r0)) revs all)
                                 (g :: newer (r_version (last revs r0)) all)
               end
   end, None).
Proof. exact (partial_first_file_explicit hash). Qed.

(** (C3) no file has its version: MissingMigrationError (or "no pending files" when the
    directory holds no migration file at all). *)
Theorem C11_partial_file_missing :
  forall (c : cfg) (all : list file) (revs : list rev) (r0 : rev),
  sorted_files all -> sorted_revs revs -> revs <> [] ->
  r_applied (last revs r0) <> r_total (last revs r0) ->
  (forall g, In g all -> f_version g <> r_version (last revs r0)) ->
  pending c all revs =
  (if existsb (fun f => negb (f_ckpt f)) all then PMissing (r_version (last revs r0)) else PNoPending, None).
Proof. exact (partial_missing hash). Qed.

(** (C4) The partially applied revision need not be the greatest recorded version (an
    out-of-order file that failed in a previous --exec-order non-linear run): its file is
    named too -- as an out-of-order file, which non-linear runs first and linear rejects
    (linear-skip skips out-of-order files, as documented; see the Example). Side conditions:
    the file of the LAST revision is not a checkpoint and, if the last revision is itself
    partial, exists (otherwise C1 / C3 apply).
    This was FALSE of the code before the repair of C11-nonlinear-partial-not-resumed
    (notes/fixes/C11-nonlinear-partial-not-resumed.diff): Pending looked at the last revision only. *)
Theorem C11_partial_not_last :
  forall (c : cfg) (all : list file) (revs : list rev) (r0 r : rev) (g : file),
  sorted_files all -> sorted_revs revs -> c_order c <> LinearSkip ->
  In r revs -> r_applied r <> r_total r -> In g all -> f_ckpt g = false -> f_version g = r_version r ->
  (forall k, In k all -> f_version k = r_version (last revs r0) -> f_ckpt k = false) ->
  (r_applied (last revs r0) = r_total (last revs r0) \/
   exists k, In k all /\ f_version k = r_version (last revs r0)) ->
  In g (result_files (fst (pending c all revs))).
Proof. exact (partial_resumed_any hash). Qed.

(** ... and under "only the last revision may be partial" (every linear history) the file
    of the partial revision is named under every order, checkpoint or not. *)
Theorem C11_partial_not_last_except :
  forall (c : cfg) (all : list file) (revs : list rev) (r : rev) (g : file),
  sorted_files all -> sorted_revs revs -> only_last_partial revs ->
  In r revs -> r_applied r <> r_total r -> In g all -> f_version g = r_version r ->
  In g (result_files (fst (pending c all revs))).
Proof. exact (partial_resumed hash). Qed.

(** (D) First run (no revisions), database clean or allow-dirty, no baseline: the
    LAST checkpoint and exactly the files after it; nothing before it; without a
    checkpoint the whole directory; an empty directory: "no pending files".
    (No sortedness needed.) *)
Theorem C11_first_run_checkpoint :
  forall (c : cfg),
  c_dirty c && negb (c_allow_dirty c) = false -> c_baseline c = None ->
  (forall (pre : list file) (ck : file) (rest : list file),
     f_ckpt ck = true -> (forall f, In f rest -> f_ckpt f = false) ->
     pending (hash := hash) c (pre ++ ck :: rest) [] = (PFiles (ck :: rest), None)) /\
  (forall (all : list file),
     (forall f, In f all -> f_ckpt f = false) ->
     pending (hash := hash) c all [] = (match all with [] => PNoPending | _ => PFiles all end, None)).
Proof. exact (first_run_checkpoint hash). Qed.

(** ... and these two shapes cover every directory. *)
Theorem C11_first_run_cases :
  forall (all : list file),
  (forall f, In f all -> f_ckpt f = false) \/
  exists pre ck rest, all = pre ++ ck :: rest /\ f_ckpt ck = true /\
                      (forall f, In f rest -> f_ckpt f = false).
Proof. exact last_checkpoint_split. Qed.

(** First run on a non-clean database without baseline / allow-dirty is refused,
    whatever the directory holds, and nothing is written. *)
Theorem C11_first_run_dirty_refused :
  forall (c : cfg) (all : list file),
  c_dirty c = true -> c_allow_dirty c = false -> c_baseline c = None ->
  pending (hash := hash) c all [] = (PNotClean, None).
Proof. exact (first_run_dirty_refused hash). Qed.

(** (E) Baseline on a first run. Not found among the migration files: error, no write. *)
Theorem C11_baseline_not_found :
  forall (c : cfg) (all : list file) (bv : bytes),
  c_baseline c = Some bv ->
  (forall f, In f all -> f_ckpt f = false -> f_version f <> bv) ->
  pending (hash := hash) c all [] = (PBaselineNotFound, None).
Proof. exact (baseline_not_found hash). Qed.

(** Found: the baseline revision is handed to the writer and the pending files are the
    migration files with a version strictly greater than the baseline (so every version
    up to the baseline is skipped, see [C11_newer_spec]), whatever dirty/allow-dirty say. *)
Theorem C11_baseline_skipped :
  forall (c : cfg) (all : list file) (bv : bytes) (g : file),
  sorted_files all -> c_baseline c = Some bv ->
  In g all -> f_ckpt g = false -> f_version g = bv ->
  pending (hash := hash) c all [] = (finish (newer bv all), Some (baseline_rev bv)).
Proof. exact (baseline_skipped hash). Qed.

(** The same without assuming a sorted directory: the files after the LAST migration
    file carrying the baseline version. *)
Theorem C11_baseline_skipped_unsorted :
  forall (c : cfg) (all : list file) (bv : bytes) (pre : list file) (g : file) (p : list file),
  c_baseline c = Some bv ->
  skip_checkpoints all = pre ++ g :: p -> f_version g = bv ->
  (forall x, In x p -> f_version x <> bv) ->
  pending (hash := hash) c all [] = (finish p, Some (baseline_rev bv)).
Proof. exact (baseline_skipped_general hash). Qed.

(** (F) Out-of-order files, last revision complete: rejected (linear), skipped
    (linear-skip) or run first (non-linear). *)
Theorem C11_out_of_order :
  forall (c : cfg) (all : list file) (revs : list rev) (r0 : rev),
  sorted_files all -> sorted_revs revs -> revs <> [] ->
  r_applied (last revs r0) = r_total (last revs r0) ->
  pending c all revs =
  (match c_order c with
   | Linear => match ooo_files (r_version (hd r0 revs)) (r_version (last revs r0)) revs all with
               | [] => finish (newer (r_version (last revs r0)) all)
               | _ => PNonLinear (ooo_files (r_version (hd r0 revs)) (r_version (last revs r0)) revs all)
                                 (newer (r_version (last revs r0)) all)
               end
   | LinearSkip => finish (newer (r_version (last revs r0)) all)
   | NonLinear => finish (ooo_files (r_version (hd r0 revs)) (r_version (last revs r0)) revs all
                          ++ newer (r_version (last revs r0)) all)
   end, None).
Proof. exact (out_of_order hash). Qed.

Theorem C11_out_of_order_linear_rejects :
  forall (c : cfg) (all : list file) (revs : list rev) (r0 : rev),
  sorted_files all -> sorted_revs revs -> revs <> [] ->
  r_applied (last revs r0) = r_total (last revs r0) ->
  c_order c = Linear ->
  ooo_files (r_version (hd r0 revs)) (r_version (last revs r0)) revs all <> [] ->
  pending c all revs =
  (PNonLinear (ooo_files (r_version (hd r0 revs)) (r_version (last revs r0)) revs all)
              (newer (r_version (last revs r0)) all), None).
Proof. exact (out_of_order_linear hash). Qed.

Theorem C11_out_of_order_nonlinear_first :
  forall (c : cfg) (all : list file) (revs : list rev) (r0 : rev),
  sorted_files all -> sorted_revs revs -> revs <> [] ->
  r_applied (last revs r0) = r_total (last revs r0) ->
  c_order c = NonLinear ->
  ooo_files (r_version (hd r0 revs)) (r_version (last revs r0)) revs all <> [] ->
  pending c all revs =
  (PFiles (ooo_files (r_version (hd r0 revs)) (r_version (last revs r0)) revs all
           ++ newer (r_version (last revs r0)) all), None).
Proof. exact (out_of_order_nonlinear hash). Qed.

(** linear-skip never names an out-of-order file (last revision complete or partial). *)
Theorem C11_out_of_order_skipped :
  forall (c : cfg) (all : list file) (revs : list rev) (r0 : rev) (f : file),
  sorted_files all -> sorted_revs revs -> revs <> [] -> c_order c = LinearSkip ->
  In f (result_files (fst (pending c all revs))) ->
  ~ In f (ooo_files (r_version (hd r0 revs)) (r_version (last revs r0)) revs all).
Proof. exact (out_of_order_skip hash). Qed.

(** Without out-of-order files the execution order does not matter. *)
Theorem C11_in_order_same :
  forall (c c' : cfg) (all : list file) (revs : list rev) (r0 : rev),
  sorted_files all -> sorted_revs revs -> revs <> [] ->
  ooo_files (r_version (hd r0 revs)) (r_version (last revs r0)) revs all = [] ->
  c_baseline c' = c_baseline c -> c_allow_dirty c' = c_allow_dirty c -> c_dirty c' = c_dirty c ->
  pending c' all revs = pending c all revs.
Proof. exact (in_order_same hash). Qed.

(** Files older than the first (smallest) recorded revision are never named, in any
    order and whether or not they have a revision: the window starts at [revs[0]]
    (the code's note: "first can be set to the first checkpoint"). *)
Theorem C11_nothing_before_first_revision :
  forall (c : cfg) (all : list file) (revs : list rev) (r0 : rev) (f : file),
  sorted_files all -> sorted_revs revs -> revs <> [] ->
  In f (result_files (fst (pending c all revs))) ->
  bytes_leb (r_version (hd r0 revs)) (f_version f) = true.
Proof. exact (result_not_before_first hash). Qed.

(** (G) apply-with-count agrees with the decision: [ExecuteN n] runs the first n pending
    files (all of them when n = 0), and returns Pending's error otherwise. *)
Variable hash_eqb : hash -> hash -> bool.
Variable HS : bytes -> hash.

Theorem C11_execute_n_first_n :
  forall (c : cfg) (n : nat) (all : list file) (t : list rev) (fs : list bool) (p : list file),
  pending c all (read_revisions hash t) = (PFiles p, None) ->
  execute_n hash hash_eqb HS c n all t fs =
  (let '(o, t2, fs2, es) := exec_files hash hash_eqb HS (if 0 <? n then firstn n p else p) t fs in
   (RExec o, t2, fs2, es)).
Proof. exact (execute_n_first_n hash hash_eqb HS). Qed.

Theorem C11_execute_n_error :
  forall (c : cfg) (n : nat) (all : list file) (t : list rev) (fs : list bool) (r : presult),
  pending c all (read_revisions hash t) = (r, None) ->
  (forall p, r <> PFiles p) ->
  execute_n hash hash_eqb HS c n all t fs = (RPend r, t, fs, []).
Proof. exact (execute_n_error hash hash_eqb HS). Qed.

(** The reader's order: a table with unique versions (the primary key) is read back
    strictly sorted, i.e. [sorted_revs] holds of what [pending] receives in [execute_n]. *)
Theorem C11_reader_sorted :
  forall (t : list rev), NoDup (map (@r_version hash) t) -> sorted_revs (read_revisions hash t).
Proof. exact (read_revisions_sorted hash). Qed.

(** * Status, apply-with-count and set-version agree with that decision
    (model: Exec/StatusModel.v -- [report] = [StatusReporter.Report] of cmdlog.go,
    [apply_plan] = the file selection of [migrateApplyRun], [migrate_set] = [migrateSetRun];
    proofs: Exec/StatusProofs.v).

    (H0) A database without a revisions table is reported exactly like one with an empty
    table, whatever else the database holds: in particular the report starts at the latest
    checkpoint, like apply. (Before the repair C11-status-not-clean-empty-table the empty
    table of a database holding other tables was refused as "not clean": Report built its
    executor without allow-dirty although it executes nothing.) *)
Theorem C11_status_no_table :
  forall (dirty dirty' : bool) (all : list file) (revs : list rev),
  report false dirty all revs = report true dirty' all [].
Proof. exact (report_no_table hash). Qed.

(** ... spelled out: with a checkpoint in the directory the report on a never-migrated
    database lists the LAST checkpoint and the files after it -- exactly what apply runs
    ([C11_first_run_checkpoint]) -- and nothing before it; without a checkpoint, every file. *)
Theorem C11_status_fresh_checkpoint :
  forall (dirty : bool) (revs : list rev),
  (forall (pre : list file) (ck : file) (rest : list file),
     f_ckpt ck = true -> (forall f, In f rest -> f_ckpt f = false) ->
     report false dirty (pre ++ ck :: rest) revs =
     SOk (mkStatus (ck :: rest) [] (ck :: rest) [] CurNone (NextVer (f_version ck)) 0 0 false false)) /\
  (forall (all : list file),
     (forall f, In f all -> f_ckpt f = false) -> all <> [] ->
     report false dirty all revs =
     SOk (mkStatus all [] all [] CurNone (NextVer (f_version (hd (mkFile [] [] false) all))) 0 0 false false)).
Proof.
  exact (fun dirty revs => conj (report_fresh_checkpoint hash dirty revs) (report_fresh_no_checkpoint hash dirty revs)).
Qed.

(** (H1) Every field of the report is the stated function of Pending's decision under the
    default (linear) order: Pending / OutOfOrder are the decision's lists, Status is OK iff
    nothing is pending, Next is the first pending version, Applied is the table, Available
    is the pending list on a first run and the whole directory afterwards, Count/Total are
    set exactly when the last revision is partially applied and not resolved ([count_total]:
    Count = its Applied, Total = the number of statements of the file with that version).
    Any other decision of Pending is not a report (see [C11_status_error]). *)
Theorem C11_status_fields :
  forall (dirty : bool) (all : list file) (revs : list rev) (s : mstatus hash),
  report true dirty all revs = SOk s ->
  s_applied s = revs /\
  match fst (pending (mkCfg Linear None true dirty) all revs) with
  | PFiles p =>
      p <> [] /\ s_pending s = p /\ s_ooo s = [] /\ s_ok s = false /\
      s_next s = NextVer (f_version (hd (mkFile [] [] false) p)) /\
      s_available s = (match revs with [] => p | _ => all end) /\
      count_total hash all revs (s_count s) (s_total s)
  | PNoPending =>
      s_pending s = [] /\ s_ooo s = [] /\ s_ok s = true /\ s_next s = NextLatest /\
      s_available s = (match revs with [] => [] | _ => all end) /\
      count_total hash all revs (s_count s) (s_total s)
  | PNonLinear sk p =>
      s_pending s = p /\ s_ooo s = sk /\ s_ok s = false /\ s_next s = NextEmpty /\
      s_available s = [] /\ s_count s = 0 /\ s_total s = 0 /\
      exists l, last_opt revs = Some l /\ s_current s = CurVer (r_version l)
  | _ => False
  end.
Proof. exact (report_fields hash). Qed.

(** Report never indexes an empty slice, whatever directory and table; an error it returns
    is Pending's own error. *)
Theorem C11_status_no_panic :
  forall (has_table dirty : bool) (all : list file) (revs : list rev),
  report has_table dirty all revs <> SPanic.
Proof. exact (report_no_panic hash). Qed.

Theorem C11_status_error :
  forall (dirty : bool) (all : list file) (revs : list rev) (e : presult),
  report true dirty all revs = SErr e -> fst (pending (mkCfg Linear None true dirty) all revs) = e.
Proof. exact (report_err hash). Qed.

(** (H2) Status agrees with what apply decides, for EVERY execution order: whenever status
    answers, the decision of [migrate apply --exec-order o] (no baseline, not refused for
    a non-clean database) on the same directory and table is [by_order o OutOfOrder Pending]:
    linear rejects exactly when OutOfOrder is non-empty and otherwise runs Pending,
    linear-skip runs Pending, non-linear runs OutOfOrder then Pending. *)
Theorem C11_status_agrees :
  forall (has_table dirty : bool) (all : list file) (revs : list rev) (s : mstatus hash) (c : cfg),
  sorted_files all -> sorted_revs revs ->
  c_baseline c = None -> c_dirty c && negb (c_allow_dirty c) = false ->
  report has_table dirty all revs = SOk s ->
  fst (pending c all (if has_table then revs else [])) = by_order (c_order c) (s_ooo s) (s_pending s).
Proof. exact (status_agrees hash). Qed.

(** (H3) [migrate apply n] selects exactly the first n pending files (all of them without an
    amount, or when n exceeds their number) -- the same list [Executor.ExecuteN n] runs
    ([C11_execute_n_first_n]); Pending's errors are passed on unchanged. *)
Theorem C11_apply_n :
  forall (c : cfg) (n : nat) (all : list file) (revs : list rev) (p : list file) (w : option rev),
  pending c all revs = (PFiles p, w) ->
  apply_plan c n all revs = (PFiles (if 0 <? n then firstn n p else p), w).
Proof. exact (apply_plan_first_n hash). Qed.

Theorem C11_apply_n_error :
  forall (c : cfg) (n : nat) (all : list file) (revs : list rev) (r : presult) (w : option rev),
  pending c all revs = (r, w) -> (forall p, r <> PFiles p) -> apply_plan c n all revs = (r, w).
Proof. exact (apply_plan_error hash). Qed.

(** (H4) After [migrate set v] ([v] a version of the directory) no version <= v is pending,
    for every sorted directory, every table and every execution order: the table afterwards is
    sorted, EVERY row is completely applied (also a row that was partially applied or had an
    error -- it is marked "manually set" with Applied = Total), its greatest version is [v],
    and Pending's decision is exactly [by_order o (out-of-order files below v) (files newer than v)].
    The out-of-order files below v were out of order before the set already: they have no
    revision although a later version <= v has one.
    This was FALSE of the code before the repair of C11-set-on-partial-revision
    (notes/fixes/C11-set-on-partial-revision.diff): the row of [v] kept Applied < Total and
    Pending resumed it. *)
Theorem C11_set :
  forall (c : cfg) (all : list file) (revs : list rev) (v : bytes) (g : file) (t' : list rev) (r0 : rev),
  sorted_files all -> sorted_revs revs ->
  In g all -> f_version g = v ->
  migrate_set (Some v) all revs = SetOk t' ->
  sorted_revs t' /\ t' <> [] /\ (forall r, In r t' -> r_applied r = r_total r) /\
  r_version (last t' r0) = v /\
  pending c all t' =
    (by_order (c_order c) (ooo_files (r_version (hd r0 t')) v t' all) (newer v all), None) /\
  (forall f, In f (ooo_files (r_version (hd r0 t')) v t' all) ->
     has_rev revs (f_version f) = false /\
     exists r, In r revs /\ bytes_ltb (f_version f) (r_version r) = true /\ bytes_leb (r_version r) v = true).
Proof. exact (set_decision hash). Qed.

(** ... read as the property's sentence: a file of version <= v that is still named after the
    set is one of those out-of-order files and the order is not linear-skip; so linear-skip --
    and the Pending list of [migrate status], which [C11_status_agrees] ties to it -- names
    no version <= v. *)
Theorem C11_set_nothing_pending :
  forall (c : cfg) (all : list file) (revs : list rev) (v : bytes) (g : file) (t' : list rev) (r0 : rev) (f : file),
  sorted_files all -> sorted_revs revs ->
  In g all -> f_version g = v ->
  migrate_set (Some v) all revs = SetOk t' ->
  In f (result_files (fst (pending c all t'))) -> bytes_leb (f_version f) v = true ->
  c_order c <> LinearSkip /\ In f (ooo_files (r_version (hd r0 t')) v t' all).
Proof. exact (set_nothing_pending hash). Qed.

(** (H5) Whole histories (closed-loop model Exec/HistoryModel.v: [history] threads the
    database -- table exists, rows, other resources -- through any sequence of
    [migrate status / apply [n] --exec-order o --tx-mode m [--baseline v] [--allow-dirty]
    [--dry-run] / set [v]] on directories that may change between the commands; statements
    fail as an arbitrary oracle [fails] says). In every reachable state no version has two
    rows and the reader returns a strictly sorted table: the hypothesis [sorted_revs] of the
    theorems above holds at every step of every history, for all three transaction modes. *)
Variable fails : bytes -> bool.

Theorem C11_history_wf :
  forall (ks : list (list file * cmd)) (d : db hash),
  (forall all k, In (all, k) ks -> sorted_files all) ->
  NoDup (map (@r_version hash) (db_revs d)) ->
  Forall (fun ad => NoDup (map (@r_version hash) (db_revs (snd ad))) /\
                    sorted_revs (db_read hash (snd ad)))
         (history hash hash_eqb HS fails ks d).
Proof. exact (history_wf hash hash_eqb HS fails). Qed.

End C11.

Print Assumptions C11_refines.
Print Assumptions C11_newer_spec.
Print Assumptions C11_ooo_spec.
Print Assumptions C11_done_rev_spec.
Print Assumptions C11_never_applied_again.
Print Assumptions C11_all_newer_pending.
Print Assumptions C11_partial_first_checkpoint.
Print Assumptions C11_partial_first.
Print Assumptions C11_partial_file_missing.
Print Assumptions C11_partial_not_last.
Print Assumptions C11_partial_not_last_except.
Print Assumptions C11_first_run_checkpoint.
Print Assumptions C11_first_run_cases.
Print Assumptions C11_first_run_dirty_refused.
Print Assumptions C11_baseline_not_found.
Print Assumptions C11_baseline_skipped.
Print Assumptions C11_baseline_skipped_unsorted.
Print Assumptions C11_out_of_order.
Print Assumptions C11_out_of_order_linear_rejects.
Print Assumptions C11_out_of_order_nonlinear_first.
Print Assumptions C11_out_of_order_skipped.
Print Assumptions C11_in_order_same.
Print Assumptions C11_nothing_before_first_revision.
Print Assumptions C11_execute_n_first_n.
Print Assumptions C11_execute_n_error.
Print Assumptions C11_reader_sorted.
Print Assumptions C11_status_no_table.
Print Assumptions C11_status_fresh_checkpoint.
Print Assumptions C11_status_fields.
Print Assumptions C11_status_no_panic.
Print Assumptions C11_status_error.
Print Assumptions C11_status_agrees.
Print Assumptions C11_apply_n.
Print Assumptions C11_apply_n_error.
Print Assumptions C11_set.
Print Assumptions C11_set_nothing_pending.
Print Assumptions C11_history_wf.

(** * Non-vacuity: concrete directories / tables meeting the hypotheses. *)
Definition xf (v : N) (ck : bool) : file := mkFile [v] [[65%N]; [66%N]] ck.
Definition xr (v : N) (a t : nat) : ExecModel.rev unit := mkRev [v] a t [] false 2%N.
Definition f1 := xf 49 false.  Definition f2 := xf 50 false.
Definition f3 := xf 51 false.  Definition f4 := xf 52 false.
Definition k2 := xf 50 true.   Definition k3 := xf 51 true.
Definition ex_all : list file := [f1; f2; f3; f4].
Definition ex_ck : list file := [f1; k2; k3; f4].
Definition ex_revs : list (ExecModel.rev unit) := [xr 49 2 2; xr 51 2 2].        (* 2 was never applied *)
Definition ex_revs_p : list (ExecModel.rev unit) := [xr 49 2 2; xr 51 1 2].      (* ... and 3 is partial *)
Definition cfg_of (o : order) : cfg := mkCfg o None false false.

Example C11_ex_sorted :
  sorted_files ex_all /\ sorted_files ex_ck /\ sorted_revs ex_revs /\ sorted_revs ex_revs_p /\
  only_last_partial ex_revs_p.
Proof.
  unfold sorted_files, sorted_revs, only_last_partial, fver_lt, rver_lt, complete.
  repeat split; repeat constructor.
Qed.

(** refinement / (A) / (F): the out-of-order file 2 and the newer file 4, per order *)
Example C11_refines_nonvacuous :
  pending (cfg_of Linear) ex_all ex_revs = (PNonLinear [f2] [f4], None) /\
  pending_spec (cfg_of Linear) ex_all ex_revs = (PNonLinear [f2] [f4], None).
Proof. vm_compute. auto. Qed.

Example C11_never_applied_again_nonvacuous :
  result_files (fst (pending (cfg_of NonLinear) ex_all ex_revs)) = [f2; f4] /\
  In (xr 49 2 2) ex_revs /\ r_version (xr 49 2 2) = f_version f1 /\ complete (xr 49 2 2).
Proof. vm_compute. auto. Qed.

Example C11_out_of_order_nonvacuous :
  ooo_files (r_version (hd (xr 0 0 0) ex_revs)) (r_version (last ex_revs (xr 0 0 0))) ex_revs ex_all = [f2] /\
  newer (r_version (last ex_revs (xr 0 0 0))) ex_all = [f4] /\
  pending (cfg_of Linear) ex_all ex_revs = (PNonLinear [f2] [f4], None) /\
  pending (cfg_of LinearSkip) ex_all ex_revs = (PFiles [f4], None) /\
  pending (cfg_of NonLinear) ex_all ex_revs = (PFiles [f2; f4], None).
Proof. vm_compute. auto. Qed.

Example C11_in_order_same_nonvacuous :
  ooo_files [49%N] [50%N] [xr 49 2 2; xr 50 2 2] ex_all = [] /\
  pending (cfg_of Linear) ex_all [xr 49 2 2; xr 50 2 2] = (PFiles [f3; f4], None) /\
  pending (cfg_of NonLinear) ex_all [xr 49 2 2; xr 50 2 2] = (PFiles [f3; f4], None).
Proof. vm_compute. auto. Qed.

Example C11_nothing_before_first_revision_nonvacuous :
  pending (cfg_of NonLinear) ex_all [xr 50 2 2; xr 52 2 2] = (PFiles [f3], None).   (* 1 is ignored *)
Proof. vm_compute. auto. Qed.

(** (B) *)
Example C11_all_newer_pending_nonvacuous :
  bytes_ltb (r_version (last ex_revs (xr 0 0 0))) (f_version f4) = true /\
  fst (pending (cfg_of LinearSkip) ex_all ex_revs) = PFiles [f4] /\
  fst (pending (cfg_of Linear) [f1; f2; f4] ex_revs_p) = PMissing [51%N].
Proof. vm_compute. auto. Qed.

(** (C) *)
Example C11_partial_first_nonvacuous :
  pending (cfg_of NonLinear) ex_all ex_revs_p = (PFiles [f2; f3; f4], None) /\
  pending (cfg_of LinearSkip) ex_all ex_revs_p = (PFiles [f3; f4], None) /\
  pending (cfg_of Linear) ex_all ex_revs_p = (PNonLinear [f2] [f3; f4], None).
Proof. vm_compute. auto. Qed.

Example C11_partial_first_checkpoint_nonvacuous :
  pending (cfg_of Linear) ex_ck [xr 51 1 2] = (PFiles [k3; f4], None).
Proof. vm_compute. auto. Qed.

Example C11_partial_file_missing_nonvacuous :
  pending (cfg_of Linear) [f1; f2; f4] ex_revs_p = (PMissing [51%N], None) /\
  pending (cfg_of Linear) [k2] [xr 51 1 2] = (PNoPending, None).
Proof. vm_compute. auto. Qed.

(** (C4) files 1,2,3; revisions 1 complete, 2 partial (1/3), 3 complete *)
Example C11_partial_not_last_nonvacuous :
  pending (mkCfg NonLinear None false false) w_files w_revs =
    (PFiles [mkFile [50%N] [[65%N]; [66%N]; [67%N]] false], None) /\
  pending (mkCfg Linear None false false) w_files w_revs =
    (PNonLinear [mkFile [50%N] [[65%N]; [66%N]; [67%N]] false] [], None) /\
  pending (mkCfg LinearSkip None false false) w_files w_revs = (PNoPending, None).
Proof. vm_compute. repeat split; reflexivity. Qed.

Example C11_partial_not_last_except_nonvacuous :
  In f3 (result_files (fst (pending (cfg_of Linear) ex_all ex_revs_p))).
Proof. vm_compute. auto. Qed.

(** (D) *)
Example C11_first_run_checkpoint_nonvacuous :
  pending (hash := unit) (cfg_of Linear) ex_ck [] = (PFiles [k3; f4], None) /\
  pending (hash := unit) (cfg_of Linear) ex_all [] = (PFiles ex_all, None) /\
  pending (hash := unit) (mkCfg Linear None true true) ex_ck [] = (PFiles [k3; f4], None) /\
  pending (hash := unit) (cfg_of Linear) [] [] = (PNoPending, None).
Proof. vm_compute. auto. Qed.

Example C11_first_run_dirty_nonvacuous :
  pending (hash := bytes) (mkCfg Linear None false true) [mkFile [49%N] [[65%N]] false] [] = (PNotClean, None).
Proof. vm_compute. reflexivity. Qed.

(** (E) *)
Example C11_baseline_nonvacuous :
  pending (hash := unit) (mkCfg Linear (Some [50%N]) false true) ex_all [] =
    (PFiles [f3; f4], Some (baseline_rev [50%N])) /\
  pending (hash := unit) (mkCfg Linear (Some [50%N]) false false) ex_ck [] = (PBaselineNotFound, None) /\
  pending (hash := unit) (mkCfg Linear (Some [52%N]) false false) ex_all [] =
    (PNoPending, Some (baseline_rev [52%N])).
Proof. vm_compute. auto. Qed.

(** (G) *)
Example C11_execute_n_nonvacuous :
  pending (cfg_of LinearSkip) ex_all (read_revisions unit [xr 51 2 2; xr 49 2 2]) = (PFiles [f4], None) /\
  fst (fst (fst (execute_n unit (fun _ _ => true) (fun _ => tt) (cfg_of NonLinear) 1 ex_all [xr 51 2 2; xr 49 2 2] [])))
    = RExec ODone /\
  journal (snd (execute_n unit (fun _ _ => true) (fun _ => tt) (cfg_of NonLinear) 1 ex_all [xr 51 2 2; xr 49 2 2] []))
    = [([50%N], [65%N]); ([50%N], [66%N])] /\
  fst (fst (fst (execute_n unit (fun _ _ => true) (fun _ => tt) (cfg_of Linear) 1 ex_all [xr 51 2 2; xr 49 2 2] [])))
    = RPend (PNonLinear [f2] [f4]).
Proof. vm_compute. auto. Qed.

(** (H) status / apply n / set *)
Definition st_of (r : sresult unit) : mstatus unit :=
  match r with SOk s => s | _ => mkStatus [] [] [] [] CurNone NextEmpty 0 0 false false end.

(** never-touched database, directory 1, 2(ckpt), 3(ckpt), 4: the report starts at checkpoint 3 *)
Example C11_status_no_table_nonvacuous :
  let s := st_of (report false true ex_ck []) in
  s_pending s = [k3; f4] /\ s_available s = [k3; f4] /\ s_next s = NextVer [51%N] /\
  s_current s = CurNone /\ s_ok s = false /\
  report (hash := unit) true true ex_ck [] = report false false ex_ck [].
Proof. vm_compute. repeat split; reflexivity. Qed.

Example C11_status_fresh_checkpoint_nonvacuous :
  ex_ck = [f1; k2] ++ k3 :: [f4] /\ f_ckpt k3 = true /\
  report (hash := unit) false false ex_ck [] =
  SOk (mkStatus [k3; f4] [] [k3; f4] [] CurNone (NextVer [51%N]) 0 0 false false).
Proof. vm_compute. repeat split; reflexivity. Qed.

(** files 1..4, revisions 1 and 3 (3 partially applied 1/2, error): file 2 is out of order *)
Example C11_status_fields_nonvacuous :
  let s := st_of (report true false ex_all [xr 49 2 2; mkRev [51%N] 1 2 [] true 2%N]) in
  s_ooo s = [f2] /\ s_pending s = [f3; f4] /\ s_current s = CurVer [51%N] /\ s_next s = NextEmpty /\
  let s2 := st_of (report true false [f1; f3; f4] [xr 49 2 2; mkRev [51%N] 1 2 [] true 2%N]) in
  s_ooo s2 = [] /\ s_pending s2 = [f3; f4] /\ s_next s2 = NextVer [51%N] /\ s_count s2 = 1 /\ s_total s2 = 2 /\
  s_available s2 = [f1; f3; f4] /\ s_error s2 = true /\
  let s3 := st_of (report true false ex_all [xr 49 2 2; xr 50 2 2; xr 51 2 2; xr 52 2 2]) in
  s_ok s3 = true /\ s_next s3 = NextLatest /\ s_pending s3 = [] /\ s_current s3 = CurVer [52%N].
Proof. vm_compute. repeat split; reflexivity. Qed.

Example C11_status_error_nonvacuous :
  report true false [f1; f2; f4] ex_revs_p = SErr (PMissing [51%N]) /\
  report true false [k2] [xr 51 1 2] = SFileNotFound [51%N].
Proof. vm_compute. split; reflexivity. Qed.

Example C11_status_agrees_nonvacuous :
  let s := st_of (report true false ex_all ex_revs) in
  s_ooo s = [f2] /\ s_pending s = [f4] /\
  fst (pending (cfg_of NonLinear) ex_all ex_revs) = PFiles [f2; f4] /\
  by_order NonLinear (s_ooo s) (s_pending s) = PFiles [f2; f4] /\
  by_order LinearSkip (s_ooo s) (s_pending s) = PFiles [f4] /\
  by_order Linear (s_ooo s) (s_pending s) = PNonLinear [f2] [f4].
Proof. vm_compute. repeat split; reflexivity. Qed.

Example C11_apply_n_nonvacuous :
  apply_plan (hash := unit) (cfg_of Linear) 1 ex_ck [] = (PFiles [k3], None) /\
  apply_plan (hash := unit) (cfg_of Linear) 0 ex_ck [] = (PFiles [k3; f4], None) /\
  apply_plan (hash := unit) (cfg_of Linear) 5 ex_ck [] = (PFiles [k3; f4], None) /\
  apply_plan (cfg_of NonLinear) 1 ex_all ex_revs = (PFiles [f2], None) /\
  apply_plan (cfg_of Linear) 1 ex_all ex_revs = (PNonLinear [f2] [f4], None).
Proof. vm_compute. repeat split; reflexivity. Qed.

(** set 3 on revisions 1, 4 (2 and 3 never applied): 4 is deleted, 2 and 3 are recorded;
    set 4 on revisions 1, 4: nothing changes and 2, 3 stay out of order;
    set 3 on a partially applied 3: the row becomes 2/2 "applied + manually set", only 4 is left;
    set 4 above a partially applied 3: that row is resolved too. *)
Example C11_set_nonvacuous :
  migrate_set (Some [51%N]) ex_all [xr 49 2 2; xr 52 2 2] =
    SetOk [xr 49 2 2; mkRev [50%N] 0 0 [] false 4%N; mkRev [51%N] 0 0 [] false 4%N] /\
  fst (pending (cfg_of Linear) ex_all [xr 49 2 2; mkRev [50%N] 0 0 [] false 4%N; mkRev [51%N] 0 0 [] false 4%N])
    = PFiles [f4] /\
  migrate_set (Some [52%N]) ex_all [xr 49 2 2; xr 52 2 2] = SetOk [xr 49 2 2; xr 52 2 2] /\
  fst (pending (cfg_of Linear) ex_all [xr 49 2 2; xr 52 2 2]) = PNonLinear [f2; f3] [] /\
  ooo_files [49%N] [52%N] [xr 49 2 2; xr 52 2 2] ex_all = [f2; f3] /\
  migrate_set (Some [51%N]) ex_all ex_revs_p = SetOk [xr 49 2 2; mkRev [51%N] 2 2 [] false 6%N] /\
  fst (pending (cfg_of LinearSkip) ex_all [xr 49 2 2; mkRev [51%N] 2 2 [] false 6%N]) = PFiles [f4] /\
  migrate_set (Some [52%N]) ex_all ex_revs_p =
    SetOk [xr 49 2 2; mkRev [51%N] 2 2 [] false 6%N; mkRev [52%N] 0 0 [] false 4%N] /\
  migrate_set (Some [49%N]) [ws_file] [ws_rev] = SetOk [mkRev [49%N] 2 2 [tt] true 6%N] /\
  pending (cfg_of Linear) [ws_file] [mkRev [49%N] 2 2 [tt] true 6%N] = (PNoPending, None) /\
  migrate_set (Some [57%N]) ex_all ex_revs = SetNotFound /\
  migrate_set (hash := unit) None ex_all [] = SetArgs /\
  migrate_set None ex_all [xr 49 2 2] =
    SetOk [xr 49 2 2; mkRev [50%N] 0 0 [] false 4%N; mkRev [51%N] 0 0 [] false 4%N; mkRev [52%N] 0 0 [] false 4%N].
Proof. vm_compute. repeat split; reflexivity. Qed.

(** (H5) a history on a never-touched database: apply --tx-mode none fails in file 2
    (second statement is rejected), status, set 2, apply *)
Definition hx_fails (s : bytes) : bool := bytes_eqb s [68%N].
Definition hx_dir : list file := [mkFile [49%N] [[65%N]] false; mkFile [50%N] [[67%N]; [68%N]] false; f3].
Example C11_history_nonvacuous :
  let h := history bytes bytes_eqb (fun b => b) hx_fails
             [ (hx_dir, CApply Linear None false 0 TxNone false);
               (hx_dir, CStatus);
               (hx_dir, CSet (Some [50%N]));
               (hx_dir, CApply Linear None false 0 TxFile false) ]
             (mkDb false false []) in
  map (fun ad => map (fun r => (r_version r, r_applied r, r_total r)) (db_read bytes (snd ad))) h =
    [ [([49%N], 1, 1); ([50%N], 1, 2)];
      [([49%N], 1, 1); ([50%N], 1, 2)];
      [([49%N], 1, 1); ([50%N], 2, 2)];
      [([49%N], 1, 1); ([50%N], 2, 2); ([51%N], 2, 2)] ] /\
  match nth_error h 1 with
  | Some (AStatus (SOk s), _) => s_pending s = [mkFile [50%N] [[67%N]; [68%N]] false; f3] /\ s_count s = 1 /\ s_total s = 2
  | _ => False
  end.
Proof. vm_compute. repeat split; reflexivity. Qed.
