(** C02 -- the diff is exact: every difference is reported once, and nothing else.

    Subject: the Gallina transcription of sql/internal/sqlx/diff.go (DiffModel.v)
    over a [DiffDriver] record, and the SQLite driver sql/sqlite/diff.go
    (DiffSqlite.v), in the comparison mode of the CLI (schema.DiffNormalized()).
    Only statements, [exact], [Print Assumptions] and non-vacuity Examples here.

    An *edit script* of a keyed list (columns by name, indexes by name, foreign
    keys by symbol, tables by name) pairs every element of [from] with what it
    becomes -- [None] dropped, [Some c'] kept or modified (same key) -- and
    lists the additions (fresh keys): [script_ok].  [to] may list the result in
    ANY order ([Permutation]).  Every finite set of independent elementary
    edits is such a script, so the theorems quantify over all of them.

    Partial (named so): the MySQL / PostgreSQL instances (DiffDialects.v) cover the
    attributes of the edit catalogue only; the index *script* theorems (2b, 2f, 3a) require
    that a dropped index with a database-generated name has no similar unnamed index on
    the other side -- the closed form 5a and the composition 9 do not.
    Since round 5 RealmDiff and schema attributes (8), table attributes and check flags of
    MySQL / PostgreSQL (10, 11) and views (12) are inside the model, over wrapper records
    next to Diff/Schema.v, PostgreSQL enum objects too (13); triggers, functions stay outside.

    FULL STATEMENT aimed at (C02_exact): for every well-formed s and every independent
    finite set es of elementary edits, diff s (apply es s) = expected es up to order
    within a table.  Proved below piecewise: per keyed list (2a-2e), composed per table
    (2f, 3a) and per schema (2g), with the ChangeKind bits of ColumnChange per dialect
    (3b, 4c, 4f), and -- round 5 -- composed over all tables of a schema for SQLite
    (9: C02_exact_sqlite_partial, index part in the closed form of 5a, so the match of a
    generated name with an unnamed desired index is included) and over all schemas of a
    realm (8a-8g: RealmDiff, schema attributes).  What is still missing for one closed
    C02_exact: pairs in which SQLite's Normalize rewrites something (autoindex names,
    re-symbolled foreign keys), and table attributes of MySQL / PostgreSQL. *)
From Coq Require Import List NArith Bool Arith Permutation.
From Atlas Require Import Base.Bytes Diff.Schema Diff.DiffModel Diff.DiffSqlite Diff.DiffDialects Diff.DiffProofs Diff.DiffSqliteProofs Diff.DiffDialectsProofs Diff.DiffSqliteCopy Diff.DiffMysqlVariants Diff.DiffMysqlVariantsProofs Diff.DiffUnnamedProofs Diff.DiffSqliteNumFk Diff.DiffRealm Diff.DiffRealmProofs Diff.DiffSqliteExact Diff.DiffTableAttrs Diff.DiffTableAttrsProofs Diff.DiffCheckFlags Diff.DiffCheckFlagsProofs Diff.DiffViews Diff.DiffViewsProofs Diff.DiffObjects Diff.DiffObjectsProofs.
Import ListNotations.

(** 1a. Generic: for every driver whose callbacks report nothing on identical
    arguments ([refl_laws], [sim_laws]) the diff of a well-formed schema with
    itself is empty, for every skip filter. *)
Theorem C02_self_empty :
  forall (D : DiffDriver) (skip : tag -> bool) (dwf : table -> Prop),
  refl_laws D -> sim_laws D dwf ->
  forall s, wf_schema dwf s -> SchemaDiff D skip s s = Some [].
Proof. exact (fun D skip dwf RL SL => schema_diff_self D skip dwf RL SL). Qed.

(** 1b. ... with a deep copy (the model has no pointers: a copy is a field-wise equal schema). *)
Theorem C02_copy_empty :
  forall (D : DiffDriver) (skip : tag -> bool) (dwf : table -> Prop),
  refl_laws D -> sim_laws D dwf ->
  forall s s', wf_schema dwf s -> s_name s' = s_name s -> s_tables s' = s_tables s ->
  SchemaDiff D skip s s' = Some [].
Proof.
  intros D skip dwf RL SL s s' WF E1 E2. destruct s, s'; simpl in *; subst.
  exact (schema_diff_self D skip dwf RL SL _ WF).
Qed.

(** 1c. ... and with the same objects listed in another order: tables, columns,
    indexes, foreign keys and checks permuted ([schema_perm]). *)
Theorem C02_perm_empty :
  forall (D : DiffDriver) (skip : tag -> bool) (dwf : table -> Prop),
  refl_laws D -> sim_laws D dwf ->
  forall s s', wf_schema dwf s -> schema_perm s s' -> SchemaDiff D skip s s' = Some [].
Proof. exact (fun D skip dwf RL SL => schema_diff_perm D skip dwf RL SL). Qed.

(** 1d. The laws hold for the SQLite driver, with [sqlite_dwf]: columns typed,
    named checks unique, no two foreign keys of one table with the same shape
    but different symbols, and no index named sqlite_autoindex* unless its
    origin is "p". *)
Theorem C02_sqlite_laws : refl_laws sqlite_driver /\ sim_laws sqlite_driver sqlite_dwf.
Proof. exact (conj sqlite_refl_laws sqlite_sim_laws). Qed.

(** 1e. "the diff with a deep copy is empty" at full strength (only the generic
    well-formedness) is still FALSE for the SQLite differ, after the fixes of
    FindGeneratedIndex (99ad7b6) and Normalize (5832478).  The model has no pointers, so
    [SchemaDiff D skip s s] is the diff of [s] with a field-wise equal copy.
    Witness: the autoindex of a UNIQUE column (origin "u") next to a user index that
    already carries the normalized name t_c: Normalize gives the desired side two indexes
    called t_c and the user's index is compared with the renamed autoindex (ChangeUnique).
    Reproduced on the Go code (harness class "witness", known finding
    C02-sqlite-autoindex-name-collision) and through the CLI:
    [CREATE TABLE t (c int UNIQUE); CREATE INDEX t_c ON t(c)], then
    [atlas schema diff --from sqlite://w6.db --to sqlite://w6.db] plans a rebuild of t. *)
Theorem C02_copy_empty_refuted :
  exists s, NoDup (map t_name (s_tables s)) /\ (forall t, In t (s_tables s) -> wf_table t) /\
            SchemaDiff sqlite_driver no_skip s s <> Some [].
Proof.
  exists w_schema6. split; [repeat constructor; simpl; tauto|]. split.
  - intros t [<-|[]]. exact w_table6_wf.
  - rewrite w_schema6_diff. discriminate.
Qed.

(** The two former witnesses (fixed upstream of this model) are now empty: the inspected
    autoindex alone, and two foreign keys of the same shape in the same order. *)
Theorem C02_copy_empty_fixed :
  SchemaDiff sqlite_driver no_skip w_schema1 w_schema1 = Some [] /\
  SchemaDiff sqlite_driver no_skip w_schema2 w_schema2 = Some [].
Proof. exact (conj w_schema1_diff w_schema2_diff). Qed.

(** "... or with the same objects listed in another order is empty" is FALSE for SQLite:
    two foreign keys of the same shape with different ON DELETE, listed in the other order,
    are paired crosswise by Normalize (first unused match by shape) and both come out as
    ModifyForeignKey.  Reproduced on the Go code (known finding
    C02-sqlite-same-shape-fks-reordered). *)
Theorem C02_perm_empty_refuted_fk :
  exists s s', NoDup (map t_name (s_tables s)) /\ (forall t, In t (s_tables s) -> wf_table t) /\
               (forall t, In t (s_tables s) -> idx_norm_stable (t_idx t)) /\
               schema_perm s s' /\ SchemaDiff sqlite_driver no_skip s s' <> Some [].
Proof.
  exists w_schema3, w_schema3p. split; [repeat constructor; simpl; tauto|]. split; [|split; [|split]].
  - intros t [<-|[]]. exact w_table3_wf.
  - intros t [<-|[]] i [].
  - exact w_schema3_perm.
  - rewrite w_schema3_diff. discriminate.
Qed.

(** 1e'. What holds for the copy (since the fixes): the diff of a schema with a copy is empty
    for every schema whose tables are well formed, typed, with unique check names, and whose
    autoindexes are what an inspection yields ([sqlite_copy_ok]: an index named
    sqlite_autoindex* with origin other than "p" has column parts only and a name generated
    for its table, and after Normalize's renaming no two indexes of the table share a name
    and no renamed-away name survives) -- no condition on foreign keys any more (in the same
    order every foreign key is paired with itself), and the inspected autoindex of a UNIQUE
    column is covered (it goes through FindGeneratedIndex).  [sqlite_dwf] is a special case
    ([sqlite_dwf_copy_ok]); C02_copy_empty_refuted violates exactly the name condition. *)
Theorem C02_sqlite_copy_empty :
  forall (skip : tag -> bool) s, sqlite_copy_wf s -> SchemaDiff sqlite_driver skip s s = Some [].
Proof. exact sqlite_schema_diff_copy. Qed.

(** 1f. What does hold for SQLite (self, copy and every permutation). *)
Theorem C02_copy_empty_except :
  forall (skip : tag -> bool) s s', wf_schema sqlite_dwf s -> schema_perm s s' ->
  sqlite_schema_diff skip s s' = Some [].
Proof. exact (fun skip => schema_diff_perm sqlite_driver skip sqlite_dwf sqlite_refl_laws sqlite_sim_laws). Qed.

(** 2a. columnDiff is exact on every column script: one DropColumn per dropped
    column, one ModifyColumn with exactly the driver's bits per column whose
    ColumnChange is not 0, one AddColumn per added column, nothing else; the
    order of [to] only permutes the additions. *)
Theorem C02_exact_columns :
  forall (D : DiffDriver) (skip : tag -> bool) from to ps adds,
  t_cols from = map fst ps -> script_ok c_name ps adds ->
  Permutation (t_cols to) (kept ps ++ adds) ->
  (forall c c', In (c, Some c') ps -> dd_column_change D from c c' <> None) ->
  exists adds', Permutation adds adds' /\
    column_diff D skip from to =
    Some (add_or_skip skip (col_expected D from ps ++ map (fun c => AddColumn (c_name c)) adds')).
Proof. exact column_diff_exact. Qed.

(** 2b. indexDiffT on every index script whose dropped indexes do not carry a
    generated name (partial: the similarUnnamedIndex path is tied, not proved). *)
Theorem C02_exact_indexes_partial :
  forall (D : DiffDriver) (skip : tag -> bool) from to ps adds,
  t_idx from = map fst ps -> script_ok i_name ps adds ->
  Permutation (t_idx to) (kept ps ++ adds) ->
  (forall c, In (c, None) ps -> dd_is_generated_index_name D from c = false \/ similar_unnamed_index D to c = None) ->
  exists adds', Permutation adds adds' /\
    index_diff_t D skip from to =
    add_or_skip skip (idx_expected D ps ++ map (fun i => AddIndex (i_name i)) adds').
Proof. exact index_diff_exact. Qed.

(** 2c. the foreign-key loops of tableDiff on every script keyed by symbol. *)
Theorem C02_exact_fks :
  forall (D : DiffDriver) (skip : tag -> bool) from to ps adds,
  t_fks from = map fst ps -> script_ok f_symbol ps adds ->
  Permutation (t_fks to) (kept ps ++ adds) ->
  exists adds', Permutation adds adds' /\
    fk_diff D skip from to =
    add_or_skip skip (fk_expected D ps ++ map (fun f => AddForeignKey (f_symbol f)) adds').
Proof. exact fk_diff_exact. Qed.

(** 2d. ChecksDiff (normalized mode) on every script in which a check is matched
    -- by name if both are named, else by expression -- by its own image only. *)
Theorem C02_exact_checks :
  forall compare fromC toC ps adds,
  fromC = map fst ps -> Permutation toC (kept ps ++ adds) ->
  (forall c o, In (c, o) ps -> forall c2, In c2 toC -> check_compare_to compare c c2 = true -> o = Some c2) ->
  (forall c c2, In (c, Some c2) ps -> check_compare_to compare c c2 = true) ->
  (forall c2, In c2 (kept ps) -> existsb (check_compare_to compare c2) (map fst ps) = true) ->
  (forall a, In a adds -> existsb (check_compare_to compare a) (map fst ps) = false) ->
  exists adds', Permutation adds adds' /\
    checks_diff compare fromC toC =
    chk_expected compare ps ++ map (fun c => AddCheck (k_name c) (k_expr c)) adds'.
Proof. exact checks_diff_exact. Qed.

(** 2e. primary key: add, drop, modify (bits = indexChange without ChangeUnique), rename. *)
Theorem C02_exact_pk :
  forall (D : DiffDriver) (skip : tag -> bool) from to,
  (forall p, t_pk from = None -> t_pk to = Some p -> pk_diff D skip from to = add_or_skip skip [AddPrimaryKey]) /\
  (forall p, t_pk from = Some p -> t_pk to = None -> pk_diff D skip from to = add_or_skip skip [DropPrimaryKey]) /\
  (forall p1 p2 k, t_pk from = Some p1 -> t_pk to = Some p2 ->
     N.land (index_change D p1 p2) (N.lxor 32767 ChangeUnique) = k -> k <> 0%N ->
     pk_diff D skip from to = add_or_skip skip [ModifyPrimaryKey k]) /\
  (forall p1 p2, t_pk from = Some p1 -> t_pk to = Some p2 ->
     N.land (index_change D p1 p2) (N.lxor 32767 ChangeUnique) = 0%N ->
     dd_support_rename_constraint D = true -> i_name p1 <> [] -> i_name p2 <> [] -> i_name p1 <> i_name p2 ->
     pk_diff D skip from to = add_or_skip skip [RenameConstraint (i_name p1) (i_name p2)]) /\
  (refl_laws D -> t_pk from = t_pk to -> (forall pk, t_pk from = Some pk -> index_ok pk) ->
     pk_diff D skip from to = []).
Proof.
  intros D skip from to. repeat split.
  - exact (pk_diff_add D skip from to).
  - exact (pk_diff_drop D skip from to).
  - exact (pk_diff_modify D skip from to).
  - exact (pk_diff_rename D skip from to).
  - intros RL. exact (pk_diff_same D skip RL from to).
Qed.

(** 2f. tableDiff composes the loops: for independent scripts of columns,
    indexes and foreign keys, a driver whose Normalize leaves the pair alone
    and whose TableAttrDiff returns [attrs], the result is exactly
    attrs ++ columns ++ pk ++ indexes ++ foreign keys, each as above. *)
Theorem C02_exact_table_partial :
  forall (D : DiffDriver) (skip : tag -> bool) from to attrs cps cadds ips iadds fps fadds,
  let from1 := set_t_name from (t_name to) in
  dd_normalize D from1 to = Some (from1, to) ->
  dd_table_attr_diff D from1 to = Some attrs ->
  t_cols from = map fst cps -> script_ok c_name cps cadds ->
  Permutation (t_cols to) (kept cps ++ cadds) ->
  (forall c c', In (c, Some c') cps -> dd_column_change D from1 c c' <> None) ->
  t_idx from = map fst ips -> script_ok i_name ips iadds ->
  Permutation (t_idx to) (kept ips ++ iadds) ->
  (forall c, In (c, None) ips -> dd_is_generated_index_name D from1 c = false \/ similar_unnamed_index D to c = None) ->
  t_fks from = map fst fps -> script_ok f_symbol fps fadds ->
  Permutation (t_fks to) (kept fps ++ fadds) ->
  exists cadds' iadds' fadds',
    Permutation cadds cadds' /\ Permutation iadds iadds' /\ Permutation fadds fadds' /\
    table_diff D skip from to =
    Some (attrs
          ++ add_or_skip skip (col_expected D from1 cps ++ map (fun c => AddColumn (c_name c)) cadds')
          ++ pk_diff D skip from1 to
          ++ add_or_skip skip (idx_expected D ips ++ map (fun i => AddIndex (i_name i)) iadds')
          ++ add_or_skip skip (fk_expected D fps ++ map (fun f => AddForeignKey (f_symbol f)) fadds')).
Proof. exact table_diff_exact. Qed.

(** 2g. schemaDiff on every script of tables: one DropTable per dropped table,
    one ModifyTable (carrying exactly tableDiff's list) per table whose
    tableDiff is not empty, one AddTable per added table, nothing else. *)
Theorem C02_exact_schema :
  forall (D : DiffDriver) (skip : tag -> bool) from to ps adds,
  s_name from = s_name to -> s_tables from = map fst ps -> script_ok t_name ps adds ->
  Permutation (s_tables to) (kept ps ++ adds) ->
  (forall t t', In (t, Some t') ps -> table_diff D skip t t' <> None) ->
  exists adds', Permutation adds adds' /\
    SchemaDiff D skip from to =
    Some (tbl_expected D skip ps ++ add_or_skip_s skip (map (fun t => AddTable (t_name t)) adds')).
Proof. exact schema_diff_exact. Qed.

(** 3a. SQLite: the whole tableDiff (table attributes and checks included) on
    independent scripts, when Normalize has nothing to rewrite. *)
Theorem C02_exact_sqlite_table_partial :
  forall skip from to cps cadds ips iadds fps fadds kps kadds,
  let from1 := set_t_name from (t_name to) in
  fk_stable (t_name to) (t_name to) (t_fks from) (t_fks to) -> idx_norm_stable (t_idx to) ->
  t_cols from = map fst cps -> script_ok c_name cps cadds ->
  Permutation (t_cols to) (kept cps ++ cadds) ->
  (forall c c', In (c, Some c') cps -> c_class c <> 0%N /\ c_class c' <> 0%N) ->
  t_idx from = map fst ips -> script_ok i_name ips iadds ->
  Permutation (t_idx to) (kept ips ++ iadds) ->
  (forall c, In (c, None) ips -> sqlite_is_generated_index_name from1 c = false \/ similar_unnamed_index sqlite_driver to c = None) ->
  t_fks from = map fst fps -> script_ok f_symbol fps fadds ->
  Permutation (t_fks to) (kept fps ++ fadds) ->
  t_checks from = map fst kps -> Permutation (t_checks to) (kept kps ++ kadds) ->
  (forall c o, In (c, o) kps -> forall c2, In c2 (t_checks to) ->
     check_compare_to (check_compare None) c c2 = true -> o = Some c2) ->
  (forall c c2, In (c, Some c2) kps -> check_compare_to (check_compare None) c c2 = true) ->
  (forall c2, In c2 (kept kps) -> existsb (check_compare_to (check_compare None) c2) (map fst kps) = true) ->
  (forall a, In a kadds -> existsb (check_compare_to (check_compare None) a) (map fst kps) = false) ->
  exists cadds' iadds' fadds' kadds',
    Permutation cadds cadds' /\ Permutation iadds iadds' /\ Permutation fadds fadds' /\ Permutation kadds kadds' /\
    table_diff sqlite_driver skip from to =
    Some ((attr_flag ATTR_WITHOUT_ROWID (t_without_rowid from) (t_without_rowid to)
           ++ attr_flag ATTR_STRICT (t_strict from) (t_strict to)
           ++ chk_expected (check_compare None) kps ++ map (fun c => AddCheck (k_name c) (k_expr c)) kadds')
          ++ add_or_skip skip (col_expected sqlite_driver from1 cps ++ map (fun c => AddColumn (c_name c)) cadds')
          ++ pk_diff sqlite_driver skip from1 to
          ++ add_or_skip skip (idx_expected sqlite_driver ips ++ map (fun i => AddIndex (i_name i)) iadds')
          ++ add_or_skip skip (fk_expected sqlite_driver fps ++ map (fun f => AddForeignKey (f_symbol f)) fadds')).
Proof. exact sqlite_table_diff_exact. Qed.

(** 3b. SQLite ColumnChange: exactly the bits of the attributes that were edited,
    each attribute detected independently of the others; comments are ignored. *)
Theorem C02_sqlite_column_bits :
  forall t c, c_class c <> 0%N ->
  sqlite_column_change t c c = Some 0%N /\
  sqlite_column_change t c (with_null c (negb (c_null c))) = Some ChangeNull /\
  (forall k T, k <> 0%N -> k <> c_class c -> sqlite_column_change t c (with_type c k T) = Some ChangeType) /\
  (forall T, c_class c = UDT_CLASS -> T <> c_T c -> sqlite_column_change t c (with_type c UDT_CLASS T) = Some ChangeType) /\
  (forall d, sqlite_default_changed c (with_default c d) = true ->
     sqlite_column_change t c (with_default c d) = Some ChangeDefault) /\
  (forall g, sqlite_generated_changed c (with_gen c g) = true ->
     sqlite_column_change t c (with_gen c g) = Some ChangeGenerated) /\
  (forall x, sqlite_column_change t c (with_comment c x) = Some 0%N) /\
  (forall k T d g, k <> 0%N -> k <> c_class c ->
     sqlite_default_changed c (with_default c d) = true -> sqlite_generated_changed c (with_gen c g) = true ->
     sqlite_column_change t c (mkColumn (c_name c) k T (negb (c_null c)) d g (c_comment c))
     = Some (N.lor (N.lor (N.lor ChangeNull ChangeType) ChangeDefault) ChangeGenerated)).
Proof.
  intros t c H. repeat split.
  - exact (sqlite_column_change_refl t c H).
  - exact (sqlite_edit_null t c H).
  - intros k T. exact (sqlite_edit_class t c k T H).
  - intros T. exact (sqlite_edit_udt_name t c T).
  - intros d. exact (sqlite_edit_default t c d H).
  - intros g. exact (sqlite_edit_gen t c g H).
  - intros x. exact (sqlite_edit_comment t c x H).
  - intros k T d g. exact (sqlite_edit_all t c k T d g H).
Qed.

(** 4a. The laws hold for the MySQL instance, with [mysql_dwf]: columns typed with a
    class typeChanged supports, named checks unique ... *)
Theorem C02_mysql_laws : refl_laws mysql_driver /\ sim_laws mysql_driver mysql_dwf.
Proof. exact (conj mysql_refl_laws mysql_sim_laws). Qed.

(** ... hence self, copy and every reordering give the empty diff for MySQL. *)
Theorem C02_mysql_perm_empty :
  forall (skip : tag -> bool) s s', wf_schema mysql_dwf s -> schema_perm s s' ->
  mysql_schema_diff skip s s' = Some [].
Proof. exact (fun skip => schema_diff_perm mysql_driver skip mysql_dwf mysql_refl_laws mysql_sim_laws). Qed.

(** 4b. The same for the PostgreSQL instance. *)
Theorem C02_postgres_laws : refl_laws pg_driver /\ sim_laws pg_driver pg_dwf.
Proof. exact (conj pg_refl_laws pg_sim_laws). Qed.

Theorem C02_postgres_perm_empty :
  forall (skip : tag -> bool) s s', wf_schema pg_dwf s -> schema_perm s s' ->
  pg_schema_diff skip s s' = Some [].
Proof. exact (fun skip => schema_diff_perm pg_driver skip pg_dwf pg_refl_laws pg_sim_laws). Qed.

(** 4c. MySQL ColumnChange: exactly the union of the seven attribute bits, each decided by
    its own comparison (comment, NULL, type class / identity, default, generated, charset,
    collation). *)
Theorem C02_mysql_column_bits :
  forall t c c', c_class c <> 0%N -> c_class c' <> 0%N -> mysql_supported_class (c_class c) = true ->
  mysql_column_change t c c' =
  Some (N.lor (N.lor (N.lor (N.lor (N.lor (N.lor
          (comment_change (c_comment c) (c_comment c'))
          (bit (negb (Bool.eqb (c_null c) (c_null c'))) ChangeNull))
          (bit (negb (N.eqb (c_class c) (c_class c')) || negb (str_eqb (fld 0 (c_T c)) (fld 0 (c_T c')))) ChangeType))
          (bit (mysql_default_changed c c') ChangeDefault))
          (bit (mysql_generated_changed c c') ChangeGenerated))
          (bit (mysql_cs_changed 1 c c') ChangeCharset))
          (bit (mysql_cs_changed 2 c c') ChangeCollate)).
Proof. exact mysql_column_bits. Qed.

(** 4d. MySQL bool columns (since fix C02-mysql-bool-default-unknown-value; before it a default
    going from 1 to (1 = 2), 2, 'yes' was unreported -- the former C02_mysql_bool_default_refuted):
    two known truth values are compared as truth values ... *)
Theorem C02_mysql_bool_default_known :
  forall c c' d1 d2 a b,
  c_class c = MY_BOOL -> default_value c = Some d1 -> default_value c' = Some d2 ->
  bool_value d1 = Some a -> bool_value d2 = Some b ->
  mysql_default_changed c c' = negb (Bool.eqb a b).
Proof. exact mysql_bool_default_known. Qed.

(** ... and as soon as one of the two is a value boolValue does not know, every textual
    difference is reported. *)
Theorem C02_mysql_bool_default_reported :
  forall c c' d1 d2,
  c_class c = MY_BOOL -> default_value c = Some d1 -> default_value c' = Some d2 ->
  bool_value d1 = None \/ bool_value d2 = None ->
  mysql_default_changed c c' = negb (str_eqb d1 d2).
Proof. exact mysql_bool_default_unknown. Qed.

(** 4e. PostgreSQL user-defined types (since fix C02-postgres-udt-type-without-scope; before it
    citext -> ltree was unreported by a differ without a schema scope -- the former
    C02_postgres_udt_type_refuted): without a scope (DefaultDiff, realm connections) the
    change is reported exactly when the names differ ... *)
Theorem C02_postgres_udt_type_noscope :
  forall c c', c_class c = PG_UDT -> c_class c' = PG_UDT ->
  pg_type_changed_ns [] c c' = Some (negb (str_eqb (fld 0 (c_T c)) (fld 0 (c_T c')))).
Proof. exact pg_udt_type_changed_noscope. Qed.

(** ... and with a schema scope ns (a connection whose URL carries a search_path) exactly when
    the names differ after the "ns." / "\"ns\"." qualifier is cut off. *)
Theorem C02_postgres_udt_type_scope :
  forall ns c c', ns <> [] -> c_class c = PG_UDT -> c_class c' = PG_UDT ->
  pg_type_changed_ns ns c c' =
  Some (negb (str_eqb (trim_schema ns (fld 0 (c_T c'))) (trim_schema ns (fld 0 (c_T c))))).
Proof. exact pg_udt_type_changed_ns. Qed.

(** the laws hold for every schema scope *)
Theorem C02_postgres_ns_laws :
  forall ns, refl_laws (pg_driver_ns ns) /\ sim_laws (pg_driver_ns ns) pg_dwf.
Proof. exact (fun ns => conj (pg_refl_laws_ns ns) (pg_sim_laws_ns ns)). Qed.

(** 4f. ... what holds: in every other known class except arrays the type bit is set exactly
    when the class or the type identity differs, and ColumnChange is the union of its six bits. *)
Theorem C02_postgres_column_bits_except :
  forall t c c' gc,
  c_class c <> 0%N -> c_class c' <> 0%N -> pg_known_class (c_class c) = true ->
  c_class c <> PG_UDT -> c_class c <> PG_ARRAY -> pg_generated_changed c c' = Some gc ->
  pg_column_change t c c' =
  Some (N.lor (N.lor (N.lor (N.lor (N.lor
          (comment_change (c_comment c) (c_comment c'))
          (bit (negb (Bool.eqb (c_null c) (c_null c'))) ChangeNull))
          (bit (negb (N.eqb (c_class c) (c_class c')) || negb (str_eqb (fld 0 (c_T c)) (fld 0 (c_T c')))) ChangeType))
          (bit (pg_default_changed c c') ChangeDefault))
          (bit (pg_identity_changed c c') ChangeAttr))
          (bit gc ChangeGenerated)).
Proof.
  intros t c c' gc H H' K U A G.
  exact (pg_column_bits [] t c c' _ gc (pg_type_changed_exact [] c c' H H' K U A) G).
Qed.

(** 4h. Numeric defaults of MySQL columns (round 4).  equalIntValues: two literals that
    strconv.ParseInt accepts (|v| <= MaxInt64) are compared exactly -- also above 2^53 ... *)
Theorem C02_mysql_int_default_except :
  forall x1 x2 f1 t1 f2 t2 v1 v2,
  parse_int64 (to_lower (trim quote_space x1)) = Some v1 ->
  parse_int64 (to_lower (trim quote_space x2)) = Some v2 ->
  equal_int_values x1 x2 f1 t1 f2 t2 =
  str_eqb (to_lower (trim quote_space x1)) (to_lower (trim quote_space x2))
  || (Bool.eqb (fst v1) (fst v2) && N.eqb (snd v1) (snd v2)).
Proof. exact equal_int_values_exact. Qed.

(** ... but "two different integer defaults are reported" is FALSE above MaxInt64 (BIGINT UNSIGNED):
    18446744073709551615 and 18446744073709551614 are both read through float64 and int64(f).
    Reproduced on the Go code (known finding C02-mysql-unsigned-bigint-default-above-int64-unreported);
    the projections in the witness are what strconv / the conversion give on the harness' platform. *)
Theorem C02_mysql_uint_default_refuted :
  exists x1 x2 f t, x1 <> x2 /\ digits_val 0 x1 <> None /\ digits_val 0 x2 <> None /\
    equal_int_values x1 x2 f t f t = true.
Proof.
  exists w_u64_a, w_u64_b, w_u64_f, w_u64_t. split; [discriminate|]. split; [vm_compute; discriminate|].
  split; [vm_compute; discriminate|]. exact w_u64_equal.
Qed.

(** equalFloatValues (FLOAT, DOUBLE and DECIMAL columns): equal texts, or equal float64 values ... *)
Theorem C02_mysql_float_default_except :
  forall x1 x2 f1 f2, f1 <> [] -> f2 <> [] ->
  equal_float_values x1 x2 f1 f2 =
  str_eqb (to_lower (trim quote_space x1)) (to_lower (trim quote_space x2)) || str_eqb f1 f2.
Proof. exact equal_float_values_spec. Qed.

(** ... which is the column's own view for DOUBLE, but "two different decimal defaults are reported"
    is FALSE for DECIMAL columns: 1.0000000000000001 -> 1.0 in a decimal(60,25) column yields no
    change (known finding C02-mysql-decimal-default-compared-as-float64). *)
Theorem C02_mysql_decimal_default_refuted :
  exists c c', c_class c = MY_DECIMAL /\ c_class c' = MY_DECIMAL /\ c_default c <> c_default c' /\
               forall t, mysql_column_change t c c' = Some 0%N.
Proof.
  exists (w_dec_col w_dec_a), (w_dec_col w_dec_b). split; [reflexivity|]. split; [reflexivity|].
  split; [discriminate|]. exact w_dec_unreported.
Qed.

(** 4g. When is the side condition of 2b met: a driver without FindGeneratedIndex (MySQL,
    PostgreSQL) finds no similar index in a table whose indexes are all named. *)
Theorem C02_no_similar_index :
  forall (D : DiffDriver) to idx1,
  dd_find_generated_index D = None -> (forall i, In i (t_idx to) -> i_name i <> []) ->
  similar_unnamed_index D to idx1 = None.
Proof. exact similar_unnamed_none. Qed.


(** * Round 3 *)

(** 5a. indexDiffT with unnamed desired indexes, for every driver and every pair of tables:
    every current index contributes by its own partner -- its namesake, or, under a generated
    name, the first similar unnamed desired index ([partner_pos]) -- a ModifyIndex with the
    bits of indexChange, nothing, or a DropIndex; every desired index is added unless its
    position is the partner of some current index ([claimed]) or it has a namesake.  The
    [exists] set of the Go code is exactly the set of claimed positions. *)
Theorem C02_indexes_unnamed_exact :
  forall (D : DiffDriver) (skip : tag -> bool) from to,
  index_diff_t D skip from to =
  add_or_skip skip (flat_map (from_step D from to) (t_idx from) ++ add_step D from to 0 (t_idx to)).
Proof. exact index_diff_t_unnamed. Qed.

(** 5b. "a current index without a partner is dropped, a desired one without a partner is added,
    each desired index is the partner of at most one current index" is FALSE for all three
    differs: two current UNIQUE (age) with the generated names age, age_2 and ONE similar
    unnamed desired index give no DropIndex; against TWO unnamed desired ones (nothing
    differs) they give an AddIndex.  Reproduced on the Go code for MySQL, PostgreSQL and SQLite
    (harness class unnamed-group; known finding
    C02-similar-generated-indexes-share-one-unnamed-partner). *)
Theorem C02_unnamed_group_refuted :
  exists from to1 to2 c1 c2 u,
    t_idx from = [c1; c2] /\ t_idx to1 = [u] /\ t_idx to2 = [u; u] /\ i_name u = [] /\
    mysql_is_generated_index_name from c1 = true /\ mysql_is_generated_index_name from c2 = true /\
    idx_match mysql_driver c1 u = true /\ idx_match mysql_driver c2 u = true /\
    index_diff_t mysql_driver no_skip from to1 = [] /\
    index_diff_t mysql_driver no_skip from to2 = [AddIndex []].
Proof.
  exists w_grp_from, w_grp_to1, w_grp_to2, (w_uq s_age), (w_uq s_age_2), (w_uq []).
  destruct w_group_generated as [G1 [G2 [M1 M2]]].
  repeat split; try reflexivity; try assumption.
Qed.

(** ... what holds: a current index is dropped exactly when it has no namesake and -- unless its
    name is not a generated one -- no similar unnamed desired index at all (also one that is
    already the partner of another current index exempts it). *)
Theorem C02_unnamed_group_except :
  forall (D : DiffDriver) from to c,
  from_step D from to c = [DropIndex (i_name c)] <->
  find_idx (i_name c) (t_idx to) = None /\
  (dd_is_generated_index_name D from c = false \/ similar_unnamed_index D to c = None).
Proof. exact from_step_drop. Qed.

(** 5d. ... and when no two current indexes share a partner ([positions]: the partner positions of
    the current indexes, in order, without repetition) and partners are positions of the desired
    list, the pairs are counted once on each side: as many desired indexes are exempt from
    AddIndex by a partner as current indexes are exempt from DropIndex by one.  (The witness of
    5b violates exactly the NoDup hypothesis: positions = [0; 0].) *)
Theorem C02_unnamed_pairing_count :
  forall (D : DiffDriver) from to,
  NoDup (positions D from to (t_idx from)) ->
  (forall k, In k (positions D from to (t_idx from)) -> k < length (t_idx to)) ->
  length (filter (claimed D from to) (seq 0 (length (t_idx to)))) = length (filter (has_partner D from to) (t_idx from)).
Proof. exact pairing_count. Qed.

(** 5c. MySQL names unnamed functional indexes functional_index, functional_index_2, ...: a
    name functional_index_<rest> is a generated one exactly when <rest> is a number > 1 (since
    fix C02-mysql-functional-index-suffix; before it IsGeneratedIndexName answered false for
    every such name -- the former C02_mysql_functional_index_refuted). *)
Theorem C02_mysql_functional_index :
  forall t idx rest, i_name idx = FUNCTIONAL_INDEX ++ ch_us :: rest ->
  mysql_is_generated_index_name t idx = parse_int_gt 1 rest.
Proof. exact mysql_functional_suffix. Qed.

(** 6a. The MySQL differ of EVERY server variant (CHECK support, functional-index support,
    charset -> default collation and collation -> charset tables -- all that mysql.Open and
    mysqlversion let the differ depend on, except lower_case_table_names and display widths)
    satisfies the laws, with [mysql_dwf_v]: [mysql_dwf], columns carrying charset and collation
    together, and no CHECK on a server without CHECK support ... *)
Theorem C02_mysql_variant_laws :
  forall v, refl_laws (mysql_driver_v v) /\ sim_laws (mysql_driver_v v) (mysql_dwf_v v).
Proof. exact (fun v => conj (mysql_refl_laws_v v) (mysql_sim_laws_v v)). Qed.

(** ... hence self, copy and every reordering give the empty diff on every server. *)
Theorem C02_mysql_variant_perm_empty :
  forall v (skip : tag -> bool) s s', wf_schema (mysql_dwf_v v) s -> schema_perm s s' ->
  mysql_schema_diff_v v skip s s' = Some [].
Proof. exact (fun v skip => schema_diff_perm (mysql_driver_v v) skip (mysql_dwf_v v) (mysql_refl_laws_v v) (mysql_sim_laws_v v)). Qed.

(** 6b. ColumnChange of every variant: the union of the seven attribute bits; the charset /
    collation bits compare the current column with the desired one *after* defaultCharset /
    defaultCollate completed it from the variant's tables ([mysql_fill]): a lone charset counts
    with its default collation, a lone collation with its charset. *)
Theorem C02_mysql_variant_column_bits :
  forall v t c c', c_class c <> 0%N -> c_class c' <> 0%N -> mysql_supported_class (c_class c) = true ->
  mysql_column_change_v v t c c' =
  Some (N.lor (N.lor (N.lor (N.lor (N.lor (N.lor
          (comment_change (c_comment c) (c_comment c'))
          (bit (negb (Bool.eqb (c_null c) (c_null c'))) ChangeNull))
          (bit (negb (N.eqb (c_class c) (c_class c')) || negb (str_eqb (fld 0 (c_T c)) (fld 0 (c_T c')))) ChangeType))
          (bit (mysql_default_changed c c') ChangeDefault))
          (bit (mysql_generated_changed c c') ChangeGenerated))
          (bit (mysql_cs_changed_v v 1 c c') ChangeCharset))
          (bit (mysql_cs_changed_v v 2 c c') ChangeCollate)).
Proof. exact mysql_column_bits_v. Qed.

Theorem C02_mysql_variant_fill :
  forall v T,
  ((fld 1 T = [] <-> fld 2 T = []) -> mysql_fill v T = (fld 1 T, fld 2 T)) /\
  (forall d, fld 1 T <> [] -> fld 2 T = [] -> assoc (fld 1 T) (mv_ch2co v) = Some d -> mysql_fill v T = (fld 1 T, d)) /\
  (forall d, fld 1 T = [] -> fld 2 T <> [] -> assoc (fld 2 T) (mv_co2ch v) = Some d -> mysql_fill v T = (d, fld 2 T)).
Proof.
  intros v T. split; [exact (mysql_fill_together v T)|]. split.
  - intros d. exact (mysql_fill_lone_charset v T d).
  - intros d. exact (mysql_fill_lone_collation v T d).
Qed.

(** 6c. History independence, as far as the model can carry it: a differ's answer is a function
    of its variant and the pair, and of the variant's tables it reads only the entries of the
    desired column's own lone charset / lone collation -- two servers whose tables agree there
    (however they differ elsewhere, whatever other servers added) give the same ColumnChange.
    That the Go differs ARE such functions (no table shared or extended across differs, no
    answer depending on earlier calls) is what the history stage of the harness checks. *)
Theorem C02_mysql_variant_local :
  forall v v' t from to,
  assoc (fld 1 (c_T to)) (mv_ch2co v) = assoc (fld 1 (c_T to)) (mv_ch2co v') ->
  assoc (fld 2 (c_T to)) (mv_co2ch v) = assoc (fld 2 (c_T to)) (mv_co2ch v') ->
  mysql_column_change_v v t from to = mysql_column_change_v v' t from to.
Proof. exact mysql_column_change_local. Qed.

(** 6d. On columns that carry charset and collation together a server with CHECK and
    functional-index support (mysql.DefaultDiff, MySQL >= 8.0.16) is the instance of 4a-4d,
    whatever its tables say. *)
Theorem C02_mysql_variant_default :
  forall v t from to, mv_check v = true -> mv_index_expr v = true -> cs_together to ->
  dd_column_change (mysql_driver_v v) t from to = dd_column_change mysql_driver t from to /\
  (forall i, dd_is_generated_index_name (mysql_driver_v v) t i = dd_is_generated_index_name mysql_driver t i) /\
  (forall t', dd_table_attr_diff (mysql_driver_v v) t t' = dd_table_attr_diff mysql_driver t t').
Proof. exact mysql_driver_v_default. Qed.

(** 6e. A server without CHECK support refuses every desired table that has a CHECK. *)
Theorem C02_mysql_variant_no_check :
  forall v from to, mv_check v = false -> t_checks to <> [] -> mysql_table_attr_diff_v v from to = None.
Proof. exact mysql_no_check_error. Qed.

(** 6f. History through the desired graph.  Since fix C02-mysql-default-charset-copy the differ
    completes a *copy* of the desired column's attributes (before it, defaultCharset /
    defaultCollate appended to the desired column itself and a differ of another server, shown
    the same graph, read the first server's default as the user's choice: [fill_pair_other_server],
    the former C02_mysql_fill_other_server_refuted).  The answer is [mysql_column_change_v] of the
    attributes as given -- a function of (variant, from, to) -- and completing is idempotent, so a
    caller that does store the completed attributes gets the same answer from the same server. *)
Theorem C02_mysql_fill_idempotent :
  forall v p, fill_pair v (fill_pair v p) = fill_pair v p.
Proof. exact fill_pair_idempotent. Qed.

(** * Round 5 *)

(** 7a. SQLite, foreign keys under numeric symbols ("0", "1", ...: the ordinals the inspector
    reports for unnamed constraints).  Normalize never pairs such a key of the current side by
    its symbol -- only by shape (sameFK): its loop is the shape-only loop; and a numeric key
    without a same-shape partner keeps its symbol and claims no desired key, even when the
    desired side has a key under the same ordinal. *)
Theorem C02_sqlite_numeric_fk_symbols :
  forall n1 n2 fk1 tofks used, is_uint (f_symbol fk1) = true ->
  normalize_fk_inner n1 n2 fk1 tofks used = normalize_fk_inner_shape n1 n2 fk1 tofks used /\
  ((forall fk2, In fk2 tofks -> same_fk n1 n2 fk1 fk2 = false) ->
   normalize_fk_inner n1 n2 fk1 tofks used = (fk1, used)).
Proof.
  intros n1 n2 fk1 tofks used U. split.
  - exact (normalize_fk_inner_numeric n1 n2 fk1 tofks used U).
  - exact (normalize_fk_inner_numeric_unpaired n1 n2 fk1 tofks used U).
Qed.

(** 7b. "one DropForeignKey per dropped key and nothing else" is FALSE for SQLite when both
    sides are inspected states (numeric symbols) and the dropped key is not the last one: the
    unpaired key keeps its ordinal (7a), which on the desired side -- numbered without it --
    belongs to another key; tableDiff looks it up by symbol, finds that other key and reports
    ModifyForeignKey (columns, referenced table) instead of DropForeignKey.  Witness: t with
    keys 0: x->a, 1: y->b, 2: z->c; desired 0: x->a, 1: z->c (y->b dropped), and the same with
    the first key dropped.  Reproduced on the Go code: harness family numfk-shift (27 cases),
    known finding C02-sqlite-dropped-numeric-fk-ordinal-reused.  Dropping the last key, adding
    a key anywhere and reordering are answered correctly (Example C02_ex_numfk_shift). *)
Theorem C02_sqlite_numeric_fk_drop_refuted :
  exists from to1 to2,
    forallb (fun f => is_uint (f_symbol f)) (flat_map t_fks (s_tables from ++ s_tables to1 ++ s_tables to2)) = true /\
    SchemaDiff sqlite_driver no_skip from to1 <> Some [ModifyTable [116]%N [DropForeignKey [49]%N]] /\
    SchemaDiff sqlite_driver no_skip from to1 =
      Some [ModifyTable [116]%N [ModifyForeignKey [49]%N (N.lor (N.lor ChangeRefTable ChangeRefColumn) ChangeColumn)]] /\
    SchemaDiff sqlite_driver no_skip from to2 <> Some [ModifyTable [116]%N [DropForeignKey [48]%N]].
Proof.
  exists n_from, n_to_mid, n_to_first. split; [exact n_all_numeric|]. split; [|split].
  - rewrite n_diff_mid. discriminate.
  - exact n_diff_mid.
  - rewrite n_diff_first. discriminate.
Qed.

(** 8a. RealmDiff is exact on every script of schemas (keyed by name; the desired realm may
    list them in any order): per dropped schema one DropSchema, per kept schema exactly
    schemaDiff's list (8b), per added schema AddSchema followed by one AddTable per table of it
    -- each through the skip filter on its own --, nothing else.  For every driver [D], every
    SchemaAttrDiff [A], every skip filter. *)
Theorem C02_exact_realm :
  forall (D : DiffDriver) (A : realm -> schema_x -> schema_x -> list sattr) (rskip : rtag -> bool)
         from to ps adds,
  r_schemas from = map fst ps -> script_ok sx_name ps adds ->
  Permutation (r_schemas to) (kept ps ++ adds) ->
  (forall s s', In (s, Some s') ps -> schema_diff_x D A rskip from s s' <> None) ->
  exists adds', Permutation adds adds' /\
    RealmDiff D A rskip from to =
    Some (rs_expected D A rskip from ps ++ flat_map (add_schema_changes rskip) adds').
Proof. exact realm_diff_exact. Qed.

(** 8b. schemaDiff with schema attributes on every script of tables: one ModifySchema carrying
    exactly SchemaAttrDiff's list iff that list is not empty, then 2g's table changes. *)
Theorem C02_exact_schema_attrs :
  forall (D : DiffDriver) (A : realm -> schema_x -> schema_x -> list sattr) (rskip : rtag -> bool)
         r from to ps adds,
  sx_name from = sx_name to -> s_tables (sx_schema from) = map fst ps -> script_ok t_name ps adds ->
  Permutation (s_tables (sx_schema to)) (kept ps ++ adds) ->
  (forall t t', In (t, Some t') ps -> table_diff D (skip_t rskip) t t' <> None) ->
  exists adds', Permutation adds adds' /\
    schema_diff_x D A rskip r from to =
    Some (modify_schema_expected A rskip r from to
          ++ map (InSchema (sx_name to))
               (tbl_expected D (skip_t rskip) ps
                ++ add_or_skip_s (skip_t rskip) (map (fun t => AddTable (t_name t)) adds'))).
Proof. exact schema_diff_x_exact. Qed.

(** 8c. An added schema: AddSchema (unless skipped) followed by its AddTables (unless skipped),
    the two kinds filtered independently. *)
Theorem C02_realm_add_schema :
  forall (rskip : rtag -> bool) s,
  let tables := map (InSchema (sx_name s))
                    (add_or_skip_s (skip_t rskip) (map (fun t => AddTable (t_name t)) (s_tables (sx_schema s)))) in
  (rskip RtAddSchema = false -> add_schema_changes rskip s = AddSchema (sx_name s) :: tables) /\
  (rskip RtAddSchema = true -> add_schema_changes rskip s = tables).
Proof.
  intros rskip s. split.
  - exact (add_schema_changes_kept rskip s).
  - exact (add_schema_changes_skipped rskip s).
Qed.

(** 8d. The realm with itself, with a copy, with the schemas (and everything inside them) in
    any other order: empty, for every driver satisfying the laws whose SchemaAttrDiff reports
    nothing on equal attributes, for every skip filter. *)
Theorem C02_perm_empty_realm :
  forall (D : DiffDriver) (A : realm -> schema_x -> schema_x -> list sattr) (rskip : rtag -> bool)
         (dwf : table -> Prop) r r',
  refl_laws D -> sim_laws D dwf -> attr_refl_law A ->
  wf_realm dwf r -> realm_perm r r' -> RealmDiff D A rskip r r' = Some [].
Proof. exact (fun D A rskip dwf r r' => realm_diff_perm D A rskip dwf r r'). Qed.

Theorem C02_self_empty_realm :
  forall (D : DiffDriver) (A : realm -> schema_x -> schema_x -> list sattr) (rskip : rtag -> bool)
         (dwf : table -> Prop) r,
  refl_laws D -> sim_laws D dwf -> attr_refl_law A -> wf_realm dwf r -> RealmDiff D A rskip r r = Some [].
Proof. exact (fun D A rskip dwf r => realm_diff_self D A rskip dwf r). Qed.

(** 8e. ... which holds for the three community drivers (every MySQL server variant, every
    PostgreSQL schema scope). *)
Theorem C02_realm_laws :
  attr_refl_law sqlite_schema_attr_diff /\ attr_refl_law mysql_schema_attr_diff /\
  forall ns, attr_refl_law (pg_schema_attr_diff ns).
Proof. exact (conj sqlite_attr_refl (conj mysql_attr_refl pg_attr_refl)). Qed.

Theorem C02_realm_perm_empty_dialects :
  (forall rskip r r', wf_realm sqlite_dwf r -> realm_perm r r' -> sqlite_realm_diff rskip r r' = Some []) /\
  (forall v rskip r r', wf_realm (mysql_dwf_v v) r -> realm_perm r r' -> mysql_realm_diff_v v rskip r r' = Some []) /\
  (forall ns rskip r r', wf_realm pg_dwf r -> realm_perm r r' -> pg_realm_diff_ns ns rskip r r' = Some []).
Proof.
  split; [|split].
  - intros rskip r r'. exact (realm_diff_perm sqlite_driver _ rskip sqlite_dwf r r' sqlite_refl_laws sqlite_sim_laws sqlite_attr_refl).
  - intros v rskip r r'. exact (realm_diff_perm (mysql_driver_v v) _ rskip (mysql_dwf_v v) r r' (mysql_refl_laws_v v) (mysql_sim_laws_v v) mysql_attr_refl).
  - intros ns rskip r r'. exact (realm_diff_perm (pg_driver_ns ns) _ rskip pg_dwf r r' (pg_refl_laws_ns ns) (pg_sim_laws_ns ns) (pg_attr_refl ns)).
Qed.

(** 8f. MySQL SchemaAttrDiff, per attribute (charset, collation -- the same switch): attribute
    added -> AddAttr; both present -> ModifyAttr iff the values differ; attribute removed from
    the desired schema -> ModifyAttr to the realm's value iff the realm has one and it differs
    (a charset cannot be dropped), else nothing; absent on both sides -> nothing. *)
Theorem C02_mysql_schema_attr_exact :
  forall a from top to,
  match from, to with
  | None, None => mysql_attr_change a from top to = []
  | None, Some t => mysql_attr_change a from top to = [SAddAttr a t]
  | Some f, Some t => (f = t -> mysql_attr_change a from top to = []) /\
                      (f <> t -> mysql_attr_change a from top to = [SModifyAttr a f t])
  | Some f, None =>
      match top with
      | None => mysql_attr_change a from top to = []
      | Some p => (f = p -> mysql_attr_change a from top to = []) /\
                  (f <> p -> mysql_attr_change a from top to = [SModifyAttr a f p])
      end
  end.
Proof. exact mysql_attr_change_exact. Qed.

(** 8g. sqlx.CommentDiff (PostgreSQL schema comments; the same function serves table comments):
    a comment added -> AddAttr unless it is empty; removed -> ModifyAttr to the empty comment;
    both present -> ModifyAttr iff the unquoted texts differ. *)
Theorem C02_comment_diff_exact :
  forall from to,
  match from, to with
  | None, None => comment_diff from to = []
  | None, Some t => (t = [] -> comment_diff from to = []) /\
                    (t <> [] -> comment_diff from to = [SAddAttr ATTR_COMMENT t])
  | Some f, None => comment_diff from to = [SModifyAttr ATTR_COMMENT f []]
  | Some f, Some t =>
      forall v1 v2, unquote f = Some v1 -> unquote t = Some v2 ->
      (v1 = v2 -> comment_diff from to = []) /\
      (v1 <> v2 -> comment_diff from to = [SModifyAttr ATTR_COMMENT f t])
  end.
Proof. exact comment_diff_exact. Qed.

(** 9. SQLite, the whole SchemaDiff in one statement (the composition of 2g with 3a over all
    tables at once, asked for since round 1): for a script of tables and, per kept table, the
    scripts of its columns, foreign keys and checks ([table_script], [ts_ok]), SchemaDiff returns
    exactly one DropTable per dropped table, one ModifyTable per kept table whose expected list
    [sqlite_table_expected] is not empty, carrying exactly that list -- WITHOUT ROWID / STRICT
    flags, checks, columns, primary key, indexes, foreign keys -- and one AddTable per added
    table; every kind through the skip filter; nothing else.  The index part is the closed form of
    5a, valid for all pairs of index lists, so the positive similarUnnamedIndex /
    FindGeneratedIndex match (a generated name paired with an unnamed desired index: neither
    dropped nor added) is included -- the side condition of 2b / 2f / 3a is gone.
    Still partial: [ts_ok] assumes that Normalize has nothing to rewrite in the pair
    ([fk_stable]: no foreign key is re-symbolled -- excludes the numeric symbols of 7b;
    [idx_norm_stable]: no UNIQUE autoindex to rename -- those pairs are covered for the copy
    case by C02_sqlite_copy_empty only), and columns are typed. *)
Theorem C02_exact_sqlite_partial :
  forall skip from to ps adds scripts,
  s_name from = s_name to -> s_tables from = map fst ps -> script_ok t_name ps adds ->
  Permutation (s_tables to) (kept ps ++ adds) ->
  Forall2 entry_ok ps scripts ->
  exists adds' scripts', Permutation adds adds' /\ Forall2 ts_perm scripts scripts' /\
    SchemaDiff sqlite_driver skip from to =
    Some (sqlite_schema_expected skip ps scripts' ++ add_or_skip_s skip (map (fun t => AddTable (t_name t)) adds')).
Proof. exact sqlite_schema_diff_closed. Qed.

(** 10. Table attributes of MySQL / PostgreSQL (DiffTableAttrs.v: the wrapper [table_x] around
    [table]; [schema_tx] with the schema's charset / collation as the inherited values).

    10a. tableDiff with attributes = TableAttrDiff's attribute changes (never filtered: they are
    appended, not passed through AddOrSkip) in front of 2f's list; an error of either part is an
    error of the whole. *)
Theorem C02_exact_table_attrs :
  forall (D : DiffDriver) TA (skip : tag -> bool) pcs pco from to a r,
  TA pcs pco from to = Some a -> table_diff D skip (tx_table from) (tx_table to) = Some r ->
  table_diff_x D TA skip pcs pco from to = Some (a ++ r).
Proof. exact table_diff_x_exact. Qed.

(** 10b. SchemaDiff over tables with attributes, on every script of tables (as 2g). *)
Theorem C02_exact_schema_tx :
  forall (D : DiffDriver) TA (skip : tag -> bool) from to ps adds,
  stx_name from = stx_name to -> stx_tables from = map fst ps -> script_ok tx_name ps adds ->
  Permutation (stx_tables to) (kept ps ++ adds) ->
  (forall t t', In (t, Some t') ps -> table_diff_x D TA skip (stx_charset from) (stx_collate from) t t' <> None) ->
  exists adds', Permutation adds adds' /\
    SchemaDiffX D TA skip from to =
    Some (tbl_expected_x D TA skip (stx_charset from) (stx_collate from) ps
          ++ add_or_skip_s skip (map (fun t => AddTable (tx_name t)) adds')).
Proof. exact schema_diff_tx_exact. Qed.

(** 10c. MySQL TableAttrDiff (attribute part) = six independent parts in the order of the code:
    AUTO_INCREMENT, comment (8g), charset and collation (8f, inherited value = the schema's),
    engine, system versioning. *)
Theorem C02_mysql_table_attrs :
  forall pcs pco from to,
  mysql_table_attrs_x pcs pco from to =
  Some (mysql_autoinc_change (tx_autoinc from) (tx_autoinc to)
        ++ map sattr_change (comment_diff (tx_comment from) (tx_comment to))
        ++ map sattr_change (mysql_attr_change ATTR_CHARSET (tx_charset from) pcs (tx_charset to))
        ++ map sattr_change (mysql_attr_change ATTR_COLLATE (tx_collate from) pco (tx_collate to))
        ++ mysql_engine_change (tx_engine from) (tx_engine to)
        ++ mysql_sysver_change (tx_sysver from) (tx_sysver to)).
Proof. exact mysql_table_attrs_parts. Qed.

(** 10d. AUTO_INCREMENT is reported exactly when the desired table has a value > 1 that is above
    the current one (absent = 0): it only seeds the counter. *)
Theorem C02_mysql_autoinc_exact :
  forall from to,
  mysql_autoinc_change from to =
  match to with
  | Some t => if N.ltb 1 t && N.ltb (match from with Some f => f | None => 0%N end) t
              then [ModifyAttr ATTR_AUTOINC] else []
  | None => []
  end.
Proof. exact mysql_autoinc_exact. Qed.

(** 10e. ENGINE: both present -> ModifyAttr iff the names differ ignoring case; removed from the
    desired table -> ModifyAttr (to InnoDB) iff the current engine is neither flagged as the
    server default nor InnoDB; added to a table that had none -> ModifyAttr unless flagged as
    the default (also for InnoDB: the code compares the absent current name with "innodb"). *)
Theorem C02_mysql_engine_exact :
  forall from to,
  match from, to with
  | Some (fv, fd), Some (tv, td) =>
      (to_lower fv = to_lower tv -> mysql_engine_change from to = []) /\
      (to_lower fv <> to_lower tv -> mysql_engine_change from to = [ModifyAttr ATTR_ENGINE])
  | Some (fv, fd), None =>
      (fd = true \/ to_lower fv = INNODB_LOWER -> mysql_engine_change from to = []) /\
      (fd = false /\ to_lower fv <> INNODB_LOWER -> mysql_engine_change from to = [ModifyAttr ATTR_ENGINE])
  | None, Some (tv, td) =>
      mysql_engine_change from to = if td then [] else [ModifyAttr ATTR_ENGINE]
  | None, None => mysql_engine_change from to = []
  end.
Proof. exact mysql_engine_exact. Qed.

(** 10f. PostgreSQL: a partition key that differs is an error of the diff (no change expresses
    it); equal keys and equal comments report nothing; and for both dialects equal attributes
    report nothing whatever the schema's charset / collation. *)
Theorem C02_postgres_partition_error :
  forall pcs pco from to, tx_partition from <> tx_partition to -> pg_table_attrs_x pcs pco from to = None.
Proof. exact pg_partition_error. Qed.

Theorem C02_table_attr_laws : ta_refl_law mysql_table_attrs_x /\ ta_refl_law pg_table_attrs_x.
Proof. exact (conj mysql_ta_refl pg_ta_refl). Qed.

(** 10g. A schema (tables with attributes) diffed with a copy: empty, for every driver with the
    laws and every TableAttrDiff silent on equal attributes -- MySQL of every server variant,
    PostgreSQL of every scope. *)
Theorem C02_self_empty_tx :
  forall (D : DiffDriver) TA (skip : tag -> bool) (dwf : table -> Prop) s,
  refl_laws D -> sim_laws D dwf -> ta_refl_law TA -> wf_schema_tx dwf s ->
  SchemaDiffX D TA skip s s = Some [].
Proof. exact (fun D TA skip dwf s => schema_diff_tx_self D TA skip dwf s). Qed.

Theorem C02_self_empty_tx_dialects :
  (forall v skip s, wf_schema_tx (mysql_dwf_v v) s -> mysql_schema_diff_tx v skip s s = Some []) /\
  (forall ns skip s, wf_schema_tx pg_dwf s -> pg_schema_diff_tx ns skip s s = Some []).
Proof.
  split.
  - intros v skip s. exact (schema_diff_tx_self (mysql_driver_v v) _ skip (mysql_dwf_v v) s (mysql_refl_laws_v v) (mysql_sim_laws_v v) mysql_ta_refl).
  - intros ns skip s. exact (schema_diff_tx_self (pg_driver_ns ns) _ skip pg_dwf s (pg_refl_laws_ns ns) (pg_sim_laws_ns ns) pg_ta_refl).
Qed.

(** 11. CHECK constraints with their dialect flag (MySQL [NOT] ENFORCED, PostgreSQL NO INHERIT;
    DiffCheckFlags.v).  11a. ChecksDiff over flagged checks is exact on every script (as 2d, the
    compare function now also requires equal flags). *)
Theorem C02_exact_checks_flags :
  forall fromC toC ps adds,
  fromC = map fst ps -> Permutation toC (kept ps ++ adds) ->
  (forall c o, In (c, o) ps -> forall c2, In c2 toC -> check_compare_to_x c c2 = true -> o = Some c2) ->
  (forall c c2, In (c, Some c2) ps -> check_compare_to_x c c2 = true) ->
  (forall c2, In c2 (kept ps) -> existsb (check_compare_to_x c2) (map fst ps) = true) ->
  (forall a, In a adds -> existsb (check_compare_to_x a) (map fst ps) = false) ->
  exists adds', Permutation adds adds' /\
    checks_diff_x fromC toC =
    chk_expected_x ps ++ map (fun c => AddCheck (kx_name c) (kx_expr c)) adds'.
Proof. exact checks_diff_x_exact. Qed.

(** 11b. The flag alone: flipping it on a named check is exactly one ModifyCheck (same name, same
    expression); on an unnamed check (matched by expression *and* flag) it is a DropCheck and an
    AddCheck; a list of named checks with distinct names diffed with itself gives nothing. *)
Theorem C02_check_flag_alone :
  (forall c, kx_name c <> [] ->
     checks_diff_x [c] [mkCheckX (kx_name c) (kx_expr c) (negb (kx_flag c))] =
     [ModifyCheck (kx_name c) (kx_expr c) (kx_name c) (kx_expr c)]) /\
  (forall c, kx_name c = [] ->
     checks_diff_x [c] [mkCheckX (kx_name c) (kx_expr c) (negb (kx_flag c))] =
     [DropCheck [] (kx_expr c); AddCheck [] (kx_expr c)]) /\
  (forall l, NoDup (map kx_name l) -> (forall c, In c l -> kx_name c <> []) -> checks_diff_x l l = []).
Proof. exact (conj checks_diff_x_flag_named (conj checks_diff_x_flag_unnamed checks_diff_x_same)). Qed.

(** 11c. tableDiff with attributes and flagged checks = attribute changes ++ check changes ++ the
    rest (2f); on a MySQL server without CHECK support a desired table with a check is an error. *)
Theorem C02_exact_table_checks :
  (forall (D : DiffDriver) TA KD (skip : tag -> bool) pcs pco from to a k r,
     TA pcs pco (xk_table from) (xk_table to) = Some a -> KD from to = Some k ->
     table_diff D skip (tx_table (xk_table from)) (tx_table (xk_table to)) = Some r ->
     table_diff_xk D TA KD skip pcs pco from to = Some (a ++ k ++ r)) /\
  (forall v from to, mv_check v = false -> xk_checks to <> [] -> mysql_checks_x v from to = None).
Proof. exact (conj table_diff_xk_exact mysql_checks_x_no_support). Qed.

(** 12. Views (DiffViews.v).  12a. The view loops of schemaDiff are exact on every script of
    views keyed by kind + name (a view and a materialized view of one name are different
    objects): one DropView per dropped view, viewDiff's answer per kept view, one AddView per
    added view, each through the skip filter, in any order of the desired list. *)
Theorem C02_exact_views :
  forall (D : DiffDriver) (vskip : vtag -> bool) from to ps adds,
  from = map fst ps -> script_ok vkey ps adds -> Permutation to (kept ps ++ adds) ->
  exists adds', Permutation adds adds' /\
    views_diff D vskip from to =
    vw_expected D vskip ps ++ flat_map (fun v => add_or_skip_v vskip [AddView (v_name v) (v_mat v)]) adds'.
Proof. exact views_diff_exact. Qed.

(** 12b. Views diffed with themselves (distinct kind + name, distinct column and index names,
    index parts well formed): nothing, for every driver with the reflexivity laws. *)
Theorem C02_views_self_empty :
  forall (D : DiffDriver) (vskip : vtag -> bool) l,
  refl_laws D -> NoDup (map vkey l) -> (forall v, In v l -> wf_view v) -> views_diff D vskip l l = [].
Proof. exact views_diff_self. Qed.

(** 12c. BodyDefChanged: two definitions are the same exactly when they are equal, or equal after
    trimming blanks / line ends / ';' at both ends, or equal after every line was trimmed and the
    non-empty lines were joined by single blanks. *)
Theorem C02_view_def_changed :
  forall a b,
  body_def_changed a b = false <->
  a = b \/ trim_view_extra a = trim_view_extra b \/
  noident (trim_view_extra a) = noident (trim_view_extra b).
Proof. exact body_def_changed_spec. Qed.

(** 13. PostgreSQL enum objects (Schema.Objects; postgres SchemaObjectDiff; DiffObjects.v): exact
    on every script of enums keyed by the type name -- one DropObject per dropped enum, one
    ModifyObject (carrying both value lists) per kept enum whose value lists differ in any way
    (length, order, spelling), one AddObject per added enum; the same enums listed in any other
    order give nothing. *)
Theorem C02_exact_objects :
  forall from to ps adds,
  from = map fst ps -> script_ok e_T ps adds -> Permutation to (kept ps ++ adds) ->
  exists adds', Permutation adds adds' /\
    pg_schema_object_diff from to = obj_expected ps ++ map (fun e => AddObject (e_T e)) adds'.
Proof. exact pg_schema_object_diff_exact. Qed.

Theorem C02_objects_self_empty :
  (forall l, NoDup (map e_T l) -> pg_schema_object_diff l l = []) /\
  (forall e1 e2, e_T e2 = e_T e1 ->
     pg_schema_object_diff [e1] [e2] =
     if negb (strs_eqb (e_values e1) (e_values e2)) then [ModifyObject (e_T e1) (e_values e1) (e_values e2)] else []) /\
  (forall a b, strs_eqb a b = true <-> a = b).
Proof. exact (conj pg_schema_object_diff_self (conj enum_modify_iff strs_eqb_eq)). Qed.

(** * Non-vacuity: concrete inputs (vm_compute) *)
Definition x_a : column := mkColumn [97]%N 2 [105;110;116]%N false None None None.
Definition x_b : column := mkColumn [98]%N 3 [116;101;120;116]%N true (Some (DLit [39;120;39]%N)) None None.
Definition x_i1 : index := mkIndex [105;49]%N false [mkPart 0 false (Some [97]%N) None] None None None.
Definition x_f1 : fkey := mkFk [102;49]%N [[97]%N] [116]%N [[97]%N] [] [67;65;83;67;65;68;69]%N.
Definition x_k1 : check := mkCheck [107;49]%N [97;62;48]%N.
Definition x_t : table := mkTable [116]%N false false [x_a; x_b] None [x_i1] [x_f1] [x_k1].
Definition x_s : schema := mkSchema [109]%N [x_t].
(* the same table, lists reordered *)
Definition x_t_perm : table := mkTable [116]%N false false [x_b; x_a] None [x_i1] [x_f1] [x_k1].
(* an edited copy: b NOT NULL with default 'y', column c added, a dropped from nothing; index made unique; fk action changed; check dropped *)
Definition x_b' : column := mkColumn [98]%N 3 [116;101;120;116]%N false (Some (DLit [39;121;39]%N)) None None.
Definition x_c : column := mkColumn [99]%N 4 [114;101;97;108]%N true None None None.
Definition x_i1' : index := mkIndex [105;49]%N true [mkPart 0 false (Some [97]%N) None] None None None.
Definition x_f1' : fkey := mkFk [102;49]%N [[97]%N] [116]%N [[97]%N] [] [].
Definition x_t' : table := mkTable [116]%N false true [x_c; x_a; x_b'] None [x_i1'] [x_f1'] [].

Example C02_ex_wf : wf_schema sqlite_dwf x_s.
Proof.
  split; [repeat constructor; simpl; tauto|]. intros t [<-|[]]. split.
  - constructor; simpl.
    + repeat constructor; simpl; intuition discriminate.
    + repeat constructor; simpl; tauto.
    + intros i [<-|[]]. constructor; [left; discriminate|constructor].
    + discriminate.
    + repeat constructor; simpl; tauto.
  - repeat split; simpl.
    + intros c [<-|[<-|[]]]; discriminate.
    + intros c c' [<-|[]] [<-|[]] _ _. reflexivity.
    + intros f1 f2 [<-|[]] [<-|[]] _. reflexivity.
    + intros i [<-|[]]. left. reflexivity.
Qed.
(* the former witness 1 (inspected autoindex of a UNIQUE column) meets the hypothesis of C02_sqlite_copy_empty *)
Example C02_ex_copy_autoindex : sqlite_copy_wf w_schema1.
Proof.
  split; [repeat constructor; simpl; tauto|]. intros t [<-|[]]. split; [exact w_table1_wf|]. split; [|split].
  - intros c [<-|[]]. discriminate.
  - intros c c' [].
  - exact w_table1_copy_ok.
Qed.
Example C02_ex_self : SchemaDiff sqlite_driver no_skip x_s x_s = Some [].
Proof. vm_compute. reflexivity. Qed.
Example C02_ex_perm : SchemaDiff sqlite_driver no_skip x_s (mkSchema [109]%N [x_t_perm]) = Some [].
Proof. vm_compute. reflexivity. Qed.
Example C02_ex_perm_mysql : mysql_schema_diff no_skip x_s (mkSchema [109]%N [x_t_perm]) = Some [].
Proof. vm_compute. reflexivity. Qed.
Example C02_ex_perm_pg : pg_schema_diff no_skip x_s (mkSchema [109]%N [x_t_perm]) = Some [].
Proof. vm_compute. reflexivity. Qed.
(* one change per edit, with the flags: STRICT added, check dropped, b NULL|DEFAULT, c added, index UNIQUE, fk ON DELETE *)
Example C02_ex_exact :
  SchemaDiff sqlite_driver no_skip x_s (mkSchema [109]%N [x_t']) =
  Some [ModifyTable [116]%N [AddAttr ATTR_STRICT; DropCheck [107;49]%N [97;62;48]%N;
                            ModifyColumn [98]%N (N.lor ChangeNull ChangeDefault); AddColumn [99]%N;
                            ModifyIndex [105;49]%N ChangeUnique; ModifyForeignKey [102;49]%N ChangeDeleteAction]].
Proof. vm_compute. reflexivity. Qed.
(* the scripts of 2a / 2b / 2c for that pair *)
Example C02_ex_column_script :
  script_ok c_name [(x_a, Some x_a); (x_b, Some x_b')] [x_c] /\
  Permutation (t_cols x_t') (kept [(x_a, Some x_a); (x_b, Some x_b')] ++ [x_c]).
Proof.
  split.
  - unfold script_ok. simpl. split.
    + repeat constructor; simpl; intuition discriminate.
    + intros c c' [E|[E|[]]]; inversion E; reflexivity.
  - simpl. apply (Permutation_cons_app [x_a; x_b'] [] x_c). rewrite app_nil_r. apply Permutation_refl.
Qed.
Example C02_ex_skip :
  SchemaDiff sqlite_driver (fun t => match t with TgAddColumn | TgModifyIndex => true | _ => false end)
             x_s (mkSchema [109]%N [x_t']) =
  Some [ModifyTable [116]%N [AddAttr ATTR_STRICT; DropCheck [107;49]%N [97;62;48]%N;
                            ModifyColumn [98]%N (N.lor ChangeNull ChangeDefault);
                            ModifyForeignKey [102;49]%N ChangeDeleteAction]].
Proof. vm_compute. reflexivity. Qed.
Example C02_ex_pk :
  pk_diff sqlite_driver no_skip x_t (mkTable [116]%N false false [x_a; x_b] (Some x_i1) [] [] []) = [AddPrimaryKey] /\
  pk_diff sqlite_driver no_skip (mkTable [116]%N false false [x_a; x_b] (Some x_i1) [] [] [])
          (mkTable [116]%N false false [x_a; x_b] (Some (mkIndex [] false [mkPart 0 true (Some [97]%N) None] None None None)) [] [] [])
  = [ModifyPrimaryKey ChangeParts].
Proof. split; vm_compute; reflexivity. Qed.
Example C02_ex_mysql_bits :
  mysql_column_change x_t x_b x_b' = Some (N.lor ChangeNull ChangeDefault) /\
  pg_column_change x_t x_b x_b' = Some (N.lor ChangeNull ChangeDefault) /\
  sqlite_column_change x_t x_b x_b' = Some (N.lor ChangeNull ChangeDefault).
Proof. repeat split; vm_compute; reflexivity. Qed.
Example C02_ex_udt_scope :
  pg_column_change_ns PUBLIC x_t (w_udt_col [99;105;116;101;120;116]%N) (w_udt_col [108;116;114;101;101]%N) = Some ChangeType /\
  pg_column_change_ns PUBLIC x_t (w_udt_col [99;105;116;101;120;116]%N)
     (w_udt_col [112;117;98;108;105;99;46;99;105;116;101;120;116]%N) = Some 0%N.
Proof. split; vm_compute; reflexivity. Qed.
Example C02_ex_no_similar : similar_unnamed_index mysql_driver x_t' x_i1 = None.
Proof. vm_compute. reflexivity. Qed.

(* round 3: a desired column with the lone charset utf8mb4 against a current utf8mb4 / utf8mb4_general_ci
   column: nothing on a 5.7 server (utf8mb4 defaults to utf8mb4_general_ci), ChangeCollate on 8.0 *)
Definition x_v57 : mysql_variant := mkMyVariant false false [([117;116;102;56;109;98;52]%N, [117;116;102;56;109;98;52;95;103;101;110;101;114;97;108;95;99;105]%N)] [].
Definition x_v80 : mysql_variant := mkMyVariant true true [([117;116;102;56;109;98;52]%N, [117;116;102;56;109;98;52;95;48;57;48;48;95;97;105;95;99;105]%N)] [].
Definition x_cg : column := mkColumn [103]%N MY_STRING [118;97;114;99;104;97;114;40;49;48;48;41;31;117;116;102;56;109;98;52;31;117;116;102;56;109;98;52;95;103;101;110;101;114;97;108;95;99;105;31;117;116;102;56;109;98;52;31;117;116;102;56;109;98;52;95;103;101;110;101;114;97;108;95;99;105]%N true None None None.
Definition x_cu : column := mkColumn [103]%N MY_STRING [118;97;114;99;104;97;114;40;49;48;48;41;31;117;116;102;56;109;98;52;31;31;117;116;102;56;109;98;52;31;117;116;102;56;109;98;52;95;103;101;110;101;114;97;108;95;99;105]%N true None None None.
Example C02_ex_variant_collation :
  mysql_column_change_v x_v57 x_t x_cg x_cu = Some 0%N /\ mysql_column_change_v x_v80 x_t x_cg x_cu = Some ChangeCollate.
Proof. split; vm_compute; reflexivity. Qed.
Example C02_ex_variant_wf : wf_schema (mysql_dwf_v x_v57) (mkSchema [109]%N [mkTable [116]%N false false [x_cg] None [x_i1] [] []]).
Proof.
  split; [repeat constructor; simpl; tauto|]. intros t [<-|[]]. split.
  - constructor; simpl.
    + repeat constructor; simpl; intuition discriminate.
    + repeat constructor; simpl; tauto.
    + intros i [<-|[]]. constructor; [left; discriminate|constructor].
    + discriminate.
    + repeat constructor; simpl; tauto.
  - split; [|split].
    + split; simpl.
      * intros c [<-|[]]. split; [discriminate|reflexivity].
      * intros c c' [].
    + intros c [<-|[]]. unfold cs_together. vm_compute. split; discriminate.
    + right. reflexivity.
Qed.
Example C02_ex_variant_self :
  mysql_schema_diff_v x_v57 no_skip (mkSchema [109]%N [mkTable [116]%N false false [x_cg] None [x_i1] [] []])
                                     (mkSchema [109]%N [mkTable [116]%N false false [x_cg] None [x_i1] [] []]) = Some [].
Proof. vm_compute. reflexivity. Qed.
Example C02_ex_unnamed_steps :
  flat_map (from_step mysql_driver w_grp_from w_grp_to2) (t_idx w_grp_from) = [] /\
  add_step mysql_driver w_grp_from w_grp_to2 0 (t_idx w_grp_to2) = [AddIndex []] /\
  claimed mysql_driver w_grp_from w_grp_to2 0 = true /\ claimed mysql_driver w_grp_from w_grp_to2 1 = false.
Proof. repeat split; vm_compute; reflexivity. Qed.
Example C02_ex_pairing_positions :
  positions mysql_driver w_grp_from w_grp_to2 (t_idx w_grp_from) = [0; 0] /\
  positions mysql_driver w_grp_from (mkTable [116]%N false false [w_grp_col] None [w_uq []] [] []) [w_uq s_age] = [0].
Proof. split; vm_compute; reflexivity. Qed.
Example C02_ex_fixed_witnesses :
  (forall t, mysql_column_change t w_bool_col w_bool_col' = Some ChangeDefault) /\
  (forall t, pg_column_change t (w_udt_col [99;105;116;101;120;116]%N) (w_udt_col [108;116;114;101;101]%N) = Some ChangeType) /\
  mysql_is_generated_index_name w_grp_from (w_fi s_fi2) = true.
Proof. split; [exact w_bool_reported|]. split; [exact w_udt_reported|]. exact (proj2 w_functional_index). Qed.
Example C02_ex_int_default_above_2_53 :
  equal_int_values [57;48;48;55;49;57;57;50;53;52;55;52;48;57;57;50]%N [57;48;48;55;49;57;57;50;53;52;55;52;48;57;57;51]%N [] [] [] [] = false /\
  equal_int_values [43;53]%N [39;53;39]%N [] [] [] [] = true.
Proof. split; vm_compute; reflexivity. Qed.
Example C02_ex_no_check : mysql_table_attr_diff_v x_v57 x_t x_t = None.
Proof. vm_compute. reflexivity. Qed.

(* round 5 *)
Example C02_ex_numfk_shift :
  SchemaDiff sqlite_driver no_skip n_from n_to_perm = Some [] /\
  SchemaDiff sqlite_driver no_skip n_from n_to_add = Some [ModifyTable [116]%N [AddForeignKey [48]%N]] /\
  SchemaDiff sqlite_driver no_skip n_from n_to_last = Some [ModifyTable [116]%N [DropForeignKey [50]%N]].
Proof. exact (conj n_diff_perm (conj n_diff_add n_diff_last)). Qed.
Example C02_ex_numfk_unpaired :
  normalize_fk_inner [116]%N [116]%N (n_fk 49 121 98) [n_fk 48 120 97; n_fk 49 122 99] [true; false]
  = (n_fk 49 121 98, [true; false]).
Proof. vm_compute. reflexivity. Qed.
Definition x_utf8 : str := [117;116;102;56;109;98;52]%N.
Definition x_latin1 : str := [108;97;116;105;110;49]%N.
Definition x_sx (n : N) (cs : option str) (ts : list table) : schema_x := mkSchemaX (mkSchema [n] ts) cs None None.
Definition x_r1 : realm := mkRealm (Some x_utf8) None [x_sx 97 (Some x_latin1) [x_t]; x_sx 98 None []].
(* schema a: charset attribute removed (-> the realm's utf8mb4), table t dropped; schema b dropped; schema c (one table) added *)
Definition x_r2 : realm := mkRealm None None [x_sx 99 None [x_t]; x_sx 97 None []].
Example C02_ex_realm :
  mysql_realm_diff_v x_v80 (fun _ => false) x_r1 x_r2 =
  Some [ModifySchema [97]%N [SModifyAttr ATTR_CHARSET x_latin1 x_utf8]; InSchema [97]%N (DropTable [116]%N);
        DropSchema [98]%N; AddSchema [99]%N; InSchema [99]%N (AddTable [116]%N)] /\
  mysql_realm_diff_v x_v80 (fun t => match t with RtAddSchema | RtTag TgDropTable => true | _ => false end) x_r1 x_r2 =
  Some [ModifySchema [97]%N [SModifyAttr ATTR_CHARSET x_latin1 x_utf8];
        DropSchema [98]%N; InSchema [99]%N (AddTable [116]%N)].
Proof. split; vm_compute; reflexivity. Qed.
Example C02_ex_realm_script :
  script_ok sx_name [(x_sx 97 (Some x_latin1) [x_t], Some (x_sx 97 None [])); (x_sx 98 None [], None)] [x_sx 99 None [x_t]] /\
  Permutation (r_schemas x_r2)
    (kept [(x_sx 97 (Some x_latin1) [x_t], Some (x_sx 97 None [])); (x_sx 98 None [], None)] ++ [x_sx 99 None [x_t]]).
Proof.
  split.
  - unfold script_ok. simpl. split.
    + repeat constructor; simpl; intuition discriminate.
    + intros c c' [E|[E|[]]]; inversion E; reflexivity.
  - simpl. apply perm_swap.
Qed.
Example C02_ex_realm_self :
  wf_realm sqlite_dwf (mkRealm None None [mkSchemaX x_s None None None]) /\
  sqlite_realm_diff (fun _ => false) (mkRealm None None [mkSchemaX x_s None None None])
                                     (mkRealm None None [mkSchemaX x_s None None None]) = Some [].
Proof.
  split; [|vm_compute; reflexivity].
  split; [repeat constructor; simpl; tauto|]. intros s [<-|[]]. exact C02_ex_wf.
Qed.
Example C02_ex_pg_comment :
  pg_schema_attr_diff [] x_r1 (mkSchemaX (mkSchema PUBLIC []) None None (Some STD_PUBLIC_COMMENT))
                              (mkSchemaX (mkSchema PUBLIC []) None None (Some [120]%N)) = [SAddAttr ATTR_COMMENT [120]%N] /\
  pg_schema_attr_diff [] x_r1 (mkSchemaX (mkSchema [97]%N []) None None (Some [39;120;39]%N))
                              (mkSchemaX (mkSchema [97]%N []) None None (Some [120]%N)) = [] /\
  pg_schema_attr_diff [] x_r1 (mkSchemaX (mkSchema [97]%N []) None None (Some [120]%N))
                              (mkSchemaX (mkSchema [97]%N []) None None None) = [SModifyAttr ATTR_COMMENT [120]%N []].
Proof. repeat split; vm_compute; reflexivity. Qed.

(* round 5: the table script of the pair (x_t, x_t') of C02_ex_exact meets [ts_ok]; its expected list is the diff *)
Definition x_sc : table_script :=
  mkTS [(x_a, Some x_a); (x_b, Some x_b')] [x_c] [(x_f1, Some x_f1')] [] [(x_k1, None)] [].
Example C02_ex_exact_sqlite :
  Forall2 entry_ok [(x_t, Some x_t')] [x_sc] /\
  sqlite_schema_expected no_skip [(x_t, Some x_t')] [x_sc] =
  [ModifyTable [116]%N [AddAttr ATTR_STRICT; DropCheck [107;49]%N [97;62;48]%N;
                        ModifyColumn [98]%N (N.lor ChangeNull ChangeDefault); AddColumn [99]%N;
                        ModifyIndex [105;49]%N ChangeUnique; ModifyForeignKey [102;49]%N ChangeDeleteAction]].
Proof.
  split; [|vm_compute; reflexivity].
  constructor; [|constructor]. intros t' E. simpl in E. inversion E; subst t'. clear E.
  destruct C02_ex_column_script as [CS CP].
  split; [|split; [|split; [|split]]].
  - intros fk1 fk2 [<-|[]] [<-|[]] _. reflexivity.
  - intros i [<-|[]]. left. vm_compute. reflexivity.
  - split; [reflexivity|]. split; [exact CS|]. split; [exact CP|].
    intros c c' [E|[E|[]]]; inversion E; split; discriminate.
  - split; [reflexivity|]. split.
    + split; simpl; [repeat constructor; simpl; tauto|]. intros c c' [E|[]]. inversion E. reflexivity.
    + simpl. apply Permutation_refl.
  - split; [reflexivity|]. split; [simpl; constructor|]. split; [intros c o _ c2 []|].
    split; [intros c c2 [E|[]]; inversion E|]. split; [intros c2 []|intros a []].
Qed.

(* round 5: table attributes.  Current: ENGINE MyISAM, AUTO_INCREMENT 5, comment 'c', charset latin1 in a utf8mb4 schema;
   desired: no engine, AUTO_INCREMENT 100, no comment, no charset, column c added *)
Definition x_myisam : str := [77;121;73;83;65;77]%N.
Definition x_tx1 : table_x := mkTableX x_t (Some [99]%N) (Some x_latin1) None (Some (x_myisam, false)) (Some 5%N) false None.
Definition x_tx2 : table_x := mkTableX (mkTable [116]%N false false [x_a; x_b; x_c] None [x_i1] [x_f1] [x_k1])
                                       None None None None (Some 100%N) false None.
Example C02_ex_table_attrs :
  mysql_schema_diff_tx x_v80 no_skip (mkSchemaTX [109]%N (Some x_utf8) None [x_tx1]) (mkSchemaTX [109]%N (Some x_utf8) None [x_tx2]) =
  Some [ModifyTable [116]%N [ModifyAttr ATTR_AUTOINC; ModifyAttr ATTR_COMMENT; ModifyAttr ATTR_CHARSET; ModifyAttr ATTR_ENGINE;
                            AddColumn [99]%N]] /\
  mysql_schema_diff_tx x_v80 (fun t => match t with TgAddColumn => true | _ => false end)
    (mkSchemaTX [109]%N (Some x_utf8) None [x_tx1]) (mkSchemaTX [109]%N (Some x_utf8) None [x_tx2]) =
  Some [ModifyTable [116]%N [ModifyAttr ATTR_AUTOINC; ModifyAttr ATTR_COMMENT; ModifyAttr ATTR_CHARSET; ModifyAttr ATTR_ENGINE]] /\
  mysql_schema_diff_tx x_v80 no_skip (mkSchemaTX [109]%N (Some x_utf8) None [x_tx1]) (mkSchemaTX [109]%N (Some x_utf8) None [x_tx1]) = Some [].
Proof. repeat split; vm_compute; reflexivity. Qed.
Example C02_ex_partition :
  pg_table_attrs_x None None (mkTableX x_t None None None None None false (Some [82]%N))
                             (mkTableX x_t None None None None None false (Some [72]%N)) = None /\
  pg_table_attrs_x None None (mkTableX x_t None None None None None false (Some [82]%N))
                             (mkTableX x_t (Some [99]%N) None None None None false (Some [82]%N)) = Some [AddAttr ATTR_COMMENT].
Proof. split; vm_compute; reflexivity. Qed.
Example C02_ex_engine_autoinc :
  mysql_engine_change None (Some ([73;110;110;111;68;66]%N, false)) = [ModifyAttr ATTR_ENGINE] /\
  mysql_engine_change (Some ([73;110;110;111;68;66]%N, false)) (Some (INNODB_LOWER, false)) = [] /\
  mysql_autoinc_change (Some 1000%N) (Some 2%N) = [] /\ mysql_autoinc_change None (Some 2%N) = [ModifyAttr ATTR_AUTOINC].
Proof. repeat split; vm_compute; reflexivity. Qed.

(* round 5: flagged checks.  c1 (n>0) loses ENFORCED, the unnamed (a>0) too, k9 NOT ENFORCED is added *)
Definition x_kx (n e : str) (f : bool) : check_x := mkCheckX n e f.
Example C02_ex_check_flags :
  mysql_table_diff_xk x_v80 no_skip None None
    (mkTableXK (mkTableX (mkTable [116]%N false false [x_a; x_b] None [] [] []) None None None None None false None)
               [x_kx [107;49]%N [97;62;48]%N true; x_kx [] [97;62;49]%N true])
    (mkTableXK (mkTableX (mkTable [116]%N false false [x_a; x_b] None [] [] []) None None None None None false None)
               [x_kx [107;57]%N [97;62;57]%N false; x_kx [] [97;62;49]%N false; x_kx [107;49]%N [97;62;48]%N false]) =
  Some [ModifyCheck [107;49]%N [97;62;48]%N [107;49]%N [97;62;48]%N; DropCheck [] [97;62;49]%N;
        AddCheck [107;57]%N [97;62;57]%N; AddCheck [] [97;62;49]%N] /\
  mysql_checks_x x_v57 (mkTableXK (mkTableX x_t None None None None None false None) [])
                       (mkTableXK (mkTableX x_t None None None None None false None) [x_kx [107;49]%N [97;62;48]%N true]) = None.
Proof. split; vm_compute; reflexivity. Qed.

(* round 5: views.  "SELECT a\n  FROM t;" vs "SELECT a FROM t" is no difference; vs "SELECT  a FROM t" it is *)
Definition x_def1 : str := [83;69;76;69;67;84;32;97;10;32;32;70;82;79;77;32;116;59]%N.
Definition x_def2 : str := [83;69;76;69;67;84;32;97;32;70;82;79;77;32;116]%N.
Definition x_def3 : str := [83;69;76;69;67;84;32;32;97;32;70;82;79;77;32;116]%N.
Definition x_view (d : str) (m : bool) (c : option str) : view := mkView [118]%N d m [([97]%N, c)] [x_i1].
Example C02_ex_views :
  body_def_changed x_def1 x_def2 = false /\ body_def_changed x_def2 x_def3 = true /\
  views_diff sqlite_driver (fun _ => false) [x_view x_def1 false None] [x_view x_def2 false None] = [] /\
  views_diff sqlite_driver (fun _ => false) [x_view x_def1 false None] [x_view x_def3 false (Some [99]%N)] =
    [ModifyView [118]%N false [ModifyColumn [97]%N ChangeComment]] /\
  views_diff sqlite_driver (fun _ => false) [x_view x_def1 false None] [x_view x_def3 false None] = [ModifyView [118]%N false []] /\
  views_diff sqlite_driver (fun _ => false) [x_view x_def1 false None] [x_view x_def1 true None] =
    [DropView [118]%N false; AddView [118]%N true] /\
  views_diff sqlite_driver (fun t => match t with VtTag TgModifyColumn => true | _ => false end)
    [x_view x_def1 false None] [x_view x_def1 false (Some [99]%N)] = [].
Proof. repeat split; vm_compute; reflexivity. Qed.

(* round 5: enum objects: status(a,b) gets a value, kind is dropped, fresh is added; AddObject skipped *)
Example C02_ex_objects :
  pg_schema_diff_o [] (fun _ => false)
    (mkSchemaO x_s [mkEnumO [115]%N [[97]%N; [98]%N]; mkEnumO [107]%N [[120]%N]])
    (mkSchemaO x_s [mkEnumO [102]%N [[112]%N]; mkEnumO [115]%N [[97]%N; [98]%N; [99]%N]]) =
  Some [SO (ModifyObject [115]%N [[97]%N; [98]%N] [[97]%N; [98]%N; [99]%N]); SO (DropObject [107]%N); SO (AddObject [102]%N)] /\
  pg_schema_diff_o [] (fun t => match t with OtAddObject => true | _ => false end)
    (mkSchemaO x_s [mkEnumO [115]%N [[97]%N; [98]%N]])
    (mkSchemaO x_s [mkEnumO [102]%N [[112]%N]; mkEnumO [115]%N [[98]%N; [97]%N]]) =
  Some [SO (ModifyObject [115]%N [[97]%N; [98]%N] [[98]%N; [97]%N])].
Proof. split; vm_compute; reflexivity. Qed.

Print Assumptions C02_self_empty.
Print Assumptions C02_copy_empty.
Print Assumptions C02_perm_empty.
Print Assumptions C02_sqlite_laws.
Print Assumptions C02_copy_empty_refuted.
Print Assumptions C02_copy_empty_fixed.
Print Assumptions C02_perm_empty_refuted_fk.
Print Assumptions C02_copy_empty_except.
Print Assumptions C02_exact_columns.
Print Assumptions C02_exact_indexes_partial.
Print Assumptions C02_exact_fks.
Print Assumptions C02_exact_checks.
Print Assumptions C02_exact_pk.
Print Assumptions C02_exact_table_partial.
Print Assumptions C02_exact_schema.
Print Assumptions C02_exact_sqlite_table_partial.
Print Assumptions C02_sqlite_column_bits.
Print Assumptions C02_mysql_laws.
Print Assumptions C02_mysql_perm_empty.
Print Assumptions C02_postgres_laws.
Print Assumptions C02_postgres_perm_empty.
Print Assumptions C02_mysql_column_bits.
Print Assumptions C02_postgres_column_bits_except.
Print Assumptions C02_no_similar_index.
Print Assumptions C02_postgres_ns_laws.
Print Assumptions C02_sqlite_copy_empty.
Print Assumptions C02_indexes_unnamed_exact.
Print Assumptions C02_unnamed_group_refuted.
Print Assumptions C02_unnamed_group_except.
Print Assumptions C02_mysql_variant_laws.
Print Assumptions C02_mysql_variant_perm_empty.
Print Assumptions C02_mysql_variant_column_bits.
Print Assumptions C02_mysql_variant_fill.
Print Assumptions C02_mysql_variant_local.
Print Assumptions C02_mysql_variant_default.
Print Assumptions C02_mysql_variant_no_check.
Print Assumptions C02_unnamed_pairing_count.
Print Assumptions C02_mysql_bool_default_known.
Print Assumptions C02_mysql_bool_default_reported.
Print Assumptions C02_postgres_udt_type_noscope.
Print Assumptions C02_postgres_udt_type_scope.
Print Assumptions C02_mysql_functional_index.
Print Assumptions C02_mysql_fill_idempotent.
Print Assumptions C02_mysql_int_default_except.
Print Assumptions C02_mysql_uint_default_refuted.
Print Assumptions C02_mysql_float_default_except.
Print Assumptions C02_mysql_decimal_default_refuted.
Print Assumptions C02_sqlite_numeric_fk_symbols.
Print Assumptions C02_sqlite_numeric_fk_drop_refuted.
Print Assumptions C02_exact_realm.
Print Assumptions C02_exact_schema_attrs.
Print Assumptions C02_realm_add_schema.
Print Assumptions C02_perm_empty_realm.
Print Assumptions C02_self_empty_realm.
Print Assumptions C02_realm_laws.
Print Assumptions C02_realm_perm_empty_dialects.
Print Assumptions C02_mysql_schema_attr_exact.
Print Assumptions C02_comment_diff_exact.
Print Assumptions C02_exact_sqlite_partial.
Print Assumptions C02_exact_table_attrs.
Print Assumptions C02_exact_schema_tx.
Print Assumptions C02_mysql_table_attrs.
Print Assumptions C02_mysql_autoinc_exact.
Print Assumptions C02_mysql_engine_exact.
Print Assumptions C02_postgres_partition_error.
Print Assumptions C02_table_attr_laws.
Print Assumptions C02_self_empty_tx.
Print Assumptions C02_self_empty_tx_dialects.
Print Assumptions C02_exact_checks_flags.
Print Assumptions C02_check_flag_alone.
Print Assumptions C02_exact_table_checks.
Print Assumptions C02_exact_views.
Print Assumptions C02_views_self_empty.
Print Assumptions C02_view_def_changed.
Print Assumptions C02_exact_objects.
Print Assumptions C02_objects_self_empty.
