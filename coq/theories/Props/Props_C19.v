(** C19 -- excluded resources and skipped change kinds never reach a plan. *)
From Coq Require Import List NArith Bool Arith String.
From Atlas Require Import Base.Bytes Diff.Schema Diff.DiffModel Diff.DiffSqlite
  Excl.Glob Excl.Exclude Excl.Skip gen.Gen_SkipKinds.
Import ListNotations.
