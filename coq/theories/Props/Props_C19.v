(** C19 -- excluded resources and skipped change kinds never reach a plan. *)
From Coq Require Import List NArith Bool Arith String.
From Atlas Require Import Base.Bytes Diff.Schema Diff.DiffModel Diff.DiffSqlite
  Excl.Glob Excl.Exclude Excl.Skip gen.Gen_SkipKinds.
Import ListNotations.
From Atlas Require Import Excl.SkipProofs.
Local Open Scope list_scope.

(** ** C19_skip.  "A change kind disabled by the diff policy never appears in a change set at
    any nesting level, while all other changes are still produced."

    For every driver [D] of the generic differ whose TableAttrDiff returns no policy kind
    (sqlx.Diff.tableDiff appends that result without AddOrSkip), every set [K] of kinds the
    policy can name (gen/Gen_SkipKinds.v, regenerated from cmdapi/project.go on every run) and
    every pair of schemas: the change set computed with [DiffSkipChanges(K...)] is the
    unfiltered change set minus exactly the changes of a kind in K -- top level and inside
    ModifyTable, a ModifyTable left without changes disappearing -- and no kind of K occurs in
    it at either level. *)
Theorem C19_skip :
  forall (D : DiffDriver) (K : list kind),
    attr_changes_only D -> Forall (fun k => skippable k = true) K ->
    forall from to : schema,
      SchemaDiff D (skip_of K) from to = option_map (remove_kinds K) (SchemaDiff D no_skip from to)
      /\ (forall r k, SchemaDiff D (skip_of K) from to = Some r -> In k K -> ~ occurs k r)
      /\ (forall a b, TableDiff D (skip_of K) a b = option_map (filter (keep K)) (TableDiff D no_skip a b)).
Proof.
  intros D K HD HK from to. split; [|split].
  - exact (skip_exact K HK D HD from to).
  - intros r k Hr Hk. rewrite (skip_exact K HK D HD from to) in Hr.
    destruct (SchemaDiff D no_skip from to); [|discriminate]. inversion Hr; subst.
    exact (remove_kinds_absent K l k Hk).
  - intros a b. exact (TableDiff_skip K HK D HD a b).
Qed.
Print Assumptions C19_skip.

(** what "minus exactly" means: every change of another kind survives [remove_kinds] *)
Theorem C19_skip_others_kept :
  forall (K : list kind) (cs : list schange),
    (forall c, In c cs -> mem (kind_of_schange c) K = false -> (forall n ch, c <> ModifyTable n ch) ->
               In c (remove_kinds K cs))
    /\ (forall n ch x, In (ModifyTable n ch) cs -> mem KModifyTable K = false -> In x ch -> keep K x = true ->
               exists ch', In (ModifyTable n ch') (remove_kinds K cs) /\ In x ch' /\ ch' = filter (keep K) ch).
Proof.
  intros K cs. split.
  - intros c. exact (remove_kinds_keeps_top K cs c).
  - intros n ch x. exact (remove_kinds_keeps_nested K cs n ch x).
Qed.
Print Assumptions C19_skip_others_kept.

(** the SQLite driver meets the hypothesis; the generated tables and the hand-written
    enumeration of kinds agree *)
Theorem C19_skip_sqlite :
  attr_changes_only sqlite_driver /\ gen_names_known = true.
Proof. split; [exact sqlite_attr_changes_only | exact gen_names_known_ok]. Qed.
Print Assumptions C19_skip_sqlite.

Definition ex_col (n : N) : column := mkColumn [n] 2 [105;110;116]%N false None None None.
Definition ex_from : schema :=
  mkSchema [109]%N [mkTable [116]%N false false [ex_col 97; ex_col 98] None
    [mkIndex [105]%N false [mkPart 0 false (Some [97]%N) None] None None None] [] []].
Definition ex_to : schema :=
  mkSchema [109]%N [mkTable [116]%N false false [ex_col 97; ex_col 99] None [] [] []].

Example C19_skip_nonvacuous :
  Forall (fun k => skippable k = true) [KDropColumn; KDropIndex]
  /\ SchemaDiff sqlite_driver no_skip ex_from ex_to
     = Some [ModifyTable [116]%N [DropColumn [98]%N; AddColumn [99]%N; DropIndex [105]%N]]
  /\ SchemaDiff sqlite_driver (skip_of [KDropColumn; KDropIndex]) ex_from ex_to
     = Some [ModifyTable [116]%N [AddColumn [99]%N]].
Proof. split; [repeat constructor | split; vm_compute; reflexivity]. Qed.

(** ** C19_skip_options_reusable (round 3).  The skip list reaches the differ as functional
    option VALUES ([schema.DiffSkipChanges(...)], [schema.DiffNormalized()], the list built by
    cmdapi [Diff.Options()]) that callers keep and pass to many diffs.  Model: Excl/Options.v
    ([NewDiffOptions] folds the options over the zero [DiffOptions]; [DiffSkipChanges K] appends K).

    For every driver as in C19_skip, every sequence of diffs [calls] -- each call is a list of
    option values, the same values may occur in many calls, several times in one call, in any
    order, [DiffNormalized] anywhere -- and every pair of schemas:
    (1) the i-th change set is the unfiltered change set minus exactly the kinds the options OF
        THAT CALL name (nothing of the other calls of the sequence enters);
    (2) no kind named by a call's options occurs in its change set at either level;
    (3) two option lists naming the same SET of kinds (whatever the order, the duplicates, the
        split over option values) give the same change set;
    (4) [DiffNormalized] sets the mode and leaves the skip list alone, wherever it stands.
    In Gallina (1) holds because a function cannot be rewritten by applying it; that the Go
    closures are such functions is the observation of the tie stage "reuse" (model = Go on every
    call of every sequence; oracle: equal to what freshly made options give). *)
From Atlas Require Import Excl.Options Excl.OptionsProofs.

Theorem C19_skip_options_reusable :
  forall D : DiffDriver, attr_changes_only D ->
  forall calls : list (list optd), Forall skippable_opts calls ->
  forall from to : schema,
    diff_sequence D calls from to
      = map (fun ds => option_map (remove_kinds (kinds_of ds)) (SchemaDiff D no_skip from to)) calls
    /\ (forall ds r k, In ds calls -> SchemaDiffOpts D (map option_of ds) from to = Some r ->
                       In k (kinds_of ds) -> ~ occurs k r)
    /\ (forall ds ds', skippable_opts ds -> skippable_opts ds' ->
                       (forall k, In k (kinds_of ds) <-> In k (kinds_of ds')) ->
                       SchemaDiffOpts D (map option_of ds) from to = SchemaDiffOpts D (map option_of ds') from to)
    /\ (forall ds, SkipChanges (NewDiffOptions (map option_of ds)) = kinds_of ds
                   /\ Mode (NewDiffOptions (map option_of ds))
                      = if existsb (fun d => match d with ONormalized => true | _ => false end) ds
                        then DiffModeNormalized else DiffModeUnset).
Proof.
  intros D HD calls Hc from to. split; [|split; [|split]].
  - exact (sequence_exact D HD calls from to Hc).
  - intros ds r k Hin Hr Hk. rewrite Forall_forall in Hc.
    exact (options_absent D HD ds from to r k (Hc ds Hin) Hr Hk).
  - intros ds ds' Hs Hs' H. exact (options_set_only D HD ds ds' from to Hs Hs' H).
  - intros ds. split; [exact (NewDiffOptions_skip ds)|].
    unfold NewDiffOptions. rewrite fold_options_mode. reflexivity.
Qed.
Print Assumptions C19_skip_options_reusable.

(** non-vacuity: A = [DropColumn; DropColumn] (a duplicate inside one option), B = [DropIndex; DropColumn]
    (overlaps A); the calls (N A B), (N A), (B N A A), (N) on the pair of C19_skip_nonvacuous *)
Example C19_skip_options_nonvacuous :
  let A := OSkip [KDropColumn; KDropColumn] in
  let B := OSkip [KDropIndex; KDropColumn] in
  Forall skippable_opts [[ONormalized; A; B]; [ONormalized; A]; [B; ONormalized; A; A]; [ONormalized]]
  /\ diff_sequence sqlite_driver [[ONormalized; A; B]; [ONormalized; A]; [B; ONormalized; A; A]; [ONormalized]] ex_from ex_to
     = [Some [ModifyTable [116]%N [AddColumn [99]%N]];
        Some [ModifyTable [116]%N [AddColumn [99]%N; DropIndex [105]%N]];
        Some [ModifyTable [116]%N [AddColumn [99]%N]];
        Some [ModifyTable [116]%N [DropColumn [98]%N; AddColumn [99]%N; DropIndex [105]%N]]].
Proof. split; [repeat constructor | vm_compute; reflexivity]. Qed.

(** ** C19_exclude_exact.  "A resource matching an --exclude pattern is absent from every
    inspection result ..., while every resource that matches no pattern is still present."

    Full statement: whenever [ExcludeRealm r patterns] returns a realm, it is
    [strict_realm G r] (ExcludeSpec.v): a schema / table / column / index / foreign key / check
    is kept iff no chain of G = split patterns selects its path (with the [type=...]
    selectors), and what is kept is unchanged and in order.  The faithful model refutes it
    (reproduced on the real code by the tie, known finding C19-exclude-cascade-dependent):
    pattern "s.t.c" also removes index i of column c, although "i" matches no pattern.
    (A second refutation -- the malformed pattern "s.t.[" returned NO error and a table
    without columns and indexes, because excludeT overwrote the error of an earlier filter --
    is gone with fix C19-exclude-bad-pattern, notes/fixes/; the model follows the repaired
    code and [C19_exclude_bad_pattern_reported] is the former witness.) *)
From Atlas Require Import Excl.ExcludeSpec Excl.ExcludeProofs.

Definition exr_realm : realm :=
  [mkSchema [115]%N [mkTable [116]%N false false [ex_col 99] None
     [mkIndex [105]%N false [mkPart 0 false (Some [99]%N) None] None None None] [] []]].

Theorem C19_exclude_exact_refuted :
  exists r pats G r', split pats = EOk G /\ ExcludeRealm (true, true) r pats = EOk r' /\ r' <> strict_realm G r.
Proof.
  exists exr_realm, [[115;46;116;46;99]%N], [[[115]%N; [116]%N; [99]%N]].
  eexists. split; [vm_compute; reflexivity|]. split; [vm_compute; reflexivity|].
  vm_compute. intros H. discriminate H.
Qed.
Print Assumptions C19_exclude_exact_refuted.

(** The exact characterisation that does hold, for every realm, every pattern list and both
    kinds of states (columns with / without back-pointers to their indexes and foreign keys):
    if no glob of the chains can fail ([chains_ok]: every chain has 1..3 elements and
    [filepath.Match] answers every element for every name -- C19_match_spec: every well-formed
    glob), ExcludeRealm returns exactly [ref_realm link G r]: the strict reference plus the
    cascade of excludeT (an index / foreign key also goes when the element that admits its type
    selects, as a column, a still-present column it is built on).  Without back-pointers the
    cascade is empty and the full statement holds. *)
Theorem C19_exclude_exact_except :
  forall (link : bool * bool) (r : realm) (patterns : list bytes) (G : list (list bytes)),
    split patterns = EOk G -> chains_ok G ->
    ExcludeRealm link r patterns = EOk (ref_realm link G r)
    /\ ref_realm (false, false) G r = strict_realm G r.
Proof.
  intros link r patterns G Hs HG. split.
  - exact (ExcludeRealm_ref link r patterns G Hs HG).
  - exact (ref_realm_nolink G r).
Qed.
Print Assumptions C19_exclude_exact_except.

Example C19_exclude_bad_pattern_reported :   (* "s.t.[" on a table without CHECK: ErrBadPattern *)
  ExcludeRealm (true, true) exr_realm [[115;46;116;46;91]%N] = EErr EBadPattern.
Proof. vm_compute. reflexivity. Qed.

Example C19_exclude_nonvacuous :
  ExcludeRealm (true, true) exr_realm [[115;46;116;46;99;91;116;121;112;101;61;99;111;108;117;109;110;93]%N]
  = EOk [mkSchema [115]%N [mkTable [116]%N false false [] None
           [mkIndex [105]%N false [mkPart 0 false (Some [99]%N) None] None None None] [] []]].
Proof. vm_compute. reflexivity. Qed.

(** ** C19_match_spec.  Full statement (DESIGN 4, C19): for every pattern p and name s,
    [Match p s = Ok b] with [b = true <-> Glob p s] when p is well formed (GlobSpec.v: the
    grammar and the declarative relation), and [Match p s = Bad] exactly when p is malformed.

    Proved:
    - [C19_match_spec]: for every WELL-FORMED pattern, through scanChunk, matchChunk and the
      greedy star loop: (1) [Match] answers [Ok _] for EVERY name (any bytes) -- never
      ErrBadPattern, out-of-fuel or panic; (2) for every PLAIN name (ASCII, no '/') the answer
      is the declarative relation: [b = true <-> Glob p s].
    - [C19_match_chunk]: chunk level for every name (any bytes): on a chunk the grammar derives
      without '*', [matchChunk] = the deterministic prefix matcher [PM], which decides [Matches].
    - [C19_match_spec_nonplain_refuted]: for names that are not plain the equivalence is FALSE of
      Go's Match (a multi-byte rune after '*' here; '/' matched by a class is the other case:
      Example C19_match_separator_quirk), reproduced on the real code by the tie.
    - ErrBadPattern.  "Exactly on malformed patterns" is refuted ([C19_match_bad_exact_refuted]:
      Go reports a bad chunk only when the scan reaches it); what holds exactly
      ([C19_match_malformed_except], every pattern, every name, any bytes):
      Match never runs out of fuel or panics; it answers true ONLY for well-formed patterns;
      ErrBadPattern only for malformed ones; so a malformed pattern is answered ErrBadPattern or
      (false, nil); and a malformed FIRST chunk (always reached) gives ErrBadPattern for every
      name.  (Which later chunk is reached is the greedy scan itself: C19_match_spec describes
      it on well-formed prefixes.) *)
From Atlas Require Import Excl.GlobSpec Excl.GlobProofs Excl.GlobStar.

Theorem C19_match_spec :
  forall p, WellFormed p ->
    (forall s, exists b, Match p s = Ok b)
    /\ (forall s, plain s -> exists b, Match p s = Ok b /\ (b = true <-> Glob p s)).
Proof.
  intros p Hw. split.
  - intros s. exact (Match_total p s Hw).
  - intros s Hp. exact (Match_Glob p s Hw Hp).
Qed.
Print Assumptions C19_match_spec.

Theorem C19_match_chunk :
  forall chunk items s, Parses chunk items -> no_star items ->
     matchChunk chunk s = Ok (PM items s) /\ (PM items s = Some [] <-> Matches items s).
Proof.
  intros chunk items s HP Hn. split; [exact (matchChunk_parses chunk items s HP Hn)|exact (PM_Matches items Hn s)].
Qed.
Print Assumptions C19_match_chunk.

Theorem C19_match_malformed_except :
  forall p s,
    ((exists b, Match p s = Ok b) \/ Match p s = Bad)
    /\ (Match p s = Ok true -> WellFormed p)
    /\ (Match p s = Bad -> ~ WellFormed p)
    /\ (~ WellFormed p -> Match p s = Bad \/ Match p s = Ok false)
    /\ (forall star chunk rest, p <> [] -> scanChunk p = (star, chunk, rest) -> star && is_nil chunk = false ->
           (forall items, ~ (Parses chunk items /\ no_star items)) -> Match p s = Bad).
Proof.
  intros p s. split; [|split; [|split; [|split]]].
  - destruct (Match_inv p s) as [[_ H]|H]; [left; exact H|right; exact H].
  - destruct (Match_inv p s) as [[H _]|H]; [exact H|intros E; congruence].
  - exact (Match_bad_malformed p s).
  - exact (Match_malformed p s).
  - intros star chunk rest. exact (Match_bad_first_chunk p s star chunk rest).
Qed.
Print Assumptions C19_match_malformed_except.

(** the equivalence does not extend to every name: Match("*?*?x", "\u20acx") = false, although
    under the declarative relation (a star may take any bytes but '/') * = E2, ? = 82, * = "",
    ? = AC, x = x is a match: the first "?" greedily takes the whole rune at offset 0 and the
    star loop never comes back *)
Theorem C19_match_spec_nonplain_refuted :
  exists p s, WellFormed p /\ Match p s = Ok false /\ Glob p s.
Proof.
  exists [42;63;42;63;120]%N, [226;130;172;120]%N.
  assert (HP : Parses [42;63;42;63;120]%N [TStar; TAny; TStar; TAny; TLit 120%N]).
  { apply P_star. apply P_any. apply P_star. apply P_any. apply P_lit; [reflexivity|apply P_nil]. }
  split; [eexists; exact HP|]. split; [vm_compute; reflexivity|].
  exists [TStar; TAny; TStar; TAny; TLit 120%N]. split; [exact HP|].
  apply (M_star _ [226]%N [130;172;120]%N); [repeat constructor; discriminate|].
  eapply (M_any _ 130%N [172;120]%N); [discriminate|vm_compute; reflexivity|]. cbn [skipn].
  apply (M_star _ [] [172;120]%N); [constructor|].
  eapply (M_any _ 172%N [120]%N); [discriminate|vm_compute; reflexivity|]. cbn [skipn].
  apply M_lit. apply M_nil.
Qed.
Print Assumptions C19_match_spec_nonplain_refuted.

Theorem C19_match_bad_exact_refuted :
  exists p s, ~ WellFormed p /\ Match p s = Ok false.
Proof.
  exists [97;42;91]%N, [98]%N. split; [|vm_compute; reflexivity].
  intros [ts H].
  inversion H as [| | | |c p ts0 Hm H1|]; subst.
  inversion H1 as [|p ts1 H2| | |c p ts1 Hm2 H2|]; subst; [|vm_compute in Hm2; discriminate].
  inversion H2 as [| | | |c p ts2 Hm3 H3|q neg q0 lo hi q1 rs q' ts2 Hs HR HT HP]; subst; [vm_compute in Hm3; discriminate|].
  vm_compute in Hs. inversion Hs; subst. inversion HR; subst;
    match goal with Hc : rchar [] = Some _ |- _ => vm_compute in Hc; discriminate end.
Qed.
Print Assumptions C19_match_bad_exact_refuted.

(** the model reproduces the two behaviours of Go's Match outside plain names *)
Example C19_match_multibyte_quirk :   (* Match("*??x", "€x") = true: 2 characters match 3 terms *)
  Match [42;63;63;120]%N [226;130;172;120]%N = Ok true.
Proof. vm_compute. reflexivity. Qed.
Example C19_match_separator_quirk :   (* Match("*[^x]*c", "a/c") = false although * = a, [^x] = /, * = "" *)
  Match [42;91;94;120;93;42;99]%N [97;47;99]%N = Ok false.
Proof. vm_compute. reflexivity. Qed.
Example C19_match_nonvacuous :        (* "[a-c]?\\*" matches "bz*" *)
  Match [91;97;45;99;93;63;92;42]%N [98;122;42]%N = Ok true
  /\ Parses [91;97;45;99;93;63;92;42]%N [TClass false [(97,99)%N]; TAny; TLit 42%N].
Proof.
  split; [vm_compute; reflexivity|].
  eapply P_class; [reflexivity| | |].
  - eapply Range_two; vm_compute; reflexivity.
  - apply RT_close.
  - apply P_any. apply P_esc. apply P_nil.
Qed.

(** ** C19_plan_ignores_excluded.  "... and is never created, altered or dropped by any plan."
    Full statement (DESIGN 4): if both states are filtered by the same patterns, no change of
    [diff] at any nesting level targets an excluded resource.

    Proved (PARTIAL in the resource kinds): for every driver of the generic differ whose
    Normalize keeps the columns and whose TableAttrDiff returns no column change (the SQLite
    driver does: second theorem), every skip function, both kinds of states and every list of
    chains: every AddTable / DropTable / ModifyTable of the diff of the two filtered schemas
    targets a table of the original state that NO chain selects, and every AddColumn /
    DropColumn / ModifyColumn inside a ModifyTable a column that no chain selects.
    Missing: the same for index / foreign-key / check changes -- there it is not true as
    stated for the SQLite driver: Normalize renames `sqlite_autoindex_*` indexes to
    `<table>_<cols>` and rewrites foreign-key symbols, so a change can carry a name no state
    holds (and that a pattern may match); and after the cascade of excludeT (finding
    C19-exclude-cascade-dependent) a state with back-pointers and one without disagree about
    an index that matches no pattern, which yields a DropIndex/AddIndex of an unexcluded
    index.  The SQL plan is outside this model (M-SQLITE planner: other properties). *)
From Atlas Require Import Excl.PlanProofs.

Theorem C19_plan_ignores_excluded_partial :
  forall (D : DiffDriver) (skip : tag -> bool) (link1 link2 : bool * bool)
         (patterns : list bytes) (G : list (list bytes)) (from to from' to' : schema) (cs : list schange),
    norm_keeps_cols D -> attr_no_cols D ->
    split patterns = EOk G -> chains_ok G ->
    ExcludeRealm link1 [from] patterns = EOk [from'] ->
    ExcludeRealm link2 [to] patterns = EOk [to'] ->
    SchemaDiff D skip from' to' = Some cs ->
    forall c, In c cs -> unexcluded_target G from to c.
Proof.
  intros D skip link1 link2 patterns G from to from' to' cs Hn Ha Hs HG H1 H2 Hd c Hc.
  rewrite (ExcludeRealm_ref link1 [from] patterns G Hs HG) in H1.
  rewrite (ExcludeRealm_ref link2 [to] patterns G Hs HG) in H2.
  unfold ref_realm in H1, H2. simpl in H1, H2.
  destruct (schema_hit G from); [discriminate|]. destruct (schema_hit G to); [discriminate|].
  simpl in H1, H2. inversion H1; subst. inversion H2; subst.
  exact (plan_ignores_excluded D skip link1 link2 G from to cs Hn Ha Hd c Hc).
Qed.
Print Assumptions C19_plan_ignores_excluded_partial.

Theorem C19_plan_sqlite_driver : norm_keeps_cols sqlite_driver /\ attr_no_cols sqlite_driver.
Proof. split; [exact sqlite_norm_keeps_cols | exact sqlite_attr_no_cols]. Qed.
Print Assumptions C19_plan_sqlite_driver.

(** the same at every level -- column, index, foreign key, check -- for NAME-PRESERVING drivers
    (Normalize keeps the children of both tables; TableAttrDiff names only children of the two
    tables): every change of the diff of the two filtered schemas targets a table / child of the
    original state that no chain selects by name.  [plain_driver] (the SQLite callbacks with an
    identity Normalize) is such a driver; the SQLite driver itself is not (it renames
    sqlite_autoindex_* indexes and rewrites foreign-key symbols), which is why the SQLite
    statement above stops at columns. *)
Theorem C19_plan_ignores_excluded :
  forall (D : DiffDriver) (skip : tag -> bool) (link1 link2 : bool * bool)
         (patterns : list bytes) (G : list (list bytes)) (from to from' to' : schema) (cs : list schange),
    norm_keeps_children D -> attr_targets D ->
    split patterns = EOk G -> chains_ok G ->
    ExcludeRealm link1 [from] patterns = EOk [from'] ->
    ExcludeRealm link2 [to] patterns = EOk [to'] ->
    SchemaDiff D skip from' to' = Some cs ->
    forall c, In c cs -> unexcluded_target2 G from to c.
Proof.
  intros D skip link1 link2 patterns G from to from' to' cs Hn Ha Hs HG H1 H2 Hd c Hc.
  rewrite (ExcludeRealm_ref link1 [from] patterns G Hs HG) in H1.
  rewrite (ExcludeRealm_ref link2 [to] patterns G Hs HG) in H2.
  unfold ref_realm in H1, H2. simpl in H1, H2.
  destruct (schema_hit G from); [discriminate|]. destruct (schema_hit G to); [discriminate|].
  simpl in H1, H2. inversion H1; subst. inversion H2; subst.
  exact (plan_ignores_excluded2 D skip link1 link2 G from to cs Hn Ha Hd c Hc).
Qed.
Print Assumptions C19_plan_ignores_excluded.

Theorem C19_plan_plain_driver : norm_keeps_children plain_driver /\ attr_targets plain_driver.
Proof. exact plain_driver_ok. Qed.
Print Assumptions C19_plan_plain_driver.

(** [chains_ok] follows from well-formedness of every glob (C19_match_spec, first half) *)
Theorem C19_chains_ok_wf :
  forall G : list (list bytes),
    Forall (fun g => g <> [] /\ List.length g <= 3 /\ Forall (fun v => WellFormed (glob_of v)) g) G -> chains_ok G.
Proof.
  intros G H. unfold chains_ok. eapply Forall_impl; [|exact H]. intros g (H1 & H2 & H3).
  split; [exact H1|]. split; [exact H2|]. eapply Forall_impl; [|exact H3].
  intros v Hw n. exact (Match_total (glob_of v) n Hw).
Qed.
Print Assumptions C19_chains_ok_wf.

(** non-vacuity: column b of t is excluded in both states, column c is added: the plan adds c
    and says nothing about b, which only the current state has *)
Definition ex_from' : schema :=
  mkSchema [109]%N [mkTable [116]%N false false [ex_col 97] None
    [mkIndex [105]%N false [mkPart 0 false (Some [97]%N) None] None None None] [] []].

Example C19_plan_nonvacuous :
  let pats := [[109;46;116;46;98]%N] in   (* "m.t.b" *)
  ExcludeRealm (true, true) [ex_from] pats = EOk [ex_from'] /\
  ExcludeRealm (true, true) [ex_to] pats = EOk [ex_to] /\
  SchemaDiff sqlite_driver no_skip ex_from' ex_to = Some [ModifyTable [116]%N [AddColumn [99]%N; DropIndex [105]%N]].
Proof. split; [vm_compute; reflexivity|]. split; vm_compute; reflexivity. Qed.

(** ** C19_exclude_schema_scope (round 3).  The scope rule of exclusion patterns
    (sql/schema/inspect.go, InspectOptions.Exclude): t = exclude table t; t.c = exclude column,
    index and foreign key c of table t; likewise with wildcards.  At the scope of ONE schema (every
    SQLite connection: schema main; MySQL/PostgreSQL URLs bound to a schema; ExcludeSchema) the
    first component of a pattern names a TABLE -- also when a table, a column or an index is
    called like the schema (patterns main, main.secret, main.STAR, main.STAR[type=index]) -- and
    nothing outside that schema is touched.

    For every realm [r] (any names at any level), link mode, schema [s] of it whose name is plain
    (no dot, double quote, CR, LF, no glob meta character, no closing bracket: [ExcludeSchema]
    builds schema-dot-pattern without quoting), every pattern list that splits into chains [G] of
    one or two globs that [filepath.Match] answers for every name (every well-formed glob:
    C19_scope_chains_ok_wf):  [ExcludeSchema link r s patterns] is exactly [scope_realm]
    (Excl/ScopeSpec.v): the schemas called [s_name s] filtered by the chains AS GIVEN -- a
    one-element chain selects tables, a two-element chain children of the tables its first element
    selects, with the [type=...] selectors and the cascade of C19_exclude_exact_except -- and every
    other schema unchanged.  The reference never forms a qualified string; the proof goes through
    the code's own route (split of the qualified string by the csv model, [filepath.Match] of the
    literal schema name = equality, C19_exclude_exact_except on the qualified chains).
    Not covered: schema names that are not plain (observation in notes/C19.md: no quoting). *)
From Atlas Require Import Excl.ScopeSpec Excl.ScopeProofs.

Theorem C19_exclude_schema_scope :
  forall (link : bool * bool) (r : realm) (s : schema) (patterns : list bytes) (G : list (list bytes)),
    plain_schema_name (s_name s) -> split patterns = EOk G -> scope_chains_ok G ->
    ExcludeSchema link r s patterns = EOk (scope_realm link (s_name s) G r)
    /\ (forall m : bytes, Match (s_name s) m = Ok (bytes_eqb (s_name s) m)).
Proof.
  intros link r s patterns G Hn Hs HG. split.
  - exact (ExcludeSchema_scope link r s patterns G Hn Hs HG).
  - intros m. exact (Match_plain (s_name s) m Hn).
Qed.
Print Assumptions C19_exclude_schema_scope.

Theorem C19_scope_chains_ok_wf :
  forall G : list (list bytes),
    Forall (fun g => g <> [] /\ List.length g <= 2 /\ Forall (fun v => WellFormed (glob_of v)) g) G -> scope_chains_ok G.
Proof.
  intros G H. unfold scope_chains_ok. eapply Forall_impl; [|exact H]. intros g (H1 & H2 & H3).
  split; [exact H1|]. split; [exact H2|]. eapply Forall_impl; [|exact H3].
  intros v Hw n. exact (Match_total (glob_of v) n Hw).
Qed.
Print Assumptions C19_scope_chains_ok_wf.

(** non-vacuity, names that coincide: schema main { table main (columns main, secret; index secret
    on secret), table secret (column main) }, schema secret { table main (column secret) }.
    At the scope of schema main: pattern main.secret removes column secret and index secret of TABLE main
    and keeps table secret; pattern main removes table main only; schema secret is untouched by both. *)
Definition sc_col (n : bytes) : column := mkColumn n 2 [105;110;116]%N false None None None.
Definition sc_main : bytes := [109;97;105;110]%N.
Definition sc_secret : bytes := [115;101;99;114;101;116]%N.
Definition sc_realm : realm :=
  [mkSchema sc_main
     [mkTable sc_main false false [sc_col sc_main; sc_col sc_secret] None
        [mkIndex sc_secret false [mkPart 0 false (Some sc_secret) None] None None None] [] [];
      mkTable sc_secret false false [sc_col sc_main] None [] [] []];
   mkSchema sc_secret [mkTable sc_main false false [sc_col sc_secret] None [] [] []]].
Definition sc_s0 : schema := match sc_realm with s :: _ => s | [] => mkSchema [] [] end.

Example C19_exclude_schema_scope_nonvacuous :
  plain_schema_name (s_name sc_s0)
  /\ ExcludeSchema (true, true) sc_realm sc_s0 [sc_main ++ [46]%N ++ sc_secret]
     = EOk [mkSchema sc_main
              [mkTable sc_main false false [sc_col sc_main] None [] [] [];
               mkTable sc_secret false false [sc_col sc_main] None [] [] []];
            mkSchema sc_secret [mkTable sc_main false false [sc_col sc_secret] None [] [] []]]
  /\ ExcludeSchema (true, true) sc_realm sc_s0 [sc_main]
     = EOk [mkSchema sc_main [mkTable sc_secret false false [sc_col sc_main] None [] [] []];
            mkSchema sc_secret [mkTable sc_main false false [sc_col sc_secret] None [] [] []]]
  /\ scope_realm (true, true) sc_main [[sc_main; sc_secret]] sc_realm
     = [mkSchema sc_main
              [mkTable sc_main false false [sc_col sc_main] None [] [] [];
               mkTable sc_secret false false [sc_col sc_main] None [] [] []];
            mkSchema sc_secret [mkTable sc_main false false [sc_col sc_secret] None [] [] []]].
Proof. split; [vm_compute; reflexivity|]. split; [vm_compute; reflexivity|]. split; vm_compute; reflexivity. Qed.

(** ** C19_match_literal_exact (round 4).  Names that only a real glob tells apart: a pattern
    without glob meta characters is compared byte by byte -- an underscore or a percent sign in a
    pattern is NOT a wildcard (SQL LIKE), letter case is NOT folded, a prefix does NOT match.
    For every pattern [p] made of plain bytes (anything but STAR, question mark, brackets,
    backslash; also no dot / double quote / CR / LF, which the pattern splitter takes) and EVERY
    name [n] (any bytes): [filepath.Match p n = (p = n)].  With C19_match_spec (well-formed patterns
    with meta characters on plain names) this fixes the meaning of every table-level pattern; the
    tie runs the name sets of harness/cmd/glob/globonly.go (users / user_sessions / userXsessions,
    logs / log_1, Audit, a%b, a_b, aXb, ...) through ExcludeRealm, the SQLite driver and the CLI. *)
Theorem C19_match_literal_exact :
  forall p n : bytes, plain_schema_name p ->
    Match p n = Ok (bytes_eqb p n) /\ (Match p n = Ok true <-> p = n).
Proof.
  intros p n Hp. split; [exact (Match_plain p n Hp)|].
  rewrite (Match_plain p n Hp). split.
  - intros H. inversion H as [H']. apply bytes_eqb_eq. exact H'.
  - intros H. subst. rewrite bytes_eqb_refl. reflexivity.
Qed.
Print Assumptions C19_match_literal_exact.

(** non-vacuity: user_ / users, audit / Audit, a%b / axyb, a_b / aXb do not match; a_b / a_b does *)
Example C19_match_literal_nonvacuous :
  plain_schema_name [117;115;101;114;95]%N                                     (* user_ *)
  /\ Match [117;115;101;114;95]%N [117;115;101;114;115]%N = Ok false           (* user_ vs users *)
  /\ Match [97;117;100;105;116]%N [65;117;100;105;116]%N = Ok false            (* audit vs Audit *)
  /\ Match [97;37;98]%N [97;120;121;98]%N = Ok false                           (* a%b vs axyb *)
  /\ Match [97;95;98]%N [97;88;98]%N = Ok false                                (* a_b vs aXb *)
  /\ Match [97;95;98]%N [97;95;98]%N = Ok true.                                (* a_b vs a_b *)
Proof. repeat split; vm_compute; reflexivity. Qed.

(** ** Round 5: the consumers of the exclude option (cmd/atlas/internal/cmdapi).
    Model Excl/Consumers.v: the commands that accept [--exclude] ([schema inspect], [schema apply],
    [schema diff]; [migrate diff] does not and never reads [Env.Exclude]), the pflag string-slice
    value (every occurrence read by encoding/csv with Comma ','; the first Set replaces, later ones
    append), [setSchemaEnvFlags] / [maySetFlag] (the env list joined with "," and Set as ONE flag
    value unless the flag is Changed), the two [stateReader]s of a command, [computeDiff]. *)
From Atlas Require Import Excl.Consumers Excl.ConsumersProofs.

(** C19_consumers_env_as_flags.  Full statement: "exclude = [p1, ..., pn] in the env block selected
    with --env means what --exclude p1,...,pn and --exclude p1 ... --exclude pn mean: EVERY pattern
    of the list is effective, for every command that accepts --exclude."
    For every such command, every list [ps] of plain patterns (no comma, double quote, CR, LF -- what
    the csv reader of pflag takes; dots, glob meta characters and [type=...] selectors are plain) whose
    joined text is not empty, any other env list [e] and all raw states:
    (1) the value of flags.exclude on the env route is [ps] itself -- all n patterns, in order;
    (2) it is the same on the route of ONE flag value "p1,...,pn" (whatever the env block says);
    (3) and on the route of one occurrence per pattern (patterns non-empty);
    (4) hence the states read and the change set computed by the command are the same on the three routes. *)
Theorem C19_consumers_env_as_flags :
  forall (c : command) (ps : list bytes) (e : option (list bytes)) (rawF rawT : realm),
    has_exclude_flag c = true -> plain_pats ps -> join_comma ps <> [] ->
    effective (mkInv c [] (Some ps)) = EOk ps
    /\ effective (mkInv c [join_comma ps] e) = EOk ps
    /\ (Forall (fun p => p <> []) ps -> effective (mkInv c ps e) = EOk ps)
    /\ command_diff (mkInv c [] (Some ps)) rawF rawT = command_diff (mkInv c [join_comma ps] e) rawF rawT
    /\ (Forall (fun p => p <> []) ps ->
        command_diff (mkInv c [] (Some ps)) rawF rawT = command_diff (mkInv c ps e) rawF rawT).
Proof.
  intros c ps e rawF rawT Hc Hps Hne.
  assert (Hn : ps <> []) by (intros ->; apply Hne; reflexivity).
  split; [exact (effective_env c ps Hc Hps Hne)|].
  split; [exact (effective_one_flag c ps e Hc Hps Hne)|].
  split; [intros Hall; exact (effective_each_flag c ps e Hc Hps Hall Hn)|].
  exact (command_diff_routes c ps e rawF rawT Hc Hps Hne).
Qed.
Print Assumptions C19_consumers_env_as_flags.

(** non-vacuity: env exclude = ["t1", "t2.c*[type=column]"]: both patterns arrive, the second one too *)
Example C19_consumers_env_nonvacuous :
  let p1 := [116;49]%N in
  let p2 := [116;50;46;99;42;91;116;121;112;101;61;99;111;108;117;109;110;93]%N in
  plain_pats [p1; p2] /\ join_comma [p1; p2] <> []
  /\ effective (mkInv CApply [] (Some [p1; p2])) = EOk [p1; p2]
  /\ effective (mkInv CDiff [join_comma [p1; p2]] None) = EOk [p1; p2]
  /\ effective (mkInv CInspect [p1; p2] (Some [p2])) = EOk [p1; p2].
Proof.
  split; [repeat constructor|]. split; [vm_compute; discriminate|].
  split; [vm_compute; reflexivity|]. split; vm_compute; reflexivity.
Qed.

(** C19_consumers_env_exact (was C19_consumers_env_exact_refuted; fix C19-env-exclude-csv: setSchemaEnvFlags writes the env list
    as ONE CSV record -- cmdapi.joinCSV -- instead of joining it with ",").  For every command that accepts --exclude and
    EVERY env list [ps] (patterns may hold commas, double quotes, leading spaces; only CR / LF, which the pattern splitter
    rejects anyway, are outside) other than the empty list and the list of one empty pattern: the value of flags.exclude on
    the env route is [ps] itself -- every pattern whole, in order.  (The two excepted lists set nothing: flags.exclude = [].) *)
Theorem C19_consumers_env_exact :
  forall (c : command) (ps : list bytes),
    has_exclude_flag c = true -> no_crlf ps -> ps <> [] -> ps <> [[]] ->
    effective (mkInv c [] (Some ps)) = EOk ps.
Proof. exact effective_env_exact. Qed.
Print Assumptions C19_consumers_env_exact.

(** non-vacuity = the former witness: the env pattern "a,b" stays ONE pattern; so do a pattern holding a double quote and one with a leading space *)
Example C19_consumers_env_exact_nonvacuous :
  effective (mkInv CApply [] (Some [[97;44;98]%N])) = EOk [[97;44;98]%N]
  /\ effective (mkInv CDiff [] (Some [[116;51]; [97;34;98]; [32;120]]%N)) = EOk [[116;51]; [97;34;98]; [32;120]]%N
  /\ effective (mkInv CApply [] (Some [[]])) = EOk [].
Proof. split; [vm_compute; reflexivity|]. split; vm_compute; reflexivity. Qed.

(** the behaviour BEFORE the fix, kept for the record: the list joined with "," and read back by the csv reader of the
    flag -- ONE env pattern "a,b" became the TWO patterns a and b *)
Theorem C19_consumers_env_exact_before_fix :
  exists ps : list bytes,
    effective_before_fix (mkInv CApply [] (Some ps)) = EOk [[97]; [98]]%N
    /\ effective_before_fix (mkInv CApply [] (Some ps)) <> EOk ps
    /\ effective (mkInv CApply [] (Some ps)) = EOk ps.
Proof.
  exists [[97;44;98]%N]. split; [vm_compute; reflexivity|]. split; [vm_compute; discriminate|].
  vm_compute; reflexivity.
Qed.
Print Assumptions C19_consumers_env_exact_before_fix.

(** C19_consumers_flag_hides_env: an [--exclude] on the command line (any values, plain or not) makes the
    env list irrelevant -- it is replaced, not merged; without --env the list is the flags' alone; a
    command without the flag ([migrate diff], [schema clean]) has the empty list whatever the env block says. *)
Theorem C19_consumers_flag_hides_env :
  forall (c : command) (v : bytes) (occ : list bytes) (e : option (list bytes)),
    effective (mkInv c (v :: occ) e) = effective (mkInv c (v :: occ) None)
    /\ effective (mkInv c (v :: occ) None) = effective (mkInv c (v :: occ) (Some []))
    /\ (has_exclude_flag c = false -> effective (mkInv c [] e) = EOk []).
Proof.
  intros c v occ e. split; [exact (effective_flag_wins c v occ e)|].
  split; [exact (effective_no_env c (v :: occ))|exact (effective_no_flag c e)].
Qed.
Print Assumptions C19_consumers_flag_hides_env.

Example C19_consumers_flag_hides_env_nonvacuous :
  effective (mkInv CApply [[116;49]%N] (Some [[116;50]%N])) = EOk [[116;49]%N]
  /\ effective (mkInv CApply [] (Some [[116;50]%N])) = EOk [[116;50]%N]
  /\ effective (mkInv CMigrateDiff [] (Some [[116;50]%N])) = EOk [].
Proof. split; [vm_compute; reflexivity|]. split; vm_compute; reflexivity. Qed.

(** C19_consumers_env_ignored_refuted.  Statement as worded for the project-file form: "a resource that
    matches a pattern of the exclude list of the env selected with --env is never created or dropped by a
    plan of a command run with that env."  False of the faithful model for the two commands that have
    no exclude flag: with exclude = ["t"], [schema clean --env e] plans DROP TABLE t and
    [migrate diff --env e] plans CREATE TABLE t, while [schema apply --env e] with the same env leaves t
    alone.  Reproduced on the real CLI by the consumers stage (findings C19-schema-clean-ignores-env-exclude,
    C19-migrate-diff-ignores-env-exclude); what does hold: C19_consumers_flag_hides_env (3) -- the list of
    such a command is empty for every env -- and C19_consumers_same_patterns. *)
Theorem C19_consumers_env_ignored_refuted :
  exists (ps : list bytes) (n : bytes) (s0 s1 : schema),
    In n ps /\ gmatch n n = EOk true
    /\ command_diff (mkInv CClean [] (Some ps)) [s1] [s0] = EOk ([s1], [s0], Some [DropTable n])
    /\ command_diff (mkInv CMigrateDiff [] (Some ps)) [s0] [s1] = EOk ([s0], [s1], Some [AddTable n])
    /\ command_diff (mkInv CApply [] (Some ps)) [s1] [s0] = EOk ([s0], [s0], Some []).
Proof.
  exists [[116]%N], [116]%N, (mkSchema [109]%N []),
         (mkSchema [109]%N [mkTable [116]%N false false [ex_col 97] None [] [] []]).
  split; [left; reflexivity|]. split; [vm_compute; reflexivity|].
  split; [vm_compute; reflexivity|]. split; vm_compute; reflexivity.
Qed.
Print Assumptions C19_consumers_env_ignored_refuted.

(** C19_consumers_same_patterns.  "For every command both sides of the diff are filtered by the same
    pattern list": for every invocation (command, flag occurrences, env list) and raw states, when the
    command reads its two states they are [ExcludeSchema] of the raw states with ONE list, the
    effective one (first schema = the schema the URL is bound to). *)
Theorem C19_consumers_same_patterns :
  forall (i : invocation) (rawF rawT f t : realm),
    states_of i rawF rawT = EOk (f, t) ->
    exists pats, effective i = EOk pats
      /\ read_state link_db rawF pats = EOk f
      /\ read_state (link_to (i_cmd i)) rawT pats = EOk t.
Proof. exact states_same_list. Qed.
Print Assumptions C19_consumers_same_patterns.

(** C19_consumers_plan_ignores_excluded: the change set a command computes (computeDiff on the two states
    it read) never targets a table or column that the effective list excludes -- composition of the
    plumbing model with C19_plan_ignores_excluded_partial for the SQLite driver (tables and columns;
    index / foreign-key level: see there).  [G]: the chains of the effective patterns qualified with the
    schema name, as ExcludeSchema builds them. *)
Theorem C19_consumers_plan_ignores_excluded :
  forall (i : invocation) (pats : list bytes) (G : list (list bytes)) (from to from' to' : schema) (cs : list schange),
    s_name to = s_name from ->
    effective i = EOk pats ->
    split (map (fun p => s_name from ++ ch_dot :: p) pats) = EOk G -> chains_ok G ->
    command_diff i [from] [to] = EOk ([from'], [to'], Some cs) ->
    forall c, In c cs -> unexcluded_target G from to c.
Proof.
  intros i pats G from to from' to' cs Hnm He Hs HG Hd c Hc.
  unfold command_diff, states_of in Hd. rewrite He in Hd. unfold states_with, read_state in Hd.
  destruct (ExcludeSchema link_db [from] from pats) as [f|e1] eqn:E1; [|discriminate].
  destruct (ExcludeSchema (link_to (i_cmd i)) [to] to pats) as [t|e2] eqn:E2; [|discriminate].
  inversion Hd as [[Hf Ht Hcs]]. subst f t. clear Hd.
  destruct pats as [|p ps].
  - simpl in E1, E2, Hs. injection E1 as <-. injection E2 as <-. injection Hs as <-.
    apply (C19_plan_ignores_excluded_partial sqlite_driver no_skip link_db link_db [] [] from to from to cs
             sqlite_norm_keeps_cols sqlite_attr_no_cols eq_refl HG eq_refl eq_refl Hcs c Hc).
  - unfold ExcludeSchema in E1, E2. rewrite Hnm in E2.
    exact (C19_plan_ignores_excluded_partial sqlite_driver no_skip link_db (link_to (i_cmd i)) _ G from to from' to' cs
             sqlite_norm_keeps_cols sqlite_attr_no_cols Hs HG E1 E2 Hcs c Hc).
Qed.
Print Assumptions C19_consumers_plan_ignores_excluded.

(** non-vacuity: `schema apply --env e` with exclude = ["x", "t.b"]: only the SECOND pattern matches
    anything; column b (current state only) is not dropped, column c is added *)
Example C19_consumers_plan_nonvacuous :
  command_diff (mkInv CApply [] (Some [[120]; [116;46;98]]%N)) [ex_from] [ex_to]
  = EOk ([ex_from'], [ex_to], Some [ModifyTable [116]%N [AddColumn [99]%N; DropIndex [105]%N]]).
Proof. vm_compute. reflexivity. Qed.

(** ** C19_consumers_census (round 5).  The facts about the Go sources that Excl/Consumers.v builds in,
    re-read from the sources on every run (gen/Gen_ExcludeSites.v, harness/cmd/glob/gensites.go: go/ast over
    the non-test OSS files of cmd/atlas/internal/{cmdapi,cmdext}, sql/{sqlite,mysql,postgres,migrate,internal/sqlx}):
    (1) [addFlagExclude] is called by the constructor of a command iff [has_exclude_flag] says so, and by no other function;
    (2) every [stateReaderConfig] literal of the Run function of a command with the flag carries
        [exclude: flags.exclude] -- one literal for [schema inspect], BOTH literals for [schema apply] and [schema diff]
        (the two sides of the diff get the same expression) -- and the literal of [migrateDiffRun] carries none;
    (3) every read of an Exclude field has a known role; in sql/sqlite, sql/mysql, sql/postgres the only reads are the
        second argument of [schema.ExcludeRealm] / [schema.ExcludeSchema] in the FINAL return of [InspectRealm] /
        [InspectSchema] (two per driver): exclusion during inspection is a post-filter of the inspected realm in all three
        drivers, never a catalogue query (the mode shortcut of sqlx.ModeInspectSchema/Realm for a literal "*" / "*.*"
        is the one other reader on that path); [Env.Exclude] has exactly one reader, [setSchemaEnvFlags].
    A finite check over the generated lists ([vm_compute]); a change of the sources that breaks one of the three
    makes this obligation fail on the next run. *)
From Atlas Require Import gen.Gen_ExcludeSites Excl.ConsumersCensus.

Theorem C19_consumers_census :
  census_flags = true /\ census_readers = true /\ census_sites = true.
Proof. split; [vm_compute; reflexivity|]. split; vm_compute; reflexivity. Qed.
Print Assumptions C19_consumers_census.

(** non-vacuity: the lists are not empty and name the functions the model is about *)
Example C19_consumers_census_nonvacuous :
  List.length gen_exclude_flag_funcs = 3 /\ readers_of "schemaDiffRun"%string = ["flags.exclude"; "flags.exclude"]%string
  /\ readers_of "migrateDiffRun"%string = ["-"]%string /\ List.length driver_sites = 6.
Proof. repeat split; vm_compute; reflexivity. Qed.

(** ** Round 5, goal 1: every resource kind of exclude_oss.go.  Model Excl/ExcludeX.v: views (columns,
    triggers), functions, procedures, schema objects and realm objects (SpecTypeNamer selectors such as
    [type=enum]), table triggers, next to the tables of Excl/Exclude.v; tied by the excludex stage.

    C19_excludeX_names_ref.  For every realm (any names; a view, a function, a procedure and a table may share
    a name), link mode and non-empty pattern list that splits into chains [G]: whenever ExcludeRealm succeeds,
    the schemas of the result are the original ones minus those selected by a one-element chain, and in each
    of them the views, the functions and the procedures are the original lists minus EXACTLY the selected
    ones (a [filter]: kept = unchanged, in order):
      a view is removed by a two-element chain whose second element admits [view] and matches its name
      (a three-element chain filters its columns / triggers and keeps it);
      a function / procedure by a two-element chain whose second element admits [function] / [procedure] and
      matches its name ([routine_hit]; since fix C19-exclude-routine-child-pattern a three-element chain leaves it alone).
    Not in this statement (tied and judged by the oracle of the excludex stage only): the children of a view,
    table triggers, schema and realm objects; that the call succeeds when every glob is well formed is proved
    for the table part only (C19_exclude_exact_except). *)
From Atlas Require Import Excl.ExcludeX Excl.ExcludeXProofs.

Theorem C19_excludeX_names_ref :
  forall (link : bool * bool) (r r' : xrealm) (patterns : list bytes) (G : list (list bytes)),
    patterns <> [] -> split patterns = EOk G -> ExcludeRealmX link r patterns = EOk r' ->
    map names_of (xr_schemas r')
    = map (ref_names G) (filter (fun s => negb (xschema_hit G (xs_name s))) (xr_schemas r)).
Proof. intros link r r' patterns G. exact (ExcludeRealmX_names link r patterns G r'). Qed.
Print Assumptions C19_excludeX_names_ref.

Definition xex_users : bytes := [117;115;101;114;115]%N.
Definition xex_realm : xrealm :=
  mkXR [] [mkXS [109]%N [mkXT (mkTable xex_users false false [ex_col 105] None [] [] []) []]
                 [mkView [118]%N [[105]%N] []; mkView xex_users [[105]%N] []] [xex_users; [102]%N] [xex_users] []].

(** non-vacuity: "m.users" removes table, view, function and procedure users and keeps view v, function f *)
Example C19_excludeX_names_nonvacuous :
  exists r', ExcludeRealmX (true, true) xex_realm [([109;46]%N ++ xex_users)%list] = EOk r'
    /\ map names_of (xr_schemas r') = [([109]%N, [[118]%N], [[102]%N], [])].
Proof. eexists. split; vm_compute; reflexivity. Qed.

(** C19_excludeX_child_patterns_keep_routines (was C19_excludeX_routine_child_pattern_refuted; fix
    C19-exclude-routine-child-pattern: excludeS filters functions / procedures only for two-component patterns).
    For every realm, link mode and pattern list made of three-element chains only (schema.table.child patterns): whenever
    the call succeeds, every schema survives with ALL its functions and procedures -- a pattern addressed to a child of
    table users no longer removes the function / procedure called users.  (Two-element chains: C19_excludeX_names_ref,
    whose [routine_hit] is now the two-element form.) *)
Theorem C19_excludeX_child_patterns_keep_routines :
  forall (link : bool * bool) (r r' : xrealm) (patterns : list bytes) (G : list (list bytes)),
    patterns <> [] -> split patterns = EOk G -> Forall (fun g => List.length g = 3) G ->
    ExcludeRealmX link r patterns = EOk r' ->
    map (fun s => (xs_name s, xs_funcs s, xs_procs s)) (xr_schemas r')
    = map (fun s => (xs_name s, xs_funcs s, xs_procs s)) (xr_schemas r).
Proof. intros link r r' patterns G. exact (child_patterns_keep_routines link r patterns G r'). Qed.
Print Assumptions C19_excludeX_child_patterns_keep_routines.

(** non-vacuity = the former witness: "m.users.i" removes column i of table users and keeps function and procedure users *)
Example C19_excludeX_child_patterns_nonvacuous :
  exists r' G, split [([109;46]%N ++ xex_users ++ [46;105]%N)%list] = EOk G /\ Forall (fun g => List.length g = 3) G
    /\ ExcludeRealmX (true, true) xex_realm [([109;46]%N ++ xex_users ++ [46;105]%N)%list] = EOk r'
    /\ map (fun s => xs_funcs s) (xr_schemas r') = [[xex_users; [102]%N]]
    /\ map (fun s => xs_procs s) (xr_schemas r') = [[xex_users]]
    /\ proj_realm r' = [mkSchema [109]%N [mkTable xex_users false false [] None [] [] []]].
Proof.
  eexists. eexists. split; [vm_compute; reflexivity|]. split; [repeat constructor|].
  split; [vm_compute; reflexivity|]. repeat split; vm_compute; reflexivity.
Qed.

(** the behaviour BEFORE the fix, kept for the record: the function / procedure filters ran for every glob length, so
    the second element users of the three-element glob [users; i] removed the function called users *)
Theorem C19_excludeX_routine_child_pattern_before_fix :
  exists (g1 : bytes) (gtl : list bytes) (funcs : list bytes),
    gtl <> [] /\ routines_before_fix typeFn g1 gtl funcs = EOk [[102]%N]
    /\ routines_after_fix typeFn g1 gtl funcs = EOk funcs /\ funcs = [xex_users; [102]%N].
Proof.
  exists xex_users, [[105]%N], [xex_users; [102]%N].
  split; [discriminate|]. split; [vm_compute; reflexivity|]. split; vm_compute; reflexivity.
Qed.
Print Assumptions C19_excludeX_routine_child_pattern_before_fix.

(** C19_excludeX_tables_conservative.  The table part of the extended model IS the model of Excl/Exclude.v: for every
    realm with views, functions, procedures, objects and triggers, link mode and pattern list, if ExcludeRealm
    succeeds on it then it succeeds on the realm reduced to its schemas and tables and gives the reduced
    result.  Hence C19_exclude_exact_except, C19_exclude_schema_scope and C19_plan_ignores_excluded describe the
    tables, columns, indexes, foreign keys and checks of such realms too (the other resources never change what
    happens to them). *)
Theorem C19_excludeX_tables_conservative :
  forall (link : bool * bool) (r r' : xrealm) (patterns : list bytes),
    ExcludeRealmX link r patterns = EOk r' ->
    ExcludeRealm link (proj_realm r) patterns = EOk (proj_realm r').
Proof. intros link r r' patterns. exact (ExcludeRealmX_proj link r patterns r'). Qed.
Print Assumptions C19_excludeX_tables_conservative.

Example C19_excludeX_tables_conservative_nonvacuous :
  exists r', ExcludeRealmX (true, true) xex_realm [([109;46]%N ++ xex_users ++ [46;105]%N)%list] = EOk r'
    /\ proj_realm r' = [mkSchema [109]%N [mkTable xex_users false false [] None [] [] []]].
Proof. eexists. split; vm_compute; reflexivity. Qed.

(** ** C19_skip_census (round 5, goal 3).  Every place where the generic differ and the three dialect differs make a
    [schema.Change] (gen/Gen_ChangeSites.v: every composite literal [&schema.<Kind>{...}] of sql/internal/sqlx/diff.go,
    sql/sqlite/diff.go, sql/mysql/diff_oss.go, sql/postgres/diff_oss.go, re-read on every run) either
    - is an argument of [AddOrSkip], or
    - is appended to a slice that the same function then feeds element by element to [AddOrSkip]
      (columnDiff, indexDiffT: [for _, c := range all { changes = opts.AddOrSkip(changes, c) }]), or
    - sits in a function all of whose calls are arguments of [AddOrSkip] (addTableChange, addViewChange) or sit in
      such a loop-guarded function (the dialects' ColumnChange, called by columnDiff only), or
    - makes a kind the diff policy cannot name (gen/Gen_SkipKinds.v);
    and the kinds made outside every AddOrSkip route are exactly attribute and check changes
    (AddAttr/DropAttr/ModifyAttr, AddCheck/DropCheck/ModifyCheck) -- the hypothesis [attr_changes_only] of C19_skip,
    now read off the sources of all three dialects.  A finite check over generated lists; the classification of a
    literal's context by its parent node (genchanges.go) is syntactic and trusted. *)
From Atlas Require Import gen.Gen_ChangeSites Excl.SkipCensus.

Theorem C19_skip_census :
  census_changes = true
  /\ forallb (fun k => negb (policy_kind k)) unguarded_kinds = true
  /\ forallb (fun k => in_strs k ["AddAttr"; "DropAttr"; "ModifyAttr"; "AddCheck"; "DropCheck"; "ModifyCheck"]%string) unguarded_kinds = true.
Proof. split; [vm_compute; reflexivity|]. split; vm_compute; reflexivity. Qed.
Print Assumptions C19_skip_census.

Example C19_skip_census_nonvacuous :
  gen_change_literals <> [] /\ gen_addorskip_loops = [("columnDiff", "all"); ("indexDiffT", "all")]%string
  /\ calls_guarded "addTableChange"%string = true /\ calls_guarded "ColumnChange"%string = true
  /\ calls_guarded "TableAttrDiff"%string = false /\ unguarded_kinds <> [].
Proof. split; [vm_compute; discriminate|]. split; [reflexivity|]. repeat split; try (vm_compute; reflexivity). vm_compute. discriminate. Qed.

(** C19_excludeX_exact.  With every glob well formed (then [chains_ok]: C19_chains_ok_wf) the call on a realm with
    every resource kind SUCCEEDS, and its result is exact at once for: the schemas, the view names, the functions and
    the procedures (C19_excludeX_names_ref) and -- through the projection -- the tables with their columns, indexes,
    foreign keys and checks ([ref_realm] of C19_exclude_exact_except). *)
Theorem C19_excludeX_exact :
  forall (link : bool * bool) (r : xrealm) (patterns : list bytes) (G : list (list bytes)),
    patterns <> [] -> split patterns = EOk G -> chains_ok G ->
    exists r', ExcludeRealmX link r patterns = EOk r'
      /\ map names_of (xr_schemas r')
         = map (ref_names G) (filter (fun s => negb (xschema_hit G (xs_name s))) (xr_schemas r))
      /\ proj_realm r' = ref_realm link G (proj_realm r).
Proof.
  intros link r patterns G Hne Hs HG.
  destruct (ExcludeRealmX_total link r patterns G Hs HG) as [r' E]. exists r'.
  split; [exact E|]. split; [exact (ExcludeRealmX_names link r patterns G r' Hne Hs E)|].
  pose proof (ExcludeRealmX_proj link r patterns r' E) as P.
  rewrite (ExcludeRealm_ref link (proj_realm r) patterns G Hs HG) in P. inversion P; reflexivity.
Qed.
Print Assumptions C19_excludeX_exact.

Example C19_excludeX_exact_nonvacuous :
  exists G, split [([109;46]%N ++ xex_users)%list] = EOk G /\ G = [[[109]%N; xex_users]].
Proof. eexists. split; vm_compute; reflexivity. Qed.
