(** C20 -- outputs are deterministic.

    Full statement (properties.jsonl): "Planning the same change between the same two schemas,
    marshalling the same schema, formatting the same plan and hashing the same directory always
    produce byte-identical output, across repeated runs in one or several processes and when run
    concurrently with unrelated operations.  Listing the same objects in a different order in the
    source files changes at most the order of independent statements, never their content or the
    resulting schema."

    A Gallina function is deterministic by construction; what is proved here is the part of the
    statement that is not trivial for Go: every [range] over a map (census gen/Gen_MapRanges.v)
    whose body is not syntactically commutative is modelled in Det/OrderModel.v as a function of an
    ARBITRARY permutation of the map's entries, and its result is shown not to depend on that
    permutation ([C20_map_order_irrelevant_<site>]), or -- where the faithful model does depend on
    it -- the dependence is exhibited ([..._refuted]) next to what does hold ([..._except]).

    PARTIAL, explicitly:
    * freedom from data races / shared mutable state under concurrent use is a property of the Go
      runtime execution that no Gallina model exhibits; it is covered by the harness only
      (goroutines + a -race build, see notes/C20.md);
    * [..._partial] theorems carry a premise about a function that is not modelled; the bucket
      effect of QualifyObjects is concrete since round 5 (Det/QualifyModel.v) and its premise is
      discharged by [C20_qualify_map_order_irrelevant]; evalReferences is proved on a model of its closure [visit] under
      a locality premise on the (unmodelled) HCL expression evaluator; that the error STATUS is
      also independent of the order in which edges() lists references is not proved (the value is);
    * the models of State.EvalOptions, Resource.as and registry.lookup follow the tree WITH the
      three fixes notes/fixes/C20-hcl-*.diff (before them each had a _refuted/_except pair);
    * [C20_decl_order_partial] covers the DetachCycles stage only (no premise: sortMap's cycle
      detection is proved order-independent); that SortChanges emits a permutation respecting
      dependsOn is C04's theorem, and
      "the resulting schema is the same" is checked on the real SQLite engine by the harness;
    * "the output of a differ / planner does not depend on what other differs of the process did
      before" (round 5) is a property of Go package state: the finite obligation
      [C20_pkgstate_covered] (generated census of package-level mutable variables against the table
      of variables the `history` stage exercises) + the harness; not a theorem about the differs. *)
From Coq Require Import List Bool Arith NArith Permutation String Relations.
From Coq Require Sorting.Sorted.
From Atlas Require Import Base.Bytes Plan.SortModel Dir.DirModel.
From Atlas Require Import Det.Census Det.OrderModel Det.OrderIndep Det.SortMapCycle Det.EvalRefs Det.CensusCovered gen.Gen_MapRanges.
From Atlas Require Import Det.QualifyModel Det.QualifyProofs Det.QualifyClosure Det.PkgState Det.PkgStateCovered gen.Gen_PkgState.
Import ListNotations.

(** * Census *)

(* every non-commutative map range of the current tree is a modelled site, and vice versa *)
Theorem C20_census_covered : census_covered map_ranges modelled_sites = true.
Proof. exact census_is_covered. Qed.
Print Assumptions C20_census_covered.
Example C20_census_nonvacuous :
  (3 <=? List.length (filter (fun r => class_eqb (mr_class r) SortedAfter) map_ranges))
  && (15 <=? List.length (filter (fun r => class_eqb (mr_class r) Sens) map_ranges)) = true.
Proof. vm_compute. reflexivity. Qed.

(** Round 5: census of package-level mutable state (gen/Gen_PkgState.v, written by the same go/types
    pass on every run): every package-level variable of map / slice / pointer / sync type (or a struct
    holding one) that the anchored packages write after initialisation is a row of the table
    Det/PkgStateCovered.v -- which names, per variable, the scenario of the process-history stage
    (`history`) that exercises it (7 rows) or the reason it cannot be reached (2 rows: the CLI flag
    block, the framework's own crash-point table) -- and every row of that table is still a Mutable
    variable of the regenerated census.  A new package-level cache breaks this obligation. *)
Theorem C20_pkgstate_covered :
  pkgstate_covered pkg_state exercised_state = true.
Proof. exact pkgstate_is_covered. Qed.
Print Assumptions C20_pkgstate_covered.
(* the obligation is not vacuous: a new shared cache (mutant r5-b1) is refused *)
Example C20_pkgstate_new_cache_refused :
  pkgstate_covered
    (PV "sql/mysql/internal/mysqlversion/mysqlversion.go" "c2cCache" "map" Mutable :: pkg_state)
    exercised_state = false.
Proof. vm_compute. reflexivity. Qed.

(** * sql/internal/sqlx/plan.go *)

Theorem C20_map_order_irrelevant_byKeys : forall (V : Type) (m m' : list (bytes * V)),
  Permutation m m' -> NoDup (map fst m) -> byKeys m = byKeys m'.
Proof. exact @byKeys_perm. Qed.
Print Assumptions C20_map_order_irrelevant_byKeys.

(* sort.Slice is not stable and not insertion sort beyond 12 elements: irrelevant *)
Theorem C20_map_order_irrelevant_byKeys_any_sort : forall (V : Type) (m out : list (bytes * V)),
  NoDup (map fst m) -> Permutation out m ->
  Sorted.StronglySorted (fun a b => bytes_ltb (fst a) (fst b) = true) out -> out = byKeys m.
Proof. exact @byKeys_any_sort. Qed.
Print Assumptions C20_map_order_irrelevant_byKeys_any_sort.
Example C20_byKeys_ex :
  byKeys [([99%N], 3); ([97%N], 1); ([100%N], 4); ([98%N], 2)]
  = [([97%N], 1); ([98%N], 2); ([99%N], 3); ([100%N], 4)]
  /\ byKeys [([98%N], 2); ([100%N], 4); ([97%N], 1); ([99%N], 3)]
  = [([97%N], 1); ([98%N], 2); ([99%N], 3); ([100%N], 4)].
Proof. vm_compute. split; reflexivity. Qed.

Theorem C20_map_order_irrelevant_sortMap : forall (cs : list change) (m : deps_t),
  Permutation m (dependencies cs) -> sortMap_over m = sortMap cs.
Proof. exact sortMap_perm. Qed.
Print Assumptions C20_map_order_irrelevant_sortMap.
Example C20_sortMap_ex :
  let t n := mkT n 0 n in
  let cs := [AddTable (t 1) [mkFK 0 (t 1) (t 2)]; AddTable (t 3) [mkFK 1 (t 3) (t 1)]; AddTable (t 2) []] in
  dependencies cs = [(1, [2]); (3, [1])]
  /\ sortMap_over [(3, [1]); (1, [2])] = SMOk [2; 1; 3] /\ sortMap cs = SMOk [2; 1; 3].
Proof. vm_compute. repeat split; reflexivity. Qed.

(* DetachCycles = sortMap + sort.Slice by the index map (M-SORT), with [deps] in any order *)
Theorem C20_map_order_irrelevant_DetachCycles : forall (cs : list change) (m : deps_t),
  Permutation m (dependencies cs) -> DetachCycles_over m cs = DetachCycles cs.
Proof. exact DetachCycles_over_perm. Qed.
Print Assumptions C20_map_order_irrelevant_DetachCycles.
Example C20_DetachCycles_ex :
  let t n := mkT n 0 n in
  let a := AddTable (t 1) [mkFK 0 (t 1) (t 2)] in
  let b := AddTable (t 3) [mkFK 1 (t 3) (t 1)] in
  let c := AddTable (t 2) [] in
  DetachCycles_over [(3, [1]); (1, [2])] [a; b; c] = DCOk [c; a; b].
Proof. vm_compute. reflexivity. Qed.

Theorem C20_map_order_irrelevant_CheckChangesScope : forall names names' : list bytes,
  Permutation names names' -> NoDup names ->
  CheckChangesScope_names names = CheckChangesScope_names names'.
Proof. exact CheckChangesScope_names_perm. Qed.
Print Assumptions C20_map_order_irrelevant_CheckChangesScope.
Example C20_CheckChangesScope_ex :
  CheckChangesScope_names [[99%N]; [97%N]; [98%N]] = Some [[97%N]; [98%N]; [99%N]]
  /\ CheckChangesScope_names [[97%N]] = None.
Proof. vm_compute. split; reflexivity. Qed.

(** * sql/migrate/dir.go *)

(* MemDir.Files (range over d.fs); LocalDir.Files (names from fs.Glob in any order) *)
Theorem C20_map_order_irrelevant_Files : forall st st' : store,
  Permutation st st' -> NoDup (map fst st) -> files_of st = files_of st'.
Proof. exact files_of_perm. Qed.
Print Assumptions C20_map_order_irrelevant_Files.

Theorem C20_map_order_irrelevant_Files_any_sort : forall (st : store) (out : list file),
  NoDup (map fst st) -> Permutation out (filter (fun f => is_sql (fst f)) st) ->
  Sorted.StronglySorted (fun a b => bytes_ltb (fst a) (fst b) = true) out -> out = files_of st.
Proof. exact files_of_any_sort. Qed.
Print Assumptions C20_map_order_irrelevant_Files_any_sort.

(* Dir.Checksum + HashFile.MarshalText = the bytes of atlas.sum, for every hash function *)
Theorem C20_map_order_irrelevant_NewHashFile : forall (HS : bytes -> bytes) (st st' : store),
  Permutation st st' -> NoDup (map fst st) -> ChecksumText HS st = ChecksumText HS st'.
Proof. exact Checksum_perm. Qed.
Print Assumptions C20_map_order_irrelevant_NewHashFile.
Example C20_Files_ex :
  let f2 := ([50; 46; 115; 113; 108]%N, [1%N]) in
  let f1 := ([49; 46; 115; 113; 108]%N, [2%N]) in
  let tx := ([116; 120; 116]%N, [3%N]) in
  files_of [f2; tx; f1] = [f1; f2] /\ files_of [f1; f2; tx] = [f1; f2]
  /\ ChecksumText (fun b => b) [f2; tx; f1] = ChecksumText (fun b => b) [tx; f1; f2].
Proof. vm_compute. repeat split; reflexivity. Qed.

Theorem C20_map_order_irrelevant_MemDir_Close : forall (d : nat) (opened opened' : list memdir),
  Permutation opened opened' -> NoDup (map fst opened) -> MemDir_Close d opened = MemDir_Close d opened'.
Proof. exact MemDir_Close_perm. Qed.
Print Assumptions C20_map_order_irrelevant_MemDir_Close.
Example C20_MemDir_Close_ex :
  MemDir_Close 7 [([98%N], (7, 1)); ([97%N], (5, 2)); ([99%N], (6, 1))] = Some [([97%N], (5, 2)); ([99%N], (6, 1))]
  /\ MemDir_Close 7 [([98%N], (7, 1)); ([97%N], (7, 2))] = None.
Proof. vm_compute. split; reflexivity. Qed.

(** * cmd/atlas/internal/cmdapi/cmdapi.go *)

Theorem C20_map_order_irrelevant_resetFromEnv : forall (flags : list (nat * flag)) (m m' : list (nat * nat)),
  Permutation m m' -> NoDup (map fst m) -> resetFromEnv flags m = resetFromEnv flags m'.
Proof. exact resetFromEnv_perm. Qed.
Print Assumptions C20_map_order_irrelevant_resetFromEnv.
Example C20_resetFromEnv_ex :
  resetFromEnv [(1, (true, 10)); (2, (false, 20)); (3, (true, 30))] [(3, 0); (1, 5); (2, 6)]
  = [(1, (false, 5)); (2, (false, 20)); (3, (false, 0))].
Proof. vm_compute. reflexivity. Qed.

(** * schemahcl/context.go *)

(* State.evalReferences with its closure [visit] modelled (DFS with cycle detection through
   [progress]; [visited] is never written in the Go code, so nothing is memoised).  For every
   order of the map [nodes] the loop fails in both orders or leaves the same context.
   Premise about the HCL expression evaluator, which is not modelled: the value of a node's
   expression depends only on the context entries of the addresses it refers to. *)
Theorem C20_map_order_irrelevant_evalReferences :
  forall (Val : Type) (valueOf : nat -> ectx Val -> option Val) (referenced : nat -> bool) (T : deps_t),
  (forall n c c', (forall e, In e (edges_of T n) -> mget Val e c = mget Val e c') -> valueOf n c = valueOf n c') ->
  forall (l l' : list (nat * list nat)) (c : ectx Val),
  Permutation l l' -> incl (map fst l) (map fst T) -> msorted Val c ->
  evalReferences_loop Val valueOf T referenced l c = evalReferences_loop Val valueOf T referenced l' c.
Proof. exact evalReferences_loop_perm. Qed.
Print Assumptions C20_map_order_irrelevant_evalReferences.
(* 1 -> 2 -> 3, 4 -> 3; value = 1 + sum of the values referred to; node 5 refers to itself *)
Example C20_evalReferences_ex :
  let T := [(1, [2]); (2, [3]); (3, []); (4, [3; 9])] in
  let valueOf n (c : ectx nat) := Some (S (fold_left (fun s e => s + match mget nat e c with Some v => v | None => 0 end) (edges_of T n) 0)) in
  evalReferences_loop nat valueOf T (fun _ => true) [(4, [3; 9]); (1, [2]); (3, []); (2, [3])] [] = EOk nat [(1, 3); (2, 2); (3, 1); (4, 2)]
  /\ evalReferences_loop nat valueOf T (fun _ => true) T [] = EOk nat [(1, 3); (2, 2); (3, 1); (4, 2)]
  /\ evalReferences_loop nat valueOf [(5, [5])] (fun _ => true) [(5, [5])] [] = EErr nat.
Proof. vm_compute. repeat split; reflexivity. Qed.

(* edges() of data/typed blocks is bodyVars, itself a map order: the VALUE a node receives is the
   same whatever order the references are listed in (two edge tables with the same references) *)
Theorem C20_map_order_irrelevant_evalReferences_edge_order :
  forall (Val : Type) (valueOf : nat -> ectx Val -> option Val) (T T' : deps_t),
  (forall a, In a (map fst T) <-> In a (map fst T')) ->
  (forall n e, In e (deps_get n T) <-> In e (deps_get n T')) ->
  (forall n c c', (forall e, In e (edges_of T n) -> mget Val e c = mget Val e c') -> valueOf n c = valueOf n c') ->
  forall f k p a v, trace Val valueOf T f k p = TOk Val (a ++ [(k, v)]) ->
  forall f' p' a' v', trace Val valueOf T' f' k p' = TOk Val (a' ++ [(k, v')]) -> v = v'.
Proof. exact value_det. Qed.
Print Assumptions C20_map_order_irrelevant_evalReferences_edge_order.
Example C20_evalReferences_edge_order_ex :
  let valueOf n (c : ectx nat) := Some (S (match mget nat 2 c with Some v => v | None => 0 end + match mget nat 3 c with Some v => v | None => 0 end)) in
  trace nat valueOf [(1, [2; 3]); (2, []); (3, [])] 4 1 [] = TOk nat ([(2, 1); (3, 1)] ++ [(1, 3)])
  /\ trace nat valueOf [(1, [3; 2]); (2, []); (3, [])] 4 1 [] = TOk nat ([(3, 1); (2, 1)] ++ [(1, 3)]).
Proof. vm_compute. split; reflexivity. Qed.

Theorem C20_map_order_irrelevant_blockVars :
  forall (Node Val : Type) (blockVal : bytes -> Node -> option Val) (children children' : list (bytes * Node)),
  Permutation children children' -> NoDup (map fst children) ->
  blockVars Node Val blockVal children = blockVars Node Val blockVal children'.
Proof. exact blockVars_perm. Qed.
Print Assumptions C20_map_order_irrelevant_blockVars.
Example C20_blockVars_ex :
  blockVars nat nat (fun _ n => if n =? 0 then None else Some (n + 1)) [([98%N], 2); ([97%N], 1)]
  = Some [([97%N], 2); ([98%N], 3)]
  /\ blockVars nat nat (fun _ n => if n =? 0 then None else Some (n + 1)) [([98%N], 2); ([97%N], 0)] = None.
Proof. vm_compute. split; reflexivity. Qed.

(* bodyVars: the returned slice is NOT the same for every order ... *)
Theorem C20_map_order_irrelevant_bodyVars_refuted :
  exists attrs attrs' : list (bytes * list nat),
    Permutation attrs attrs' /\ NoDup (map fst attrs) /\ bodyVars attrs <> bodyVars attrs'.
Proof. exact bodyVars_order_leaks. Qed.
Print Assumptions C20_map_order_irrelevant_bodyVars_refuted.
(* ... it is the same up to permutation; its only consumer is the edge loop of [visit]
   (C20_map_order_irrelevant_evalReferences, _edge_order) *)
Theorem C20_map_order_irrelevant_bodyVars_except : forall (T : Type) (attrs attrs' : list (bytes * list T)),
  Permutation attrs attrs' -> Permutation (bodyVars attrs) (bodyVars attrs').
Proof. exact @bodyVars_perm. Qed.
Print Assumptions C20_map_order_irrelevant_bodyVars_except.
Example C20_bodyVars_ex : bodyVars [([97%N], [1; 2]); ([98%N], [3])] = [1; 2; 3].
Proof. vm_compute. reflexivity. Qed.

Theorem C20_map_order_irrelevant_typeRefs :
  forall (T : Type) (isroot matches : T -> bool) (attrs attrs' : list (bytes * list T)),
  Permutation attrs attrs' -> typeRefs_exists isroot matches attrs = typeRefs_exists isroot matches attrs'.
Proof. exact @typeRefs_exists_perm. Qed.
Print Assumptions C20_map_order_irrelevant_typeRefs.
Example C20_typeRefs_ex :
  typeRefs_exists (fun n => 2 <=? n) (Nat.eqb 3) [([97%N], [1; 2]); ([98%N], [3])] = true
  /\ typeRefs_exists (fun n => 2 <=? n) (Nat.eqb 1) [([97%N], [1; 2]); ([98%N], [3])] = false.
Proof. vm_compute. split; reflexivity. Qed.

(** * schemahcl/schemahcl.go *)

(* State.EvalOptions after fix C20-hcl-multifile-locals (files are visited in the order of their
   sorted names; before the fix the faithful model depended on the map order: whether a local
   referring to a local of another file resolved was random).  What remains is deterministic: it
   resolves iff the defining file has the smaller name. *)
Theorem C20_map_order_irrelevant_EvalOptions_files : forall files files' : list hclfile,
  Permutation files files' -> NoDup (map fst files) ->
  EvalOptions_files files = EvalOptions_files files'.
Proof. exact EvalOptions_files_perm. Qed.
Print Assumptions C20_map_order_irrelevant_EvalOptions_files.
Example C20_EvalOptions_files_ex :
  EvalOptions_files [(ex_b, ([ex_y], [ex_x])); (ex_a, ([ex_x], []))] = Some [ex_a; ex_b]
  /\ EvalOptions_files [(ex_a, ([ex_x], [])); (ex_b, ([ex_y], [ex_x]))] = Some [ex_a; ex_b]
  /\ EvalOptions_files [(ex_a, ([ex_y], [ex_x])); (ex_b, ([ex_x], []))] = None.
Proof. vm_compute. repeat split; reflexivity. Qed.

Theorem C20_map_order_irrelevant_copyBlock :
  forall (Node Val : Type) (blockVal : bytes -> Node -> option Val) (attrs attrs' : list (bytes * Node)),
  Permutation attrs attrs' -> NoDup (map fst attrs) ->
  copyBlock_attrs Node Val blockVal attrs = copyBlock_attrs Node Val blockVal attrs'.
Proof. exact copyBlock_attrs_perm. Qed.
Print Assumptions C20_map_order_irrelevant_copyBlock.
Example C20_copyBlock_ex :
  copyBlock_attrs nat nat (fun _ n => Some n) [([98%N], 2); ([97%N], 1)] = Some [([97%N], 1); ([98%N], 2)].
Proof. vm_compute. reflexivity. Qed.

Theorem C20_map_order_irrelevant_toAttrs :
  forall (Node Val : Type) (attrVal : bytes -> Node -> attr_res Val) (hclAttrs hclAttrs' : list (bytes * Node)),
  Permutation hclAttrs hclAttrs' -> NoDup (map fst hclAttrs) ->
  toAttrs Node Val attrVal hclAttrs = toAttrs Node Val attrVal hclAttrs'.
Proof. exact toAttrs_perm. Qed.
Print Assumptions C20_map_order_irrelevant_toAttrs.
Example C20_toAttrs_ex :
  let av (_ : bytes) (n : nat) := match n with 0 => AErr nat | 1 => ANull nat | _ => AVal nat n end in
  toAttrs nat nat av [([99%N], 3); ([97%N], 1); ([98%N], 2)] = Some [([98%N], 2); ([99%N], 3)]
  /\ toAttrs nat nat av [([99%N], 3); ([97%N], 0)] = None.
Proof. vm_compute. split; reflexivity. Qed.

(** * schemahcl/extension.go *)

(* Resource.as after fix C20-hcl-remain-order: the remainder keeps the order of r.Attrs /
   r.Children; the maps existingAttrs / existingChildren are only looked up (and deleted from) *)
Theorem C20_map_order_irrelevant_Resource_as_attrs :
  forall (V : Type) (rattrs : list (bytes * V)) (ex ex' : list bytes) (extra : list (bytes * V)),
  Permutation ex ex' -> as_extra_attrs rattrs ex extra = as_extra_attrs rattrs ex' extra.
Proof. exact @as_extra_attrs_perm. Qed.
Print Assumptions C20_map_order_irrelevant_Resource_as_attrs.
Example C20_Resource_as_attrs_ex :
  as_extra_attrs [(ex_a, 1); (ex_b, 2); (ex_y, 3); (ex_b, 4)] [ex_y; ex_b] [(ex_x, 0)] = [(ex_x, 0); (ex_b, 2); (ex_y, 3)]
  /\ as_extra_attrs [(ex_a, 1); (ex_b, 2); (ex_y, 3); (ex_b, 4)] [ex_b; ex_y] [(ex_x, 0)] = [(ex_x, 0); (ex_b, 2); (ex_y, 3)].
Proof. vm_compute. split; reflexivity. Qed.

Theorem C20_map_order_irrelevant_Resource_as_children :
  forall (C : Type) (ctype : C -> bytes) (children : list C) (ex ex' : list bytes) (extra : list C),
  Permutation ex ex' -> as_extra_children ctype children ex extra = as_extra_children ctype children ex' extra.
Proof. exact @as_extra_children_perm. Qed.
Print Assumptions C20_map_order_irrelevant_Resource_as_children.
Example C20_Resource_as_children_ex :
  as_extra_children (fun c => fst c) [(ex_a, 1); (ex_b, 2); (ex_x, 9); (ex_a, 3)] [ex_b; ex_a] []
  = [(ex_a, 1); (ex_b, 2); (ex_a, 3)].
Proof. vm_compute. reflexivity. Qed.

Theorem C20_map_order_irrelevant_implementers :
  forall (T C : Type) (implements : T -> bool) (ctype : C -> bytes) (children : list C) (r r' : list (bytes * T)),
  Permutation r r' ->
  implementers_children implements ctype children r = implementers_children implements ctype children r'.
Proof. exact @implementers_children_perm. Qed.
Print Assumptions C20_map_order_irrelevant_implementers.
Example C20_implementers_ex :
  implementers_children (Nat.eqb 1) (fun c => fst c) [(ex_b, 2); (ex_x, 5); (ex_a, 3)] [(ex_a, 1); (ex_x, 0); (ex_b, 1)]
  = [(ex_b, 2); (ex_a, 3)].
Proof. vm_compute. reflexivity. Qed.

(* registry.lookup after fix C20-hcl-scan-type: first name in REGISTRATION order whose entry has
   the same Go type ("view" before "materialized", "function" before "procedure") *)
Theorem C20_map_order_irrelevant_lookup :
  forall (T : Type) (same : T -> bool) (names : list bytes) (r r' : list (bytes * T)),
  Permutation r r' -> NoDup (map fst r) -> lookup same names r = lookup same names r'.
Proof. exact @lookup_perm. Qed.
Print Assumptions C20_map_order_irrelevant_lookup.
Example C20_lookup_ex :
  lookup (Nat.eqb 7) [ex_a; ex_b; ex_x] [(ex_x, 3); (ex_b, 7); (ex_a, 7)] = Some ex_a
  /\ lookup (Nat.eqb 7) [ex_a; ex_b; ex_x] [(ex_a, 7); (ex_x, 3); (ex_b, 7)] = Some ex_a
  /\ lookup (Nat.eqb 9) [ex_a] [(ex_a, 1)] = None.
Proof. vm_compute. repeat split; reflexivity. Qed.

(** * sql/internal/specutil *)

(* Scan #1 (linkForeignKeys per table) and Scan #2 (fromDependsOn per object) *)
Theorem C20_map_order_irrelevant_Scan_link :
  forall (Obj Payload : Type) (link_ok : nat * Payload -> bool) (link : Payload -> Obj -> Obj)
         (objs : list (nat * Obj)) (m m' : list (nat * Payload)),
  Permutation m m' -> NoDup (map fst m) ->
  Scan_link Obj Payload link_ok link objs m = Scan_link Obj Payload link_ok link objs m'.
Proof. exact Scan_link_perm. Qed.
Print Assumptions C20_map_order_irrelevant_Scan_link.
Example C20_Scan_link_ex :
  Scan_link (list nat) nat (fun e => negb (snd e =? 0)) (fun p o => o ++ [p]) [(1, []); (2, [])] [(2, 7); (1, 8)]
  = Some [(1, [8]); (2, [7])]
  /\ Scan_link (list nat) nat (fun e => negb (snd e =? 0)) (fun p o => o ++ [p]) [(1, []); (2, [])] [(2, 0); (1, 8)] = None.
Proof. vm_compute. split; reflexivity. Qed.

(* PARTIAL: the effect of one (schema, objects) bucket -- SetQualifier on its objects, schemas[q] =
   true -- is abstract; premise: two buckets commute.  Full statement: the premise holds because
   every spec lies in exactly one bucket and set insertion is idempotent and commutative. *)
Theorem C20_map_order_irrelevant_QualifyObjects_partial :
  forall (QSt Bucket : Type) (qualify_bucket : QSt -> nat * Bucket -> QSt),
  (forall a b s, qualify_bucket (qualify_bucket s a) b = qualify_bucket (qualify_bucket s b) a) ->
  (forall (byLabel byLabel' : list (nat * list (nat * Bucket))) st, Permutation byLabel byLabel' ->
     QualifyObjects QSt Bucket qualify_bucket byLabel st = QualifyObjects QSt Bucket qualify_bucket byLabel' st)
  /\ (forall (l : nat) (v v' : list (nat * Bucket)) st, Permutation v v' ->
     qual_outer QSt Bucket qualify_bucket st (l, v) = qual_outer QSt Bucket qualify_bucket st (l, v')).
Proof.
  exact (fun QSt Bucket qb H =>
    conj (fun bl bl' st P => QualifyObjects_outer_perm_partial QSt Bucket qb H bl bl' st P)
         (fun l v v' st P => QualifyObjects_inner_perm_partial QSt Bucket qb H l v v' st P)).
Qed.
Print Assumptions C20_map_order_irrelevant_QualifyObjects_partial.
Example C20_QualifyObjects_ex :
  QualifyObjects nat nat (fun s e => s + fst e * snd e) [(1, [(1, 5)]); (2, [(2, 1); (3, 1)])] 0 = 5.
Proof. vm_compute. reflexivity. Qed.

(** Round 5: QualifyObjects with its concrete bucket effect (Det/QualifyModel.v: SetQualifier on the
    objects of the bucket, schemas[q] = true; then pass 3 over the slice -- ONE round: the code before
    fix C20-qualify-pass3-not-closed; the fixed code is modelled in Det/QualifyClosure.v, theorems
    C20_qualify_closed_* / C20_qualify_unambiguous below).  No premise left: for ANY
    order in which the two map ranges deliver byLabel and its inner maps, the qualifier of every
    object is [qualifier_spec specs o] -- a boolean function of the object and the multiset of
    (schema, label) pairs. *)
Theorem C20_qualify_map_order_irrelevant : forall (specs : list qobj) (bl : list (nat * list (nat * list qobj))),
  map_order bl (byLabel specs) ->
  QualifyObjects_over bl specs = map (fun o => (o, qualifier_spec specs o)) specs.
Proof. exact (fun specs bl => QualifyObjects_over_spec bl specs). Qed.
Print Assumptions C20_qualify_map_order_irrelevant.

(* [map_order] contains every order a Go range can produce: a permutation of the outer map whose
   inner maps are permuted too *)
Theorem C20_qualify_map_order_covers_permutations : forall (B : Type) (bl bl1 bl0 : list (nat * list B)),
  Permutation bl bl1 ->
  Forall2 (fun a b => fst a = fst b /\ Permutation (snd a) (snd b)) bl1 bl0 ->
  map_order bl bl0.
Proof. exact @map_order_perm2. Qed.
Print Assumptions C20_qualify_map_order_covers_permutations.

(* FULL statement of goal (a): the schemas of the realm / the tables of a schema in another order
   ([specs'] a permutation of [specs]), the maps delivered in any order: every object gets the
   qualifier the original order gives it, and the results are the same multiset. *)
Theorem C20_qualify_order_independent : forall (specs specs' : list qobj) bl bl',
  Permutation specs specs' ->
  map_order bl (byLabel specs) -> map_order bl' (byLabel specs') ->
  QualifyObjects_over bl' specs' = map (fun o => (o, qualifier_spec specs o)) specs' /\
  Permutation (QualifyObjects_over bl specs) (QualifyObjects_over bl' specs').
Proof. exact QualifyObjects_order_independent. Qed.
Print Assumptions C20_qualify_order_independent.
(* s1.users, s2.users (same name: both qualified), s3.s1 (named like a schema that became a
   qualifier: qualified by pass 3), s3.tags (not qualified); byLabel reversed gives the same *)
Example C20_qualify_ex :
  let specs := [QO 1 10; QO 2 10; QO 3 1; QO 3 11] in
  QualifyObjects_go specs = [(QO 1 10, Some 1); (QO 2 10, Some 2); (QO 3 1, Some 3); (QO 3 11, None)]
  /\ QualifyObjects_over (rev (byLabel specs)) (rev specs) = rev (QualifyObjects_go specs)
  /\ List.length (byLabel specs) = 3.
Proof. vm_compute. repeat split; reflexivity. Qed.

(** QualifyReferences (the foreign-key half of the realm path): byRef is keyed by (Qualifier, Name)
    of the table specs after QualifyObjects.  The reference to a table of the realm is qualified
    exactly when the table's block is; it does not depend on the order of the schemas / tables /
    map deliveries; and the keys of byRef are pairwise distinct ("duplicate references" cannot be
    returned for a realm whose (schema, table) pairs are distinct). *)
Theorem C20_qualify_references_order_independent : forall specs specs' bl bl' target,
  Permutation specs specs' ->
  map_order bl (byLabel specs) -> map_order bl' (byLabel specs') ->
  QualifyReferences_ref (QualifyObjects_over bl specs) target =
  QualifyReferences_ref (QualifyObjects_over bl' specs') target.
Proof. exact QualifyReferences_order_independent. Qed.
Print Assumptions C20_qualify_references_order_independent.
Theorem C20_qualify_references_match_blocks : forall specs bl target,
  map_order bl (byLabel specs) -> In target specs ->
  QualifyReferences_ref (QualifyObjects_over bl specs) target =
  match qualifier_spec specs target with
  | Some q => RefQualified q (q_label target)
  | None => RefPlain (q_label target)
  end.
Proof.
  exact (fun specs bl target M H =>
    eq_trans (f_equal (fun r => QualifyReferences_ref r target) (QualifyObjects_over_spec bl specs M))
             (QualifyReferences_ref_spec specs target H)).
Qed.
Print Assumptions C20_qualify_references_match_blocks.
Theorem C20_qualify_references_no_duplicate : forall specs bl,
  map_order bl (byLabel specs) -> NoDup specs ->
  NoDup (map byRef_key (QualifyObjects_over bl specs)).
Proof.
  exact (fun specs bl M ND =>
    eq_ind_r (fun r => NoDup (map byRef_key r)) (QualifyReferences_no_duplicate specs ND)
             (QualifyObjects_over_spec bl specs M)).
Qed.
Print Assumptions C20_qualify_references_no_duplicate.
Example C20_qualify_references_ex :
  let specs := [QO 1 10; QO 2 10; QO 3 1; QO 3 11] in
  map (QualifyReferences_ref (QualifyObjects_go specs)) [QO 2 10; QO 3 1; QO 3 11; QO 2 11]
  = [RefQualified 2 10; RefQualified 3 1; RefPlain 11; RefPlain 11]
  /\ QualifyReferences_ref (QualifyObjects_go specs) (QO 2 12) = RefMissing.
Proof. vm_compute. split; reflexivity. Qed.

(** AFTER fix C20-qualify-pass3-not-closed the last loop of QualifyObjects records the schema of every object
    it qualifies as a qualifier and repeats until nothing changes (Det/QualifyClosure.v: [pass3c_step],
    [pass3_closure] with fuel S (number of objects), [QualifyObjects_closed_over]); this is the model
    the tie (kinds qo, qr) runs.  [QualifyObjects_over] above is the code BEFORE that fix (one round). *)

(* the fuel is enough: the loop always ends in a round that changed nothing *)
Theorem C20_qualify_closure_fuel : forall specs st, Inv specs st ->
  exists st0, Inv specs st0 /\ snd (pass3_round specs st0) = false /\
              pass3_closure (S (List.length specs)) specs st = fst (pass3_round specs st0).
Proof. exact pass3_closure_fuel. Qed.
Print Assumptions C20_qualify_closure_fuel.

(* for every order of both maps: an object is qualified (with its schema) exactly when another
   schema holds its label or its label is a qualifier -- [usedP]: the least set containing the
   schemas of same-named objects and closed under "an object labelled with a qualifier makes its
   own schema a qualifier" *)
Theorem C20_qualify_closed_map_order_irrelevant : forall specs bl, map_order bl (byLabel specs) ->
  forall o, In o specs ->
    (qualifiedP specs o -> In (o, Some (q_schema o)) (QualifyObjects_closed_over bl specs)) /\
    (~ qualifiedP specs o -> In (o, None) (QualifyObjects_closed_over bl specs)) /\
    (forall q, In (o, q) (QualifyObjects_closed_over bl specs) ->
       (qualifiedP specs o /\ q = Some (q_schema o)) \/ (~ qualifiedP specs o /\ q = None)).
Proof. exact QualifyObjects_closed_spec. Qed.
Print Assumptions C20_qualify_closed_map_order_irrelevant.

(* goal (a) for the fixed code: schemas / tables in another order, maps in any order: same multiset *)
Theorem C20_qualify_closed_order_independent : forall specs specs' bl bl',
  Permutation specs specs' ->
  map_order bl (byLabel specs) -> map_order bl' (byLabel specs') ->
  Permutation (QualifyObjects_closed_over bl specs) (QualifyObjects_closed_over bl' specs').
Proof. exact QualifyObjects_closed_order_independent. Qed.
Print Assumptions C20_qualify_closed_order_independent.

Theorem C20_qualify_references_closed_order_independent : forall specs specs' bl bl' target,
  Permutation specs specs' ->
  map_order bl (byLabel specs) -> map_order bl' (byLabel specs') ->
  QualifyReferences_ref (QualifyObjects_closed_over bl specs) target =
  QualifyReferences_ref (QualifyObjects_closed_over bl' specs') target.
Proof.
  exact (fun specs specs' bl bl' target P M M' =>
    let PQ := QualifyObjects_closed_order_independent specs specs' bl bl' P M M' in
    f_equal2 (fun a b : bool => if a then RefQualified (q_schema target) (q_label target)
                                else if b then RefPlain (q_label target) else RefMissing)
      (byRef_has_perm _ _ (Some (q_schema target)) (q_label target) PQ)
      (byRef_has_perm _ _ None (q_label target) PQ)).
Qed.
Print Assumptions C20_qualify_references_closed_order_independent.

(* the reference to a table of the realm is qualified exactly when the table's block is, and the
   keys of byRef are pairwise distinct -- for the fixed QualifyObjects *)
Theorem C20_qualify_references_closed_match_blocks : forall specs bl target,
  map_order bl (byLabel specs) -> In target specs ->
  (qualifiedP specs target ->
     QualifyReferences_ref (QualifyObjects_closed_over bl specs) target = RefQualified (q_schema target) (q_label target)) /\
  (~ qualifiedP specs target ->
     QualifyReferences_ref (QualifyObjects_closed_over bl specs) target = RefPlain (q_label target)).
Proof. exact QualifyReferences_closed_ref_spec. Qed.
Print Assumptions C20_qualify_references_closed_match_blocks.
Theorem C20_qualify_references_closed_no_duplicate : forall specs bl,
  map_order bl (byLabel specs) -> NoDup specs ->
  NoDup (map byRef_key (QualifyObjects_closed_over bl specs)).
Proof. exact QualifyReferences_closed_no_duplicate. Qed.
Print Assumptions C20_qualify_references_closed_no_duplicate.
Example C20_qualify_references_closed_ex :
  map (QualifyReferences_ref (QualifyObjects_closed_go [QO 1 10; QO 2 1; QO 2 2; QO 3 10])) [QO 2 1; QO 2 2; QO 3 10]
  = [RefQualified 2 1; RefQualified 2 2; RefQualified 3 10].
Proof. vm_compute. reflexivity. Qed.

(* "No block written with one label carries a name that another block uses as its qualifier":
   true of the fixed code (it was refuted for the code before the fix, below). *)
Theorem C20_qualify_unambiguous : forall specs bl, map_order bl (byLabel specs) ->
  forall o o' q, In (o, None) (QualifyObjects_closed_over bl specs) ->
                 In (o', Some q) (QualifyObjects_closed_over bl specs) -> q_label o <> q.
Proof. exact QualifyObjects_closed_unambiguous. Qed.
Print Assumptions C20_qualify_unambiguous.
Example C20_qualify_closed_ex :
  QualifyObjects_closed_go [QO 1 10; QO 2 1; QO 2 2; QO 3 10]
  = [(QO 1 10, Some 1); (QO 2 1, Some 2); (QO 2 2, Some 2); (QO 3 10, Some 3)]
  /\ ambiguousb (QualifyObjects_closed_go [QO 1 10; QO 2 1; QO 2 2; QO 3 10]) = false
  /\ QualifyObjects_closed_go [QO 1 10; QO 2 10; QO 3 1; QO 3 11] = QualifyObjects_go [QO 1 10; QO 2 10; QO 3 1; QO 3 11]
  /\ QualifyObjects_closed_over (rev (byLabel [QO 2 2; QO 2 1; QO 3 10; QO 1 10])) [QO 2 2; QO 2 1; QO 3 10; QO 1 10]
     = [(QO 2 2, Some 2); (QO 2 1, Some 2); (QO 3 10, Some 3); (QO 1 10, Some 1)].
Proof. vm_compute. repeat split; reflexivity. Qed.

(* BEFORE the fix: the last loop qualified s2.s1 (label = the qualifier s1) with s2 but did not add s2
   to the set it consults: s2.s2 stayed [table "s2"] next to [table "s2" "s1"] and the document did
   not evaluate (oracle class qualify-roundtrip, known finding C20-qualify-pass3-not-closed, reproduced
   on the unpatched tree). *)
Theorem C20_qualify_unambiguous_before_fix_refuted :
  exists specs, NoDup specs /\ ambiguousb (QualifyObjects_go specs) = true.
Proof. exact qualify_unambiguous_refuted. Qed.
Print Assumptions C20_qualify_unambiguous_before_fix_refuted.
Theorem C20_qualify_unambiguous_before_fix_except : forall specs o o',
  qualifier_spec specs o = None -> In o' specs -> conflictb specs o' = true -> q_label o <> q_schema o'.
Proof. exact qualify_unambiguous_except. Qed.
Print Assumptions C20_qualify_unambiguous_before_fix_except.
Example C20_qualify_unambiguous_before_fix_ex :
  ambiguousb (QualifyObjects_go [QO 1 10; QO 2 10; QO 3 1; QO 3 11]) = false /\
  QualifyObjects_go [QO 1 10; QO 2 1; QO 2 2; QO 3 10]
  = [(QO 1 10, Some 1); (QO 2 1, Some 2); (QO 2 2, None); (QO 3 10, Some 3)].
Proof. vm_compute. split; reflexivity. Qed.

(* "A reference to an object carries a qualifier exactly when the object's block does."  True of
   specutil.ObjectRef since fix C20-qualify-objectref-schema-named (ObjectRef applies both conditions
   of QualifyObjects: objectConflict || qualifierSchema). *)
Theorem C20_ObjectRef_matches_qualifier : forall specs o,
  (ObjectRef_qualified specs o = true <-> qualifier_spec specs o = Some (q_schema o)) /\
  (ObjectRef_qualified specs o = false <-> qualifier_spec specs o = None).
Proof. exact ObjectRef_qualified_matches. Qed.
Print Assumptions C20_ObjectRef_matches_qualifier.
Example C20_ObjectRef_ex :
  ObjectRef_qualified [QO 1 10; QO 2 10; QO 3 1; QO 3 11] (QO 1 10) = true /\
  ObjectRef_qualified [QO 1 10; QO 2 10; QO 3 1; QO 3 11] (QO 3 1) = true /\
  ObjectRef_qualified [QO 1 10; QO 2 10; QO 3 1; QO 3 11] (QO 3 11) = false.
Proof. vm_compute. repeat split; reflexivity. Qed.

(* BEFORE the fix ObjectRef only applied the pass-2 condition (same name in another schema): an
   object named like a schema whose name became a qualifier was written [enum "s3" "s1"] by the last
   loop of QualifyObjects but referred to as [enum.s1] (oracle class qualify-dangling-ref, known finding
   C20-qualify-objectref-schema-named, reproduced on the unpatched tree).  Kept because
   TableSpecRef / ViewSpecRef still have that shape (not reached by the OSS marshalers). *)
Theorem C20_ObjectRef_before_fix_refuted :
  exists specs o, In o specs /\ ObjectRef_qualified_before_fix specs o = false /\ qualifier_spec specs o = Some (q_schema o).
Proof. exact ObjectRef_qualified_before_fix_refuted. Qed.
Print Assumptions C20_ObjectRef_before_fix_refuted.
Theorem C20_ObjectRef_before_fix_except : forall specs o,
  (ObjectRef_qualified_before_fix specs o = true -> qualifier_spec specs o = Some (q_schema o)) /\
  (schema_used specs (q_label o) = false ->
   (ObjectRef_qualified_before_fix specs o = true <-> qualifier_spec specs o <> None)).
Proof. exact (fun specs o => conj (ObjectRef_qualified_before_fix_sound specs o) (ObjectRef_qualified_before_fix_except specs o)). Qed.
Print Assumptions C20_ObjectRef_before_fix_except.
Example C20_ObjectRef_before_fix_ex :
  ObjectRef_qualified_before_fix [QO 1 10; QO 2 10; QO 3 1] (QO 1 10) = true /\
  ObjectRef_qualified_before_fix [QO 1 10; QO 2 10; QO 3 1] (QO 3 1) = false.
Proof. vm_compute. split; reflexivity. Qed.

(** * sql/postgres *)

(* witness NOT reproduced on a server: PostgreSQL attaches at most one constraint to an index, so
   the iterated map has at most one entry in practice (the _except clause) *)
Theorem C20_map_order_irrelevant_addIndexes_refuted :
  exists m m' : list (bytes * nat),
    Permutation m m' /\ NoDup (map fst m) /\ addIndexes_constraints [] m <> addIndexes_constraints [] m'.
Proof. exact addIndexes_constraints_order_leaks. Qed.
Print Assumptions C20_map_order_irrelevant_addIndexes_refuted.
Theorem C20_map_order_irrelevant_addIndexes_except : forall (V : Type) (attrs m m' : list (bytes * V)),
  Permutation m m' ->
  Permutation (addIndexes_constraints attrs m) (addIndexes_constraints attrs m')
  /\ (List.length m <= 1 -> addIndexes_constraints attrs m = addIndexes_constraints attrs m').
Proof. exact @addIndexes_constraints_perm_except. Qed.
Print Assumptions C20_map_order_irrelevant_addIndexes_except.
Example C20_addIndexes_ex : addIndexes_constraints [(ex_x, 0)] [(ex_a, 1)] = [(ex_x, 0); (ex_a, 1)].
Proof. vm_compute. reflexivity. Qed.

Theorem C20_map_order_irrelevant_alterEnum : forall (toV : list bytes) (fromV fromV' : list (bytes * nat)),
  Permutation fromV fromV' -> alterEnum_check toV fromV = alterEnum_check toV fromV'.
Proof. exact alterEnum_check_perm. Qed.
Print Assumptions C20_map_order_irrelevant_alterEnum.
Example C20_alterEnum_ex :
  alterEnum_check [ex_a; ex_b] [(ex_b, 1); (ex_a, 0)] = Some tt /\ alterEnum_check [ex_a] [(ex_b, 1); (ex_a, 0)] = None.
Proof. vm_compute. split; reflexivity. Qed.

(** * Declaration order *)

(* sortMap's DFS: never out of fuel, and whether it reports a cycle depends only on the SET of
   foreign-key edges, which is the same for every order of the change set *)
Theorem C20_decl_order_cycle_detection : forall cs cs' : list change,
  Permutation cs cs' ->
  sortMap cs <> SMOut /\ (sortMap cs = SMCycle <-> sortMap cs' = SMCycle)
  /\ (sortMap cs = SMCycle <-> exists a, clos_trans nat (edge (dependencies cs)) a a).
Proof.
  exact (fun cs cs' P => conj (sortMap_never_out cs) (conj (sortMap_cycle_perm cs cs' P) (sortMap_cycle_iff cs))).
Qed.
Print Assumptions C20_decl_order_cycle_detection.
Example C20_decl_order_cycle_ex :
  let t n := mkT n 0 n in
  let a := AddTable (t 1) [mkFK 0 (t 1) (t 2)] in
  let b := AddTable (t 2) [mkFK 1 (t 2) (t 1)] in
  sortMap [a; b] = SMCycle /\ sortMap [b; a] = SMCycle /\ sortMap [a; AddTable (t 2) []] = SMOk [2; 1].
Proof. vm_compute. repeat split; reflexivity. Qed.

(* PARTIAL.  Full statement: for every permutation cs' of the change set cs (= the tables declared
   in another order), plan cs' is a permutation of plan cs in which every pair related by
   dependsOn keeps its relative order, and replaying both on the engine gives the same schema.
   Proved (no premise): the DetachCycles stage never runs out of fuel and maps a permuted change
   set to a permuted result -- the same changes, none lost, none altered.
   Missing: the SortChanges stage (C04: a permutation that respects dependsOn).  The harness checks
   the full statement on the real planners and the real SQLite engine. *)
Theorem C20_decl_order_partial : forall cs cs' : list change,
  Permutation cs cs' ->
  exists p p', DetachCycles cs = DCOk p /\ DetachCycles cs' = DCOk p' /\ Permutation p p'.
Proof. exact DetachCycles_decl_order_full. Qed.
Print Assumptions C20_decl_order_partial.
Example C20_decl_order_ex :
  let t n := mkT n 0 n in
  let a := AddTable (t 1) [mkFK 0 (t 1) (t 2)] in
  let b := AddTable (t 2) [] in
  DetachCycles [a; b] = DCOk [b; a] /\ DetachCycles [b; a] = DCOk [b; a].
Proof. vm_compute. split; reflexivity. Qed.
