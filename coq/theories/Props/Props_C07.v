(** C07 — what is planned is what is executed: plan -> file -> statements round-trips.

    Models: Lex/FmtModel.v (the six formatters as byte-producing functions, the matching readers
    incl. the Goose/DBMate line filters and the file selection of the directories), Lex/LexModel.v
    (the scanner, property C08), Lex/QuoteModel.v (sqlx.SingleQuote, IsQuoted, the PostgreSQL and
    MySQL quote functions, formatValues, Builder.Ident), Lex/ClosedModel.v (the decidable
    syntactic predicate [scan_closed o d cmd]: a byte walker over the command alone).

    [roundtrip F o now p] = the statement texts the matching reader returns for the up file that
    formatter [F] writes for plan [p]; [planned o d p] = the planned commands as [Scanner.emit]
    reports them (the default delimiter stays in the text). *)
From Coq Require Import List NArith ZArith Bool String.
From Atlas Require Import Base.Bytes Lex.LexModel Lex.ClosedModel Lex.FmtModel Lex.QuoteModel Lex.QuoteProofs Lex.ClosedNLModel Lex.ClosedProofs Lex.FmtProofs Lex.FmtGooseProofs Lex.FmtHyp Lex.FmtImportModel Lex.FmtImportProofs Lex.ClosedBridgeModel Lex.ClosedBridgeProofs Lex.FmtBridgeForms Lex.ClosedBeginModel Lex.FmtBeginProofs Lex.FmtRefuted gen.Gen_ScanOpts.
Import ListNotations.

(** Statement 3 — every identifier the builder quotes is a closed token.  It was FALSE of the tree
    before fix C16-ident-double-quote-char (Builder.Ident wrote the name as is: [raw_ident]); the
    repaired Builder.Ident writes a quote byte inside the name twice and the statement holds for
    EVERY name: for the scanners without backslash escapes (generic, PostgreSQL, SQLite)
    unconditionally, for the MySQL scanner when the name has no backslash (the scanner applies
    backslash escapes inside back-quoted identifiers: still open, C07_quote_refuted). *)
Theorem C07_ident_closed : forall q s, is_quote q = true -> s <> [] ->
  quoted_token false (ident q q s) = true
  /\ (~ In 92%N s -> quoted_token true (ident q q s) = true).
Proof.
  intros q s Hq Hs. split; [exact (ident_closed q s Hq Hs)|exact (ident_closed_esc q s Hq Hs)].
Qed.
Print Assumptions C07_ident_closed.
Example C07_ident_closed_nonvacuous :
  ident 34 34 (bs "a"";b"%string) = bs """a"""";b"""%string
  /\ roundtrip FAtlas opts_postgres [] w_ident_plan = planned opts_postgres semi w_ident_plan
  /\ scan_closed opts_postgres semi (bs "CREATE TABLE "%string ++ raw_ident 34 34 w_ident ++ bs " (""c"" integer)"%string) = false.
Proof. destruct ident_repaired as (H1 & _ & H3). split; [vm_compute; reflexivity|]. split; assumption. Qed.

(** Statement 4b: the sqltool readers other than Liquibase's scan with the generic options; a MySQL
    comment with a double quote is strconv.Quote-d with a backslash that only the MySQL scanner
    understands. *)
Theorem C07_mysql_generic_refuted :
  exists p,
    roundtrip FAtlas opts_mysql [] p = planned opts_mysql semi p
    /\ roundtrip FGolangMigrate opts_mysql [] p <> planned opts_generic semi p
    /\ roundtrip FFlyway opts_mysql [] p <> planned opts_generic semi p
    /\ roundtrip FGoose opts_mysql [] p <> planned opts_generic semi p
    /\ roundtrip FDBMate opts_mysql [] p <> planned opts_generic semi p.
Proof.
  exists w_mysql_plan. destruct mysql_generic_refuted as (H1 & _ & H3 & H4 & H5 & H6 & _).
  repeat split; assumption.
Qed.
Print Assumptions C07_mysql_generic_refuted.

(** comments are written raw: a newline in Change.Comment turns its tail into a statement. *)
Theorem C07_comment_newline_refuted :
  exists p, Forall (fun c => scan_closed opts_generic semi (c_cmd c) = true) (p_changes p)
            /\ roundtrip FAtlas opts_generic [] p <> planned opts_generic semi p.
Proof.
  exists w_comment_plan. destruct comment_newline_refuted as (H1 & H2 & _). split; [|exact H1].
  constructor; [exact H2|constructor].
Qed.
Print Assumptions C07_comment_newline_refuted.

(** the Goose / DBMate pragma patterns (repaired, C07-pragma-regexp-grouping): grouped and anchored,
    they match only lines that START with a pragma — a line is taken for a pragma only if it
    starts with "-- +goose " / "-- migrate:"; commands containing Down / down are read back (with
    the ungrouped patterns of the tree before the fix they vanished). *)
Theorem C07_pragma_patterns_anchored : forall line,
  (re_goose_pragma line = true -> has_prefix line S_GOOSE = true)
  /\ (re_dbmate_pragma line = true -> has_prefix line S_DBMATE = true).
Proof. exact pragma_anchored. Qed.
Print Assumptions C07_pragma_patterns_anchored.
Example C07_pragma_patterns_nonvacuous :
  roundtrip FGoose opts_postgres [] w_goose_plan = planned opts_generic semi w_goose_plan
  /\ roundtrip FDBMate opts_postgres [] w_dbmate_plan = planned opts_generic semi w_dbmate_plan
  /\ re_goose_pragma_ungrouped (bs "CREATE TABLE ""CountDown"" (""c"" integer);"%string) = true
  /\ re_dbmate_pragma_ungrouped (bs "CREATE TABLE ""downloads"" (""c"" integer);"%string) = true.
Proof. destruct goose_dbmate_word_repaired as (H1 & H2 & H3 & H4 & _). repeat split; assumption. Qed.

(** Liquibase: the empty plan is read as one statement (the header line has no newline after it,
    and the scanner does not treat an unterminated "--" as a comment).  The second Liquibase
    defect found here — a multi-line reverse statement leaking out of its --rollback comment into
    the up statements — was repaired in the tree under test (ae3e356): witness of the repaired
    behaviour below; the round trip (C07_roundtrip_tools_except) no longer constrains the reverse
    statements. *)
Theorem C07_liquibase_empty_refuted :
  roundtrip FLiquibase opts_postgres [] (mkPlan [] [] [] [] []) <> Some []
  /\ (exists now p, List.length (p_changes p) = 1%nat
                    /\ existsb (fun c => existsb (fun r => negb (comment_ok r)) (c_reverse c)) (p_changes p) = true
                    /\ roundtrip FLiquibase opts_postgres now p = planned opts_postgres semi p).
Proof.
  split.
  - rewrite liquibase_empty_refuted. discriminate.
  - exists (bs "20240101000000"%string), w_liquibase_plan. split; [reflexivity|]. split; [vm_compute; reflexivity|].
    rewrite liquibase_rollback_repaired. vm_compute. reflexivity.
Qed.
Print Assumptions C07_liquibase_empty_refuted.

(** formatValues (MySQL enum/set values) does not escape at all; the MySQL scanner treats a
    backslash inside a back-quoted identifier as an escape; already-quoted inputs are passed
    through by quote/SingleQuote although IsQuoted never examines the byte before the last. *)
Theorem C07_quote_refuted :
  (exists v, lit_closed opts_mysql (format_value v) = false)
  /\ (exists s, scan_closed opts_mysql semi (bs "CREATE TABLE "%string ++ ident 96 96 s ++ bs " (`c` int)"%string) = false
                /\ scan_closed opts_generic semi (bs "CREATE TABLE "%string ++ ident 96 96 s ++ bs " (`c` int)"%string) = true)
  /\ (exists s, lit_closed opts_postgres (pg_quote s) = false)
  /\ (exists s, lit_closed opts_mysql (mysql_quote [] s) = false).
Proof.
  destruct format_values_refuted as (_ & H1 & _). destruct mysql_ident_backslash_refuted as (H2 & _ & H3).
  destruct quote_passthrough_refuted as (_ & H4 & _ & H5).
  split; [eexists; exact H1|]. split; [exists (bs "ab\"%string); split; assumption|].
  split; eexists; eassumption.
Qed.
Print Assumptions C07_quote_refuted.

(** Statement 2 — the literal quoting functions produce closed tokens for the matching scanner, for
    EVERY input string ([quoted_token esc tok]: walking the token from its first byte with the
    scanner's quote skipping ends outside every quote exactly at the end of the token, whatever
    follows; [esc] = the scanner's BackslashEscapes):
    - PostgreSQL quote and sqlx.SingleQuote for the scanners without backslash escapes (generic,
      PostgreSQL, SQLite): raw inputs, and inputs already quoted with the double quote (legacy SQLite defaults:
      unquoted by strconv.Unquote — any function [unq] — and re-quoted with the apostrophe doubled);
      inputs already quoted with ' are passed through unchanged (clause 4; closed exactly when the
      input was: C07_quote_refuted has the input IsQuoted wrongly accepts);
    - MySQL quote = strconv.Quote for the MySQL scanner, for every set [np] of non-printable runes.
    The pass-through branch (input already quoted according to IsQuoted) and formatValues are
    refuted above (C07_quote_refuted). *)
Theorem C07_quote_closed :
  (forall s, is_quoted s [39%N] = false -> lit_closed opts_postgres (pg_quote s) = true
                                          /\ lit_closed opts_generic (pg_quote s) = true
                                          /\ lit_closed opts_sqlite (pg_quote s) = true)
  /\ (forall unq s t, is_quoted s [39%N] = false -> single_quote unq s = Some t ->
                  lit_closed opts_sqlite t = true /\ lit_closed opts_generic t = true)
  /\ (forall unq s v, is_quoted s [39%N] = false -> is_quoted s [34%N] = true -> unq s = Some v ->
                  single_quote unq s = Some ([39%N] ++ double_sq v ++ [39%N]))
  /\ (forall unq s, is_quoted s [39%N] = true -> single_quote unq s = Some s)
  /\ (forall np s, is_quoted s [34%N; 39%N] = false -> lit_closed opts_mysql (mysql_quote np s) = true)
  /\ (forall np s, lit_closed opts_mysql (go_quote np s) = true).
Proof.
  split; [|split; [|split; [|split; [|split]]]].
  - intros s H. pose proof (pg_quote_closed s H) as P. repeat split; exact P.
  - intros unq s t H1 H2. pose proof (single_quote_closed unq s t H1 H2) as P. split; exact P.
  - intros unq s v H1 H2 H3. unfold single_quote. rewrite H1, H2, H3. reflexivity.
  - intros unq s H. exact (single_quote_passthrough unq s H).
  - intros np s H. exact (mysql_quote_closed np s H).
  - intros np s. exact (go_quote_closed np s).
Qed.
Print Assumptions C07_quote_closed.
Example C07_quote_closed_nonvacuous :
  pg_quote (bs "it's; -- x"%string) = bs "'it''s; -- x'"%string
  /\ mysql_quote [] (bs "a""b\c"%string) = bs """a\""b\\c"""%string.
Proof. vm_compute. split; reflexivity. Qed.

(** the single-quote wrapping is closed under backslash escapes only without a backslash in the
    input ('ab\' is not): PostgreSQL-style literals are for scanners without backslash escapes. *)
Theorem C07_quote_closed_backslash : forall s,
  ~ In 92%N s -> quoted_token true ([39%N] ++ double_sq s ++ [39%N]) = true.
Proof. exact sq_wrap_closed_noback. Qed.
Print Assumptions C07_quote_closed_backslash.

(** the spelling before the fix ([raw_ident]: the name as is): closed when the name lacks the quote
    byte; for names with no OTHER quote byte, closed iff every maximal run of the quote byte has
    even length.  Kept as the record of the repaired defect. *)
Theorem C07_raw_ident_spelling : forall q s, is_quote q = true -> s <> [] ->
  (~ In q s -> quoted_token false (raw_ident q q s) = true)
  /\ ((forall b, In b s -> is_quote b = true -> b = q) ->
      (quoted_token false (raw_ident q q s) = true <-> even_runs q s = true)).
Proof.
  intros q s Hq Hs. split.
  - exact (ident_closed_notin q s Hq Hs).
  - exact (ident_closed_iff q s Hq Hs).
Qed.
Print Assumptions C07_raw_ident_spelling.
Example C07_raw_ident_spelling_nonvacuous :
  quoted_token false (raw_ident 34 34 (bs "users"%string)) = true
  /\ quoted_token false (raw_ident 34 34 (bs "a"";b"%string)) = false.
Proof. vm_compute. split; reflexivity. Qed.

(** Statement 1 — C07_roundtrip.  Full statement: for each formatter F of the six, each scanner
    option set o, each delimiter d and EVERY plan whose commands are [scan_closed o d] and whose
    comments are [comment_ok]: the matching reader returns exactly the planned commands.
    It is FALSE as it stands for three readers (refuted above: Goose/DBMate line filters, Liquibase
    rollback lines); what holds is proved below, per formatter, for ALL plans:

    DefaultFormatter (atlas format, read by migrate.FileStmts with the dialect's scanner): every
    option set without the GO batch command — in particular the four sets the drivers use, dumped
    into gen/Gen_ScanOpts.v on every run —, the default delimiter or any [delim_ok] custom delimiter
    that does not start with '-', any list of extra directive lines. *)

Theorem C07_driver_opts_no_go : forallb (fun o => negb (GoCommand o)) gen_scan_opts = true.
Proof. vm_compute. reflexivity. Qed.
Print Assumptions C07_driver_opts_no_go.

Theorem C07_roundtrip_atlas : forall o now p,
  GoCommand o = false ->
  (p_delim p = [] \/ (delim_ok (p_delim p) = true /\ hd 0%N (p_delim p) <> 45%N)) ->
  Forall (fun x => directive_ok x = true) (p_directives p) ->
  Forall (fun c => scan_closed o (or_delim (p_delim p)) (c_cmd c) = true /\ comment_ok (c_comment c) = true) (p_changes p) ->
  roundtrip FAtlas o now p = planned o (or_delim (p_delim p)) p.
Proof.
  intros o now p Hgo Hd Hdir Hall. rewrite roundtrip_eq, up_atlas, read_atlas, planned_eq, <- texts_of_eq.
  exact (atlas_roundtrip o p Hgo Hd Hdir Hall).
Qed.
Print Assumptions C07_roundtrip_atlas.

(** the same for the option sets of the tree under test *)
Theorem C07_roundtrip_atlas_drivers : forall o now p,
  In o gen_scan_opts ->
  (p_delim p = [] \/ (delim_ok (p_delim p) = true /\ hd 0%N (p_delim p) <> 45%N)) ->
  Forall (fun x => directive_ok x = true) (p_directives p) ->
  Forall (fun c => scan_closed o (or_delim (p_delim p)) (c_cmd c) = true /\ comment_ok (c_comment c) = true) (p_changes p) ->
  roundtrip FAtlas o now p = planned o (or_delim (p_delim p)) p.
Proof.
  intros o now p Ho. apply C07_roundtrip_atlas.
  pose proof (proj1 (forallb_forall _ _) C07_driver_opts_no_go o Ho) as H. apply negb_true_iff in H. exact H.
Qed.
Print Assumptions C07_roundtrip_atlas_drivers.

Example C07_roundtrip_atlas_nonvacuous :
  forallb (fun c => scan_closed opts_mysql semi (c_cmd c) && comment_ok (c_comment c)) (p_changes (ex_plan [])) = true
  /\ delim_ok [10;10]%N = true
  /\ forallb (fun c => scan_closed opts_mysql [10;10]%N (c_cmd c) && comment_ok (c_comment c)) (p_changes (ex_plan [10;10]%N)) = true
  /\ forallb directive_ok (p_directives (ex_plan [])) = true
  /\ List.length (p_changes (ex_plan [])) = 2%nat.
Proof. repeat split; vm_compute; reflexivity. Qed.

(** golang-migrate and Flyway up files (their File types are not *LocalFile: migrate.FileStmts falls
    back to the generic migrate.Stmts) and Liquibase files (LocalFile: the dialect's scanner).
    Liquibase needs what C07_liquibase_empty_refuted shows to be necessary: a non-empty plan. *)
Theorem C07_roundtrip_tools_except : forall o now p,
  (Forall (fun c => scan_closed opts_generic semi (c_cmd c) = true /\ comment_ok2 (c_comment c) = true) (p_changes p) ->
     roundtrip FGolangMigrate o now p = planned opts_generic semi p
     /\ roundtrip FFlyway o now p = planned opts_generic semi p)
  /\ (GoCommand o = false -> comment_ok now = true -> p_changes p <> [] ->
      Forall (fun c => scan_closed o semi (c_cmd c) = true /\ comment_ok (c_comment c) = true) (p_changes p) ->
      roundtrip FLiquibase o now p = planned o semi p).
Proof.
  intros o now p. split.
  - rewrite semi_eq. intros Hall.
    rewrite !roundtrip_eq, up_golang, up_flyway, read_golang, read_flyway, planned_eq, <- texts_of_eq.
    split; exact (tool_up_roundtrip p Hall).
  - rewrite semi_eq. intros Hgo Hnow Hne Hall.
    rewrite roundtrip_eq, up_liquibase, read_liquibase, planned_eq, <- texts_of_eq.
    exact (liquibase_roundtrip o now p Hgo Hnow Hne Hall).
Qed.
Print Assumptions C07_roundtrip_tools_except.
Example C07_roundtrip_tools_nonvacuous :
  forallb (fun c => scan_closed opts_generic semi (c_cmd c) && comment_ok2 (c_comment c)) (p_changes ex_tool_plan) = true
  /\ roundtrip FLiquibase opts_postgres (bs "20240101000000"%string) ex_tool_plan
      = Some [bs "CREATE TABLE ""t;"" (c text DEFAULT 'a''b;');"%string].
Proof. split; vm_compute; reflexivity. Qed.

(** Statement 4a — C07_goose_dbmate_reader.  Full statement: the Goose and DBMate readers (line
    filters in front of the generic scanner) return the planned commands for every plan of
    [scan_closed opts_generic] commands.  It is FALSE (C07_goose_dbmate_line_filter_refuted).  What
    holds, for ALL plans, under decidable conditions on the bytes the formatter writes:
    - DBMate: [dbmate_ok] (no line contains "down" or "-- migrate:up" or starts with "-- migrate:",
      no carriage return);
    - Goose: [goose_plan_ok] = per change: [goose_change_ok] (every line of the change is copied
      unchanged by GooseFile.StmtDecls — no pragma word, no trailing white space —, the
      "-- ATLAS_DELIM_END" line is inserted exactly once, after the last line, no carriage return,
      the comment line does not read as the delimiter line), a newline-free comment, and the
      command followed by ';' is closed for the generic scanner with that delimiter on the next
      line ([scan_closed_nl], ClosedNLModel.v). *)
Theorem C07_goose_dbmate_reader_except : forall o now p,
  (Forall (fun c => scan_closed opts_generic semi (c_cmd c) = true /\ comment_ok2 (c_comment c) = true) (p_changes p) ->
   dbmate_ok (tool_up p) = true ->
   roundtrip FDBMate o now p = planned opts_generic semi p)
  /\ (goose_plan_ok p -> roundtrip FGoose o now p = planned opts_generic semi p).
Proof.
  intros o now p. rewrite semi_eq. split.
  - intros Hall Hok. rewrite roundtrip_eq, up_dbmate, planned_eq. exact (dbmate_roundtrip o p Hall Hok).
  - intros Hok. rewrite roundtrip_eq, up_goose, planned_eq. exact (goose_roundtrip o p Hok).
Qed.
Print Assumptions C07_goose_dbmate_reader_except.
Example C07_goose_dbmate_reader_nonvacuous :
  dbmate_ok (tool_up ex_tool_plan) = true
  /\ dbmate_ok (tool_up w_dbmate_plan) = true
  /\ forallb (fun c => goose_change_ok c && comment_ok (c_comment c)
                      && scan_closed_nl opts_generic GOOSE_DELIM (c_cmd c ++ [59%N])) (p_changes ex_tool_plan) = true
  /\ forallb goose_change_ok (p_changes w_goose_plan) = true
  /\ roundtrip FGoose opts_postgres [] ex_tool_plan = planned opts_generic semi ex_tool_plan.
Proof. repeat split; vm_compute; reflexivity. Qed.

(** the single-statement core, against the scanner model of C08: a closed command followed by the
    delimiter and a newline is read as exactly one statement with that text, at that offset,
    whatever precedes it (newlines, comment lines) and whatever follows it in the file. *)
Theorem C07_closed_statement : forall o d g cmd tail s f,
  GoCommand o = false -> delim_ok d = true -> gap_delim_ok d ->
  scan_closed o d cmd = true -> Gap d g ->
  input s = g ++ cmd ++ d ++ [10%N] ++ tail -> pos s = 0%Z -> delim s = d -> endterm s = false ->
  (List.length g + List.length cmd + List.length d + 4 <= f)%nat ->
  exists s' cs,
    stmt o f s = Ok (s', Some (mkStmt (total s + zlen g)%Z (stmt_text o d cmd) cs)) /\
    input s' = 10%N :: tail /\ pos s' = 0%Z /\ delim s' = d.
Proof.
  intros o d g cmd tail s f H1 H2 H3 H4 H5 H6 H7 H8 H9 H10.
  destruct (stmt_gap_closed o d g cmd tail s f H1 H2 H3 H4 H5 H6 H7 H8 H9 H10) as (s' & cs & A & B & C & D & _).
  exists s', cs. repeat split; assumption.
Qed.
Print Assumptions C07_closed_statement.

(** C07_roundtrip, one statement for the six formatters: [roundtrip_hyp F o now p] is the DECIDABLE
    hypothesis (Lex/FmtHyp.v: per formatter, exactly the side conditions of the theorems above as
    one boolean).  The extracted model and an independent Go port evaluate it on every generated
    case (observation line "hyp"), and the oracle reports [closed-but-not-roundtrip] when a case
    with [roundtrip_hyp = true] does not round-trip on the real code. *)
Theorem C07_roundtrip : forall F o now p,
  GoCommand o = false -> roundtrip_hyp F o now p = true ->
  roundtrip F o now p = planned (reader_opts F o) (reader_delim F p) p.
Proof. exact roundtrip_of_hyp. Qed.
Print Assumptions C07_roundtrip.
Example C07_roundtrip_nonvacuous :
  forallb (fun F => roundtrip_hyp F opts_postgres (bs "20240101000000"%string) ex_tool_plan)
          [FAtlas; FGolangMigrate; FGoose; FFlyway; FLiquibase; FDBMate] = true
  /\ roundtrip_hyp FAtlas opts_mysql [] (ex_plan [10;10]%N) = true
  /\ roundtrip_hyp FGoose opts_postgres [] w_goose_plan = true
  /\ roundtrip_hyp FGoose opts_postgres [] (plan1 [("SELECT 'a;" ++ nl ++ "b'", "")]%string) = false.
Proof. repeat split; vm_compute; reflexivity. Qed.

(** Import (cmd/atlas migrateImportRun, Lex/FmtImportModel.v — compared with the real CLI on every
    generated directory, file names and bytes).  Full statement: importing a third-party directory
    preserves its statement sequence.  It is FALSE: the import keeps the source reader's FILE order
    only if the atlas directory's lexical order of the new names agrees with it — Flyway orders
    versions numerically (V2 before V10), the imported 10_b.sql sorts before 2_a.sql. *)
Theorem C07_import_order_refuted :
  exists files out,
    import_dir FFlyway [] files = Some out
    /\ source_stmts FFlyway files (dir_files FFlyway (map fst files))
        = Some [bs "CREATE TABLE ta (a int);"%string; bs "CREATE TABLE tb (a int);"%string]
    /\ imported_stmts out
        = Some [bs "CREATE TABLE tb (a int);"%string; bs "CREATE TABLE ta (a int);"%string].
Proof.
  exists w_import_files. eexists. split; [vm_compute; reflexivity|]. split; vm_compute; reflexivity.
Qed.
Print Assumptions C07_import_order_refuted.

(** What holds, per file (partial: the directory-level statement additionally needs the file order,
    refuted above for Flyway; comments other than whole "--" lines — block and '#' comments — are
    covered by the tie only): if every statement the source reader returns has [import_stmt_ok]
    (its comments are whole "--" lines; its text without ONE trailing ';' — the only thing the
    import trims, C07_import_cmd_text — is [scan_closed_semi] for the generic scanner: it may end
    in white space or in the line break that ends a trailing comment), the imported file is read
    back, by the atlas reader, as the same statements. *)
Theorem C07_import_file_partial : forall F now oldname newname content ss name c,
  read F opts_generic content = RStmts ss ->
  forallb import_stmt_ok ss = true ->
  import_file F now oldname newname content = Some (name, c) ->
  texts (of_scan (Stmts c)) = Some (map (fun s => trim_suffix (Text s) delimiter ++ delimiter) ss)
  /\ ((forall s, In s ss -> has_suffix (Text s) delimiter = true) ->
      texts (of_scan (Stmts c)) = Some (map Text ss)).
Proof.
  intros F now oldname newname content ss name c Hr Hok Hi.
  unfold import_file in Hi. rewrite Hr in Hi. injection Hi as _ Hc. subst c.
  pose proof (import_file_roundtrip (file_version F newname) (file_desc F newname) ss Hok) as H.
  split; [exact H|]. intros Hs. rewrite texts_of_eq in H. rewrite H. f_equal. apply map_ext_in. intros s Hin.
  pose proof (LexProofs.has_suffix_app _ _ (Hs s Hin)) as E.
  unfold trim_suffix. rewrite (Hs s Hin). symmetry. exact E.
Qed.
Print Assumptions C07_import_file_partial.
Example C07_import_file_nonvacuous :
  match read FGoose opts_generic (bs ("-- +goose Up" ++ nl ++ "-- a comment" ++ nl ++ "CREATE TABLE t (a text DEFAULT 'x;');" ++ nl ++ "-- +goose Down" ++ nl)%string) with
  | RStmts ss => forallb import_stmt_ok ss && (List.length ss =? 1)%nat
  | _ => false
  end = true.
Proof. vm_compute. reflexivity. Qed.

(** The text transformation of the import, and that the theorem above covers statements that END
    IN A COMMENT.  (1) The command of an imported statement is its comments, each ended by a
    newline, followed by its text with strings.TrimSuffix(text, ";") applied — nothing else is
    trimmed.  (2) The condition of C07_import_file_partial is weaker than [scan_closed] of that
    command: a trailing line break is allowed.  (3) Non-vacuity on the five tails
    (line comment / block comment / delimiter inside the comment / blank lines before the
    terminator, comment after the terminator): all six statements of [w_tails] satisfy
    [import_stmt_ok], four of them are NOT [scan_closed] (not trimmed at the end), and the
    imported file reads back the source statements.  (4) Sensitivity: had the import also applied
    strings.TrimSpace (a counterfactual, FmtRefuted.import_cmd_trimspace), the formatter's ";"
    would land inside the comment and the same file would read back other statements. *)
Theorem C07_import_cmd_text :
  (forall s, import_cmd s = import_gap s ++ trim_suffix (Text s) delimiter)
  /\ (forall s, forallb import_comment_ok (Comments s) = true ->
        scan_closed opts_generic delimiter (trim_suffix (Text s) delimiter) = true ->
        import_stmt_ok s = true)
  /\ (exists ss name c,
        read FGolangMigrate opts_generic w_tails = RStmts ss /\ List.length ss = 6%nat
        /\ forallb import_stmt_ok ss = true
        /\ map (fun s => scan_closed opts_generic delimiter (trim_suffix (Text s) delimiter)) ss
           = [false; false; false; false; true; true]
        /\ import_file FGolangMigrate [] w_tails_name w_tails_name w_tails = Some (name, c)
        /\ texts (of_scan (Stmts c)) = Some (map Text ss)
        /\ texts (of_scan (Stmts (atlas_content (import_plan_trimspace [49%N] [97%N] ss)))) <> Some (map Text ss)).
Proof.
  split; [intros s; reflexivity|]. split.
  - intros s Hc Hs. unfold import_stmt_ok. rewrite Hc. cbn [andb].
    apply scan_closed_semi_of_closed; [reflexivity|exact Hs].
  - eexists. eexists. eexists. split; [vm_compute; reflexivity|].
    split; [vm_compute; reflexivity|]. split; [vm_compute; reflexivity|]. split; [vm_compute; reflexivity|].
    split; [vm_compute; reflexivity|]. split; [vm_compute; reflexivity|]. vm_compute. discriminate.
Qed.
Print Assumptions C07_import_cmd_text.

(** The Goose reader on hand-made files (stage readers, required statement lists).  Full statement:
    GooseFile.StmtDecls ends every statement where pressly/goose does — at a line whose last
    non-comment word ends in ';'.  It is FALSE both ways: a ';' followed by a comment does not end
    the statement (the next one is glued to it: finding goose-comment-after-semicolon), and a ';'
    that closes a line comment does (the real terminator on the next line becomes a statement of
    its own: one more instance of goose-line-split).  The generic scanner (golang-migrate, Flyway,
    DBMate, Liquibase readers) reads the same bodies as goose does; what holds for the Goose
    reader on formatter-written files is C07_goose_dbmate_reader_except. *)
Theorem C07_goose_comment_terminator_refuted :
  texts (read FGoose opts_generic w_goose_trailing)
    = Some [bs ("SELECT 1;  -- trailing" ++ nl ++ "SELECT 2;")%string]
  /\ texts (read FGoose opts_generic w_goose_comment_semi)
    = Some [bs "SELECT 1 -- c;"%string; bs ";"%string; bs "SELECT 2;"%string]
  /\ texts (read FGolangMigrate opts_generic (bs ("SELECT 1;  -- trailing" ++ nl ++ "SELECT 2;" ++ nl)%string))
    = Some [bs "SELECT 1;"%string; bs "SELECT 2;"%string]
  /\ texts (read FGolangMigrate opts_generic (bs ("SELECT 1 -- c;" ++ nl ++ ";" ++ nl ++ "SELECT 2;" ++ nl)%string))
    = Some [bs ("SELECT 1 -- c;" ++ nl ++ ";")%string; bs "SELECT 2;"%string].
Proof. repeat split; vm_compute; reflexivity. Qed.
Print Assumptions C07_goose_comment_terminator_refuted.

(** The bridge from planner output to [scan_closed] (partial).  Full statement: every Cmd the three
    planners emit is [scan_closed] for its dialect's scanner whenever its identifiers and literals
    are closed tokens.  Proved: for STATEMENT SKELETONS (Lex/ClosedBridgeModel.v) — a command
    assembled, as sqlx.Builder does, from fixed text of inert bytes without a BEGIN word, quoted
    tokens, and balanced parentheses is closed ([skel_ok] decidable) — and, instantiated with the
    quoting theorems, for two statement forms with EVERY name and EVERY comment text:
      PostgreSQL  COMMENT ON TABLE "<name>" IS '<text>'      (every name, since the Ident fix)
      MySQL       ALTER TABLE `<name>` COMMENT "<text>"       (name without backslash).
    Missing: that each statement form of the MySQL/PostgreSQL/SQLite planners is such a skeleton (the
    planners are not modelled here); measured instead on every run: the extracted [scan_closed]
    is evaluated on every real planner Cmd and the oracle class closed-but-not-roundtrip is armed. *)
Theorem C07_bridge_partial :
  (forall o ps, skel_ok o ps = true -> scan_closed o delimiter (render ps) = true)
  /\ (forall name text, name <> [] -> is_quoted text [39%N] = false ->
        scan_closed opts_postgres delimiter (render (pg_comment_on_table name text)) = true)
  /\ (forall np name text, name <> [] -> ~ In 92%N name -> is_quoted text [34%N; 39%N] = false ->
        scan_closed opts_mysql delimiter (render (mysql_alter_comment np name text)) = true).
Proof.
  split; [exact skel_closed|]. split; [exact pg_comment_on_table_closed|exact mysql_alter_comment_closed].
Qed.
Print Assumptions C07_bridge_partial.
Example C07_bridge_nonvacuous :
  render (pg_comment_on_table (bs "users"%string) (bs "it's; -- x"%string))
    = bs "COMMENT ON TABLE ""users"" IS 'it''s; -- x'"%string
  /\ skel_ok opts_mysql (create_table1 96 (bs "t;"%string) (bs "c"%string)) = true
  /\ render (create_table1 96 (bs "t;"%string) (bs "c"%string)) = bs "CREATE TABLE `t;` (`c` integer NOT NULL)"%string.
Proof. repeat split; vm_compute; reflexivity. Qed.

(** Import, directory level (the exact characterisation next to C07_import_order_refuted): if the
    import keeps the file order — the target names, listed by name as the atlas directory does,
    are in the order the files were written, and are distinct — and every source file is
    [import_source_ok] (its reader succeeds, every statement has whole "--" comment lines, a
    closed text and the trailing ';'), the imported directory has the source's statement sequence. *)
Theorem C07_import_dir_except : forall F now files out,
  import_dir F now files = Some out ->
  import_order_ok out = true -> NoDup (map fst out) ->
  (forall o, In o (dir_files F (map fst files)) ->
     exists c, find (fun f => bytes_eqb (fst f) o) files = Some (o, c) /\ import_source_ok F c = true) ->
  imported_stmts out = source_stmts F files (dir_files F (map fst files)).
Proof. exact import_dir_roundtrip. Qed.
Print Assumptions C07_import_dir_except.
Example C07_import_dir_nonvacuous :
  match import_dir FFlyway [] (rev w_import_files ++ [(bs "V11__c.sql"%string, bs ("CREATE TABLE tc (a text DEFAULT 'x;');" ++ nl)%string)]) with
  | Some out => negb (import_order_ok out)
  | None => false
  end = true
  /\ match import_dir FGolangMigrate [] [(bs "1_a.up.sql"%string, bs ("-- c" ++ nl ++ "CREATE TABLE ta (a int);" ++ nl)%string);
                                         (bs "2_b.up.sql"%string, bs ("CREATE TABLE tb (a text DEFAULT ';');" ++ nl)%string)] with
     | Some out => import_order_ok out && (List.length out =? 2)%nat
     | None => false
     end = true
  /\ import_source_ok FGolangMigrate (bs ("-- c" ++ nl ++ "CREATE TABLE ta (a int);" ++ nl)%string) = true.
Proof. repeat split; vm_compute; reflexivity. Qed.

(** bufio.Scanner's 64 KiB token limit (repaired, C07-sqltool-scanner-buffer: the readers size the
    buffer to the file and report sc.Err()): a line of ANY length is read — for every [long]
    (no newline, no carriage return, not itself a pragma line) the up section
    "SELECT 1;\n" long "\nSELECT 2;\n" is handed to the scanner unchanged.  Before the fix a line
    of 65536 bytes or more silently ended the Goose/DBMate loops ([dbmate_ok] / [goose_change_ok]
    carried a [short] condition, now gone). *)
Theorem C07_long_line_repaired : forall long,
  ~ In 10%N long -> ~ In 13%N long -> dbmate_line_ok long = true ->
  let up := bs ("SELECT 1;" ++ nl)%string ++ long ++ bs (nl ++ "SELECT 2;" ++ nl)%string in
  dbmate_text (S_DBMATE_UP ++ up ++ S_DBMATE_DOWN) = up.
Proof. exact long_line_repaired. Qed.
Print Assumptions C07_long_line_repaired.

(** a first comment that reads as the [atlas:delimiter] directive (why the sqltool round trips require
    [comment_ok2]): the golang-migrate / flyway / dbmate files are read as ONE statement. *)
Theorem C07_comment_directive_refuted :
  exists p, forallb (fun c => scan_closed opts_generic semi (c_cmd c) && comment_ok (c_comment c)) (p_changes p) = true
    /\ List.length (p_changes p) = 2%nat
    /\ (exists t, roundtrip FGolangMigrate opts_generic [] p = Some [t])
    /\ (exists t, roundtrip FDBMate opts_generic [] p = Some [t])
    /\ roundtrip FAtlas opts_generic [] p = planned opts_generic semi p.
Proof.
  exists w_directive_plan. destruct comment_directive_refuted as (H1 & H2 & H3).
  split; [vm_compute; reflexivity|]. split; [reflexivity|]. split; [eexists; exact H1|]. split; [eexists; exact H2|].
  rewrite H3. vm_compute. reflexivity.
Qed.
Print Assumptions C07_comment_directive_refuted.

(** BEGIN ... END blocks (CREATE TRIGGER / PROCEDURE bodies; not emitted by the OSS planners, but
    accepted by migrate.Plan and by the MySQL and SQLite scanners, which match BEGIN blocks):
    a plan whose commands are [scan_closed] OR consist of a closed head, the word BEGIN, closed
    inner statements separated by ';' and the word END ([scan_closed_begin], ClosedBeginModel.v)
    is read back by the atlas reader with the dialect's scanner — for every option set with
    MatchBegin only (the MySQL and SQLite driver sets), default delimiter, any directives.
    Single-statement core: ClosedBeginProofs.stmt_gap_closed_begin (nested scanner of skipBegin). *)
Theorem C07_roundtrip_atlas_begin : forall o now p,
  GoCommand o = false -> p_delim p = [] ->
  Forall (fun x => directive_ok x = true) (p_directives p) ->
  Forall (fun c => comment_ok (c_comment c) = true /\
                   (scan_closed o delimiter (c_cmd c) = true \/
                    exists b, c_cmd c = render_begin b /\ scan_closed_begin o b = true)) (p_changes p) ->
  roundtrip FAtlas o now p = planned o delimiter p.
Proof.
  intros o now p Hgo Hd Hdirs Hall. rewrite roundtrip_eq, up_atlas, read_atlas, planned_eq, <- texts_of_eq.
  exact (atlas_roundtrip_begin o p Hgo Hd Hdirs Hall).
Qed.
Print Assumptions C07_roundtrip_atlas_begin.
Example C07_roundtrip_atlas_begin_nonvacuous :
  scan_closed_begin opts_mysql ex_trigger = true /\ scan_closed_begin opts_sqlite ex_trigger = true
  /\ scan_closed opts_mysql semi (render_begin ex_trigger) = false
  /\ roundtrip FAtlas opts_mysql [] ex_trigger_plan = planned opts_mysql semi ex_trigger_plan
  /\ roundtrip FGolangMigrate opts_mysql [] ex_trigger_plan <> planned opts_generic semi ex_trigger_plan.
Proof. repeat split; vm_compute; try reflexivity; discriminate. Qed.

(** DBMate directives with options (repaired, C07-dbmate-directive-options): the direction is the
    first field after "-- migrate:"; before the fix "-- migrate:up transaction:false" was not
    recognised and the file was read as empty. *)
Theorem C07_dbmate_options_repaired :
  texts (read FDBMate opts_generic w_dbmate_options)
  = Some [bs "CREATE TABLE t1 (a int);"%string; bs "CREATE TABLE t2 (a int);"%string].
Proof. exact dbmate_options_repaired. Qed.
Print Assumptions C07_dbmate_options_repaired.
