(** C07 — what is planned is what is executed: plan -> file -> statements round-trips.

    Models: Lex/FmtModel.v (the six formatters as byte-producing functions, the matching readers
    incl. the Goose/DBMate line filters and the file selection of the directories), Lex/LexModel.v
    (the scanner, property C08), Lex/QuoteModel.v (sqlx.SingleQuote, IsQuoted, the PostgreSQL and
    MySQL quote functions, formatValues, Builder.Ident), Lex/ClosedModel.v (the decidable
    syntactic predicate [scan_closed o d cmd]: a byte walker over the command alone).

    [roundtrip F o now p] = the statement texts the matching reader returns for the up file that
    formatter [F] writes for plan [p]; [planned o d p] = the planned commands as [Scanner.emit]
    reports them (the default delimiter stays in the text). *)
From Coq Require Import List NArith ZArith Bool String.
From Atlas Require Import Base.Bytes Lex.LexModel Lex.ClosedModel Lex.FmtModel Lex.QuoteModel Lex.FmtRefuted.
Import ListNotations.

(** Full statement 3 (every identifier the builder quotes is a closed token) is FALSE of the
    faithful model and of the real code: Builder.Ident does not escape the closing quote byte.
    Witness: PostgreSQL table named a-quote-semicolon-b; the file cannot be read back. *)
Theorem C07_ident_refuted :
  exists p, roundtrip FAtlas opts_postgres [] p <> planned opts_postgres semi p
            /\ existsb (fun c => negb (scan_closed opts_postgres semi (c_cmd c))) (p_changes p) = true.
Proof. exists w_ident_plan. destruct ident_refuted as [H1 H2]. split; [exact H1|]. vm_compute. reflexivity. Qed.
Print Assumptions C07_ident_refuted.

(** Statement 4b: the sqltool readers other than Liquibase's scan with the generic options; a MySQL
    comment with a double quote is strconv.Quote-d with a backslash that only the MySQL scanner
    understands. *)
Theorem C07_mysql_generic_refuted :
  exists p,
    roundtrip FAtlas opts_mysql [] p = planned opts_mysql semi p
    /\ roundtrip FGolangMigrate opts_mysql [] p <> planned opts_generic semi p
    /\ roundtrip FFlyway opts_mysql [] p <> planned opts_generic semi p
    /\ roundtrip FGoose opts_mysql [] p <> planned opts_generic semi p
    /\ roundtrip FDBMate opts_mysql [] p <> planned opts_generic semi p.
Proof.
  exists w_mysql_plan. destruct mysql_generic_refuted as (H1 & _ & H3 & H4 & H5 & H6 & _).
  repeat split; assumption.
Qed.
Print Assumptions C07_mysql_generic_refuted.

(** comments are written raw: a newline in Change.Comment turns its tail into a statement. *)
Theorem C07_comment_newline_refuted :
  exists p, Forall (fun c => scan_closed opts_generic semi (c_cmd c) = true) (p_changes p)
            /\ roundtrip FAtlas opts_generic [] p <> planned opts_generic semi p.
Proof.
  exists w_comment_plan. destruct comment_newline_refuted as (H1 & H2 & _). split; [|exact H1].
  constructor; [exact H2|constructor].
Qed.
Print Assumptions C07_comment_newline_refuted.

(** the Goose / DBMate readers drop every line containing Down / down (ungrouped alternation in
    reGoosePragma / reDBMatePragma): closed commands vanish. *)
Theorem C07_goose_dbmate_line_filter_refuted :
  (exists p, forallb (fun c => scan_closed opts_generic semi (c_cmd c)) (p_changes p) = true
             /\ List.length (p_changes p) = 2%nat /\ roundtrip FGoose opts_postgres [] p = Some [bs "SELECT 1;"%string])
  /\ (exists p, forallb (fun c => scan_closed opts_generic semi (c_cmd c)) (p_changes p) = true
             /\ List.length (p_changes p) = 2%nat /\ roundtrip FDBMate opts_postgres [] p = Some [bs "SELECT 1;"%string]).
Proof.
  destruct goose_dbmate_line_filter_refuted as (H1 & H2 & _).
  split; [exists w_goose_plan | exists w_dbmate_plan]; (split; [vm_compute; reflexivity|split; [reflexivity|assumption]]).
Qed.
Print Assumptions C07_goose_dbmate_line_filter_refuted.

(** Liquibase: a multi-line reverse statement leaks out of its --rollback comment into the up
    statements; the empty plan is read as one statement. *)
Theorem C07_liquibase_rollback_refuted :
  (exists now p, List.length (p_changes p) = 1%nat /\ exists a b, roundtrip FLiquibase opts_postgres now p = Some [a; b])
  /\ roundtrip FLiquibase opts_postgres [] (mkPlan [] [] [] [] []) <> Some [].
Proof.
  split.
  - exists (bs "20240101000000"%string), w_liquibase_plan. split; [reflexivity|]. eexists; eexists. exact liquibase_rollback_refuted.
  - rewrite liquibase_empty_refuted. discriminate.
Qed.
Print Assumptions C07_liquibase_rollback_refuted.

(** formatValues (MySQL enum/set values) does not escape at all; the MySQL scanner treats a
    backslash inside a back-quoted identifier as an escape; already-quoted inputs are passed
    through by quote/SingleQuote although IsQuoted never examines the byte before the last. *)
Theorem C07_quote_refuted :
  (exists v, lit_closed opts_mysql (format_value v) = false)
  /\ (exists s, scan_closed opts_mysql semi (bs "CREATE TABLE "%string ++ ident 96 96 s ++ bs " (`c` int)"%string) = false
                /\ scan_closed opts_generic semi (bs "CREATE TABLE "%string ++ ident 96 96 s ++ bs " (`c` int)"%string) = true)
  /\ (exists s, lit_closed opts_postgres (pg_quote s) = false)
  /\ (exists s, lit_closed opts_mysql (mysql_quote [] s) = false).
Proof.
  destruct format_values_refuted as (_ & H1 & _). destruct mysql_ident_backslash_refuted as (H2 & _ & H3).
  destruct quote_passthrough_refuted as (_ & H4 & _ & H5).
  split; [eexists; exact H1|]. split; [exists (bs "ab\"%string); split; assumption|].
  split; eexists; eassumption.
Qed.
Print Assumptions C07_quote_refuted.
