(** C05 -- planned table changes never lose rows or values of columns that survive.
    Only statements, [exact], [Print Assumptions] and non-vacuity Examples live here. *)
From Coq Require Import List NArith Bool Arith.
From Atlas Require Import Base.Bytes Diff.Schema Sqlite.RowsModel.
Import ListNotations.
