(** C05 -- planned table changes never lose rows or values of columns that survive.

    "When Atlas migrates a populated table to a new definition, every row is still present
    afterwards and every column that exists with the same type before and after holds the
    same value in each row, whether the change is done in place or by rebuilding the table.
    Tables that are not part of the change set are untouched."

    Model: Sqlite/RowsModel.v -- the SQLite planner of sql/sqlite/migrate.go (PlanChanges, plan,
    addTable, dropTable, modifyTable, alterable, alterTable, copyRows with its toC/fromC slices
    and the IFNULL wrap, the PRAGMA foreign_keys bracket) and an abstract SQLite holding rows.
    [conv] (affinity conversion between declared types) and [genv] (values of generated
    columns) are arbitrary functions; the only thing assumed is [conv t t v = v].

    Only statements, [exact], [Print Assumptions] and non-vacuity Examples live here. *)
From Coq Require Import List NArith Bool Arith.
From Atlas Require Import Base.Bytes Diff.Schema Sqlite.RowsModel Sqlite.RowsProofs Sqlite.RowsWitness.
From Atlas Require Diff.DiffModel Sqlite.PlanModel Sqlite.RowsBridge.
From Atlas Require Import Sqlite.RowsPrefix Sqlite.RowsFault.
Import ListNotations.

(** FULL STATEMENT (false of the faithful model, see 1a): for every database [d], change set
    [cs] (one change per table, [wf_changes]), if the plan of [cs] executes then for every
    [ModifyTable t m] in [cs] the table still exists, has as many rows as before, and row by row
    every plain column of [t] that the old table has with the same declared type holds the same
    value.

    1a. It is false in two ways, both reproduced on the real engine:
        - [C05_rows_preserved_refuted]: when no column of the new definition is paired with an
          old one (every column dropped, new ones added) copyRows plans no INSERT and DROP TABLE
          discards every row (known finding C05-no-common-column-rows-dropped);
        - [C05_values_identical_refuted]: a NULL in a column that the change makes NOT NULL with
          a DEFAULT is replaced by that default (IFNULL); deliberate and documented in copyRows --
          NULL is the absence of a value, no value is lost; the oracle checks it is exactly the
          default.
    1b. [C05_rows_preserved_except] is the exact characterisation that holds. *)

Theorem C05_rows_preserved_refuted :
  exists d cs p d' t m told tnew,
    wf_changes cs /\ pragma_effective d /\ In (ModifyTable t m) cs /\
    NoDup (map rc_name (td_cols t)) /\
    PlanChanges cs = POk p /\ exec_all conv0 genv0 d p = EOk d' /\
    find_et (td_name t) (d_tables d) = Some told /\
    find_et (td_name t) (d_tables d') = Some tnew /\
    length (et_rows told) = 2 /\ length (et_rows tnew) = 0.
Proof. exact C05_rows_preserved_refuted_lemma. Qed.

Theorem C05_values_identical_refuted :
  exists d cs p d' tnew r r' c,
    wf_changes cs /\ pragma_effective d /\
    PlanChanges cs = POk p /\ exec_all conv0 genv0 d p = EOk d' /\
    find_et sT (d_tables d') = Some tnew /\
    nth_error (et_rows (hd (mkEtable [] [] [] []) (d_tables d))) 0 = Some r /\
    nth_error (et_rows tnew) 0 = Some r' /\
    get r c = Some VNull /\ get r' c = Some vd.
Proof. exact C05_values_identical_refuted_lemma. Qed.

Section C05.
Variable conv : str -> str -> value -> value.
Variable genv : str -> rcol -> row -> value.
Hypothesis conv_same : forall t v, conv t t v = v.

(** 1b. For every database, every change set with one change per table, on both paths: if the
    plan executes (outside a transaction, or with enforcement already off -- what OpenTx
    arranges), every modified table still exists; if the plan carries rows over
    ([copies_rows]: ALTER path, or at least one column paired in the copy) it has the same number
    of rows and, position by position, every plain column [c] of the new definition that is
    not added by the change set and exists in the old table with the same declared type holds
    the old value [v] -- except that a NULL is replaced by the column default exactly when
    copyRows wrapped the column in IFNULL (NOT NULL + DEFAULT after a change of nullability
    or default).  Otherwise ([copies_rows] = false) the table is empty afterwards. *)
Theorem C05_rows_preserved_except :
  forall d cs p d',
  wf_changes cs -> pragma_effective d ->
  PlanChanges cs = POk p -> exec_all conv genv d p = EOk d' ->
  forall t m told,
  In (ModifyTable t m) cs -> NoDup (map rc_name (td_cols t)) ->
  find_et (td_name t) (d_tables d) = Some told ->
  exists tnew, find_et (td_name t) (d_tables d') = Some tnew /\
    (copies_rows t m = true ->
     length (et_rows tnew) = length (et_rows told) /\
     forall i r r', nth_error (et_rows told) i = Some r -> nth_error (et_rows tnew) i = Some r' ->
       forall c cold v, In c (td_cols t) -> rc_gen c = false -> kept m c <> None ->
         ~ In (rc_name c) (renamed_cols m) ->
         find_rcol (rc_name c) (et_cols told) = Some cold -> rc_type cold = rc_type c ->
         get r (rc_name c) = Some v ->
         get r' (rc_name c) = Some (if ifnull_wrapped m c && is_null v then rc_defval c else v)) /\
    (copies_rows t m = false -> et_rows tnew = []).
Proof. exact (C05_rows_preserved_except_lemma conv genv conv_same). Qed.

(** 2. Tables that are not part of the change set are identical afterwards (columns, foreign
    keys, rows), given the pragma is effective.  The planner side of the premise is 3. *)
Theorem C05_others_untouched :
  forall d cs p d',
  wf_changes cs -> pragma_effective d ->
  PlanChanges cs = POk p -> exec_all conv genv d p = EOk d' ->
  forall n, ~ In n (flat_map touched cs) -> find_et n (d_tables d') = find_et n (d_tables d).
Proof. exact (C05_others_untouched_lemma conv genv). Qed.

(** 4. On the copy path the rebuilt table has the desired columns; a NOT NULL column never holds
    NULL and a column the change set adds holds its default in every row. *)
Theorem C05_copy_new_columns :
  forall d cs p d',
  wf_changes cs -> pragma_effective d ->
  PlanChanges cs = POk p -> exec_all conv genv d p = EOk d' ->
  forall t m told tnew,
  In (ModifyTable t m) cs -> NoDup (map rc_name (td_cols t)) -> alterable m = false ->
  find_et (td_name t) (d_tables d) = Some told ->
  find_et (td_name t) (d_tables d') = Some tnew ->
  et_cols tnew = td_cols t /\
  forall r' c, In r' (et_rows tnew) -> In c (td_cols t) -> rc_gen c = false ->
    exists v', get r' (rc_name c) = Some v' /\ (rc_notnull c = true -> v' <> VNull) /\
               (kept m c = None -> v' = rc_defval c).
Proof. exact (C05_copy_new_columns_lemma conv genv). Qed.

(** 7. Plans that stop in the middle (no transaction: --tx-mode none, or a caller without one):
    after every prefix of the plan -- statement k+1 was refused, or the process was killed --
    tables outside the change set are identical and the rows of every modified table are
    [somewhere]: in the table itself (still untouched, or already carried over as in 1b), or,
    between DROP TABLE t and RENAME, in new_t with the copied rows.  (Inside a transaction a
    refused plan is rolled back: the database is unchanged by the atomicity of the engine.) *)
Theorem C05_no_prefix_loses_rows :
  forall d cs p d' k,
  wf_changes cs -> pragma_effective d -> NoDup (names d) ->
  PlanChanges cs = POk p -> exec_all conv genv d (firstn k p) = EOk d' ->
  (forall n, ~ In n (flat_map touched cs) -> find_et n (d_tables d') = find_et n (d_tables d)) /\
  (forall t m told, In (ModifyTable t m) cs -> NoDup (map rc_name (td_cols t)) ->
     find_et (td_name t) (d_tables d) = Some told -> somewhere conv t m told d').
Proof. exact (C05_no_prefix_loses_rows_lemma conv genv). Qed.

(** 8. `atlas schema apply` end to end (cmdapi.applyChanges over sqlx.ApplyChanges, and
    sqlite.OpenTx for --tx-mode file), for a connection opened with or without _fk=1: no premise
    about the pragma is left -- --tx-mode none runs outside a transaction, OpenTx switches
    enforcement off before BEGIN.  In file mode the connection settings are restored and a
    refused plan leaves every table as it was; in both modes tables outside the change set are
    identical, a modified table satisfies [kept_rows] (the characterisation of 1b, see 8') when the
    plan went through, and its rows are [somewhere] whatever happened. *)
Theorem C05_schema_apply :
  forall mode d cs d' r,
  d_intx d = false -> wf_changes cs -> NoDup (names d) ->
  schema_apply conv genv mode d cs = Some (d', r) ->
  (mode = TxFile -> d_fk d' = d_fk d /\ d_intx d' = false) /\
  (mode = TxFile -> r <> None -> d_tables d' = d_tables d) /\
  (forall n, ~ In n (flat_map touched cs) -> find_et n (d_tables d') = find_et n (d_tables d)) /\
  (forall t m told, In (ModifyTable t m) cs -> NoDup (map rc_name (td_cols t)) ->
     find_et (td_name t) (d_tables d) = Some told ->
     (r = None -> exists tnew, find_et (td_name t) (d_tables d') = Some tnew /\ kept_rows conv t m told tnew) /\
     somewhere conv t m told d').
Proof. exact (C05_schema_apply_lemma conv genv). Qed.

(** 8'. what [kept_rows] says about counts and values (the body of 1b) *)
Theorem C05_kept_rows_values :
  forall t m told tnew,
  kept_rows conv t m told tnew ->
  alterable m = true \/ pairs m (td_cols t) <> [] ->
  length (et_rows tnew) = length (et_rows told) /\
  forall i r r', nth_error (et_rows told) i = Some r -> nth_error (et_rows tnew) i = Some r' ->
    forall c cold v, In c (td_cols t) -> rc_gen c = false -> kept m c <> None ->
      ~ In (rc_name c) (renamed_cols m) ->
      find_rcol (rc_name c) (et_cols told) = Some cold -> rc_type cold = rc_type c ->
      get r (rc_name c) = Some v ->
      get r' (rc_name c) = Some (if ifnull_wrapped m c && is_null v then rc_defval c else v).
Proof. exact (kept_rows_values conv conv_same). Qed.

End C05.

(** ** round 2: generated columns changing kind, NOT NULL over existing NULLs, faults in the opener *)

(** 9. A ModifyColumn -- of whatever kind, ChangeGenerated included -- is never done in place:
    the table is rebuilt.  (An in-place DROP COLUMN + ADD COLUMN would lose what a generated column
    showed.) *)
Theorem C05_modify_column_forces_rebuild :
  forall cs n k, In (ModifyColumn n k) cs -> alterable cs = false.
Proof. exact modify_forces_rebuild. Qed.

(** 10. Kind pairs.  copyRows decides by the kind of the *new* column only:
    new generated (VIRTUAL or STORED; old regular, VIRTUAL, STORED, other expression): not part of the
    INSERT, the engine computes it;
    new regular under a ModifyColumn (old regular, VIRTUAL or STORED): paired with the old column of
    the same name -- wrapped in IFNULL exactly when it is NOT NULL with a DEFAULT and nullability or
    default changed.  By 1b / 8' (whose [cold] may be generated: rows hold what generated columns
    show) the new regular column then holds, row by row, the value the generated column showed. *)
Theorem C05_generated_kind_pairs :
  forall cs c,
  (rc_gen c = true -> kept cs c = None) /\
  (forall k, rc_gen c = false ->
     find_change (rc_name c) cs None = POk (Some (ModifyColumn (rc_name c) k)) ->
     kept cs c = Some (if rc_notnull c && has_default c && change_is k ChangeNullOrDefault
                       then EIfNull (rc_name c) (rc_defval c) else ECol (rc_name c))).
Proof. intros cs c. split; [apply kept_new_generated|intros k; apply kept_new_regular_modified]. Qed.

(** 11. NOT NULL over existing NULLs: for a column that is NOT NULL with a DEFAULT in the desired
    table, either bit of the change -- ChangeNull alone (the default was there already), ChangeDefault
    alone, both, or one of them together with ChangeType / ChangeGenerated -- makes copyRows read it
    through IFNULL(col, default): by 1b every NULL becomes the default, and by 4 the copy cannot trip
    over the column's own NOT NULL constraint as long as the default is not NULL. *)
Theorem C05_notnull_default_wrapped :
  forall cs c k,
  rc_gen c = false -> rc_notnull c = true -> has_default c = true ->
  find_change (rc_name c) cs None = POk (Some (ModifyColumn (rc_name c) k)) ->
  N.testbit k 4 = true \/ N.testbit k 6 = true ->     (* ChangeNull = 2^4, ChangeDefault = 2^6 *)
  kept cs c = Some (EIfNull (rc_name c) (rc_defval c)) /\ ifnull_wrapped cs c = true.
Proof. exact notnull_default_wrapped. Qed.

(** 15. Table options decide what a value is (an ANY column keeps text verbatim only in a STRICT
    table).  The only CREATE TABLE a ModifyTable plans is the one of the temporary table of the
    rebuild, and it carries the columns and the option clause -- WITHOUT ROWID, STRICT -- of the
    desired table ([newT] is a shallow copy of [modify.T]).  The tie compares this clause with the
    SQL the Go planner prints in every run. *)
Theorem C05_rebuild_keeps_options :
  forall t m l b x,
  seg (ModifyTable t m) = POk (l, b) -> In (SCreateTable x) l ->
  td_name x = new_prefix ++ td_name t /\ td_cols x = td_cols t /\
  td_strict x = td_strict t /\ td_without_rowid x = td_without_rowid t /\
  table_options x = table_options t.
Proof. exact rebuild_keeps_options. Qed.

Section C05_faults.
Variable conv : str -> str -> value -> value.
Variable genv : str -> rcol -> row -> value.

(** 12. `schema apply --tx-mode file` with one statement of the opener / closer / plan failing with
    "database is locked" ([schema_apply_f]; without a fault it is the [schema_apply] of 8):
    the tables afterwards are the tables before, or exactly those of the fault-free run. *)
Theorem C05_schema_apply_faults :
  forall f d cs d' r,
  schema_apply_f conv genv TxFile f d cs = Some (d', r) ->
  d_tables d' = d_tables d \/
  (exists d0, schema_apply conv genv TxFile d cs = Some (d0, None) /\ d_tables d' = d_tables d0).
Proof. exact (C05_schema_apply_faults_lemma conv genv). Qed.

Theorem C05_schema_apply_f_none :
  forall mode d cs, schema_apply_f conv genv mode FNone d cs = schema_apply conv genv mode d cs.
Proof. exact (schema_apply_f_none conv genv). Qed.

(** 13. The opener.  Whatever fails in OpenTx, the tables are untouched; when OpenTx succeeds the
    plan starts inside the transaction with enforcement *off*; and when enforcement is on and the
    pragma that switches it off fails, OpenTx reports it and nothing else happens: no BEGIN, no
    statement of the plan (the state is the one it found). *)
Theorem C05_opener_faults :
  forall f d,
  d_tables (fst (OpenTx_f f d)) = d_tables d /\
  (snd (OpenTx_f f d) = None -> d_fk (fst (OpenTx_f f d)) = false /\ d_intx (fst (OpenTx_f f d)) = true).
Proof. exact OpenTx_f_spec. Qed.

Theorem C05_set_off_fault_runs_nothing :
  forall d cs p, d_fk d = true -> PlanChanges cs = POk p ->
  schema_apply_f conv genv TxFile FSetFKOff d cs = Some (d, Some ELocked).
Proof. exact (set_off_fault_stops conv genv). Qed.

(** 14. A fault at COMMIT, or at the foreign_key_check before it, is reported and leaves every
    table as it was. *)
Theorem C05_commit_faults_unchanged :
  forall f d cs d' r,
  f = FCommit \/ (f = FCheckAfter /\ d_fk d = true) ->
  schema_apply_f conv genv TxFile f d cs = Some (d', r) ->
  r <> None /\ d_tables d' = d_tables d.
Proof. exact (commit_faults_unchanged conv genv). Qed.

End C05_faults.

(** 2'. The engine-side premise of 2 is necessary: inside a transaction that was opened with
    foreign_keys = on (a plain sql.Tx handed to sqlite.Open; `schema apply` goes through
    sqlite.OpenTx, which switches enforcement off before BEGIN) the bracket is a no-op and
    DROP TABLE of a rebuilt parent cascades into a table that is not part of the change set. *)
Theorem C05_others_untouched_without_pragma_refuted :
  exists d cs p d' n c c',
    wf_changes cs /\ d_fk d = true /\ d_intx d = true /\ ~ In n (flat_map touched cs) /\
    PlanChanges cs = POk p /\ exec_all conv0 genv0 d p = EOk d' /\
    find_et n (d_tables d) = Some c /\ find_et n (d_tables d') = Some c' /\
    length (et_rows c) = 2 /\ length (et_rows c') = 1.
Proof. exact C05_others_untouched_without_pragma_refuted_lemma. Qed.

(** 3. The bracket, about the planner: a plan that contains a DROP TABLE (of a DropTable change
    or of the copy path of modifyTable) starts with PRAGMA foreign_keys = off, ends with PRAGMA
    foreign_keys = on and has no other pragma. *)
Theorem C05_fk_bracket :
  forall cs p,
  PlanChanges cs = POk p -> existsb is_drop p = true ->
  exists mid, p = SPragmaFK false :: mid ++ [SPragmaFK true] /\
              forallb (fun s => negb (is_pragma s)) mid = true.
Proof. exact fk_bracket_lemma. Qed.

(** 5. The pairing of copyRows: one INSERT (or none when nothing is paired); toC and fromC have
    the same length and, position by position, the target is a plain column [c] of the new table
    and the source is the expression [kept] assigns to that very column. *)
Theorem C05_copy_pairing :
  forall f t cs l,
  copyRows f t cs = POk l ->
  l = [] \/
  exists toC fromC,
    l = [SCopyRows (td_name t) toC fromC (td_name f)] /\ toC <> [] /\
    length toC = length fromC /\
    forall i n, nth_error toC i = Some n ->
      exists c x, In c (td_cols t) /\ rc_gen c = false /\ rc_name c = n /\
                  kept cs c = Some x /\ nth_error fromC i = Some x.
Proof. exact C05_copy_pairing_lemma. Qed.

(** 6. Bridge to the shared planner model (Sqlite/PlanModel.v, C01): on the change projection the
    community differ emits, [PlanModel.copy_cols] (whose statements C01 ties to the SQL text the Go
    planner prints) and [RowsModel.copyRows_loop] (the subject of 1b and 5) produce the same
    INSERT column list and, position by position, the same kind of source expression for the same
    column; the IFNULL replacement value is the evaluation [ev] of the DEFAULT text. *)
Theorem C05_shared_planner_same_pairing :
  forall (ev : str -> str -> value) (all : list column) (cs : list DiffModel.change)
         (cols : list column) (prs : list (str * PlanModel.sexpr)),
  PlanModel.copy_cols cols cs = Some prs ->
  exists fromC',
    copyRows_loop (map (RowsBridge.proj_col ev) cols) (map (RowsBridge.proj_change ev all) cs) [] []
      = POk (map fst prs, fromC') /\
    Forall2 (RowsBridge.expr_matches ev) (map snd prs) fromC'.
Proof. exact RowsBridge.copy_cols_bridge_nil. Qed.

Print Assumptions C05_rows_preserved_refuted.
Print Assumptions C05_shared_planner_same_pairing.
Print Assumptions C05_no_prefix_loses_rows.
Print Assumptions C05_schema_apply.
Print Assumptions C05_kept_rows_values.
Print Assumptions C05_modify_column_forces_rebuild.
Print Assumptions C05_generated_kind_pairs.
Print Assumptions C05_notnull_default_wrapped.
Print Assumptions C05_schema_apply_faults.
Print Assumptions C05_schema_apply_f_none.
Print Assumptions C05_opener_faults.
Print Assumptions C05_set_off_fault_runs_nothing.
Print Assumptions C05_commit_faults_unchanged.
Print Assumptions C05_rebuild_keeps_options.
Print Assumptions C05_values_identical_refuted.
Print Assumptions C05_rows_preserved_except.
Print Assumptions C05_others_untouched.
Print Assumptions C05_copy_new_columns.
Print Assumptions C05_others_untouched_without_pragma_refuted.
Print Assumptions C05_fk_bracket.
Print Assumptions C05_copy_pairing.

(** ** non-vacuity *)
Lemma conv0_same : forall t v, conv0 t t v = v.
Proof. reflexivity. Qed.

(** 1b / 4 on the copy path with IFNULL: premises hold, the plan executes, rows are carried over *)
Example C05_rows_preserved_except_nonvacuous :
  exists p d', wf_changes w2_cs /\ pragma_effective w2_db /\
    PlanChanges w2_cs = POk p /\ exec_all conv0 genv0 w2_db p = EOk d' /\
    copies_rows w2_t w2_m = true /\ alterable w2_m = false /\
    ifnull_wrapped w2_m (col_d sV tyText true vd) = true /\
    existsb is_drop p = true.
Proof.
  destruct w2_null_replaced as [p [d' [tnew [r [r' [A [B [C [D _]]]]]]]]].
  exists p, d'. repeat split; try assumption.
  vm_compute in C. inversion C; subst p. reflexivity.
Qed.

(** 1b on the ALTER path *)
Definition w4_cs : list schange := [ModifyTable (mkTdef sT [col sId tyInt true; col sV tyText false; col_d sA tyInt false v1] [] [])
                                      [AddColumn (col_d sA tyInt false v1)]].
Example C05_alter_path_nonvacuous :
  exists p d' tnew, PlanChanges w4_cs = POk p /\ exec_all conv0 genv0 w2_db p = EOk d' /\
    p = [SAddColumn sT (col_d sA tyInt false v1)] /\
    find_et sT (d_tables d') = Some tnew /\ length (et_rows tnew) = 2 /\
    nth_error (et_rows tnew) 0 = Some [(sId, v1); (sV, VNull); (sA, v1)].
Proof. eexists. eexists. eexists. vm_compute. repeat split. Qed.

(** 2 / 3: a rebuilt parent with an effective pragma keeps its cascade child *)
Example C05_others_untouched_nonvacuous :
  exists p d', wf_changes w3_cs /\ pragma_effective (w3_db true false) /\ ~ In sC (flat_map touched w3_cs) /\
    PlanChanges w3_cs = POk p /\ exec_all conv0 genv0 (w3_db true false) p = EOk d' /\
    find_et sC (d_tables d') = Some w3_c /\ existsb is_drop p = true.
Proof.
  destruct w3_child_kept_when_effective as [p [d' [A [B [C _]]]]].
  destruct w3_child_rows_lost as [_ [_ [_ [W [N _]]]]].
  exists p, d'. repeat split; try assumption. right; reflexivity.
  vm_compute in A. inversion A; subst p. reflexivity.
Qed.

(** 5: a pairing with a skipped generated column, an added column and an IFNULL *)
Example C05_copy_pairing_nonvacuous :
  copyRows w2_t (mkTdef sZ [mkRcol sB tyInt false DNone VNull true true false false;
                            col sId tyInt true; col sA tyInt false; col_d sV tyText true vd] [] [])
           [AddColumn (col sA tyInt false); ModifyColumn sV ChangeNull]
  = POk [SCopyRows sZ [sId; sV] [ECol sId; EIfNull sV vd] sT].
Proof. vm_compute. reflexivity. Qed.

(** 6: an instance of the shared planner with an IFNULL and an added column *)
Example C05_shared_planner_nonvacuous :
  PlanModel.copy_cols
    [mkColumn sId 2 tyInt false None None None;
     mkColumn sV 3 tyText false (Some (DLit [100%N])) None None;
     mkColumn sA 2 tyInt true None None None]
    [DiffModel.ModifyColumn sV 16; DiffModel.AddColumn sA]
  = Some [(sId, PlanModel.XCol sId); (sV, PlanModel.XIfNull sV [39; 100; 39]%N)].
Proof. vm_compute. reflexivity. Qed.

(** 7: a plan that is refused at its INSERT (a NULL in a column that becomes NOT NULL without a
    default): the run stops there, the table still holds its two rows *)
Definition w5_cs : list schange :=
  [ModifyTable (mkTdef sT [col sId tyInt true; col sV tyText true] [] []) [ModifyColumn sV ChangeNull]].
Example C05_no_prefix_loses_rows_nonvacuous :
  exists p d' told,
    wf_changes w5_cs /\ pragma_effective w2_db /\ NoDup (names w2_db) /\
    PlanChanges w5_cs = POk p /\ RowsModel.run conv0 genv0 w2_db p = (d', Some ENotNull) /\
    exec_all conv0 genv0 w2_db (firstn 2 p) = EOk d' /\
    find_et sT (d_tables d') = Some told /\ find_et sT (d_tables w2_db) = Some told /\
    length (et_rows told) = 2 /\
    (* and one statement further in the plan of 1b (w2): between DROP and RENAME the rows are in new_t *)
    exists p2 d2 tn, PlanChanges w2_cs = POk p2 /\ exec_all conv0 genv0 w2_db (firstn 4 p2) = EOk d2 /\
      find_et sT (d_tables d2) = None /\ find_et (new_prefix ++ sT) (d_tables d2) = Some tn /\
      length (et_rows tn) = 2.
Proof.
  eexists. eexists. eexists.
  split; [unfold wf_changes; vm_compute; repeat constructor; simpl; intuition discriminate|].
  split; [left; reflexivity|].
  split; [vm_compute; repeat constructor; simpl; intuition discriminate|].
  split; [vm_compute; reflexivity|]. split; [vm_compute; reflexivity|].
  split; [vm_compute; reflexivity|]. split; [vm_compute; reflexivity|].
  split; [vm_compute; reflexivity|]. split; [reflexivity|].
  eexists. eexists. eexists. split; [vm_compute; reflexivity|]. split; [vm_compute; reflexivity|].
  split; [vm_compute; reflexivity|]. split; [vm_compute; reflexivity|]. reflexivity.
Qed.

(** 8: the cascade scenario of 2' through `schema apply --tx-mode file` with _fk=1: OpenTx makes the
    bracket unnecessary, the child keeps its rows and the connection has foreign_keys on again *)
Example C05_schema_apply_nonvacuous :
  exists d', schema_apply conv0 genv0 TxFile (w3_db true false) w3_cs = Some (d', None) /\
    d_fk d' = true /\ d_intx d' = false /\ find_et sC (d_tables d') = Some w3_c /\
    NoDup (names (w3_db true false)) /\
    (* and a refused plan in file mode: nothing changes *)
    schema_apply conv0 genv0 TxFile w2_db w5_cs = Some (w2_db, Some ENotNull).
Proof.
  eexists. split; [vm_compute; reflexivity|]. split; [reflexivity|]. split; [reflexivity|].
  split; [vm_compute; reflexivity|].
  split; [vm_compute; repeat constructor; simpl; intuition discriminate|]. vm_compute. reflexivity.
Qed.

(** 2' again, on the rebuilt table itself: a self-referencing table (up -> id ON DELETE CASCADE)
    rebuilt while enforcement is effective loses the rows that reference other rows -- new_t's
    foreign key names t, so DROP TABLE t cascades into new_t (seen on the real engine in the
    rawtx runs of stage exhaust); with the pragma effective all rows survive. *)
Definition w6_t : etable :=
  mkEtable sT [col sId tyInt true; col sPid tyInt false] [mkRfk [sPid] sT [sId] ACascade]
    [[(sId, v1); (sPid, VNull)]; [(sId, v2); (sPid, v1)]].
Definition w6_cs : list schange :=
  [ModifyTable (mkTdef sT [col sId tyInt true; col sPid tyInt false] [mkRfk [sPid] sT [sId] ACascade] []) [OtherChange 0]].
Example C05_self_reference_needs_pragma :
  (exists d' t', schema_apply conv0 genv0 TxNone (mkDb [w6_t] true false) w6_cs = Some (d', None) /\
                 find_et sT (d_tables d') = Some t' /\ length (et_rows t') = 2) /\
  (exists d' t', ApplyChanges conv0 genv0 (mkDb [w6_t] true true) w6_cs = Some (EOk d') /\
                 find_et sT (d_tables d') = Some t' /\ length (et_rows t') = 1).
Proof. split; eexists; eexists; vm_compute; repeat split. Qed.

(** ** round 2 instances *)
Definition sG : str := [103]%N.   (* g *)
Definition gcol (n ty : str) (stored : bool) : rcol := mkRcol n ty false DNone VNull true stored false false.

(** 9 / 10: a VIRTUAL generated column g (shown values 'x', NULL) becomes a regular nullable column,
    the only change of the table: the table is rebuilt and g holds what it showed; the reverse
    change (regular -> STORED) leaves g out of the INSERT *)
Definition w7_db : db :=
  mkDb [mkEtable sT [col sId tyInt true; gcol sG tyText false] []
          [[(sId, v1); (sG, vx)]; [(sId, v2); (sG, VNull)]]] true false.
Definition w7_cs : list schange :=
  [ModifyTable (mkTdef sT [col sId tyInt true; col sG tyText false] [] []) [ModifyColumn sG ChangeGenerated]].
Example C05_generated_to_regular_nonvacuous :
  exists d' tnew,
    schema_apply conv0 genv0 TxFile w7_db w7_cs = Some (d', None) /\
    alterable [ModifyColumn sG ChangeGenerated] = false /\
    find_et sT (d_tables d') = Some tnew /\
    et_rows tnew = [[(sId, v1); (sG, vx)]; [(sId, v2); (sG, VNull)]] /\
    map rc_gen (et_cols tnew) = [false; false] /\
    copyRows (mkTdef sT [] [] []) (mkTdef sZ [col sId tyInt true; gcol sG tyText true] [] [])
             [ModifyColumn sG ChangeGenerated] = POk [SCopyRows sZ [sId] [ECol sId] sT].
Proof. eexists. eexists. vm_compute. repeat split. Qed.

(** 11: v is nullable with DEFAULT 'd' already and becomes NOT NULL -- only ChangeNull (16); and
    nullability together with the type (ChangeNull|ChangeType = 48): the plan goes through, the NULL
    holds the default *)
Definition w8_db : db :=
  mkDb [mkEtable sT [col sId tyInt true; col_d sV tyText false vd] []
          [[(sId, v1); (sV, VNull)]; [(sId, v2); (sV, vx)]]] true false.
Definition w8_cs (k : N) (ty : str) : list schange :=
  [ModifyTable (mkTdef sT [col sId tyInt true; col_d sV ty true vd] [] []) [ModifyColumn sV k]].
Example C05_notnull_default_nonvacuous :
  (exists d' tnew, schema_apply conv0 genv0 TxFile w8_db (w8_cs ChangeNull tyText) = Some (d', None) /\
     find_et sT (d_tables d') = Some tnew /\
     et_rows tnew = [[(sId, v1); (sV, vd)]; [(sId, v2); (sV, vx)]]) /\
  (exists d' tnew, schema_apply conv0 genv0 TxNone w8_db (w8_cs (N.lor ChangeNull ChangeType) tyInt) = Some (d', None) /\
     find_et sT (d_tables d') = Some tnew /\
     et_rows tnew = [[(sId, v1); (sV, vd)]; [(sId, v2); (sV, vx)]]) /\
  N.testbit ChangeNull 4 = true /\ N.testbit (N.lor ChangeNull ChangeType) 4 = true /\ N.testbit ChangeDefault 6 = true.
Proof. split; [|split]; [eexists; eexists; vm_compute; repeat split ..|repeat split]. Qed.

(** 12 / 13: the cascade scenario of 2' with _fk=1 through --tx-mode file: the fault-free run and the
    run whose restoring pragma fails keep the child's two rows, a fault at the pragma that switches
    enforcement off (or anywhere up to COMMIT) changes nothing at all *)
Example C05_faults_nonvacuous :
  (exists d', schema_apply_f conv0 genv0 TxFile FNone (w3_db true false) w3_cs = Some (d', None) /\
              find_et sC (d_tables d') = Some w3_c) /\
  schema_apply_f conv0 genv0 TxFile FSetFKOff (w3_db true false) w3_cs = Some (w3_db true false, Some ELocked) /\
  (forall f, In f [FQueryFK; FBegin; FCheckBefore; FStmt 0; FStmt 3; FStmt 5; FCheckAfter; FCommit] ->
     exists d', schema_apply_f conv0 genv0 TxFile f (w3_db true false) w3_cs = Some (d', Some ELocked) /\
                d_tables d' = [w3_p; w3_c]) /\
  (exists d', schema_apply_f conv0 genv0 TxFile FRestoreFK (w3_db true false) w3_cs = Some (d', Some ELocked) /\
              find_et sC (d_tables d') = Some w3_c /\ d_fk d' = false).
Proof.
  split; [eexists; vm_compute; split; reflexivity|]. split; [vm_compute; reflexivity|]. split.
  - intros f Hf. simpl in Hf.
    repeat (destruct Hf as [<-|Hf]; [eexists; vm_compute; split; reflexivity|]). contradiction.
  - eexists. vm_compute. repeat split.
Qed.

(** 15: a STRICT, WITHOUT ROWID table is rebuilt as one *)
Example C05_rebuild_keeps_options_nonvacuous :
  PlanChanges [ModifyTable (mkTdefO sT [col sId tyInt true] [] [] true true) [OtherChange 0]]
  = POk [SPragmaFK false; SCreateTable (mkTdefO (new_prefix ++ sT) [col sId tyInt true] [] [] true true);
         SCopyRows (new_prefix ++ sT) [sId] [ECol sId] sT; SDropTable sT; SRenameTable (new_prefix ++ sT) sT;
         SPragmaFK true] /\
  table_options (mkTdefO sT [] [] [] true true) = [OWithoutRowid; OStrict].
Proof. split; reflexivity. Qed.

(** * Round 5: C05 on the shared planner and engine (the models of C01), with rowids and sqlite_sequence

    [PM] = Sqlite/PlanModel.v (planner of sql/sqlite/migrate.go over the schema graph, tied by C01 to the SQL text),
    [EM] = Sqlite/EngineModel.v (abstract SQLite with rowids), [SM] = Sqlite/SeqModel.v (sqlite_sequence on top of it).
    Tie: stage [rowid] (real go-sqlite3 vs [SM.exec_seq_count] on [PM.PlanChanges]: rows with their rowids,
    sqlite_sequence). *)
From Coq Require Import ZArith.
From Atlas Require Sqlite.EngineModel Sqlite.SeqModel Sqlite.RowsEngine Sqlite.RowsEngineWitness Sqlite.PlanProofs Diff.DiffSqlite.
Module PM := Atlas.Sqlite.PlanModel.
Module EM := Atlas.Sqlite.EngineModel.
Module SM := Atlas.Sqlite.SeqModel.
Module RE := Atlas.Sqlite.RowsEngine.
Module RW := Atlas.Sqlite.RowsEngineWitness.
Module DM := Atlas.Diff.DiffModel.

(** 17. "Tables that are not part of the change set are untouched", for every plan [PM.PlanChanges] computes
    (any change list, any two schemas) run by [EM.exec_all] on any database: a table that is not named by the
    change list (and is not the temporary [new_<t>] of a modified [t]) has the same columns and the same rows --
    rowids included -- afterwards, provided the PRAGMA of the bracket is effective (no transaction open) or
    enforcement is off already (what sqlite.OpenTx arranges). *)
Theorem C05_engine_others_untouched :
  forall (from to : PM.xschema) (cs : list DM.schange) (p : PM.plan) (d d' : EM.db) (n : str),
    PM.PlanChanges from to cs = Some p ->
    (EM.db_tx d = false \/ EM.db_fk d = false) ->
    EM.exec_all d (PM.plan_stmts p) = EM.Ok d' ->
    ~ In n (SM.touched_names cs) ->
    SM.content n d' = SM.content n d.
Proof. exact RE.engine_others_untouched. Qed.
Print Assumptions C05_engine_others_untouched.

(** 18. The rebuild of a table ([PM.modifyTable], copy path) on the shared engine, for every old/new definition,
    every change list, every database and sqlite_sequence: when the segment executes (enforcement off), the
    table exists under its name with the desired columns and
      - no INSERT was planned (no paired column): it is empty (the known finding, 1a);
      - otherwise its rows are, in scan order and one for one, the old rows carried over ([RE.row_carried]: a
        paired column holds what its source expression -- the old column, or IFNULL(old, DEFAULT) -- yields, any
        other stored column its default); without a rowid alias they are renumbered 1..k, with an INTEGER
        PRIMARY KEY the rowid is the integer stored in it; for an AUTOINCREMENT table the sqlite_sequence
        entry afterwards is max(stale entry of new_<t> or 0, largest rowid copied).
    Premise [NoDup] of the column names: CREATE TABLE refuses anything else. *)
Theorem C05_engine_rebuild_rows :
  forall (from : table) (tox : PM.xtable) (cs : list DM.change) (r : list PM.pchange) (sk : bool)
         (d : EM.db) (s : SM.seqtab) (d' : EM.db) (s' : SM.seqtab),
    PM.alterable (PM.x_t tox) cs = false ->
    PM.modifyTable from tox cs = Some (r, sk) ->
    EM.db_fk d = false ->
    NoDup (map c_name (t_cols (PM.x_t tox))) ->
    SM.exec_seq_all (d, s) (map PM.pc_cmd r) = EM.Ok (d', s') ->
    exists prs cold tnew rows',
      PM.copy_cols (t_cols (PM.x_t tox)) cs = Some prs /\
      EM.find_ct (PM.x_name tox) (EM.db_tables d) = Some cold /\
      RE.rebuilt_def tox tnew /\
      SM.content (PM.x_name tox) d' = Some (t_cols (PM.x_t tox), rows') /\
      (prs = [] -> rows' = []) /\
      (prs <> [] ->
         Forall2 (RE.row_carried (t_cols (PM.x_t tox)) prs) (EM.ct_rows cold) rows' /\
         (EM.rowid_alias tnew = None -> map fst rows' = SM.fresh_rowids (length (EM.ct_rows cold))) /\
         (forall c, EM.rowid_alias tnew = Some c ->
            Forall (fun r' => forall z, EM.row_get r' c = EM.VInt z -> fst r' = z) rows') /\
         (PM.x_autoinc tox <> [] ->
            SM.seq_get (PM.x_name tox) s' =
              Some (Z.max (match SM.seq_get (PM.NEW_ ++ PM.x_name tox) s with Some z => z | None => 0%Z end)
                          (EM.max_rowid rows')))).
Proof. exact RE.engine_rebuild_rows. Qed.
Print Assumptions C05_engine_rebuild_rows.

(** 19. The pairing of the shared planner: every pair of [PM.copy_cols] names a stored column of the new table
    and reads the old column of the same name, as it is or through IFNULL with that column's DEFAULT text (only
    when the new column is NOT NULL); no column is named twice. *)
Theorem C05_engine_copy_pairing :
  forall (cols : list column) (cs : list DM.change) (prs : list (str * PM.sexpr)),
    PM.copy_cols cols cs = Some prs ->
    (forall c e, In (c, e) prs ->
       exists col, In col cols /\ c_gen col = None /\ c_name col = c /\
         (e = PM.XCol c \/ exists x, e = PM.XIfNull c x /\ PM.defaultValue col = Some x /\ c_null col = false)) /\
    (NoDup (map c_name cols) -> NoDup (map fst prs)).
Proof. exact RE.copy_cols_spec. Qed.
Print Assumptions C05_engine_copy_pairing.

(** 20. FULL STATEMENT "a rebuilt table keeps the rowid of every row" is false when the table has no INTEGER
    PRIMARY KEY: INSERT ... SELECT numbers the copied rows 1..k (rowids 1, 3 become 1, 2).  Reproduced on the real
    engine (stage rowid, class rowid-renumbered: counted, not a violation -- the rowid is not a column of the
    desired schema and no foreign key can reference it).  What holds is in 18: order kept, renumbered 1..k. *)
Theorem C05_rowid_kept_refuted :
  exists (to : table) tc ex src, EM.rowid_alias to = None /\
    map fst src = [1%Z; 3%Z] /\ map fst (EM.insert_rows to tc ex src []) = [1%Z; 2%Z].
Proof. exact RW.rowid_refuted. Qed.
Print Assumptions C05_rowid_kept_refuted.

(** 21. FULL STATEMENT "the rebuild leaves the AUTOINCREMENT counter of the table as it was" is false: the entry of
    sqlite_sequence is dropped with the old table and the renamed entry of new_<t> holds the largest rowid
    *copied* (18): 4 -> 2 when rows 3 and 4 had been deleted, so ids 3 and 4 are handed out again.  Reproduced on
    the real engine and through the CLI (known finding C05-autoincrement-counter-reset). *)
Theorem C05_sequence_kept_refuted :
  exists from tox cs r d s d' s',
    PM.modifyTable from tox cs = Some (r, true) /\ EM.db_fk d = false /\ PM.x_autoinc tox <> [] /\
    SM.exec_seq_all (d, s) (map PM.pc_cmd r) = EM.Ok (d', s') /\
    SM.seq_get (PM.x_name tox) s = Some 4%Z /\ SM.seq_get (PM.x_name tox) s' = Some 2%Z.
Proof. exact RW.sequence_refuted. Qed.
Print Assumptions C05_sequence_kept_refuted.

(** 22. The declared type of a column the change set does not modify (coordinator's scenario class, round 5): the
    rebuilt table declares every column exactly as the desired table does -- the whole [column] record: name, type
    text, class, nullability, default, generation -- so a column for which the differ reports no type change
    ([sqlite_type_changed cf col = Some false], diff.typeChanged) is re-created with the *inspected type text* when
    that text is outside the catalogue of sqlite.ParseType (UserDefinedType: STRING, MONEY, Point3D, ...), and with a
    type of the same Go class (for the catalogue: the same affinity) otherwise.  Tie: the `create` observation line of
    every engine stage carries name:type of every column of the CREATE TABLE the Go planner printed; oracle class
    `untouched-type-rewritten` (stage exhaust, base 4: 16 type texts x 9 values). *)
Theorem C05_untouched_type_text_kept :
  forall (from : table) (tox : PM.xtable) (cs : list DM.change) (r : list PM.pchange) (sk : bool)
         (d : EM.db) (s : SM.seqtab) (d' : EM.db) (s' : SM.seqtab) (cf col : column),
    PM.alterable (PM.x_t tox) cs = false ->
    PM.modifyTable from tox cs = Some (r, sk) ->
    EM.db_fk d = false ->
    SM.exec_seq_all (d, s) (map PM.pc_cmd r) = EM.Ok (d', s') ->
    In col (t_cols (PM.x_t tox)) ->
    Atlas.Diff.DiffSqlite.sqlite_type_changed cf col = Some false ->
    exists rows', SM.content (PM.x_name tox) d' = Some (t_cols (PM.x_t tox), rows') /\
      c_class col = c_class cf /\ (c_class cf = Atlas.Diff.DiffSqlite.UDT_CLASS -> c_T col = c_T cf).
Proof. exact RE.engine_untouched_type_text_kept. Qed.
Print Assumptions C05_untouched_type_text_kept.

(** 23. The bracket is a fact about [PM.PlanChanges] for ALL schemas and ALL change lists (no premise on the change
    set, none on the desired schema's foreign keys): a plan that contains a DROP TABLE -- every DropTable change and
    every rebuild does ([C05_engine_rebuild_has_drop]) -- is [PRAGMA foreign_keys = off :: mid ++ [PRAGMA foreign_keys =
    on]] with no pragma in [mid].  So the premise of 17 that is about the *plan* is discharged here; what remains in 17
    is about the *connection* (no transaction open, or enforcement off already), which C05_schema_apply discharges
    for both --tx-mode's. *)
Theorem C05_engine_bracket_every_drop :
  forall (from to : PM.xschema) (cs : list DM.schange) (p : PM.plan),
    PM.PlanChanges from to cs = Some p ->
    existsb Atlas.Sqlite.PlanProofs.is_drop_table (PM.plan_stmts p) = true ->
    exists mid, PM.plan_stmts p = PM.SPragmaFK false :: mid ++ [PM.SPragmaFK true] /\
                forallb (fun s => negb (Atlas.Sqlite.PlanProofs.is_pragma s)) mid = true.
Proof. exact RE.engine_bracket. Qed.
Print Assumptions C05_engine_bracket_every_drop.

Theorem C05_engine_rebuild_has_drop :
  forall (from : table) (tox : PM.xtable) (cs : list DM.change) (r : list PM.pchange) (sk : bool),
    PM.alterable (PM.x_t tox) cs = false -> PM.modifyTable from tox cs = Some (r, sk) ->
    sk = true /\ In (PM.SDropTable (PM.x_name tox)) (map PM.pc_cmd r).
Proof. exact RE.rebuild_has_drop. Qed.
Print Assumptions C05_engine_rebuild_has_drop.

(** non-vacuity of 17-19: t(id INTEGER PRIMARY KEY AUTOINCREMENT, v text) and p(a text, v text), both with
    [v] becoming NOT NULL DEFAULT 'q': the plan exists and runs; NULL -> 'q'; t keeps rowids 1, 2 (alias), p is
    renumbered 1, 3 -> 1, 2; the counter of t drops from 4 to 2 *)
Example C05_engine_nonvacuous :
  RW.w_after = Some (Some [(1%Z, [(RW.nId, EM.VInt 1); (RW.nV, RW.vt 97)]); (2%Z, [(RW.nId, EM.VInt 2); (RW.nV, RW.vt 113)])],
                     Some [(1%Z, [(RW.nA, RW.vt 120); (RW.nV, RW.vt 49)]); (2%Z, [(RW.nA, RW.vt 122); (RW.nV, RW.vt 113)])],
                     Some 2%Z) /\
  (exists r, RW.w_seg = Some (r, true) /\ PM.alterable (PM.x_t RW.t_new) RW.t_sub = false /\
     exists d' s', SM.exec_seq_all (RW.w_db, RW.w_seq) (map PM.pc_cmd r) = EM.Ok (d', s') /\ SM.seq_get RW.nT s' = Some 2%Z) /\
  ~ In RW.nA (SM.touched_names RW.w_cs) /\
  (* 22: the untouched column id of t: same class, no type change reported *)
  Atlas.Diff.DiffSqlite.sqlite_type_changed RW.cId RW.cId = Some false /\
  (* 23: the plan of the two rebuilds contains a DROP TABLE *)
  (exists p, RW.w_plan = Some p /\ existsb Atlas.Sqlite.PlanProofs.is_drop_table (PM.plan_stmts p) = true).
Proof.
  split; [exact RW.w_after_eq|]. split; [exact RW.w_seg_ok|].
  split; [|split; [vm_compute; reflexivity|eexists; split; vm_compute; reflexivity]].
  vm_compute. intros H. repeat (destruct H as [H|H]; [discriminate|]). exact H.
Qed.

(** 24. Views and triggers (round 5, goal 3; Sqlite/ViewModel.v: a view / trigger is the set of table names its text
    mentions, a trigger also the table it is ON; ALTER TABLE RENAME re-parses them all and is refused when one
    mentions a missing table; DROP TABLE drops the triggers ON it): a table whose name a view or the body of a trigger
    on *another* table mentions can never be rebuilt -- for every definition, change list and database (the name
    used once), the copy path never runs to its end: the RENAME finds the view dangling.  So such a run is always a
    proper prefix of the plan: `--tx-mode file` rolls back (C05_schema_apply), `--tx-mode none` leaves the state of
    C05_no_prefix_loses_rows (the rows are in new_<t>; stage rowid counts partial-state-rows-under-temp-name).  A
    trigger ON the rebuilt table does not block it (it is dropped with the table and silently gone afterwards). *)
From Atlas Require Sqlite.ViewModel Sqlite.ViewProofs.
Module VM := Atlas.Sqlite.ViewModel.
Module VP := Atlas.Sqlite.ViewProofs.
Theorem C05_view_blocks_rebuild :
  forall (from : table) (tox : PM.xtable) (cs : list DM.change) (r : list PM.pchange) (sk : bool)
         (d : EM.db) (ds : list VM.dep) (dp : VM.dep),
    PM.alterable (PM.x_t tox) cs = false ->
    PM.modifyTable from tox cs = Some (r, sk) ->
    EM.db_fk d = false ->
    VP.cnt (PM.x_name tox) (EM.db_tables d) <= 1 ->
    In dp ds -> In (PM.x_name tox) (VM.dep_reads dp) -> VM.dep_on dp <> Some (PM.x_name tox) ->
    forall res, VM.exec_v_all (d, ds) (map PM.pc_cmd r) <> VM.VOk res.
Proof. exact VP.view_blocks_rebuild. Qed.
Print Assumptions C05_view_blocks_rebuild.

Example C05_view_blocks_rebuild_nonvacuous :
  exists r, RW.w_seg = Some (r, true) /\
    (let '(dv, k, e) := VM.exec_v_count (RW.w_db, [VP.w_dep]) (map PM.pc_cmd r) 0 in
     k = 3 /\ e = Some VM.VDangling /\ SM.rows_of RW.nT (fst dv) = None /\
     SM.rows_of (PM.NEW_ ++ RW.nT) (fst dv) =
       Some [(1%Z, [(RW.nId, EM.VInt 1); (RW.nV, RW.vt 97)]); (2%Z, [(RW.nId, EM.VInt 2); (RW.nV, RW.vt 113)])]) /\
    VP.cnt RW.nT (EM.db_tables RW.w_db) <= 1.
Proof. exact VP.w_view_run. Qed.

(** 25. RowsModel ~ EngineModel on the row component (round 5, goal 1).  The two abstract engines have different value
    domains; under any rendering [tok] of the shared engine's non-NULL values, [RF.absv] maps them to RowsModel's
    (NULL | token).  The cell INSERT ... SELECT computes for a stored column is the same in both: RowsModel.col_value
    (identity conversion) on the abstracted old row, with the abstracted pairing, is the abstraction of the cell
    [EM.new_row] stores -- for every table, row, pairing (positional in RowsModel, first match of the zipped lists in
    EngineModel), provided the source columns exist (what INSERT checks) and the default of the RowsModel column is the
    abstraction of the engine's.  Not covered: generated columns (RowsModel materialises them, EngineModel stores
    stored columns only), affinity conversion ([conv] is the identity here), the catalogue side. *)
From Atlas Require Sqlite.RowsRefine.
Module RF := Atlas.Sqlite.RowsRefine.
Theorem C05_rows_engine_refinement :
  forall (tok : EM.value -> str) (old : etable) (to : table) (r : EM.row) (nx : Z) (rc : rcol) (col : column)
         (tc : list str) (ex : list PM.sexpr),
    NoDup (map c_name (t_cols to)) -> In col (t_cols to) -> c_gen col = None ->
    length tc = length ex ->
    rc_name rc = c_name col ->
    rc_defval rc = RF.absv tok (EM.default_of col) ->
    (forall e, In e ex -> exists c0 p0, find_rcol (EM.sexpr_col e) (et_cols old) = Some c0 /\
                                        find (fun p => str_eqb (fst p) (EM.sexpr_col e)) (snd r) = Some p0) ->
    col_value RF.idconv old (RF.absrow tok r) rc tc (map (RF.abs_expr tok) ex) =
      EOk (RF.absv tok (EM.row_get (EM.new_row to tc ex r nx) (c_name col))).
Proof. exact RF.new_row_refines. Qed.
Print Assumptions C05_rows_engine_refinement.

Example C05_rows_engine_refinement_nonvacuous :
  let tok := fun v : EM.value => match v with EM.VText b => b | _ => [] end in
  let old := mkEtable RW.nT [mkRcol RW.nV RW.tyText false DNone VNull false false false false] [] [] in
  let col := RW.cV false (Some (DLit RW.dq)) in
  col_value RF.idconv old (RF.absrow tok (1%Z, [(RW.nV, EM.VNull)]))
            (mkRcol RW.nV RW.tyText true (DLiteral false) (RF.absv tok (EM.default_of col)) false false false false)
            [RW.nV] (map (RF.abs_expr tok) [PM.XIfNull RW.nV [39;113;39]%N])
  = EOk (VVal RW.dq) /\
  EM.row_get (EM.new_row (PM.x_t RW.t_new) [RW.nV] [PM.XIfNull RW.nV [39;113;39]%N] (1%Z, [(RW.nV, EM.VNull)]) 5%Z) RW.nV = EM.VText RW.dq.
Proof. split; vm_compute; reflexivity. Qed.
