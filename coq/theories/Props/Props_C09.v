(** C09 -- executor runs each statement in order, once, and resumes after any
    failure.

    Model: M-EXEC ([execute], [exec_files]: Executor.Execute / exec with the three
    write points and the deferred final write) under M-PEND + [execute_n]
    (Executor.Pending / ExecuteN, revisions listed by version as the CLI's reader
    does). Every [ExecContext] and [WriteRevision] call pops one boolean of an
    arbitrary fault stream. The journal is the list of successful Exec events.

    Setting of the history theorems (section [Hist]): one directory [full] whose
    files are strictly sorted by version (checkpoint files allowed: the files to
    run are [all] = the directory from its last checkpoint file on, the earlier
    files are never run); every run uses that directory, no baseline version, and
    is allowed to start
    ([cfg_ok]: the database is clean or --allow-dirty); any execution order, any
    count argument [n], any fault stream per run; the first run starts from the
    empty revision table. [hash_eqb] decides equality of hashes; nothing is
    assumed of the hash function [HS].

    [plan all] = the statements of all files in version order, file order.
    [expand p reps] = element i of p repeated 1 + reps[i] times in a row.
    [wf es] = number of failed bookkeeping writes that directly follow a
    successful statement in the events [es] of one run. *)
From Coq Require Import List NArith Bool Arith.
From Atlas Require Import Base.Bytes Base.Stutter Exec.ExecModel Exec.ExecProofs Exec.StepProofs
  Exec.PendingModel Exec.PendingProofs Exec.RunModel Exec.TxModel Exec.TxProofs Exec.RunProofs
  Exec.ReuseModel Exec.ReuseProofs Exec.StoreModel Exec.StoreTxModel Exec.StoreTxProofs Exec.StoreTxDirProofs Exec.StoreTxAllProofs Exec.StoreTxCompleteProofs Exec.StoreTxOnceProofs Exec.StoreTxCompleteAllProofs.
Import ListNotations.

(** The first failing file ends the run: nothing of the later files is touched. *)
Theorem C09_stop_at_first_failing_file :
  forall (hash : Type) (heq : hash -> hash -> bool) (HS : bytes -> hash)
         (f : file) (rest : list file) (t : list (rev hash)) (fs : list bool) o t1 fs1 es,
  execute hash heq HS f t fs = (o, t1, fs1, es) -> o <> ODone ->
  exec_files hash heq HS (f :: rest) t fs = (o, t1, fs1, es).
Proof.
  intros hash heq HS f rest t fs o t1 fs1 es Hex Hne. simpl. rewrite Hex.
  destruct o; try reflexivity. contradiction.
Qed.
Print Assumptions C09_stop_at_first_failing_file.

Section Hist.
Variable hash : Type.
Variable heq : hash -> hash -> bool.
Variable HS : bytes -> hash.
Hypothesis heq_spec : forall a b, heq a b = true <-> a = b.

(** 2. Stop on fault, for one whole ExecuteN (any configuration, directory and
    table): after the first failing call nothing is executed any more -- the
    only event that may follow is the deferred bookkeeping write after a failed
    statement. *)
Theorem C09_stop_on_fault :
  forall c n all (t : list (rev hash)) fs ro t' fs' es,
  execute_n hash heq HS c n all t fs = (ro, t', fs', es) ->
  forall es1 e es2, es = es1 ++ e :: es2 -> ev_ok e = false ->
    after_fail e es2 /\ exec_events es2 = [].
Proof. exact (execute_n_stops hash heq HS). Qed.

Variable full : list file.
Hypothesis full_sorted : sorted_files full.
Notation all := (from_last_ckpt full).

(** 1. Never overclaims. Cut the events of any sequence of runs at any point
    (inside a run, between two calls): the journal so far is the plan up to a
    position [E] (with repeats), the revision table built from the successful
    writes so far claims exactly the plan up to a position [P], and
    [P <= E <= P + 1]; every stored revision belongs to a file of the directory,
    claims at most its statement count and records the cumulative hashes of
    exactly the claimed statements ([claim_ok]; none once complete). *)
Theorem C09_never_overclaims :
  forall rs : list run, Forall (run_on full) rs ->
  forall pre post, all_events hash (run_all hash heq HS rs []) = pre ++ post ->
  exists P E reps,
    P <= E /\ E <= P + 1 /\ E <= length (plan all) /\ length reps = E /\
    journal pre = expand (firstn E (plan all)) reps /\
    claimed_plan hash all (tbl_of_events hash pre []) = firstn P (plan all) /\
    (forall r, In r (tbl_of_events hash pre []) ->
       exists f, In f all /\ claim_ok hash HS f r (r_applied r) /\ r_total r = length (f_stmts f)).
Proof. exact (never_overclaims_full hash heq HS heq_spec full full_sorted). Qed.

(** 3. Resume. For ANY sequence of runs, each with its own fault stream and
    count: the concatenated journal is the plan up to some position [E], in
    order, nothing skipped, where statement i is executed 1 + reps[i] times in a
    row and the total number of repeats is at most the number of failed
    bookkeeping writes that directly followed a statement; the final table
    claims the plan up to [P] with [P <= E <= P + 1]. *)
Theorem C09_resume :
  forall rs : list run, Forall (run_on full) rs ->
  let outs := run_all hash heq HS rs [] in
  exists P E reps,
    P <= E /\ E <= P + 1 /\ E <= length (plan all) /\ length reps = E /\
    journal (all_events hash outs) = expand (firstn E (plan all)) reps /\
    list_sum reps <= wf_all hash outs /\
    claimed_plan hash all (final_tbl hash outs []) = firstn P (plan all).
Proof. exact (resume_full hash heq HS heq_spec full full_sorted). Qed.

(** 3b/5. After any such history, one more run without faults and without a
    count completes the migration: every planned statement is in the journal, in
    order (repeats as above); every file's stored revision has
    Applied = Total = its statement count; Pending answers "nothing to do". *)
Theorem C09_complete_marks_done :
  forall (rs : list run) (c : cfg), Forall (run_on full) rs -> cfg_ok c ->
  let outs := run_all hash heq HS (rs ++ [mkRun c 0 full []]) [] in
  let T := final_tbl hash outs [] in
  (exists reps, length reps = length (plan all) /\
                journal (all_events hash outs) = expand (plan all) reps /\
                list_sum reps <= wf_all hash outs) /\
  (forall f, In f all -> exists r, tbl_get T (f_version f) = Some r /\
                                   r_applied r = length (f_stmts f) /\ r_total r = length (f_stmts f)) /\
  (forall c', cfg_ok c' -> pending c' full (read_revisions hash T) = (PNoPending, None)).
Proof. exact (complete_full hash heq HS heq_spec full full_sorted). Qed.

(** 4. Exactly once. If no revision write fails in any run (only statements
    fail, anywhere, any number of times), then after a final fault-free run the
    journal IS the plan: every statement exactly once over all attempts, in
    order. Without the final run the journal is a prefix of the plan. *)
Theorem C09_exactly_once :
  forall (rs : list run) (c : cfg), Forall (run_on full) rs -> cfg_ok c ->
  let outs := run_all hash heq HS (rs ++ [mkRun c 0 full []]) [] in
  (forall out r, In out outs -> ~ In (EWrite r false) (snd out)) ->
  journal (all_events hash outs) = plan all.
Proof. exact (exactly_once_full hash heq HS heq_spec full full_sorted). Qed.

Theorem C09_exactly_once_prefix :
  forall rs : list run, Forall (run_on full) rs ->
  let outs := run_all hash heq HS rs [] in
  (forall out r, In out outs -> ~ In (EWrite r false) (snd out)) ->
  exists E, E <= length (plan all) /\ journal (all_events hash outs) = firstn E (plan all).
Proof. exact (once_prefix_full hash heq HS heq_spec full full_sorted). Qed.

(** ** the same over the STORE CONTRACT (M-STORE-TX, Exec/StoreTxModel.v)

    [m_history] = successive `atlas migrate apply [n] --tx-mode none` runs as the
    CLI performs them: ReadRevisions twice, then per file [driverFor] /
    [ReadRevision] / [Execute] over the Ent store model, where every revisions
    SELECT, every upsert and every statement pops the fault stream (a failing
    SELECT ends the run before anything is written; an upsert overwrites the
    row or, failing, leaves it). The database is [sdb]: the journal of the
    statements whose effect is in it, and the revision table. Directory [full]
    without txmode directives, any count and any fault stream per run.

    3-store. Resume: the DATABASE's journal after any history is the plan up to
    [E] in order, statement i executed [1 + reps[i]] times in a row, the repeats
    bounded by the failed upserts directly after a statement; the stored
    revisions claim the plan up to [P], [P <= E <= P + 1]. *)
Theorem C09_resume_store :
  forall rs : list m_run, Forall (mrun_on full) rs ->
  let outs := m_history hash heq HS rs (mkSdb [] []) in
  exists P E reps,
    P <= E /\ E <= P + 1 /\ E <= length (plan all) /\ length reps = E /\
    s_journal (m_final hash outs (mkSdb [] [])) = expand (firstn E (plan all)) reps /\
    journal (m_events hash outs) = s_journal (m_final hash outs (mkSdb [] [])) /\
    list_sum reps <= m_wf hash outs /\
    claimed_plan hash all (s_tbl (m_final hash outs (mkSdb [] []))) = firstn P (plan all).
Proof. exact (resume_store_full hash heq HS heq_spec full full_sorted). Qed.

(** 1-store. Never overclaims, at any cut of the calls that reached the database. *)
Theorem C09_never_overclaims_store :
  forall rs : list m_run, Forall (mrun_on full) rs ->
  forall pre post, m_events hash (m_history hash heq HS rs (mkSdb [] [])) = pre ++ post ->
  exists P E reps,
    P <= E /\ E <= P + 1 /\ E <= length (plan all) /\ length reps = E /\
    journal pre = expand (firstn E (plan all)) reps /\
    claimed_plan hash all (tbl_of_events hash pre []) = firstn P (plan all) /\
    (forall r, In r (tbl_of_events hash pre []) ->
       exists f, In f all /\ claim_ok hash HS f r (r_applied r) /\ r_total r = length (f_stmts f)).
Proof. exact (never_overclaims_store_full hash heq HS heq_spec full full_sorted). Qed.

End Hist.

Print Assumptions C09_resume_store.
Print Assumptions C09_never_overclaims_store.

(** ** ... and for directories WITH per-file `atlas:txmode` directives, under
    --tx-mode none | file (goal: the run theorems with [mode_for] per file).

    [tfull]: the directory, every file with its directive (none / `none` /
    `file` / an invalid one: then the run stops there with an error); files
    strictly sorted by version, checkpoint files allowed. Every run has its own
    global mode (none or file), count and fault stream. A file whose effective
    mode is `none` runs on the connection (what ran stays); any other file runs
    in its own transaction, committed when Execute succeeds and rolled back
    (statements AND revision writes) when it fails. After ANY such history the
    COMMITTED database satisfies the resume statement: its journal is the plan up
    to [E], in order, statement i executed [1 + reps[i]] times in a row, the
    repeats bounded by the failed upserts directly after a statement; its
    revisions claim the plan up to [P], [P <= E <= P + 1] -- so the next run
    continues at the first statement that is not recorded and never claims more
    than was executed. *)
Theorem C09_resume_store_directives :
  forall (hash : Type) (heq : hash -> hash -> bool) (HS : bytes -> hash),
  (forall a b, heq a b = true <-> a = b) ->
  forall tfull : list tfile, sorted_files (map tf_file tfull) ->
  forall rs : list m_run, Forall (mrun_dir_on tfull) rs ->
  let all := from_last_ckpt (map tf_file tfull) in
  let outs := m_history hash heq HS rs (mkSdb [] []) in
  exists P E reps,
    P <= E /\ E <= P + 1 /\ E <= length (plan all) /\ length reps = E /\
    s_journal (m_final hash outs (mkSdb [] [])) = expand (firstn E (plan all)) reps /\
    list_sum reps <= m_wf hash outs /\
    claimed_plan hash all (s_tbl (m_final hash outs (mkSdb [] []))) = firstn P (plan all).
Proof. exact resume_store_dir_full. Qed.
Print Assumptions C09_resume_store_directives.

(** ... and with ANY --tx-mode per run (none | file | all). Under --tx-mode all
    the chosen files run in ONE transaction ([driverFor] re-uses the open one,
    [mayCommit] does nothing), committed by [mux.commit()] after the loop when
    every file succeeded and discarded otherwise (a file directive other than the
    global mode is an error there). Same conclusion for the committed database
    after any history in which every run picks its own mode, count and faults. *)
Theorem C09_resume_store_any_mode :
  forall (hash : Type) (heq : hash -> hash -> bool) (HS : bytes -> hash),
  (forall a b, heq a b = true <-> a = b) ->
  forall tfull : list tfile, sorted_files (map tf_file tfull) ->
  forall rs : list m_run, Forall (mrun_any_on tfull) rs ->
  let all := from_last_ckpt (map tf_file tfull) in
  let outs := m_history hash heq HS rs (mkSdb [] []) in
  exists P E reps,
    P <= E /\ E <= P + 1 /\ E <= length (plan all) /\ length reps = E /\
    s_journal (m_final hash outs (mkSdb [] [])) = expand (firstn E (plan all)) reps /\
    list_sum reps <= m_wf hash outs /\
    claimed_plan hash all (s_tbl (m_final hash outs (mkSdb [] []))) = firstn P (plan all).
Proof. exact resume_store_any_full. Qed.
Print Assumptions C09_resume_store_any_mode.

(** 3b/5-store. Completion over the store: after ANY such history (any
    --tx-mode, count and fault stream per run; directives), one more run without
    faults and without a count under any --tx-mode whose directives are valid
    for that mode (under --tx-mode all: no directive) completes the migration: the database's journal is the
    WHOLE plan (repeats bounded by the failed upserts directly after a statement),
    every file's stored revision has Applied = Total = its statement count, and
    Pending has nothing to do. *)
Theorem C09_complete_marks_done_store :
  forall (hash : Type) (heq : hash -> hash -> bool) (HS : bytes -> hash),
  (forall a b, heq a b = true <-> a = b) ->
  forall tfull : list tfile, sorted_files (map tf_file tfull) ->
  forall (rs : list m_run) (g : mode), Forall (mrun_any_on tfull) rs ->
  (forall tf, In tf tfull -> mode_for g tf <> None) ->
  let all := from_last_ckpt (map tf_file tfull) in
  let outs := m_history hash heq HS (rs ++ [mkMRun g 0 tfull []]) (mkSdb [] []) in
  let Dn := m_final hash outs (mkSdb [] []) in
  (exists reps, length reps = length (plan all) /\
                s_journal Dn = expand (plan all) reps /\ list_sum reps <= m_wf hash outs) /\
  (forall f, In f all -> exists r, tbl_get (s_tbl Dn) (f_version f) = Some r /\
                                   r_applied r = length (f_stmts f) /\ r_total r = length (f_stmts f)) /\
  (forall c', cfg_ok c' -> pending c' (map tf_file tfull) (read_revisions hash (s_tbl Dn)) = (PNoPending, None)).
Proof. exact complete_store_any_full. Qed.
Print Assumptions C09_complete_marks_done_store.

(** 4-store. Exactly once over the store: if no revisions upsert fails in any
    run (statements and revisions SELECTs may fail anywhere and any number of
    times, transactions may be rolled back, any --tx-mode per run), then after
    the completing run the database's journal IS the plan. *)
Theorem C09_exactly_once_store :
  forall (hash : Type) (heq : hash -> hash -> bool) (HS : bytes -> hash),
  (forall a b, heq a b = true <-> a = b) ->
  forall tfull : list tfile, sorted_files (map tf_file tfull) ->
  forall (rs : list m_run) (g : mode), Forall (mrun_any_on tfull) rs ->
  (forall tf, In tf tfull -> mode_for g tf <> None) ->
  let outs := m_history hash heq HS (rs ++ [mkMRun g 0 tfull []]) (mkSdb [] []) in
  (forall out r, In out outs -> ~ In (EWrite r false) (snd out)) ->
  s_journal (m_final hash outs (mkSdb [] [])) = plan (from_last_ckpt (map tf_file tfull)).
Proof. exact exactly_once_store_any_full. Qed.
Print Assumptions C09_exactly_once_store.
Print Assumptions C09_stop_on_fault.
Print Assumptions C09_never_overclaims.
Print Assumptions C09_resume.
Print Assumptions C09_complete_marks_done.
Print Assumptions C09_exactly_once.
Print Assumptions C09_exactly_once_prefix.

(** ** a reused [Executor] value (M-REUSE, Exec/ReuseModel.v)

    [ExecuteTo] is the one method that assigns the executor's [dir] field (for a
    version before a checkpoint file it runs [e.Pending] over a truncated
    in-memory directory). For EVERY executor (options, directory), version,
    revision table and fault stream -- whatever [ExecuteTo] returns: version not
    found, the inner Pending fails (nothing pending, MissingMigrationError,
    non-linear history, not clean, baseline), a statement or a write fails, or
    success -- the executor it leaves is the executor it found. Hence any session
    of ExecuteN / ExecuteTo / Pending calls on ONE executor value observes, call
    by call (outcome, every ExecContext / WriteRevision event, revision table),
    what the same calls observe when each is made on a new executor over the
    same directory; and the [ExecuteN] after an [ExecuteTo] is the [execute_n]
    of the theorems above on the executor's own directory. *)
Theorem C09_executor_reuse :
  forall (hash : Type) (heq : hash -> hash -> bool) (HS : bytes -> hash) (e : executor),
  (forall v (t : list (rev hash)) fs,
     snd (fst (fst (fst (execute_to hash heq HS e v t fs)))) = e) /\
  (forall ops (t : list (rev hash)),
     session hash heq HS (execute_to hash heq HS) e ops t =
     session_fresh hash heq HS (execute_to hash heq HS) e ops t) /\
  (forall v (t : list (rev hash)) fs n fs2,
     let '(_, e', t', _, _) := execute_to hash heq HS e v t fs in
     execute_n_of hash heq HS e' n t' fs2 = execute_n hash heq HS (e_cfg e) n (e_dir e) t' fs2).
Proof.
  intros hash heq HS e. split; [|split].
  - intros v t fs. apply execute_to_restores.
  - intros ops t. apply session_reuse_fresh.
  - intros v t fs n fs2. apply execute_n_after_execute_to.
Qed.
Print Assumptions C09_executor_reuse.

(** [ExecuteTo(v)] is [ExecuteN] with a count: for a version before a checkpoint
    file it is [ExecuteN(0)] over the directory truncated after [v] (and the
    executor is left as it was); otherwise it is [ExecuteN(i+1)] over the
    executor's directory, [i] = position of [v] among the pending files -- and
    when [v] is not among the pending files no statement is executed. So every
    ExecuteTo call is a [run] of the history theorems above (any count). *)
Theorem C09_execute_to_before_checkpoint :
  forall (hash : Type) (heq : hash -> hash -> bool) (HS : bytes -> hash)
         (e : executor) v (t : list (rev hash)) fs idx,
  files_last_index (version_is v) (e_dir e) = Some idx ->
  existsb f_ckpt (skipn (S idx) (e_dir e)) = true ->
  execute_to hash heq HS e v t fs =
  as_run hash e (execute_n hash heq HS (e_cfg e) 0 (firstn (S idx) (e_dir e)) t fs).
Proof. exact execute_to_before_checkpoint. Qed.
Print Assumptions C09_execute_to_before_checkpoint.

Theorem C09_execute_to_bounded :
  forall (hash : Type) (heq : hash -> hash -> bool) (HS : bytes -> hash)
         (e : executor) v (t : list (rev hash)) fs idx,
  files_last_index (version_is v) (e_dir e) = Some idx ->
  existsb f_ckpt (skipn (S idx) (e_dir e)) = false ->
  match fst (pending_of hash e t) with
  | PFiles files =>
      match files_last_index (version_is v) files with
      | Some i => execute_to hash heq HS e v t fs = as_run hash e (execute_n_of hash heq HS e (S i) t fs)
      | None =>
          let '(o, e', t', _, es) := execute_to hash heq HS e v t fs in
          e' = e /\ exec_events es = [] /\ (o = TNotFound \/ o = TRun (RPend PWriteErr))
      end
  | _ => execute_to hash heq HS e v t fs = as_run hash e (execute_n_of hash heq HS e 0 t fs)
  end.
Proof. exact execute_to_bounded. Qed.
Print Assumptions C09_execute_to_bounded.

(** non-vacuity, and why the restore on the ERROR path matters: directory
    1, 2 (checkpoint), 3 (two statements). ExecuteN(0) on a fresh database runs
    2 and 3; the second statement of 3 fails. ExecuteTo("1") -- a version before
    the checkpoint -- swaps the directory for [1]; the inner Pending fails
    (revision 3 is partial and not in [1]: MissingMigrationError). The next
    ExecuteN(0) resumes file 3 at its second statement. With [execute_to_leaky]
    (the restore moved below `if err != nil { return err }`) the same executor
    keeps the truncated directory and the next ExecuteN fails instead. *)
Definition ru_f1 : file := mkFile [49%N] [[65%N]] false.
Definition ru_f2 : file := mkFile [50%N] [[66%N]] true.
Definition ru_f3 : file := mkFile [51%N] [[67%N]; [68%N]] false.
Definition ru_e : executor := mkExecutor (mkCfg Linear None false false) [ru_f1; ru_f2; ru_f3].
Definition ru_ops : list op :=
  [ OpN 0 [false; false; false; false; false; false; false; true]; OpTo [49%N] []; OpN 0 []; OpPending ].
Definition ru_show (r : op_result bytes) : to_outcome * list (bytes * bytes) :=
  match r with
  | ResRun _ o _ es => (o, journal es)
  | ResPending _ p _ => (TRun (RPend p), [])
  end.

Example C09_executor_reuse_nonvacuous :
  map ru_show (session bytes bytes_eqb (fun b => b) (execute_to bytes bytes_eqb (fun b => b)) ru_e ru_ops []) =
  [ (TRun (RExec OStmtErr), [([50%N], [66%N]); ([51%N], [67%N])]);
    (TRun (RPend (PMissing [51%N])), []);
    (TRun (RExec ODone), [([51%N], [68%N])]);
    (TRun (RPend PNoPending), []) ].
Proof. vm_compute. reflexivity. Qed.

Example C09_executor_reuse_needs_restore :
  let leaky := execute_to_leaky bytes bytes_eqb (fun b => b) in
  map ru_show (session bytes bytes_eqb (fun b => b) leaky ru_e ru_ops []) =
  [ (TRun (RExec OStmtErr), [([50%N], [66%N]); ([51%N], [67%N])]);
    (TRun (RPend (PMissing [51%N])), []);
    (TRun (RPend (PMissing [51%N])), []);          (* the half-applied file is NOT resumed *)
    (TRun (RPend (PMissing [51%N])), []) ] /\
  session bytes bytes_eqb (fun b => b) leaky ru_e ru_ops [] <>
  session_fresh bytes bytes_eqb (fun b => b) leaky ru_e ru_ops [].
Proof. split; [vm_compute; reflexivity|]. vm_compute. intros H. discriminate H. Qed.

Example C09_execute_to_nonvacuous :
  (* "1" lies before the checkpoint file 2: the premises of C09_execute_to_before_checkpoint hold, file 1 runs *)
  files_last_index (version_is [49%N]) (e_dir ru_e) = Some 0 /\
  existsb f_ckpt (skipn 1 (e_dir ru_e)) = true /\
  (let '(o, _, _, _, es) := execute_to bytes bytes_eqb (fun b => b) ru_e [49%N] [] [] in (o, journal es))
    = (TRun (RExec ODone), [([49%N], [65%N])]) /\
  (* "3" is the second pending file of a fresh database (pending = 2, 3): ExecuteN(2) *)
  files_last_index (version_is [51%N]) (e_dir ru_e) = Some 2 /\
  existsb f_ckpt (skipn 3 (e_dir ru_e)) = false /\
  fst (pending_of bytes ru_e []) = PFiles [ru_f2; ru_f3] /\
  (let '(o, _, _, _, es) := execute_to bytes bytes_eqb (fun b => b) ru_e [51%N] [] [] in (o, journal es))
    = (TRun (RExec ODone), [([50%N], [66%N]); ([51%N], [67%N]); ([51%N], [68%N])]).
Proof. vm_compute. repeat split; reflexivity. Qed.

(** ** a history that leaves the linear regime: --exec-order non-linear

    With --exec-order non-linear an out-of-order file that failed midway is not
    the greatest recorded version. Before the repair of
    C11-nonlinear-partial-not-resumed (notes/fixes/C11-nonlinear-partial-not-resumed.diff)
    Pending (M-PEND) inspected only the last revision and answered "nothing to
    do": the resume clause was FALSE there ([C09_resume_nonlinear_refuted], now
    gone). With the repaired Pending the same history resumes the file:
    apply [1;3]; add file 2 (three statements) and apply with non-linear order,
    its second statement fails; apply again without faults.
    The general statement for non-linear histories is C11's
    ([C11_partial_not_last]); the theorems above cover the histories in which the
    reader returns the last executed file last. *)
Definition nl_cfg : cfg := mkCfg NonLinear None true false.
Definition nl_f1 : file := mkFile [49%N] [[65%N]] false.
Definition nl_f2 : file := mkFile [50%N] [[65%N]; [66%N]; [67%N]] false.
Definition nl_f3 : file := mkFile [51%N] [[65%N]] false.
Definition nl_runs : list run :=
  [ mkRun nl_cfg 0 [nl_f1; nl_f3] [];
    mkRun nl_cfg 0 [nl_f1; nl_f2; nl_f3] [false; false; false; true];
    mkRun nl_cfg 0 [nl_f1; nl_f2; nl_f3] [] ].

Example C09_resume_nonlinear_fixed :
  let outs := run_all bytes bytes_eqb (fun b => b) nl_runs [] in
  (* the last, fault-free run resumes file 2 at its second statement ... *)
  last (map (fun x => fst (fst x)) outs) (RPend PNoPending) = RExec ODone /\
  journal (all_events bytes outs) =
    [([49%N], [65%N]); ([51%N], [65%N]); ([50%N], [65%N]); ([50%N], [66%N]); ([50%N], [67%N])] /\
  length (plan [nl_f1; nl_f2; nl_f3]) = 5 /\
  (* ... and its revision is complete afterwards *)
  option_map (fun r => (r_applied r, r_total r))
             (tbl_get (final_tbl bytes outs []) [50%N]) = Some (3, 3).
Proof. vm_compute. repeat split; reflexivity. Qed.

(** ** non-vacuity *)
Definition ex_all : list file :=
  [ mkFile [49%N] [[65%N]; [66%N]] false; mkFile [50%N] [[67%N]; [68%N]] false ].
Definition ex_cfg : cfg := mkCfg Linear None false false.

Example ex_all_ok : sorted_files ex_all /\ (forall f, In f ex_all -> f_ckpt f = false) /\ cfg_ok ex_cfg.
Proof.
  split; [unfold sorted_files, fver_lt; repeat constructor|].
  split; [intros f [<-|[<-|[]]]; reflexivity|split; reflexivity].
Qed.

(** run 1: the write after statement A fails; run 2: statement C fails;
    run 3: clean. A is executed twice (one failed bookkeeping write), nothing else. *)
Definition ex_runs : list run :=
  [ mkRun ex_cfg 0 ex_all [false; false; true];
    mkRun ex_cfg 0 ex_all [false; false; false; false; false; false; false; true];
    mkRun ex_cfg 0 ex_all [] ].

(** the store: run 1: the upsert after statement A fails; run 2: the first
    revisions SELECT fails (nothing happens); run 3: statement C fails; run 4 clean.
    Calls of a run: ReadRevisions x2, then per file ReadRevision, upsert,
    (statement, upsert)*, upsert. *)
Definition st_runs : list m_run :=
  let F := false in let T := true in
  [ mkMRun TxNone 0 (map plain ex_all) [F; F; F; F; F; T];
    mkMRun TxNone 0 (map plain ex_all) [T];
    mkMRun TxNone 0 (map plain ex_all) [F; F; F; F; F; F; F; F; F; F; F; T];
    mkMRun TxNone 0 (map plain ex_all) [] ].

Example C09_resume_store_nonvacuous :
  Forall (mrun_on ex_all) st_runs /\
  let outs := m_history bytes bytes_eqb (fun b => b) st_runs (mkSdb [] []) in
  let D := m_final bytes outs (mkSdb [] []) in
  map (fun x => fst (fst x)) outs =
    [XRun (MFail (SExec OWriteErr)); XReadErr; XRun (MFail (SExec OStmtErr)); XRun MDone] /\
  map snd (s_journal D) = [[65%N]; [65%N]; [66%N]; [67%N]; [68%N]] /\
  s_journal D = expand (plan ex_all) [1; 0; 0; 0] /\
  m_wf bytes outs = 1 /\
  claimed_plan bytes (from_last_ckpt ex_all) (s_tbl D) = plan ex_all.
Proof. split; [repeat constructor|]. vm_compute. repeat split; reflexivity. Qed.

(** a cut inside run 1 of the store history, after statement A ran and before its upsert. *)
Example C09_never_overclaims_store_nonvacuous :
  let evs := m_events bytes (m_history bytes bytes_eqb (fun b => b) st_runs (mkSdb [] [])) in
  let pre := firstn 2 evs in
  journal pre = [([49%N], [65%N])] /\ claimed_plan bytes ex_all (tbl_of_events bytes pre []) = [].
Proof. vm_compute. split; reflexivity. Qed.

(** directives: file 1 carries `txmode file`, file 2 none.
    run 1 (--tx-mode none): statement B of file 1 fails inside its transaction: rolled back, nothing stays;
    run 2 (--tx-mode file): file 1 commits; the upsert after statement C fails inside file 2's transaction: rolled back;
    run 3 (--tx-mode none): file 2 on the connection, the upsert after C fails: C stays, unrecorded;
    run 4: C is executed again (the one allowed repeat), then D. *)
Definition dx_dir : list tfile :=
  [ mkTfile (mkFile [49%N] [[65%N]; [66%N]] false) (Some (Some TxFile)) None;
    plain (mkFile [50%N] [[67%N]; [68%N]] false) ].
Definition dx_runs : list m_run :=
  let F := false in let T := true in
  [ mkMRun TxNone 0 dx_dir [F; F; F; F; F; F; T];
    mkMRun TxFile 0 dx_dir [F; F; F; F; F; F; F; F; F; F; F; F; T];
    mkMRun TxNone 0 dx_dir [F; F; F; F; F; T];
    mkMRun TxNone 0 dx_dir [] ].

Example C09_resume_store_directives_nonvacuous :
  sorted_files (map tf_file dx_dir) /\ Forall (mrun_dir_on dx_dir) dx_runs /\
  let outs := m_history bytes bytes_eqb (fun b => b) dx_runs (mkSdb [] []) in
  map (fun x => (fst (fst x), map snd (s_journal (snd (fst x))),
                 map (fun r => (r_applied r, r_total r)) (s_tbl (snd (fst x))))) outs =
  [ (XRun (MFail (SExec OStmtErr)), [], []);
    (XRun (MFail (SExec OWriteErr)), [[65%N]; [66%N]], [(2, 2)]);
    (XRun (MFail (SExec OWriteErr)), [[65%N]; [66%N]; [67%N]], [(2, 2); (0, 2)]);
    (XRun MDone, [[65%N]; [66%N]; [67%N]; [67%N]; [68%N]], [(2, 2); (2, 2)]) ] /\
  m_wf bytes outs = 2.
Proof.
  split; [unfold sorted_files, fver_lt; repeat constructor|].
  split; [repeat constructor; discriminate|]. vm_compute. split; reflexivity.
Qed.

(** --tx-mode all: statement C (file 2) fails: the one transaction is discarded, nothing stays;
    the next run under --tx-mode all commits everything at the end. *)
Definition ax_runs : list m_run :=
  let F := false in let T := true in
  [ mkMRun TxAll 0 (map plain ex_all) [F; F; F; F; F; F; F; F; F; F; F; T];
    mkMRun TxAll 0 (map plain ex_all) [] ].

Example C09_resume_store_any_mode_nonvacuous :
  Forall (mrun_any_on (map plain ex_all)) ax_runs /\
  let outs := m_history bytes bytes_eqb (fun b => b) ax_runs (mkSdb [] []) in
  map (fun x => (fst (fst x), map snd (s_journal (snd (fst x))),
                 map (fun r => (r_applied r, r_total r)) (s_tbl (snd (fst x))))) outs =
  [ (XRun (MFail (SExec OStmtErr)), [], []);
    (XRun MDone, [[65%N]; [66%N]; [67%N]; [68%N]], [(2, 2); (2, 2)]) ].
Proof. split; [repeat constructor|]. vm_compute. reflexivity. Qed.

(** the history [dx_runs] above is three faulty runs followed by exactly such a clean run *)
Example C09_complete_marks_done_store_nonvacuous :
  firstn 3 dx_runs ++ [mkMRun TxNone 0 dx_dir []] = dx_runs /\
  Forall (mrun_any_on dx_dir) (firstn 3 dx_runs) /\
  forallb (fun tf => match mode_for TxNone tf with Some _ => true | None => false end) dx_dir = true /\
  let Dn := m_final bytes (m_history bytes bytes_eqb (fun b => b) dx_runs (mkSdb [] [])) (mkSdb [] []) in
  map (fun r => (r_applied r, r_total r)) (s_tbl Dn) = [(2, 2); (2, 2)] /\
  s_journal Dn = expand (plan (map tf_file dx_dir)) [0; 0; 1; 0] /\
  fst (pending ex_cfg (map tf_file dx_dir) (read_revisions bytes (s_tbl Dn))) = PNoPending.
Proof. split; [reflexivity|]. split; [repeat constructor|]. vm_compute. repeat split; reflexivity. Qed.

(** only statements and a SELECT fail (run 1: statement B inside file 1's transaction, rolled back;
    run 2: the SELECT of file 2's revision; run 3: statement D on the connection): every statement once. *)
Definition ox_runs : list m_run :=
  let F := false in let T := true in
  [ mkMRun TxNone 0 dx_dir [F; F; F; F; F; F; T];
    mkMRun TxNone 0 dx_dir [F; F; F; F; F; F; F; F; F; T];
    mkMRun TxNone 0 dx_dir [F; F; F; F; F; F; T] ].

Example C09_exactly_once_store_nonvacuous :
  Forall (mrun_any_on dx_dir) ox_runs /\
  let outs := m_history bytes bytes_eqb (fun b => b) (ox_runs ++ [mkMRun TxNone 0 dx_dir []]) (mkSdb [] []) in
  map (fun x => fst (fst x)) outs =
    [XRun (MFail (SExec OStmtErr)); XRun (MFail SReadErr); XRun (MFail (SExec OStmtErr)); XRun MDone] /\
  forallb (fun out => forallb (fun e => match e with EWrite _ false => false | _ => true end) (snd out)) outs = true /\
  s_journal (m_final bytes outs (mkSdb [] [])) = plan (map tf_file dx_dir).
Proof. split; [repeat constructor|]. vm_compute. repeat split; reflexivity. Qed.

Example C09_stop_nonvacuous :
  fst (fst (fst (execute bytes bytes_eqb (fun b => b) (mkFile [49%N] [[65%N]] false) [] [false; true]))) = OStmtErr.
Proof. vm_compute. reflexivity. Qed.

Example C09_stop_on_fault_nonvacuous :
  let '(ro, _, _, es) := execute_n bytes bytes_eqb (fun b => b) ex_cfg 0 ex_all [] [false; false; true] in
  ro = RExec OWriteErr /\ length es = 3 /\ map (@ev_ok bytes) es = [true; true; false].
Proof. vm_compute. repeat split; reflexivity. Qed.

Example C09_resume_nonvacuous :
  Forall (run_on ex_all) ex_runs /\
  let outs := run_all bytes bytes_eqb (fun b => b) ex_runs [] in
  journal (all_events bytes outs) =
    expand (plan ex_all) [1; 0; 0; 0] /\
  map snd (journal (all_events bytes outs)) = [[65%N]; [65%N]; [66%N]; [67%N]; [68%N]] /\
  wf_all bytes outs = 1 /\
  claimed_plan bytes (from_last_ckpt ex_all) (final_tbl bytes outs []) = plan ex_all.
Proof.
  split; [repeat constructor|]. vm_compute. repeat split; reflexivity.
Qed.

(** a cut inside run 1, after statement A ran and before its bookkeeping write:
    journal = [A], the table claims nothing (P = 0, E = 1). *)
Example C09_never_overclaims_nonvacuous :
  let evs := all_events bytes (run_all bytes bytes_eqb (fun b => b) ex_runs []) in
  let pre := firstn 2 evs in
  journal pre = [([49%N], [65%N])] /\ claimed_plan bytes ex_all (tbl_of_events bytes pre []) = [].
Proof. vm_compute. split; reflexivity. Qed.

Example C09_exactly_once_nonvacuous :
  let rs := [ mkRun ex_cfg 0 ex_all [false; false; false; true];       (* B fails *)
              mkRun ex_cfg 1 ex_all [false; true];                      (* B fails again, count 1 *)
              mkRun ex_cfg 0 ex_all [false; false; false; false; false; false; false; true] ] in (* D fails *)
  let outs := run_all bytes bytes_eqb (fun b => b) (rs ++ [mkRun ex_cfg 0 ex_all []]) [] in
  Forall (run_on ex_all) rs /\
  forallb (fun out => forallb (fun e => match e with EWrite _ false => false | _ => true end) (snd out)) outs = true /\
  map (fun x => fst (fst x)) outs = [RExec OStmtErr; RExec OStmtErr; RExec OStmtErr; RExec ODone] /\
  journal (all_events bytes outs) = plan ex_all.
Proof. split; [repeat constructor|]. vm_compute. repeat split; reflexivity. Qed.

Example C09_complete_marks_done_nonvacuous :
  let outs := run_all bytes bytes_eqb (fun b => b) (ex_runs ++ [mkRun ex_cfg 0 ex_all []]) [] in
  map (fun r => (r_applied r, r_total r, r_hashes r)) (final_tbl bytes outs []) = [(2, 2, []); (2, 2, [])] /\
  fst (pending ex_cfg ex_all (read_revisions bytes (final_tbl bytes outs []))) = PNoPending.
Proof. vm_compute. split; reflexivity. Qed.

(** a directory with two checkpoint files: a fresh database starts at the last
    checkpoint (file 3); its second statement's bookkeeping write fails, the next
    run resumes inside the checkpoint file and goes on with file 4. *)
Definition ck_all : list file :=
  [ mkFile [49%N] [[65%N]] true; mkFile [50%N] [[66%N]] false;
    mkFile [51%N] [[67%N]; [68%N]] true; mkFile [52%N] [[69%N]] false ].
Example C09_resume_checkpoint_nonvacuous :
  sorted_files ck_all /\
  from_last_ckpt ck_all = [ mkFile [51%N] [[67%N]; [68%N]] true; mkFile [52%N] [[69%N]] false ] /\
  let rs := [ mkRun ex_cfg 0 ck_all [false; false; false; false; true]; mkRun ex_cfg 0 ck_all [] ] in
  Forall (run_on ck_all) rs /\
  map snd (journal (all_events bytes (run_all bytes bytes_eqb (fun b => b) rs []))) = [[67%N]; [68%N]; [68%N]; [69%N]].
Proof.
  split; [unfold sorted_files, fver_lt; repeat constructor|]. split; [reflexivity|].
  split; [repeat constructor|]. vm_compute. reflexivity.
Qed.
