(** C09 -- executor runs each statement in order, once, and resumes after any
    failure. (First instalment; the history theorems are added in Exec/RunProofs.v.) *)
From Coq Require Import List NArith Bool Arith.
From Atlas Require Import Base.Bytes Exec.ExecModel.
Import ListNotations.

(** The first failing file ends the run: nothing of the later files is touched. *)
Theorem C09_stop_at_first_failing_file :
  forall (hash : Type) (heq : hash -> hash -> bool) (HS : bytes -> hash)
         (f : file) (rest : list file) (t : list (rev hash)) (fs : list bool) o t1 fs1 es,
  execute hash heq HS f t fs = (o, t1, fs1, es) -> o <> ODone ->
  exec_files hash heq HS (f :: rest) t fs = (o, t1, fs1, es).
Proof.
  intros hash heq HS f rest t fs o t1 fs1 es Hex Hne. simpl. rewrite Hex.
  destruct o; try reflexivity. contradiction.
Qed.
Print Assumptions C09_stop_at_first_failing_file.

Example C09_stop_nonvacuous :
  fst (fst (fst (execute bytes bytes_eqb (fun b => b) (mkFile [49%N] [[65%N]] false) [] [false; true]))) = OStmtErr.
Proof. vm_compute. reflexivity. Qed.
