(** C13 -- failure atomicity follows the transaction mode (model M-TX of the
    `migrate apply` loop over M-EXEC). Engine assumption (named in the trusted
    base): a transaction is atomic -- its effects reach the committed state
    only through Commit. The dry-run clause is about [migrate_apply]
    (Exec/DryModel.v: mrrw.Migrate, Pending with the real writer, the loop under
    the dry-run wrappers), the `schema apply` clause about [apply_changes]
    (applyChanges + the SQLite transaction opener). *)
From Coq Require Import List NArith ZArith Bool Arith.
From Atlas Require Import Base.Bytes Base.Stutter Exec.ExecModel Exec.ExecProofs Exec.StepProofs Exec.PendingModel Exec.PendingProofs
  Exec.RunModel Exec.TxModel Exec.TxProofs Exec.RunProofs Exec.CrashProofs Exec.DryModel Exec.DryProofs
  Exec.FkModel Exec.FkProofs Exec.FkRerunProofs Exec.DryFlagsProofs Exec.DryFlagsModel.
Import ListNotations.

Section C13.
Variable hash : Type.
Variable hash_eqb : hash -> hash -> bool.
Variable HS : bytes -> hash.

(** all: whatever fails (a statement at any position of any file, an invalid
    directive, Pending), the database and the revision table are exactly as
    before the command; and every intermediate crash point sees that state. *)
Theorem C13_fail_all :
  forall (n : nat) (dir : list (tfile)) (c : db hash) o c' tr,
  apply_run hash hash_eqb HS TxAll n dir c = (o, c', tr) ->
  (o <> ADone -> c' = c) /\
  (forall p d, In (p, d) tr -> d = c \/ (p = AfterCommit /\ d = c' /\ o = ADone)).
Proof. exact (apply_run_all_atomic hash hash_eqb HS). Qed.

(** file: when the loop stops (for any reason) the committed state is the one
    reached after the last completely applied file: there is k such that the
    first k files each ran to completion from the state left by their
    predecessors, and the result is exactly the state after those k files
    ([boundary]); no transaction is left open. *)
Theorem C13_fail_file :
  forall (files : list tfile) (c : db hash),
  no_directive files ->
  forall o c' w' tr, apply_loop hash hash_eqb HS TxFile files c None = (o, c', w', tr) ->
  w' = None /\
  (exists k, k <= length files /\ c' = boundary hash hash_eqb HS files c k /\
             (o = ADone -> k = length files) /\
             (forall j, j < k ->
                 let cj := boundary hash hash_eqb HS files c j in
                 match nth_error files j with
                 | Some f => fst (fst (fst (execute hash hash_eqb HS (tf_file f) (d_tbl cj)
                                   (bad_faults f (stored_applied hash (d_tbl cj) (f_version (tf_file f))))))) = ODone
                 | None => False
                 end)) /\
  (forall p d, In (p, d) tr -> exists k, k <= length files /\ d = boundary hash hash_eqb HS files c k).
Proof. exact (apply_loop_file hash hash_eqb HS). Qed.

(** none: a failing file leaves exactly the successful prefix of its statements
    in the database, and the revision table Execute wrote (partial revision with
    the error recorded, see C09/C12 for its content). *)
Theorem C13_fail_none :
  forall (f : tfile) (c : db hash),
  mode_for TxNone f = Some TxNone ->
  forall o t' fs' es,
    execute hash hash_eqb HS (tf_file f) (d_tbl c)
            (bad_faults f (stored_applied hash (d_tbl c) (f_version (tf_file f)))) = (o, t', fs', es) ->
    o <> ODone ->
    forall rest, exists tr,
      apply_loop hash hash_eqb HS TxNone (f :: rest) c None
      = (AFail o, mkDb (d_journal c ++ map snd (journal es)) t', None, tr).
Proof. exact (apply_loop_none_single hash hash_eqb HS). Qed.

(** Fix and re-run. Setting: the directory is [dskip ++ dir], files strictly
    sorted by version; [dir] = the directory from its last checkpoint file on;
    any file may carry a failing statement [tf_bad] and a txmode directive the
    global mode [g] accepts ([valid]); [c0] is a file boundary ([Bd], e.g. the
    empty database) whose revision rows are literally completed revisions ([LK]);
    the command fails on a statement ([AFail OStmtErr]) in any mode, with any
    count. [fixed dir] = the same files with no failing statement. Then `migrate
    apply` on the fixed directory from the state the failure left, and the same
    command from [c0] (the run without failure), both succeed and end in
    LITERALLY THE SAME STATE [final_db]: journal = every statement exactly once in
    plan order; one revision row per file with Applied = Total = statement count,
    no partial hashes, no error, type "execute". *)
Theorem C13_fix_rerun :
  (forall a b, hash_eqb a b = true <-> a = b) ->
  forall (dskip dir : list tfile),
  sorted_files (map tf_file dskip ++ map tf_file dir) ->
  from_last_ckpt (map tf_file dskip ++ map tf_file dir) = map tf_file dir ->
  forall g (c0 : db hash) k0 n o c1 tr,
  valid g dir -> Bd hash HS dir c0 k0 -> LK hash dir (d_tbl c0) k0 ->
  apply_run hash hash_eqb HS g n (dskip ++ dir) c0 = (o, c1, tr) -> o = AFail OStmtErr ->
  exists o2 c2 tr2 o3 c3 tr3,
    apply_run hash hash_eqb HS g 0 (dskip ++ fixed dir) c1 = (o2, c2, tr2) /\
    (o2 = ADone \/ o2 = APend PNoPending) /\
    apply_run hash hash_eqb HS g 0 (dskip ++ fixed dir) c0 = (o3, c3, tr3) /\
    (o3 = ADone \/ o3 = APend PNoPending) /\
    c2 = c3 /\
    c2 = mkDb (map snd (plan (map tf_file dir)))
              (map (fun f => mkRev (f_version f) (length (f_stmts f)) (length (f_stmts f)) [] false 2%N)
                   (map tf_file dir)).
Proof.
  intros Hspec dskip dir Hs Hf g c0 k0 n o c1 tr.
  exact (fix_rerun_lemma hash hash_eqb HS Hspec dskip dir Hs Hf g c0 k0 n o c1 tr).
Qed.

(** ** --dry-run changes nothing -- except ...

    [migrate_apply dry global n cf dir d]: one `atlas migrate apply` on the target
    [d] = (does atlas_schema_revisions exist, journal, revision rows). *)

(** Without --dry-run (and without baseline) the command is the [apply_run] of
    the theorems above; it leaves the revisions table behind. *)
Theorem C13_apply_is_apply_run :
  forall global n dir b (c : db hash),
  migrate_apply hash hash_eqb HS false global n (mkCfg Linear None true true) dir (mkCdb b c) =
  (let '(o, c', _) := apply_run hash hash_eqb HS global n dir c in (o, mkCdb true c')).
Proof. exact (migrate_apply_is_apply_run hash hash_eqb HS). Qed.

(** The exact characterisation that holds: if the revisions table already exists
    and no --baseline is given, `migrate apply --dry-run` leaves the table's
    existence, every journal row and every revision row unchanged -- for every
    directory (failing statements, txmode directives valid or not, checkpoint
    files), every tx-mode, count, execution order and dirty/allow-dirty setting. *)
Theorem C13_dry_run_except :
  forall global n cf dir (d : cdb hash),
  cd_revtable d = true -> c_baseline cf = None ->
  snd (migrate_apply hash hash_eqb HS true global n cf dir d) = d.
Proof. exact (dry_run_except_lemma hash hash_eqb HS). Qed.

(** ... and in general: the only things a dry run changes are the creation of the
    revisions table and the baseline revision that Pending writes. *)
Theorem C13_dry_run_effect :
  forall global n cf dir (d : cdb hash),
  snd (migrate_apply hash hash_eqb HS true global n cf dir d) =
  mkCdb true (match snd (pending cf (map tf_file dir) (read_revisions hash (d_tbl (cd_db d)))) with
              | Some r => mkDb (d_journal (cd_db d)) (tbl_put (d_tbl (cd_db d)) r)
              | None => cd_db d
              end).
Proof. exact (dry_run_effect hash hash_eqb HS). Qed.

End C13.

(** The full statement ("any command run with --dry-run leaves schema, data and
    revision history unchanged") is FALSE of the faithful model -- two witnesses,
    both reproduced on the real CLI (open known findings
    C13-dry-run-creates-revisions-table, C13-dry-run-writes-baseline). *)
Definition dr_dir : list tfile :=
  [ mkTfile (mkFile [49%N] [[65%N]] false) None None; mkTfile (mkFile [50%N] [[66%N]] false) None None ].

Theorem C13_dry_run_refuted_creates_table :
  exists global n cf dir (d : cdb bytes),
    c_baseline cf = None /\
    snd (migrate_apply bytes bytes_eqb (fun b => b) true global n cf dir d) <> d /\
    cd_db (snd (migrate_apply bytes bytes_eqb (fun b => b) true global n cf dir d)) = cd_db d /\
    cd_revtable d = false /\
    cd_revtable (snd (migrate_apply bytes bytes_eqb (fun b => b) true global n cf dir d)) = true.
Proof.
  exists TxFile, 0, (mkCfg Linear None true true), dr_dir, (mkCdb false (mkDb [] [])).
  split; [reflexivity|]. split; [vm_compute; discriminate|]. vm_compute. repeat split; reflexivity.
Qed.

Theorem C13_dry_run_refuted_writes_baseline :
  exists global n cf dir (d : cdb bytes),
    cd_revtable d = true /\
    snd (migrate_apply bytes bytes_eqb (fun b => b) true global n cf dir d) <> d /\
    d_tbl (cd_db d) = [] /\
    map (fun r => (r_version r, r_kind r))
        (d_tbl (cd_db (snd (migrate_apply bytes bytes_eqb (fun b => b) true global n cf dir d)))) = [([49%N], 1%N)].
Proof.
  exists TxFile, 0, (mkCfg Linear (Some [49%N]) false true), dr_dir, (mkCdb true (mkDb [] [])).
  split; [reflexivity|]. split; [vm_compute; discriminate|]. vm_compute. split; reflexivity.
Qed.

(** ** `schema apply` is all-or-nothing in its default transaction mode

    [apply_changes txmode stmts bad viol d]: the planned statements [stmts] are
    opaque; statement number [bad] (if any) fails; [viol] = the foreign-key check
    before commit finds a violation that was not there when the transaction was
    opened. State [d] = (committed effects, the connection's foreign_keys pragma).
    In any transactional mode (the default is "file"): whatever fails, at any
    position, the committed state AND the pragma are exactly as before; success
    commits all statements; it succeeds iff no statement of the plan fails and the
    foreign-key check is clean. *)
Theorem C13_schema_apply_atomic :
  forall txmode stmts bad viol (d : sdb) o d' es,
  txmode <> TxNone ->
  apply_changes txmode stmts bad viol d = (o, d', es) ->
  (o <> SOk -> d' = d) /\
  (o = SOk -> d' = mkSdb (s_effects d ++ stmts) (s_fk d)) /\
  (o = SOk <-> (forall b, bad = Some b -> length stmts <= b) /\ (s_fk d && viol = false)) /\
  (forall k, o = SApplyErr k -> bad = Some k /\ k < length stmts).
Proof. exact schema_apply_atomic_lemma. Qed.

(** --tx-mode none: exactly the successful prefix stays. *)
Theorem C13_schema_apply_none :
  forall stmts bad viol (d : sdb) o d' es,
  apply_changes TxNone stmts bad viol d = (o, d', es) ->
  s_fk d' = s_fk d /\
  match o with
  | SOk => s_effects d' = s_effects d ++ stmts
  | SApplyErr k => bad = Some k /\ k < length stmts /\ s_effects d' = s_effects d ++ firstn k stmts
  | SFkMismatch => False
  end.
Proof. exact schema_apply_none_lemma. Qed.


(** ** The foreign-key check SQLite's transaction opener performs at commit
    (round 3; Exec/FkModel.v: OpenTx / CommitFunc / violations / violationsDiff /
    contains of sql/sqlite/driver.go under the loop of `migrate apply` and under
    `schema apply`). [violations] = what `PRAGMA foreign_key_check` reports, as a
    function of the effects present: ANY function (engine); [fk] = the connection's
    foreign_keys pragma. *)

(** The "new violation" predicate over the engine state is decidable (it is the
    boolean the code computes) and means exactly: some violation reported after
    was not reported before. *)
Theorem C13_fk_new_violation :
  forall v1 v2 : list violation,
  (negb (is_nil (violationsDiff v1 v2)) = true <-> exists v, In v v2 /\ ~ In v v1) /\
  (violationsDiff v1 v2 = [] <-> incl v2 v1).
Proof. exact (fun v1 v2 => conj (new_violation_spec v1 v2) (violationsDiff_nil v1 v2)). Qed.

Section C13fk.
Variable hash : Type.
Variable hash_eqb : hash -> hash -> bool.
Variable HS : bytes -> hash.
Variable violations : list bytes -> list violation.
Variable fk : bool.

(** mode all: whatever fails -- a statement, a directive, Pending, or the check at
    the final commit -- the database and the revision table are exactly as before
    the command. A mismatch is reported only when foreign keys are on, the whole
    run executed without error (the run of TxModel.v ends ADone in [wd]) and [wd]
    holds a violation the initial state does not; success is the run of TxModel.v. *)
Theorem C13_fk_commit_all :
  forall n dir (c : db hash) o c',
  apply_run_fk hash hash_eqb HS violations fk TxAll n dir c = (o, c') ->
  (o <> FOut ADone -> c' = c) /\
  (o = FFkMismatch ->
     fk = true /\
     exists wd tr, apply_run hash hash_eqb HS TxAll n dir c = (ADone, wd, tr) /\
       exists v, In v (violations (d_journal wd)) /\ ~ In v (violations (d_journal c))) /\
  (o = FOut ADone -> exists tr, apply_run hash hash_eqb HS TxAll n dir c = (ADone, c', tr)).
Proof. exact (apply_run_fk_all_atomic hash hash_eqb HS violations fk). Qed.

(** mode file: when the loop stops for any reason, incl. a refused commit, the
    committed state is the [boundary] (of C13_fail_file) after k whole files and no
    transaction is left open; a refused commit means: foreign keys are on, file k
    executed without error from that state, and its working copy [w1] (statements
    AND revision rows, all discarded) holds a violation the state left does not. *)
Theorem C13_fk_commit_file :
  forall (files : list tfile) (c : db hash),
  no_directive files ->
  forall o c' w', apply_loop_fk hash hash_eqb HS violations fk TxFile files c None = (o, c', w') ->
  w' = None /\
  exists k, k <= length files /\ c' = boundary hash hash_eqb HS files c k /\
    (o = FOut ADone -> k = length files) /\
    (o = FFkMismatch ->
       fk = true /\
       exists f t' fs' es w1 tr,
         nth_error files k = Some f /\
         execute hash hash_eqb HS (tf_file f) (d_tbl c')
                 (bad_faults f (stored_applied hash (d_tbl c') (f_version (tf_file f)))) = (ODone, t', fs', es) /\
         run_in_tx hash es c' c' = (w1, tr) /\
         exists v, In v (violations (d_journal w1)) /\ ~ In v (violations (d_journal c'))).
Proof. exact (apply_loop_fk_file hash hash_eqb HS violations fk). Qed.

(** Any mode, directives, count: a run in which no commit is refused is literally
    the run of TxModel.v (so every theorem above applies to it); a refused commit
    happens at a file that runs in file mode, after the files before it completed. *)
Theorem C13_fk_simulation :
  forall g files (c : db hash) w o c' w',
  apply_loop_fk hash hash_eqb HS violations fk g files c w = (o, c', w') ->
  (o = FFkMismatch /\ w' = None /\
     exists k f wK, nth_error files k = Some f /\ mode_for g f = Some TxFile /\
       apply_loop_fk hash hash_eqb HS violations fk g (firstn k files) c w = (FOut ADone, c', wK)) \/
  exists o2 tr, o = FOut o2 /\
    apply_loop hash hash_eqb HS g files c (option_map o_w w) = (o2, c', option_map o_w w', tr).
Proof. exact (apply_loop_fk_simulation hash hash_eqb HS violations fk). Qed.

(** With foreign keys off the command is the [apply_run] of the other theorems. *)
Theorem C13_fk_check_off :
  fk = false ->
  forall g n dir (c : db hash),
  apply_run_fk hash hash_eqb HS violations fk g n dir c =
  (let '(o, c', _) := apply_run hash hash_eqb HS g n dir c in (FOut o, c')).
Proof.
  exact (fun E g n dir c => apply_run_fk_off hash hash_eqb HS violations fk g n dir c
                              (mismatch_off_fk hash violations fk E)).
Qed.
End C13fk.

(** Fix and re-run after a commit refused by the foreign-key check. Setting as in
    C13_fix_rerun: the directory is [dskip ++ dir] (sorted; [dir] from the last
    checkpoint on), here without failing statements ([clean]: the only failure is
    the check), directives accepted by the global mode [g]; [c0] a file boundary
    with literal rows (e.g. the empty database); `migrate apply [n]` ends with
    "foreign key mismatch" in ANY mode, for any engine ([violations], [fk]). Then
    (a) the state left [c1] is again a file boundary [Bd] with literal rows [LK]
    after k >= k0 files -- nothing of the refused file, no partial revision; and
    (b) once the check no longer fires ([violations'], [fk']: the data was repaired
    or foreign keys are off), `migrate apply` from [c1] and the same command from
    [c0] both succeed and end in literally the same state [final_db]: journal = the
    plan exactly once, one completed revision per file. *)
Theorem C13_fk_fix_rerun :
  forall (hash : Type) (hash_eqb : hash -> hash -> bool) (HS : bytes -> hash),
  (forall a b, hash_eqb a b = true <-> a = b) ->
  forall (dskip dir : list tfile),
  sorted_files (map tf_file dskip ++ map tf_file dir) ->
  from_last_ckpt (map tf_file dskip ++ map tf_file dir) = map tf_file dir ->
  forall violations fk g n (c0 : db hash) k0 c1,
  clean dir -> valid g dir -> Bd hash HS dir c0 k0 -> LK hash dir (d_tbl c0) k0 ->
  apply_run_fk hash hash_eqb HS violations fk g n (dskip ++ dir) c0 = (FFkMismatch, c1) ->
  (exists k, k0 <= k /\ Bd hash HS dir c1 k /\ LK hash dir (d_tbl c1) k) /\
  forall violations' fk', (forall t, commit_mismatch hash violations' fk' t = false) ->
  exists o2 o3,
    apply_run_fk hash hash_eqb HS violations' fk' g 0 (dskip ++ dir) c1 = (FOut o2, final_db hash dir) /\
    (o2 = ADone \/ o2 = APend PNoPending) /\
    apply_run_fk hash hash_eqb HS violations' fk' g 0 (dskip ++ dir) c0 = (FOut o3, final_db hash dir) /\
    (o3 = ADone \/ o3 = APend PNoPending).
Proof.
  exact (fun hash hash_eqb HS Hspec dskip dir Hs Hf violations fk g n c0 k0 c1 Hcl Hval HB HL H =>
    conj (fk_mismatch_resume hash hash_eqb HS Hspec dskip dir Hs Hf violations fk g n c0 k0 c1 Hcl Hval HB HL H)
         (fk_fix_rerun_lemma hash hash_eqb HS Hspec dskip dir Hs Hf violations fk g n c0 k0 c1 Hcl Hval HB HL H)).
Qed.

(** `schema apply` with the check computed from the engine state
    ([apply_changes_fk]: viol = violationsDiff (violations before) (violations after
    the whole plan) is not empty): in any transactional mode whatever fails, at any
    position, incl. the check at commit, the committed effects and the pragma are
    as before; it succeeds iff no statement fails and (foreign keys are off or every
    violation reported after the plan was reported before it); "foreign key
    mismatch" iff foreign keys are on, every statement executed, and the plan's
    effects hold a violation that was not there. *)
Theorem C13_schema_apply_fk_atomic :
  forall violations txmode stmts bad (d : sdb) o d' es,
  txmode <> TxNone ->
  apply_changes_fk violations txmode stmts bad d = (o, d', es) ->
  (o <> SOk -> d' = d) /\
  (o = SOk -> d' = mkSdb (s_effects d ++ stmts) (s_fk d)) /\
  (o = SOk <-> (forall b, bad = Some b -> length stmts <= b) /\
               (s_fk d = false \/ incl (violations (s_effects d ++ stmts)) (violations (s_effects d)))) /\
  (o = SFkMismatch -> s_fk d = true /\ (forall b, bad = Some b -> length stmts <= b) /\
       exists v, In v (violations (s_effects d ++ stmts)) /\ ~ In v (violations (s_effects d))) /\
  (forall k, o = SApplyErr k -> bad = Some k /\ k < length stmts).
Proof. exact schema_apply_fk_lemma. Qed.

Print Assumptions C13_fail_all.
Print Assumptions C13_fail_file.
Print Assumptions C13_fail_none.
Print Assumptions C13_fix_rerun.
Print Assumptions C13_apply_is_apply_run.
Print Assumptions C13_dry_run_except.
Print Assumptions C13_dry_run_effect.
Print Assumptions C13_dry_run_refuted_creates_table.
Print Assumptions C13_dry_run_refuted_writes_baseline.
Print Assumptions C13_schema_apply_atomic.
Print Assumptions C13_schema_apply_none.
Print Assumptions C13_fk_new_violation.
Print Assumptions C13_fk_commit_all.
Print Assumptions C13_fk_commit_file.
Print Assumptions C13_fk_simulation.
Print Assumptions C13_fk_check_off.
Print Assumptions C13_schema_apply_fk_atomic.
Print Assumptions C13_fk_fix_rerun.

(** Non-vacuity: two files, the second one failing at its second statement. *)
Definition s (n : N) : bytes := [40%N; n; 41%N].
Definition ex_dir : list tfile :=
  [ mkTfile (mkFile [49%N] [s 1; s 2] false) None None;
    mkTfile (mkFile [50%N] [s 3; s 4] false) None (Some 1) ].
Definition ex_db0 : db bytes := mkDb [] [].

Example C13_all_nonvacuous :
  let '(o, c', _) := apply_run bytes bytes_eqb (fun b => b) TxAll 0 ex_dir ex_db0 in
  o = AFail OStmtErr /\ c' = ex_db0.
Proof. vm_compute. split; reflexivity. Qed.

Example C13_file_nonvacuous :
  let '(o, c', _) := apply_run bytes bytes_eqb (fun b => b) TxFile 0 ex_dir ex_db0 in
  o = AFail OStmtErr /\ d_journal c' = [s 1; s 2].
Proof. vm_compute. split; reflexivity. Qed.

Example C13_none_nonvacuous :
  let '(o, c', _) := apply_run bytes bytes_eqb (fun b => b) TxNone 0 ex_dir ex_db0 in
  o = AFail OStmtErr /\ d_journal c' = [s 1; s 2; s 3].
Proof. vm_compute. split; reflexivity. Qed.

Example C13_fix_rerun_nonvacuous :
  let run m := apply_run bytes bytes_eqb (fun b => b) m 0 ex_dir ex_db0 in
  forallb (fun m =>
    let '(o, c1, _) := run m in
    let '(o2, c2, _) := apply_run bytes bytes_eqb (fun b => b) m 0 (fixed ex_dir) c1 in
    match o, o2 with
    | AFail OStmtErr, ADone =>
        bytes_eqb (concat (d_journal c2)) (concat [s 1; s 2; s 3; s 4]) && (length (d_journal c2) =? 4) &&
        forallb (fun r => (r_applied r =? r_total r) && negb (r_err r) && (length (r_hashes r) =? 0)) (d_tbl c2)
    | _, _ => false
    end) [TxNone; TxFile; TxAll] = true /\
  Bd bytes (fun b => b) ex_dir ex_db0 0 /\ LK bytes ex_dir (d_tbl ex_db0) 0 /\
  valid TxNone ex_dir /\ valid TxFile ex_dir /\ valid TxAll ex_dir.
Proof.
  split; [vm_compute; reflexivity|]. split; [apply Bd_empty|]. split; [apply LK_empty|].
  repeat split; intros f [<-|[<-|[]]]; discriminate.
Qed.

(** dry run on a database with history: something would be executed (file 2 is
    pending), nothing changes. *)
Example C13_dry_run_except_nonvacuous :
  let d := mkCdb true (mkDb [s 1; s 2] [mkRev [49%N] 2 2 [] false 2%N]) in
  migrate_apply bytes bytes_eqb (fun b => b) true TxNone 0 (mkCfg Linear None true true) ex_dir d = (ADone, d) /\
  fst (migrate_apply bytes bytes_eqb (fun b => b) false TxNone 0 (mkCfg Linear None true true) ex_dir d) = AFail OStmtErr.
Proof. vm_compute. split; reflexivity. Qed.

Example C13_schema_apply_nonvacuous :
  let '(o, d', es) := apply_changes TxFile [s 1; s 2; s 3] (Some 2) false (mkSdb [s 9] true) in
  o = SApplyErr 2 /\ d' = mkSdb [s 9] true /\ length es = 8 /\
  let '(o2, d2, _) := apply_changes TxNone [s 1; s 2; s 3] (Some 2) false (mkSdb [s 9] true) in
  o2 = SApplyErr 2 /\ d2 = mkSdb [s 9; s 1; s 2] true /\
  let '(o3, d3, _) := apply_changes TxFile [s 1; s 2] None true (mkSdb [s 9] true) in
  o3 = SFkMismatch /\ d3 = mkSdb [s 9] true.
Proof. vm_compute. repeat split; reflexivity. Qed.

(** Non-vacuity of the commit-time check: the database already holds a violating
    row (child row 1); the fourth statement (file 2) adds another violating row. *)
Definition ex_pre : violation := mkViol [99%N] 1 [112%N] 1.
Definition ex_new : violation := mkViol [99%N] 2 [112%N] 1.
Definition ex_violations (j : list bytes) : list violation :=
  ex_pre :: (if existsb (bytes_eqb (s 4)) j then [ex_new] else []).
Definition ex_dir_ok : list tfile := fixed ex_dir.

Example C13_fk_nonvacuous :
  apply_run_fk bytes bytes_eqb (fun b => b) ex_violations true TxAll 0 ex_dir_ok ex_db0 = (FFkMismatch, ex_db0) /\
  (let '(o, c') := apply_run_fk bytes bytes_eqb (fun b => b) ex_violations true TxFile 0 ex_dir_ok ex_db0 in
   o = FFkMismatch /\ d_journal c' = [s 1; s 2] /\ length (d_tbl c') = 1) /\
  (let '(o, c') := apply_run_fk bytes bytes_eqb (fun b => b) ex_violations false TxFile 0 ex_dir_ok ex_db0 in
   o = FOut ADone /\ d_journal c' = [s 1; s 2; s 3; s 4]) /\
  (* the pre-existing violation alone is not a new one *)
  (let '(o, c') := apply_run_fk bytes bytes_eqb (fun b => b) (fun _ => [ex_pre]) true TxAll 0 ex_dir_ok ex_db0 in
   o = FOut ADone /\ d_journal c' = [s 1; s 2; s 3; s 4]) /\
  (let '(o, d', _) := apply_changes_fk ex_violations TxFile [s 3; s 4] None (mkSdb [s 1] true) in
   o = SFkMismatch /\ d' = mkSdb [s 1] true).
Proof. vm_compute. repeat split; reflexivity. Qed.

(** Fix and re-run after a refused commit, non-vacuity: file mode, the second file is
    refused; with the data repaired (no new violation reported) the re-run from the
    state left completes and ends in the state of a run that was never refused. *)
Example C13_fk_fix_rerun_nonvacuous :
  forallb (fun g =>
    let '(o, c1) := apply_run_fk bytes bytes_eqb (fun b => b) ex_violations true g 0 ex_dir_ok ex_db0 in
    let '(o2, c2) := apply_run_fk bytes bytes_eqb (fun b => b) (fun _ => [ex_pre]) true g 0 ex_dir_ok c1 in
    match o, o2 with
    | FFkMismatch, FOut ADone =>
        bytes_eqb (concat (d_journal c2)) (concat [s 1; s 2; s 3; s 4]) && (length (d_journal c2) =? 4) &&
        forallb (fun r => (r_applied r =? r_total r) && negb (r_err r)) (d_tbl c2) && (length (d_tbl c2) =? 2)
    | _, _ => false
    end) [TxFile; TxAll] = true /\
  clean ex_dir_ok /\ valid TxFile ex_dir_ok /\ valid TxAll ex_dir_ok /\
  Bd bytes (fun b => b) ex_dir_ok ex_db0 0 /\ LK bytes ex_dir_ok (d_tbl ex_db0) 0.
Proof.
  split; [vm_compute; reflexivity|].
  split; [intros f [<-|[<-|[]]]; reflexivity|].
  split; [intros f [<-|[<-|[]]]; discriminate|].
  split; [intros f [<-|[<-|[]]]; discriminate|].
  split; [apply Bd_empty|apply LK_empty].
Qed.

(** ** Round 5: `migrate apply --dry-run` x --baseline x --allow-dirty x count -- the flag table.
    For every directory (failing statements, directives, checkpoints), tx-mode, count and order:
    (1) a revision history exists: NOTHING changes, whatever --baseline / --allow-dirty / count say;
    (2) no history, no --baseline: nothing changes (but the creation of the table); a dirty database
        without --allow-dirty is refused (NotClean), an empty directory is "nothing pending";
    (3) no history, --baseline v (dirtiness is then irrelevant; --allow-dirty TOGETHER with --baseline
        is refused by NewExecutor before Pending runs: C13_dry_run_flags_exclusive): v not a
        migration file of the directory -> refused (BaselineNotFound), nothing changes; otherwise
        EXACTLY the baseline row of v is written (the open finding C13-dry-run-writes-baseline),
        whatever the rest of the run announces; v the last file -> "nothing pending". *)
Section C13flags.
Variable hash : Type.
Variable hash_eqb : hash -> hash -> bool.
Variable HS : bytes -> hash.

Theorem C13_dry_run_flags :
  forall global n cf dir (d : cdb hash),
  let revs := read_revisions hash (d_tbl (cd_db d)) in
  let all := map tf_file dir in
  (revs <> [] -> snd (migrate_apply hash hash_eqb HS true global n cf dir d) = mkCdb true (cd_db d)) /\
  (revs = [] -> c_baseline cf = None ->
     snd (migrate_apply hash hash_eqb HS true global n cf dir d) = mkCdb true (cd_db d) /\
     (c_dirty cf = true -> c_allow_dirty cf = false ->
        fst (migrate_apply hash hash_eqb HS true global n cf dir d) = APend PNotClean) /\
     (c_dirty cf && negb (c_allow_dirty cf) = false -> files_from_last_checkpoint all = [] ->
        fst (migrate_apply hash hash_eqb HS true global n cf dir d) = APend PNoPending)) /\
  (forall bv, revs = [] -> c_baseline cf = Some bv ->
     match files_last_index (fun f => bytes_eqb (f_version f) bv) (skip_checkpoints all) with
     | None => migrate_apply hash hash_eqb HS true global n cf dir d = (APend PBaselineNotFound, mkCdb true (cd_db d))
     | Some b =>
         snd (migrate_apply hash hash_eqb HS true global n cf dir d) =
           mkCdb true (mkDb (d_journal (cd_db d)) (tbl_put (d_tbl (cd_db d)) (baseline_rev bv))) /\
         (skipn (S b) (skip_checkpoints all) = [] ->
            fst (migrate_apply hash hash_eqb HS true global n cf dir d) = APend PNoPending)
     end).
Proof. exact (dry_run_flags hash hash_eqb HS). Qed.

(** The count argument never influences the state a dry run leaves, and a count that is not
    smaller than the number of pending files is the same command as no count. *)
Theorem C13_dry_run_count :
  forall global n cf dir (d : cdb hash),
  snd (migrate_apply hash hash_eqb HS true global n cf dir d) = snd (migrate_apply hash hash_eqb HS true global 0 cf dir d) /\
  (forall ps, fst (pending cf (map tf_file dir) (read_revisions hash (d_tbl (cd_db d)))) = PFiles ps ->
     length ps <= n ->
     migrate_apply hash hash_eqb HS true global n cf dir d = migrate_apply hash hash_eqb HS true global 0 cf dir d).
Proof. exact (dry_run_count hash hash_eqb HS). Qed.

(** The command in front of [migrate_apply]: --baseline together with --allow-dirty is refused
    (after mrrw.Migrate: the table exists, nothing else happens -- with or without --dry-run);
    every other flag combination IS [migrate_apply]. *)
Theorem C13_dry_run_flags_exclusive :
  forall dry global n cf dir (d : cdb hash),
  (forall bv, c_baseline cf = Some bv -> c_allow_dirty cf = true ->
     migrate_apply_cmd hash hash_eqb HS dry global n cf dir d = (CmdFlagsExclusive, mkCdb true (cd_db d))) /\
  (c_baseline cf = None \/ c_allow_dirty cf = false ->
     migrate_apply_cmd hash hash_eqb HS dry global n cf dir d =
     (Cmd (fst (migrate_apply hash hash_eqb HS dry global n cf dir d)),
      snd (migrate_apply hash hash_eqb HS dry global n cf dir d))).
Proof.
  intros dry global n cf dir d. unfold migrate_apply_cmd, flags_exclusive. split.
  - intros bv Hb Ha. rewrite Hb, Ha. reflexivity.
  - intros [Hb|Ha]; [rewrite Hb|rewrite Ha, andb_false_r]; cbn;
      destruct (migrate_apply hash hash_eqb HS dry global n cf dir d); reflexivity.
Qed.

End C13flags.
Print Assumptions C13_dry_run_flags_exclusive.
Print Assumptions C13_dry_run_flags.
Print Assumptions C13_dry_run_count.

Example C13_dry_run_flags_nonvacuous :
  let fresh := mkCdb false (mkDb [] []) : cdb bytes in
  let hist := mkCdb true (mkDb [s 1; s 2] [mkRev [49%N] 2 2 [] false 2%N]) : cdb bytes in
  let run cf d := migrate_apply bytes bytes_eqb (fun b => b) true TxFile 0 cf ex_dir d in
  (* --baseline 1 on a fresh database: the row is written; with a history: ignored *)
  map (@r_version bytes) (d_tbl (cd_db (snd (run (mkCfg Linear (Some [49%N]) false true) fresh)))) = [[49%N]] /\
  snd (run (mkCfg Linear (Some [49%N]) false true) hist) = hist /\
  (* unknown baseline version; dirty without --allow-dirty *)
  fst (run (mkCfg Linear (Some [57%N]) false true) fresh) = APend PBaselineNotFound /\
  fst (run (mkCfg Linear None false true) fresh) = APend PNotClean /\
  snd (run (mkCfg Linear None false true) hist) = hist.
Proof. vm_compute. repeat split; reflexivity. Qed.
