(** C13 -- failure atomicity follows the transaction mode (model M-TX of the
    `migrate apply` loop over M-EXEC). Engine assumption (named in the trusted
    base): a transaction is atomic -- its effects reach the committed state
    only through Commit. The dry-run and `schema apply` clauses of the
    property are decided by the oracle stage only (see DESIGN.md, C13). *)
From Coq Require Import List NArith Bool Arith.
From Atlas Require Import Base.Bytes Base.Stutter Exec.ExecModel Exec.ExecProofs Exec.StepProofs Exec.PendingModel Exec.PendingProofs
  Exec.RunModel Exec.TxModel Exec.TxProofs Exec.RunProofs Exec.CrashProofs.
Import ListNotations.

Section C13.
Variable hash : Type.
Variable hash_eqb : hash -> hash -> bool.
Variable HS : bytes -> hash.

(** all: whatever fails (a statement at any position of any file, an invalid
    directive, Pending), the database and the revision table are exactly as
    before the command; and every intermediate crash point sees that state. *)
Theorem C13_fail_all :
  forall (n : nat) (dir : list (tfile)) (c : db hash) o c' tr,
  apply_run hash hash_eqb HS TxAll n dir c = (o, c', tr) ->
  (o <> ADone -> c' = c) /\
  (forall p d, In (p, d) tr -> d = c \/ (p = AfterCommit /\ d = c' /\ o = ADone)).
Proof. exact (apply_run_all_atomic hash hash_eqb HS). Qed.

(** file: when the loop stops (for any reason) the committed state is the one
    reached after the last completely applied file: there is k such that the
    first k files each ran to completion from the state left by their
    predecessors, and the result is exactly the state after those k files
    ([boundary]); no transaction is left open. *)
Theorem C13_fail_file :
  forall (files : list tfile) (c : db hash),
  no_directive files ->
  forall o c' w' tr, apply_loop hash hash_eqb HS TxFile files c None = (o, c', w', tr) ->
  w' = None /\
  (exists k, k <= length files /\ c' = boundary hash hash_eqb HS files c k /\
             (o = ADone -> k = length files) /\
             (forall j, j < k ->
                 let cj := boundary hash hash_eqb HS files c j in
                 match nth_error files j with
                 | Some f => fst (fst (fst (execute hash hash_eqb HS (tf_file f) (d_tbl cj)
                                   (bad_faults f (stored_applied hash (d_tbl cj) (f_version (tf_file f))))))) = ODone
                 | None => False
                 end)) /\
  (forall p d, In (p, d) tr -> exists k, k <= length files /\ d = boundary hash hash_eqb HS files c k).
Proof. exact (apply_loop_file hash hash_eqb HS). Qed.

(** none: a failing file leaves exactly the successful prefix of its statements
    in the database, and the revision table Execute wrote (partial revision with
    the error recorded, see C09/C12 for its content). *)
Theorem C13_fail_none :
  forall (f : tfile) (c : db hash),
  mode_for TxNone f = Some TxNone ->
  forall o t' fs' es,
    execute hash hash_eqb HS (tf_file f) (d_tbl c)
            (bad_faults f (stored_applied hash (d_tbl c) (f_version (tf_file f)))) = (o, t', fs', es) ->
    o <> ODone ->
    forall rest, exists tr,
      apply_loop hash hash_eqb HS TxNone (f :: rest) c None
      = (AFail o, mkDb (d_journal c ++ map snd (journal es)) t', None, tr).
Proof. exact (apply_loop_none_single hash hash_eqb HS). Qed.

(** Fix and re-run. Setting: directory [dir] (files strictly sorted by version,
    no checkpoint file, no txmode directive; any file may carry a failing
    statement [tf_bad]); [c0] a file boundary ([Bd], e.g. the empty database);
    the command fails on a statement ([AFail OStmtErr]) in any mode, with any
    count. [fixed dir] = the same files with no failing statement. Then
    `migrate apply` on the fixed directory from the state the failure left, and
    the same command from [c0] (the run without failure), both succeed and end
    in a completed state -- every statement's effect exactly once, in plan
    order, every revision Applied = Total = statement count -- with equal
    journals. (Equality of the revision rows beyond version/Applied/Total --
    cleared partial hashes and error flag -- is compared by the tie and the
    oracle, not proved.) *)
Theorem C13_fix_rerun :
  (forall a b, hash_eqb a b = true <-> a = b) ->
  forall (dir : list tfile),
  sorted_files (map tf_file dir) -> (forall f, In f (map tf_file dir) -> f_ckpt f = false) ->
  no_directive dir ->
  forall global (c0 : db hash) k0 n o c1 tr,
  Bd hash HS dir c0 k0 ->
  apply_run hash hash_eqb HS global n dir c0 = (o, c1, tr) -> o = AFail OStmtErr ->
  exists o2 c2 tr2 o3 c3 tr3,
    apply_run hash hash_eqb HS global 0 (fixed dir) c1 = (o2, c2, tr2) /\
    (o2 = ADone \/ o2 = APend PNoPending) /\
    apply_run hash hash_eqb HS global 0 (fixed dir) c0 = (o3, c3, tr3) /\
    (o3 = ADone \/ o3 = APend PNoPending) /\
    completed hash dir c2 /\ completed hash dir c3 /\ d_journal c2 = d_journal c3.
Proof.
  intros Hspec dir Hs Hn Hd global c0 k0 n o c1 tr.
  exact (fix_rerun_lemma hash hash_eqb HS Hspec dir Hs Hn Hd global c0 k0 n o c1 tr).
Qed.

End C13.

Print Assumptions C13_fail_all.
Print Assumptions C13_fail_file.
Print Assumptions C13_fail_none.
Print Assumptions C13_fix_rerun.

(** Non-vacuity: two files, the second one failing at its second statement. *)
Definition s (n : N) : bytes := [40%N; n; 41%N].
Definition ex_dir : list tfile :=
  [ mkTfile (mkFile [49%N] [s 1; s 2] false) None None;
    mkTfile (mkFile [50%N] [s 3; s 4] false) None (Some 1) ].
Definition ex_db0 : db bytes := mkDb [] [].

Example C13_all_nonvacuous :
  let '(o, c', _) := apply_run bytes bytes_eqb (fun b => b) TxAll 0 ex_dir ex_db0 in
  o = AFail OStmtErr /\ c' = ex_db0.
Proof. vm_compute. split; reflexivity. Qed.

Example C13_file_nonvacuous :
  let '(o, c', _) := apply_run bytes bytes_eqb (fun b => b) TxFile 0 ex_dir ex_db0 in
  o = AFail OStmtErr /\ d_journal c' = [s 1; s 2].
Proof. vm_compute. split; reflexivity. Qed.

Example C13_none_nonvacuous :
  let '(o, c', _) := apply_run bytes bytes_eqb (fun b => b) TxNone 0 ex_dir ex_db0 in
  o = AFail OStmtErr /\ d_journal c' = [s 1; s 2; s 3].
Proof. vm_compute. split; reflexivity. Qed.

Example C13_fix_rerun_nonvacuous :
  let run m := apply_run bytes bytes_eqb (fun b => b) m 0 ex_dir ex_db0 in
  forallb (fun m =>
    let '(o, c1, _) := run m in
    let '(o2, c2, _) := apply_run bytes bytes_eqb (fun b => b) m 0 (fixed ex_dir) c1 in
    match o, o2 with
    | AFail OStmtErr, ADone =>
        bytes_eqb (concat (d_journal c2)) (concat [s 1; s 2; s 3; s 4]) && (length (d_journal c2) =? 4) &&
        forallb (fun r => (r_applied r =? r_total r) && negb (r_err r)) (d_tbl c2)
    | _, _ => false
    end) [TxNone; TxFile; TxAll] = true /\
  Bd bytes (fun b => b) ex_dir ex_db0 0.
Proof. split; [vm_compute; reflexivity|apply Bd_empty]. Qed.
