(** C13 -- failure atomicity follows the transaction mode (model M-TX of the
    `migrate apply` loop over M-EXEC). Engine assumption (named in the trusted
    base): a transaction is atomic -- its effects reach the committed state
    only through Commit. The dry-run clause is about [migrate_apply]
    (Exec/DryModel.v: mrrw.Migrate, Pending with the real writer, the loop under
    the dry-run wrappers), the `schema apply` clause about [apply_changes]
    (applyChanges + the SQLite transaction opener). *)
From Coq Require Import List NArith Bool Arith.
From Atlas Require Import Base.Bytes Base.Stutter Exec.ExecModel Exec.ExecProofs Exec.StepProofs Exec.PendingModel Exec.PendingProofs
  Exec.RunModel Exec.TxModel Exec.TxProofs Exec.RunProofs Exec.CrashProofs Exec.DryModel Exec.DryProofs.
Import ListNotations.

Section C13.
Variable hash : Type.
Variable hash_eqb : hash -> hash -> bool.
Variable HS : bytes -> hash.

(** all: whatever fails (a statement at any position of any file, an invalid
    directive, Pending), the database and the revision table are exactly as
    before the command; and every intermediate crash point sees that state. *)
Theorem C13_fail_all :
  forall (n : nat) (dir : list (tfile)) (c : db hash) o c' tr,
  apply_run hash hash_eqb HS TxAll n dir c = (o, c', tr) ->
  (o <> ADone -> c' = c) /\
  (forall p d, In (p, d) tr -> d = c \/ (p = AfterCommit /\ d = c' /\ o = ADone)).
Proof. exact (apply_run_all_atomic hash hash_eqb HS). Qed.

(** file: when the loop stops (for any reason) the committed state is the one
    reached after the last completely applied file: there is k such that the
    first k files each ran to completion from the state left by their
    predecessors, and the result is exactly the state after those k files
    ([boundary]); no transaction is left open. *)
Theorem C13_fail_file :
  forall (files : list tfile) (c : db hash),
  no_directive files ->
  forall o c' w' tr, apply_loop hash hash_eqb HS TxFile files c None = (o, c', w', tr) ->
  w' = None /\
  (exists k, k <= length files /\ c' = boundary hash hash_eqb HS files c k /\
             (o = ADone -> k = length files) /\
             (forall j, j < k ->
                 let cj := boundary hash hash_eqb HS files c j in
                 match nth_error files j with
                 | Some f => fst (fst (fst (execute hash hash_eqb HS (tf_file f) (d_tbl cj)
                                   (bad_faults f (stored_applied hash (d_tbl cj) (f_version (tf_file f))))))) = ODone
                 | None => False
                 end)) /\
  (forall p d, In (p, d) tr -> exists k, k <= length files /\ d = boundary hash hash_eqb HS files c k).
Proof. exact (apply_loop_file hash hash_eqb HS). Qed.

(** none: a failing file leaves exactly the successful prefix of its statements
    in the database, and the revision table Execute wrote (partial revision with
    the error recorded, see C09/C12 for its content). *)
Theorem C13_fail_none :
  forall (f : tfile) (c : db hash),
  mode_for TxNone f = Some TxNone ->
  forall o t' fs' es,
    execute hash hash_eqb HS (tf_file f) (d_tbl c)
            (bad_faults f (stored_applied hash (d_tbl c) (f_version (tf_file f)))) = (o, t', fs', es) ->
    o <> ODone ->
    forall rest, exists tr,
      apply_loop hash hash_eqb HS TxNone (f :: rest) c None
      = (AFail o, mkDb (d_journal c ++ map snd (journal es)) t', None, tr).
Proof. exact (apply_loop_none_single hash hash_eqb HS). Qed.

(** Fix and re-run. Setting: the directory is [dskip ++ dir], files strictly
    sorted by version; [dir] = the directory from its last checkpoint file on;
    any file may carry a failing statement [tf_bad] and a txmode directive the
    global mode [g] accepts ([valid]); [c0] is a file boundary ([Bd], e.g. the
    empty database) whose revision rows are literally completed revisions ([LK]);
    the command fails on a statement ([AFail OStmtErr]) in any mode, with any
    count. [fixed dir] = the same files with no failing statement. Then `migrate
    apply` on the fixed directory from the state the failure left, and the same
    command from [c0] (the run without failure), both succeed and end in
    LITERALLY THE SAME STATE [final_db]: journal = every statement exactly once in
    plan order; one revision row per file with Applied = Total = statement count,
    no partial hashes, no error, type "execute". *)
Theorem C13_fix_rerun :
  (forall a b, hash_eqb a b = true <-> a = b) ->
  forall (dskip dir : list tfile),
  sorted_files (map tf_file dskip ++ map tf_file dir) ->
  from_last_ckpt (map tf_file dskip ++ map tf_file dir) = map tf_file dir ->
  forall g (c0 : db hash) k0 n o c1 tr,
  valid g dir -> Bd hash HS dir c0 k0 -> LK hash dir (d_tbl c0) k0 ->
  apply_run hash hash_eqb HS g n (dskip ++ dir) c0 = (o, c1, tr) -> o = AFail OStmtErr ->
  exists o2 c2 tr2 o3 c3 tr3,
    apply_run hash hash_eqb HS g 0 (dskip ++ fixed dir) c1 = (o2, c2, tr2) /\
    (o2 = ADone \/ o2 = APend PNoPending) /\
    apply_run hash hash_eqb HS g 0 (dskip ++ fixed dir) c0 = (o3, c3, tr3) /\
    (o3 = ADone \/ o3 = APend PNoPending) /\
    c2 = c3 /\
    c2 = mkDb (map snd (plan (map tf_file dir)))
              (map (fun f => mkRev (f_version f) (length (f_stmts f)) (length (f_stmts f)) [] false 2%N)
                   (map tf_file dir)).
Proof.
  intros Hspec dskip dir Hs Hf g c0 k0 n o c1 tr.
  exact (fix_rerun_lemma hash hash_eqb HS Hspec dskip dir Hs Hf g c0 k0 n o c1 tr).
Qed.

(** ** --dry-run changes nothing -- except ...

    [migrate_apply dry global n cf dir d]: one `atlas migrate apply` on the target
    [d] = (does atlas_schema_revisions exist, journal, revision rows). *)

(** Without --dry-run (and without baseline) the command is the [apply_run] of
    the theorems above; it leaves the revisions table behind. *)
Theorem C13_apply_is_apply_run :
  forall global n dir b (c : db hash),
  migrate_apply hash hash_eqb HS false global n (mkCfg Linear None true true) dir (mkCdb b c) =
  (let '(o, c', _) := apply_run hash hash_eqb HS global n dir c in (o, mkCdb true c')).
Proof. exact (migrate_apply_is_apply_run hash hash_eqb HS). Qed.

(** The exact characterisation that holds: if the revisions table already exists
    and no --baseline is given, `migrate apply --dry-run` leaves the table's
    existence, every journal row and every revision row unchanged -- for every
    directory (failing statements, txmode directives valid or not, checkpoint
    files), every tx-mode, count, execution order and dirty/allow-dirty setting. *)
Theorem C13_dry_run_except :
  forall global n cf dir (d : cdb hash),
  cd_revtable d = true -> c_baseline cf = None ->
  snd (migrate_apply hash hash_eqb HS true global n cf dir d) = d.
Proof. exact (dry_run_except_lemma hash hash_eqb HS). Qed.

(** ... and in general: the only things a dry run changes are the creation of the
    revisions table and the baseline revision that Pending writes. *)
Theorem C13_dry_run_effect :
  forall global n cf dir (d : cdb hash),
  snd (migrate_apply hash hash_eqb HS true global n cf dir d) =
  mkCdb true (match snd (pending cf (map tf_file dir) (read_revisions hash (d_tbl (cd_db d)))) with
              | Some r => mkDb (d_journal (cd_db d)) (tbl_put (d_tbl (cd_db d)) r)
              | None => cd_db d
              end).
Proof. exact (dry_run_effect hash hash_eqb HS). Qed.

End C13.

(** The full statement ("any command run with --dry-run leaves schema, data and
    revision history unchanged") is FALSE of the faithful model -- two witnesses,
    both reproduced on the real CLI (open known findings
    C13-dry-run-creates-revisions-table, C13-dry-run-writes-baseline). *)
Definition dr_dir : list tfile :=
  [ mkTfile (mkFile [49%N] [[65%N]] false) None None; mkTfile (mkFile [50%N] [[66%N]] false) None None ].

Theorem C13_dry_run_refuted_creates_table :
  exists global n cf dir (d : cdb bytes),
    c_baseline cf = None /\
    snd (migrate_apply bytes bytes_eqb (fun b => b) true global n cf dir d) <> d /\
    cd_db (snd (migrate_apply bytes bytes_eqb (fun b => b) true global n cf dir d)) = cd_db d /\
    cd_revtable d = false /\
    cd_revtable (snd (migrate_apply bytes bytes_eqb (fun b => b) true global n cf dir d)) = true.
Proof.
  exists TxFile, 0, (mkCfg Linear None true true), dr_dir, (mkCdb false (mkDb [] [])).
  split; [reflexivity|]. split; [vm_compute; discriminate|]. vm_compute. repeat split; reflexivity.
Qed.

Theorem C13_dry_run_refuted_writes_baseline :
  exists global n cf dir (d : cdb bytes),
    cd_revtable d = true /\
    snd (migrate_apply bytes bytes_eqb (fun b => b) true global n cf dir d) <> d /\
    d_tbl (cd_db d) = [] /\
    map (fun r => (r_version r, r_kind r))
        (d_tbl (cd_db (snd (migrate_apply bytes bytes_eqb (fun b => b) true global n cf dir d)))) = [([49%N], 1%N)].
Proof.
  exists TxFile, 0, (mkCfg Linear (Some [49%N]) false true), dr_dir, (mkCdb true (mkDb [] [])).
  split; [reflexivity|]. split; [vm_compute; discriminate|]. vm_compute. split; reflexivity.
Qed.

(** ** `schema apply` is all-or-nothing in its default transaction mode

    [apply_changes txmode stmts bad viol d]: the planned statements [stmts] are
    opaque; statement number [bad] (if any) fails; [viol] = the foreign-key check
    before commit finds a violation that was not there when the transaction was
    opened. State [d] = (committed effects, the connection's foreign_keys pragma).
    In any transactional mode (the default is "file"): whatever fails, at any
    position, the committed state AND the pragma are exactly as before; success
    commits all statements; it succeeds iff no statement of the plan fails and the
    foreign-key check is clean. *)
Theorem C13_schema_apply_atomic :
  forall txmode stmts bad viol (d : sdb) o d' es,
  txmode <> TxNone ->
  apply_changes txmode stmts bad viol d = (o, d', es) ->
  (o <> SOk -> d' = d) /\
  (o = SOk -> d' = mkSdb (s_effects d ++ stmts) (s_fk d)) /\
  (o = SOk <-> (forall b, bad = Some b -> length stmts <= b) /\ (s_fk d && viol = false)) /\
  (forall k, o = SApplyErr k -> bad = Some k /\ k < length stmts).
Proof. exact schema_apply_atomic_lemma. Qed.

(** --tx-mode none: exactly the successful prefix stays. *)
Theorem C13_schema_apply_none :
  forall stmts bad viol (d : sdb) o d' es,
  apply_changes TxNone stmts bad viol d = (o, d', es) ->
  s_fk d' = s_fk d /\
  match o with
  | SOk => s_effects d' = s_effects d ++ stmts
  | SApplyErr k => bad = Some k /\ k < length stmts /\ s_effects d' = s_effects d ++ firstn k stmts
  | SFkMismatch => False
  end.
Proof. exact schema_apply_none_lemma. Qed.

Print Assumptions C13_fail_all.
Print Assumptions C13_fail_file.
Print Assumptions C13_fail_none.
Print Assumptions C13_fix_rerun.
Print Assumptions C13_apply_is_apply_run.
Print Assumptions C13_dry_run_except.
Print Assumptions C13_dry_run_effect.
Print Assumptions C13_dry_run_refuted_creates_table.
Print Assumptions C13_dry_run_refuted_writes_baseline.
Print Assumptions C13_schema_apply_atomic.
Print Assumptions C13_schema_apply_none.

(** Non-vacuity: two files, the second one failing at its second statement. *)
Definition s (n : N) : bytes := [40%N; n; 41%N].
Definition ex_dir : list tfile :=
  [ mkTfile (mkFile [49%N] [s 1; s 2] false) None None;
    mkTfile (mkFile [50%N] [s 3; s 4] false) None (Some 1) ].
Definition ex_db0 : db bytes := mkDb [] [].

Example C13_all_nonvacuous :
  let '(o, c', _) := apply_run bytes bytes_eqb (fun b => b) TxAll 0 ex_dir ex_db0 in
  o = AFail OStmtErr /\ c' = ex_db0.
Proof. vm_compute. split; reflexivity. Qed.

Example C13_file_nonvacuous :
  let '(o, c', _) := apply_run bytes bytes_eqb (fun b => b) TxFile 0 ex_dir ex_db0 in
  o = AFail OStmtErr /\ d_journal c' = [s 1; s 2].
Proof. vm_compute. split; reflexivity. Qed.

Example C13_none_nonvacuous :
  let '(o, c', _) := apply_run bytes bytes_eqb (fun b => b) TxNone 0 ex_dir ex_db0 in
  o = AFail OStmtErr /\ d_journal c' = [s 1; s 2; s 3].
Proof. vm_compute. split; reflexivity. Qed.

Example C13_fix_rerun_nonvacuous :
  let run m := apply_run bytes bytes_eqb (fun b => b) m 0 ex_dir ex_db0 in
  forallb (fun m =>
    let '(o, c1, _) := run m in
    let '(o2, c2, _) := apply_run bytes bytes_eqb (fun b => b) m 0 (fixed ex_dir) c1 in
    match o, o2 with
    | AFail OStmtErr, ADone =>
        bytes_eqb (concat (d_journal c2)) (concat [s 1; s 2; s 3; s 4]) && (length (d_journal c2) =? 4) &&
        forallb (fun r => (r_applied r =? r_total r) && negb (r_err r) && (length (r_hashes r) =? 0)) (d_tbl c2)
    | _, _ => false
    end) [TxNone; TxFile; TxAll] = true /\
  Bd bytes (fun b => b) ex_dir ex_db0 0 /\ LK bytes ex_dir (d_tbl ex_db0) 0 /\
  valid TxNone ex_dir /\ valid TxFile ex_dir /\ valid TxAll ex_dir.
Proof.
  split; [vm_compute; reflexivity|]. split; [apply Bd_empty|]. split; [apply LK_empty|].
  repeat split; intros f [<-|[<-|[]]]; discriminate.
Qed.

(** dry run on a database with history: something would be executed (file 2 is
    pending), nothing changes. *)
Example C13_dry_run_except_nonvacuous :
  let d := mkCdb true (mkDb [s 1; s 2] [mkRev [49%N] 2 2 [] false 2%N]) in
  migrate_apply bytes bytes_eqb (fun b => b) true TxNone 0 (mkCfg Linear None true true) ex_dir d = (ADone, d) /\
  fst (migrate_apply bytes bytes_eqb (fun b => b) false TxNone 0 (mkCfg Linear None true true) ex_dir d) = AFail OStmtErr.
Proof. vm_compute. split; reflexivity. Qed.

Example C13_schema_apply_nonvacuous :
  let '(o, d', es) := apply_changes TxFile [s 1; s 2; s 3] (Some 2) false (mkSdb [s 9] true) in
  o = SApplyErr 2 /\ d' = mkSdb [s 9] true /\ length es = 8 /\
  let '(o2, d2, _) := apply_changes TxNone [s 1; s 2; s 3] (Some 2) false (mkSdb [s 9] true) in
  o2 = SApplyErr 2 /\ d2 = mkSdb [s 9; s 1; s 2] true /\
  let '(o3, d3, _) := apply_changes TxFile [s 1; s 2] None true (mkSdb [s 9] true) in
  o3 = SFkMismatch /\ d3 = mkSdb [s 9] true.
Proof. vm_compute. repeat split; reflexivity. Qed.
