(** C13 -- failure atomicity follows the transaction mode (model M-TX of the
    `migrate apply` loop over M-EXEC). Engine assumption (named in the trusted
    base): a transaction is atomic -- its effects reach the committed state
    only through Commit. The dry-run and `schema apply` clauses of the
    property are decided by the oracle stage only (see DESIGN.md, C13). *)
From Coq Require Import List NArith Bool Arith.
From Atlas Require Import Base.Bytes Exec.ExecModel Exec.PendingModel Exec.RunModel Exec.TxModel Exec.TxProofs.
Import ListNotations.

Section C13.
Variable hash : Type.
Variable hash_eqb : hash -> hash -> bool.
Variable HS : bytes -> hash.

(** all: whatever fails (a statement at any position of any file, an invalid
    directive, Pending), the database and the revision table are exactly as
    before the command; and every intermediate crash point sees that state. *)
Theorem C13_fail_all :
  forall (n : nat) (dir : list (tfile)) (c : db hash) o c' tr,
  apply_run hash hash_eqb HS TxAll n dir c = (o, c', tr) ->
  (o <> ADone -> c' = c) /\
  (forall p d, In (p, d) tr -> d = c \/ (p = AfterCommit /\ d = c' /\ o = ADone)).
Proof. exact (apply_run_all_atomic hash hash_eqb HS). Qed.

(** file: when the loop stops (for any reason) the committed state is the one
    reached after the last completely applied file: there is k such that the
    first k files each ran to completion from the state left by their
    predecessors, and the result is exactly the state after those k files
    ([boundary]); no transaction is left open. *)
Theorem C13_fail_file :
  forall (files : list tfile) (c : db hash),
  no_directive files ->
  forall o c' w' tr, apply_loop hash hash_eqb HS TxFile files c None = (o, c', w', tr) ->
  w' = None /\
  (exists k, k <= length files /\ c' = boundary hash hash_eqb HS files c k /\
             (o = ADone -> k = length files) /\
             (forall j, j < k ->
                 let cj := boundary hash hash_eqb HS files c j in
                 match nth_error files j with
                 | Some f => fst (fst (fst (execute hash hash_eqb HS (tf_file f) (d_tbl cj)
                                   (bad_faults f (stored_applied hash (d_tbl cj) (f_version (tf_file f))))))) = ODone
                 | None => False
                 end)) /\
  (forall p d, In (p, d) tr -> exists k, k <= length files /\ d = boundary hash hash_eqb HS files c k).
Proof. exact (apply_loop_file hash hash_eqb HS). Qed.

(** none: a failing file leaves exactly the successful prefix of its statements
    in the database, and the revision table Execute wrote (partial revision with
    the error recorded, see C09/C12 for its content). *)
Theorem C13_fail_none :
  forall (f : tfile) (c : db hash),
  mode_for TxNone f = Some TxNone ->
  forall o t' fs' es,
    execute hash hash_eqb HS (tf_file f) (d_tbl c)
            (bad_faults f (stored_applied hash (d_tbl c) (f_version (tf_file f)))) = (o, t', fs', es) ->
    o <> ODone ->
    forall rest, exists tr,
      apply_loop hash hash_eqb HS TxNone (f :: rest) c None
      = (AFail o, mkDb (d_journal c ++ map snd (journal es)) t', None, tr).
Proof. exact (apply_loop_none_single hash hash_eqb HS). Qed.

End C13.

Print Assumptions C13_fail_all.
Print Assumptions C13_fail_file.
Print Assumptions C13_fail_none.

(** Non-vacuity: two files, the second one failing at its second statement. *)
Definition s (n : N) : bytes := [40%N; n; 41%N].
Definition ex_dir : list tfile :=
  [ mkTfile (mkFile [49%N] [s 1; s 2] false) None None;
    mkTfile (mkFile [50%N] [s 3; s 4] false) None (Some 1) ].
Definition ex_db0 : db bytes := mkDb [] [].

Example C13_all_nonvacuous :
  let '(o, c', _) := apply_run bytes bytes_eqb (fun b => b) TxAll 0 ex_dir ex_db0 in
  o = AFail OStmtErr /\ c' = ex_db0.
Proof. vm_compute. split; reflexivity. Qed.

Example C13_file_nonvacuous :
  let '(o, c', _) := apply_run bytes bytes_eqb (fun b => b) TxFile 0 ex_dir ex_db0 in
  o = AFail OStmtErr /\ d_journal c' = [s 1; s 2].
Proof. vm_compute. split; reflexivity. Qed.

Example C13_none_nonvacuous :
  let '(o, c', _) := apply_run bytes bytes_eqb (fun b => b) TxNone 0 ex_dir ex_db0 in
  o = AFail OStmtErr /\ d_journal c' = [s 1; s 2; s 3].
Proof. vm_compute. split; reflexivity. Qed.
