(** C16 -- plans for a single-schema connection are schema-agnostic; a requested
    qualifier is always used.  Only statements, [exact], [Print Assumptions] and
    non-vacuity [Example]s live here.

    Models: Qual/Builder.v (sqlx.Builder, PG typeIdent/schemaPrefix), Qual/Scope.v
    (sqlx.CheckChangesScope), Qual/RefSkeleton.v (statement forms of the MySQL and
    PostgreSQL planners).  *)
From Coq Require Import List NArith ZArith Bool.
From Atlas Require Import Base.Bytes Qual.Builder Qual.BuilderProofs Qual.Scope Qual.ScopeProofs
  Qual.RefSkeleton Qual.RefSkeletonProofs Qual.Lexq Qual.LexqProofs Qual.Replay Qual.ReplayProofs Qual.ChainEnd
  Qual.RefSkeletonSeq Qual.StmtLex Qual.StmtLexProofs Qual.Checkpoint Qual.CheckpointProofs.
Import ListNotations.
Open Scope N_scope.

(** * 1. The Builder *)

(** 1a. For EVERY call sequence [ops1 ++ o :: ops2] on EVERY builder: the qualifying call
    [o] (Table/View/Func/Proc, RefTable, TableColumn/TableResource/ViewResource,
    SchemaResource, FuncCall/ProcCall) appends the rendered identifier chain
    [emitted_chain (Schema) o] at the end of what was written so far, and no later call
    changes it ([post] is what follows).  [emitted_chain] is, by 1b, free of a schema
    component when the qualifier is [""], starts with [q] when it is [q], and with the
    object's own schema when there is none.  Names must be non-empty (an empty name makes
    [Ident] write nothing and the following [rewriteLastByte] overwrite a foreign byte). *)
Theorem C16_builder :
  forall (b : builder) (ops1 : list op) (o : op) (ops2 : list op) (l : list bytes),
  let b1 := run b ops1 in
  panicked b1 = false ->
  emitted_chain (bschema b1) o = Some l ->
  (match o with
   | OTable t => nonempty (o_name t)
   | OTableResource t r => nonempty (o_name t) /\ nonempty r
   | OSchemaResource _ n => nonempty n
   | OFuncCall f _ => nonempty (o_name f)
   | ORefTable _ p => nonempty (o_name p)
   | _ => True
   end) ->
  exists post, out (run b (ops1 ++ o :: ops2)) = out b1 ++ render_chain (qo b1) (qc b1) l ++ post.
Proof. exact builder_chain_persists. Qed.

(** 1b. Which chain: [Some ""] -> no schema component; [Some q] -> exactly [q] first;
    [None] -> the object's own schema (if it has a name); RefTable's documented exception
    (qualifier [""], both schemas named and different) -> the parent's own schema. *)
Theorem C16_builder_chain :
  forall (s : option bytes) (top : bytes) (children : list bytes),
  chain_of (Some []) s top children = top :: children /\
  (forall q, q <> [] -> chain_of (Some q) s top children = q :: top :: children) /\
  chain_of None s top children = opt_name s ++ top :: children /\
  (forall bs c p, emitted_chain bs (ORefTable c p) =
     Some (if cross_ref bs c p then [VName (o_schema p); o_name p]
           else chain_of bs (o_schema p) (o_name p) [])) /\
  (forall bs c p, cross_ref bs c p = true ->
     bs = Some [] /\ VName (o_schema c) <> [] /\ VName (o_schema p) <> [] /\
     SameSchema (o_schema c) (o_schema p) = false).
Proof. exact builder_chain_cases. Qed.

(** 1c. The qualifier survives every call but Clone (Go's Clone drops Schema/Indent/level). *)
Theorem C16_builder_schema_kept :
  forall ops b, no_clone ops = true -> bschema (run b ops) = bschema b.
Proof. exact run_schema. Qed.

(** 1d. Byte for byte, a builder with qualifier [q] behaves like a builder without
    qualifier on objects that all live in schema [q] (cross-schema RefTable keeps the parent
    as it is) -- for every call sequence without Clone, no side condition on names. *)
Theorem C16_builder_requalify :
  forall q ops b, no_clone ops = true ->
  run (with_schema (Some q) b) ops = with_schema (Some q) (run (with_schema None b) (map (requalify q) ops)).
Proof. exact run_requalify. Qed.

(** 1e. Hence the statement text does not depend on the schemas of the objects: two call
    sequences that differ only in the [Schema] fields of their objects give the same bytes
    (no cross-schema RefTable among them). *)
Theorem C16_builder_agnostic :
  forall q ops ops' b,
  no_clone ops = true -> no_clone ops' = true ->
  forallb (no_cross q) ops = true -> forallb (no_cross q) ops' = true ->
  map erase ops = map erase ops' ->
  run (with_schema (Some q) b) ops = run (with_schema (Some q) b) ops'.
Proof. exact run_schema_independent. Qed.

(** 1f. PostgreSQL typeIdent / schemaPrefix, for every [strconv.Quote]. *)
Theorem C16_builder_pg :
  forall (quoteGo : bytes -> bytes) (ns : option bytes) (name : bytes),
  typeIdent quoteGo (Some []) ns name = quoteGo name /\
  schemaPrefix quoteGo (Some []) ns = [] /\
  (forall q, q <> [] ->
     typeIdent quoteGo (Some q) ns name = quoteGo q ++ [DOT] ++ quoteGo name /\
     schemaPrefix quoteGo (Some q) ns = quoteGo q ++ [DOT]) /\
  typeIdent quoteGo None ns name = typeIdent quoteGo (Some (VName ns)) None name /\
  schemaPrefix quoteGo None ns = schemaPrefix quoteGo (Some (VName ns)) None.
Proof. exact pg_ident_cases. Qed.

(** * 1g-1k (round 3). The qualifier is ONE quoted identifier, as the server reads it

    Full statement: for EVERY qualifier and every object name, what a qualifying call writes
    is read by the server (the dialect's rule for quoted identifiers: a quote character
    inside is written twice, the identifier closes at the first single one; Qual/Lexq.v
    [read_ident] / [lex_chain]) as exactly the chain [q; name; ...]: the requested qualifier
    stands as one quoted identifier in front of the reference.

    It holds since fix C16-ident-double-quote-char (/repo: "fix: sqlx.Builder.Ident writes a
    quote character inside a name twice"); the model's [Ident] follows it.
    (i) every chain, every name, followed by any text that does not continue it: *)
Theorem C16_one_identifier :
  forall qo qc l post,
  qc <> DOT -> l <> [] -> chain_ends qo qc post ->
  lex_chain qo qc (render_chain qo qc l ++ post) = Some (l, post).
Proof. exact render_chain_reads_back. Qed.

(** (ii) end to end for one qualifying call on ANY builder state: under qualifier [q],
    [mayQualify] (Table / TableResource / SchemaResource / ...) appends a text that reads as
    exactly [q :: top :: children] -- whatever schema the object itself carries, whatever
    characters the names hold; *)
Theorem C16_one_identifier_call :
  forall b s top children q,
  bschema b = Some q -> nonempty q -> nonempty top -> Forall nonempty children ->
  qc b <> DOT -> qc b <> SP ->
  exists pre, out (mayQualify b s top children) = out b ++ pre /\
    lex_chain (qo b) (qc b) pre = Some (q :: top :: children, [SP]).
Proof. exact mayQualify_reads_back. Qed.

(** (iii) ... and for a qualifying call ANYWHERE in a call sequence (1a + (i)): whatever is
    called later -- with non-empty names in the later qualifying calls, the caveat of 1a -- the
    byte after the chain is a separator (' ', ',', newline, ')', single quote, '('), never a
    '.', so the server reads exactly the emitted chain: under qualifier [q] it is [q :: names]
    (1b), the requested qualifier as ONE quoted identifier in front of the reference. *)
Theorem C16_one_identifier_sequence :
  forall (b : builder) (ops1 : list op) (o : op) (ops2 : list op) (l : list bytes),
  let b1 := run b ops1 in
  panicked b1 = false ->
  emitted_chain (bschema b1) o = Some l ->
  wf_op o -> Forall wf_op ops2 ->
  ~ sepA (qc b1) -> qc b1 <> DOT ->
  exists post,
    out (run b (ops1 ++ o :: ops2)) = out b1 ++ render_chain (qo b1) (qc b1) l ++ post /\
    lex_chain (qo b1) (qc b1) (render_chain (qo b1) (qc b1) l ++ post) = Some (l, post).
Proof. exact builder_reads_back. Qed.

(** For the record, the RAW spelling (the code before the fix: the name copied between the
    quotes) was not one identifier for a name with the quote character (formerly
    C16_one_identifier_refuted; witness: a, double quote, b), *)
Theorem C16_raw_spelling_refuted :
  exists q t, lex_chain 34 34 (raw_chain 34 34 [q; t] ++ [SP]) <> Some ([q; t], [SP]) /\
              lex_chain 34 34 (render_chain 34 34 [q; t] ++ [SP]) = Some ([q; t], [SP]).
Proof. exists w_q, w_t. exact raw_quote_refuted. Qed.

(** it read back as the name exactly for names free of the closing quote character, *)
Theorem C16_raw_spelling_exact :
  forall qc n rest, not_starts qc rest ->
  (read_ident qc (n ++ qc :: rest) = Some (n, rest) <-> quote_free qc n).
Proof. exact read_ident_raw_iff. Qed.

Theorem C16_raw_spelling_except :
  forall qo qc l post,
  qc <> DOT -> l <> [] -> Forall (quote_free qc) l -> chain_ends qo qc post ->
  lex_chain qo qc (raw_chain qo qc l ++ post) = Some (l, post).
Proof. exact raw_chain_reads_back. Qed.

(** and on those names both spellings are the same bytes (the fix changes nothing there). *)
Theorem C16_raw_spelling_same :
  forall o c n, quote_free c n -> render_ident o c n = raw_ident o c n.
Proof. exact render_ident_quote_free. Qed.

(** 1l. One plan, one namespace (PostgreSQL).  Full statement: typeIdent / schemaPrefix
    ([%q] = strconv.Quote) and Builder.Table write, for the same qualifier, texts that the
    server reads as the SAME identifier.  False for a qualifier with a backslash or a double
    quote (strconv.Quote escapes with a backslash, which PostgreSQL reads literally): *)
Theorem C16_pg_same_namespace_refuted :
  exists q t,
  quote_free DQ q /\
  lex_chain DQ DQ (render_chain DQ DQ [q; t] ++ [SP]) = Some ([q; t], [SP]) /\
  exists q', q' <> q /\
  lex_chain DQ DQ (typeIdent strconvQuote (Some q) None t ++ [SP]) = Some ([q'; t], [SP]).
Proof.
  exists w_bs, w_t. destruct pg_two_namespaces as (A & B & C).
  split; [exact A|]. split; [exact B|].
  exists [97; 92; 92; 98]. split; [discriminate|exact C].
Qed.

(** it holds for the names strconv.Quote copies unchanged (printable ASCII but the double
    quote and the backslash): both spellings are byte-identical and read as [q; name]. *)
Theorem C16_pg_same_namespace_except :
  forall q ns name, q <> [] -> plain q -> plain name ->
  typeIdent strconvQuote (Some q) ns name = render_chain DQ DQ [q; name] /\
  schemaPrefix strconvQuote (Some q) ns = render_ident DQ DQ q ++ [DOT] /\
  lex_chain DQ DQ (typeIdent strconvQuote (Some q) ns name ++ [SP]) = Some ([q; name], [SP]).
Proof. exact pg_same_namespace. Qed.

(** * 2. The planners' statement forms (reference skeleton)

    Full statement: for EVERY change set the MySQL / PostgreSQL planners accept, every
    table, type, sequence and index reference of every planned statement and of every
    reverse statement is written through a qualifying call, hence (1a-1f) without a schema
    component under qualifier [""], with exactly [q] under [q], with the object's own schema
    otherwise; and no schema-level statement is planned.

    PARTIAL: it is proved of [plan_skel], a hand abstraction of the two planners (which
    references each statement form writes, through which call; fragment listed in
    Qual/RefSkeleton.v).  That [plan_skel] agrees with the Go planners is the tie (stage
    [skel]: identical reference chains, statement by statement, on every generated change
    set), not a proof; the fragment now includes ModifyColumn (enum types, int -> serial with
    its CREATE/DROP SEQUENCE statements), ModifyIndex, ModifyForeignKey, ModifyCheck and
    primary-key changes; serial -> other, generated / identity columns and the schema-level
    statements are covered by the oracle stage [plan] only.  With the C16 repairs (RenameObject through enumIdent, schemaPrefix for every
    DROP INDEX) no statement form is excluded any more; [reference r] leaves out only the NEW
    name of ALTER TYPE ... RENAME TO, which is a definition and bare by SQL syntax.

    Round 5: with fix C16-serial-enum-type-ident (alterType's "sequence was dropped" arm writes an
    enum type through enumIdent, like the default arm) the statement holds of the skeleton for EVERY
    change set again, serial <-> integer <-> enum changes and inspected sequences included.  BEFORE
    the fix that arm wrote FormatType(To) -- the enum type's raw name, neither quoted nor qualified
    (finding C16-serial-enum-type-raw, reproduced on the real code): C16_skeleton_before_fix. *)
Theorem C16_skeleton_partial :
  forall (pg : bool) (cs : list RefSkeleton.change),
  forall s r, In s (plan_skel pg cs) -> In r (s_refs s) -> reference r ->
  ref_chain (Some []) r = ref_names r /\
  (forall q, q <> [] -> ref_chain (Some q) r = q :: ref_names r) /\
  ref_chain None r = opt_name (ref_own r) ++ ref_names r.
Proof. exact skeleton_chains. Qed.

(** and no statement form writes a reference to an existing object through bare [Ident], nor raw *)
Theorem C16_skeleton_no_bare_reference :
  forall (pg : bool) (cs : list RefSkeleton.change) s n,
  In s (plan_skel pg cs) -> ~ In (RBare n) (s_refs s) /\ ~ In (RRaw n) (s_refs s).
Proof.
  intros pg cs s n Hs. pose proof (skeleton_refs_qualifying pg cs) as K.
  unfold stmts_ok in K. rewrite Forall_forall in K. specialize (K s Hs).
  unfold stmt_ok in K. rewrite Forall_forall in K. split; intros Hn; exact (K _ Hn).
Qed.

(** the formerly refuted case, now positive: a column of ANY table changed from a serial type (any
    SequenceName) to the enum type ns.n -- the type reference of the ALTER COLUMN ... TYPE clause goes
    through typeIdent: exactly [q; n] under a custom qualifier q, [n] under "" *)
Theorem C16_skeleton_serial_to_enum :
  forall o c ns n sn q,
  alter_type_refs o c (Some (ns, n)) (Some sn) None = [RType ns n] /\
  (q <> [] -> map (ref_chain (Some q)) (alter_type_refs o c (Some (ns, n)) (Some sn) None) = [[q; n]]) /\
  map (ref_chain (Some [])) (alter_type_refs o c (Some (ns, n)) (Some sn) None) = [[n]].
Proof. exact serial_to_enum_refs. Qed.

(** For the record, the code BEFORE the fix ([alter_type_refs_before_fix]): the same clause held the
    raw name -- the chain [n] whatever the qualifier, through no qualifying call -- and that was the
    only place (formerly C16_skeleton_refuted).  Reverting the fix makes stage [insp] report exactly
    these inputs (oracle class type-reference-raw). *)
Theorem C16_skeleton_before_fix :
  forall o c ns n sn q,
  (alter_type_refs_before_fix o c (Some (ns, n)) (Some sn) None = [RRaw n] /\
   map (ref_chain (Some q)) (alter_type_refs_before_fix o c (Some (ns, n)) (Some sn) None) = [[n]] /\
   ~ qualifying (RRaw n)) /\
  (forall te fs ts m, In (RRaw m) (alter_type_refs_before_fix o c te fs ts) ->
                      fs <> None /\ ts = None /\ exists ns', te = Some (ns', m)).
Proof.
  intros o c ns n sn q. split; [exact (serial_to_enum_refs_before_fix o c ns n sn q)|].
  intros te fs ts m. exact (raw_only_there o c te fs ts m).
Qed.

(** * 3. CheckChangesScope *)

(** Full statement (the property): for every qualifier, mode and change set in which every
    ModifySchema carries a named schema,
      [CheckChangesScope q mode cs = SOk <-> spec_accepts q mode cs]
    where [spec_accepts] = every change is allowed (no Add/DropSchema; ModifySchema only
    for in-place plans on the scoped schema) and at most ONE schema name is mentioned by
    tables, their enum columns, RenameTable, ModifySchema and the other change kinds.
    One direction holds (the repaired code never rejects what the property accepts): *)
Theorem C16_scope_sound :
  forall q mode cs, Forall named_modify cs ->
  spec_accepts q mode cs -> CheckChangesScope q mode cs = SOk.
Proof. exact scope_sound. Qed.

(** the other is FALSE of the code (enum columns / enum objects of another schema are
    accepted: pinned by sql/postgres TestPlanChanges/50): *)
Theorem C16_scope_refuted : accepts_too_much.
Proof. exact scope_refuted. Qed.

(** What does hold.  (i) the code's exact acceptance condition, no hypothesis: *)
Theorem C16_scope_code :
  forall q mode cs,
  CheckChangesScope q mode cs = SOk <->
  (forallb (change_allowed q mode) cs = true /\ (length (names_after cs []) <= 1)%nat).
Proof. exact check_accepts_iff. Qed.

(** (ii) the property itself on every change set outside the two remaining deviations: enum
    columns that name a schema name their table's, the object change kinds CheckChangesScope
    skips name no schema (and no ModifySchema of a nil / unnamed schema). *)
Theorem C16_scope_except :
  forall q mode cs, Forall local_change cs ->
  (CheckChangesScope q mode cs = SOk <-> spec_accepts q mode cs).
Proof. exact scope_except. Qed.

(** (iii) no panic (the fixed code, f5aa118) when every ModifySchema carries a schema. *)
Theorem C16_scope_no_panic :
  forall q mode cs, no_nil_schema cs -> CheckChangesScope q mode cs <> SPanic.
Proof. intros q mode cs H. exact (loop_no_panic q mode cs H []). Qed.

(** * 4 (round 3). Plans made from a replayed history: [migrate.Planner.plan], schema scope

    Full statement: for every name of the dev database's schema and of the desired schema,
    every history and every next desired state (all in ONE schema), the schema-scoped plan
    requested with a qualifier is produced -- CheckChangesScope has no reason to see two schemas.

    It holds of the model (Qual/Replay.v) since fix C16-planner-replay-rename (/repo: "fix:
    Planner.plan renames the replayed schema itself ..."): the replayed schema object is renamed
    in place, its tables point to it, every table change names the desired schema.  For every
    table-diff function [modified], qualifier, mode, object changes and table lists: *)
Theorem C16_replay_repaired :
  forall modified q mode dev user objs cur des,
  user <> [] ->
  forall r, Planner_plan modified (Some q) mode dev user objs cur des <> PRejected r.
Proof. exact planner_never_rejects. Qed.

(** exactly: no plan when the diff is empty, a plan otherwise; and the name the dev database's
    schema carries plays no role at all (formerly C16_replay_code, the rejection condition). *)
Theorem C16_replay_code :
  forall modified q mode dev user objs cur des,
  user <> [] ->
  Planner_plan modified (Some q) mode dev user objs cur des =
    match schema_diff modified user user objs cur des with [] => PNoPlan | _ => PPlanned end.
Proof. exact planner_plans_iff. Qed.

Theorem C16_replay_dev_name_irrelevant :
  forall modified q mode dev dev' user objs cur des,
  Planner_plan modified q mode dev user objs cur des = Planner_plan modified q mode dev' user objs cur des.
Proof. exact planner_dev_name_irrelevant. Qed.

(** For the record, the code BEFORE the fix ([Planner_plan_before_fix]: a shallow copy of the
    replayed schema was renamed, the replayed tables kept the dev database's name) rejected a
    single-schema evolution exactly when the two names differed, a table was dropped and a table
    was added or modified (formerly C16_replay_refuted; witness dev/app, [t1,t2] -> [t2,t3] in
    ex_replay).  Reverting the fix makes stage [replay] report exactly these inputs. *)
Theorem C16_replay_before_fix :
  forall modified q mode dev user objs cur des,
  dev <> [] -> user <> [] ->
  let cs := schema_diff modified dev user objs cur des in
  ((exists r, Planner_plan_before_fix modified (Some q) mode dev user objs cur des = PRejected r) <->
   (dev <> user /\ existsb is_drop cs = true /\ existsb is_addmod cs = true)).
Proof. exact before_fix_rejects_iff. Qed.


(** * 5 (round 5). Schema elements AS INSPECTED: sequence statements in both directions, the reverse
      of DROP TABLE, and the statement-level grammar the oracle reads the statements with.

    (a) serial -> integer of a column whose serial type carries the inspected SequenceName [sn]
    ([Some sn]; [sn = []]: none, the name is <table>_<column>_seq), on ANY table, next to ANY other
    sub-changes, under ANY qualifier [q]: the plan holds  DROP SEQUENCE IF EXISTS <p><seq>  and its
    reverse  CREATE SEQUENCE IF NOT EXISTS <p><seq> OWNED BY <p><t>.<c>  where <p> is the qualifier
    prefix ([qual_prefix]: nothing under "", exactly q under q, the table's own schema when unset)
    and no chain is written inside a literal. *)
Theorem C16_skeleton_sequence_dropped :
  forall t subs c fe te sn oth cm q,
  In (ModifyColumn c fe te (Some sn) None true oth cm) subs ->
  let o := t_obj t in
  let seq := SerialType_sequence sn (o_name o) c in
  let p := qual_prefix q (o_schema o) in
  In (false, h_drop_sequence, [p ++ [seq]], []) (plan_obs true q [RefSkeleton.ModifyTable t subs]) /\
  In (true, h_create_sequence, [p ++ [seq]; p ++ [o_name o; c]], []) (plan_obs true q [RefSkeleton.ModifyTable t subs]).
Proof. exact sequence_dropped. Qed.

(** (b) integer -> serial: CREATE SEQUENCE ... OWNED BY, reverse DROP SEQUENCE, and the ALTER TABLE
    statement holds the sequence reference inside the literal of  SET DEFAULT nextval('<p><seq>'). *)
Theorem C16_skeleton_sequence_added :
  forall t subs c fe te sn oth cm q,
  In (ModifyColumn c fe te None (Some sn) true oth cm) subs ->
  let o := t_obj t in
  let seq := SerialType_sequence sn (o_name o) c in
  let p := qual_prefix q (o_schema o) in
  In (false, h_create_sequence, [p ++ [seq]; p ++ [o_name o; c]], []) (plan_obs true q [RefSkeleton.ModifyTable t subs]) /\
  In (true, h_drop_sequence, [p ++ [seq]], []) (plan_obs true q [RefSkeleton.ModifyTable t subs]) /\
  exists chains lits, In (false, h_alter_table, chains, lits) (plan_obs true q [RefSkeleton.ModifyTable t subs]) /\
                      In (p ++ [seq]) lits.
Proof. exact sequence_added. Qed.

(** the prefix, and the name (an inspected SequenceName is used as it is) *)
Theorem C16_skeleton_sequence_prefix :
  forall q ns sn t c,
  (qual_prefix (Some []) ns = [] /\ (q <> [] -> qual_prefix (Some q) ns = [q]) /\ qual_prefix None ns = opt_name ns) /\
  ((sn <> [] -> SerialType_sequence sn t c = sn) /\ SerialType_sequence [] t c = seq_name t c).
Proof. intros q ns sn t c. split; [exact (qual_prefix_cases q ns)|exact (sequence_name sn t c)]. Qed.

(** (c) DROP TABLE, both planners, every table: the reverse statements are the Cmd statements of
    ADD TABLE of the same table turned into reverse statements -- forward and reverse are qualified
    alike (the same references through the same qualifying calls), whatever the table carries. *)
Theorem C16_skeleton_drop_table_reverse :
  forall pg t,
  filter s_rev (plan_skel pg [RefSkeleton.DropTable t]) =
  map rev_of (filter is_cmd (plan_skel pg [RefSkeleton.AddTable t])).
Proof. exact drop_table_reverse. Qed.

(** (d) the statement-level scanner (Qual/StmtLex.v = the oracle's lexChains, tied on every
    generated statement by stage [stmtlex]): quoting a chain of names the way Builder.Ident does
    (quote characters doubled) and scanning it give back exactly the names -- for EVERY name
    (quote characters, dots, backslashes, anything), both dialects, alone ... *)
Theorem C16_stmt_lex_round_trip :
  forall pg l, l <> [] ->
  lex_stmt pg (render_chain (ident_quote pg) (ident_quote pg) l) = ([l], [], false).
Proof. exact lex_stmt_chain. Qed.

(** ... and anywhere in a statement: after every text [pre] that leaves the scanner outside
    identifiers and literals and not right after a word byte, and before every continuation that
    neither doubles the closing quote nor continues the chain, the chains read are those of [pre],
    then EXACTLY [l], then those of the rest. *)
Theorem C16_stmt_lex_round_trip_anywhere :
  forall pg pre l post o1,
  l <> [] ->
  lfeed pg (LNormal false, out0) pre = (LNormal false, o1) ->
  stops pg post ->
  exists after,
    fst (fst (lex_stmt pg (pre ++ render_chain (ident_quote pg) (ident_quote pg) l ++ post))) =
    rev (o_chains o1) ++ l :: after.
Proof. exact lex_stmt_chain_anywhere. Qed.

(** (e) [migrate.Planner.checkpoint], schema scope (CheckpointSchema): the replayed schema is diffed
    against an empty schema of the SAME name, so whatever the dev database's schema is called the
    checkpoint plan is never rejected by CheckChangesScope; it is the empty plan exactly when the
    replayed schema holds neither a table nor an (enum) object.  [PlanWithExclude] only removes
    replayed tables from the diff: a plan with exclusions is never rejected either. *)
Theorem C16_checkpoint_never_rejected :
  forall modified q mode dev objs cur,
  dev <> [] -> forall r, Planner_checkpoint modified (Some q) mode dev objs cur <> PRejected r.
Proof. exact checkpoint_never_rejects. Qed.

Theorem C16_checkpoint_code :
  forall modified q mode dev objs cur,
  dev <> [] ->
  Planner_checkpoint modified (Some q) mode dev objs cur =
    match objs, cur with [], [] => PNoPlan | _, _ => PPlanned end.
Proof. exact checkpoint_code. Qed.

Theorem C16_replay_exclude_never_rejected :
  forall modified excluded q mode dev user objs cur des,
  user <> [] -> forall r, Planner_plan_exclude modified excluded (Some q) mode dev user objs cur des <> PRejected r.
Proof. exact exclude_never_rejects. Qed.

Print Assumptions C16_builder.
Print Assumptions C16_builder_chain.
Print Assumptions C16_builder_schema_kept.
Print Assumptions C16_builder_requalify.
Print Assumptions C16_builder_agnostic.
Print Assumptions C16_builder_pg.
Print Assumptions C16_one_identifier.
Print Assumptions C16_one_identifier_call.
Print Assumptions C16_one_identifier_sequence.
Print Assumptions C16_raw_spelling_refuted.
Print Assumptions C16_raw_spelling_exact.
Print Assumptions C16_raw_spelling_except.
Print Assumptions C16_raw_spelling_same.
Print Assumptions C16_pg_same_namespace_refuted.
Print Assumptions C16_pg_same_namespace_except.
Print Assumptions C16_replay_repaired.
Print Assumptions C16_replay_code.
Print Assumptions C16_replay_dev_name_irrelevant.
Print Assumptions C16_replay_before_fix.
Print Assumptions C16_skeleton_partial.
Print Assumptions C16_skeleton_no_bare_reference.
Print Assumptions C16_skeleton_serial_to_enum.
Print Assumptions C16_skeleton_before_fix.
Print Assumptions C16_skeleton_sequence_dropped.
Print Assumptions C16_skeleton_sequence_added.
Print Assumptions C16_skeleton_sequence_prefix.
Print Assumptions C16_skeleton_drop_table_reverse.
Print Assumptions C16_stmt_lex_round_trip.
Print Assumptions C16_stmt_lex_round_trip_anywhere.
Print Assumptions C16_checkpoint_never_rejected.
Print Assumptions C16_checkpoint_code.
Print Assumptions C16_replay_exclude_never_rejected.
Print Assumptions C16_scope_sound.
Print Assumptions C16_scope_refuted.
Print Assumptions C16_scope_code.
Print Assumptions C16_scope_except.
Print Assumptions C16_scope_no_panic.

(** * Non-vacuity *)
Definition bs (s : list N) : bytes := s.
Definition q_ := [113].  Definition t_ := [116].  Definition c_ := [99].  Definition m_ := [109].

(* C16_builder: ALTER TABLE <t> ( <t.c> ) under qualifier "q" on a table of schema "m" *)
Example ex_builder :
  let b := new_builder 96 96 (Some q_) [] in
  let ops := [OP [[65]]; OTable (mkObj (Some m_) t_); OWrapOpen; OTableResource (mkObj (Some m_) t_) c_; OWrapClose] in
  out (run b ops) = [65; 32; 96; 113; 96; 46; 96; 116; 96; 32; 40; 96; 113; 96; 46; 96; 116; 96; 46; 96; 99; 96; 41]
  /\ emitted_chain (Some q_) (OTable (mkObj (Some m_) t_)) = Some [q_; t_].
Proof. split; vm_compute; reflexivity. Qed.

(* C16_builder_chain: the cross-schema RefTable exception is reachable *)
Example ex_chain : cross_ref (Some []) (mkObj (Some m_) c_) (mkObj (Some q_) t_) = true.
Proof. vm_compute. reflexivity. Qed.

(* C16_builder_schema_kept: and Clone does lose it *)
Example ex_clone :
  bschema (run (new_builder 96 96 (Some []) []) [OClone]) = None /\
  out (run (new_builder 96 96 (Some []) []) [OClone; OTable (mkObj (Some m_) t_)]) = [96; 109; 96; 46; 96; 116; 96; 32].
Proof. split; vm_compute; reflexivity. Qed.

(* C16_builder_requalify / agnostic: two tables in different schemas, same bytes *)
Example ex_agnostic :
  run (with_schema (Some []) (new_builder 34 34 None [])) [OTable (mkObj (Some m_) t_)]
  = run (with_schema (Some []) (new_builder 34 34 None [])) [OTable (mkObj (Some q_) t_)].
Proof. vm_compute. reflexivity. Qed.

Example ex_requalify :
  requalify q_ (OTable (mkObj (Some m_) t_)) = OTable (mkObj (Some q_) t_).
Proof. reflexivity. Qed.

Example ex_pg :
  typeIdent (fun n => 34 :: n ++ [34]) (Some q_) (Some m_) t_ = [34; 113; 34; 46; 34; 116; 34].
Proof. vm_compute. reflexivity. Qed.

(* C16_scope_*: the witnesses, and a change set of the agreeing class that is rejected *)
Example ex_scope_refuted :
  CheckChangesScope (Some []) 2 w_enum = SOk /\ distinct (all_mentions w_enum) = 2%nat /\
  CheckChangesScope (Some []) 2 w_other = SOk /\ distinct (all_mentions w_other) = 2%nat.
Proof. repeat split; vm_compute; reflexivity. Qed.

(* C16_scope_sound: the repaired inputs -- rename across schemas rejected, empty table-schema
   name with an enum of s1 next to a table of s1 accepted *)
Example ex_scope_sound :
  CheckChangesScope (Some []) 2 w_rename = EMulti 2 /\ CheckChangesScope (Some []) 2 w_empty = SOk /\
  Forall named_modify w_empty /\ distinct (all_mentions w_empty) = 1%nat.
Proof. repeat split; try (vm_compute; reflexivity). repeat constructor. Qed.

Example ex_scope_except :
  let cs := [CAddTable (mkST (Some s1) [TEnum (Some s1)]); CDropTable (mkST (Some s2) [TPlain])] in
  Forall local_change cs /\ CheckChangesScope (Some []) 2 cs = EMulti 2.
Proof.
  split; [|vm_compute; reflexivity].
  constructor; [|constructor; [|constructor]].
  - intros e [H|[]] _. inversion H. reflexivity.
  - intros e [H|[]] _. discriminate H.
Qed.

Example ex_scope_code : CheckChangesScope (Some s1) 1 [CModifySchema (Some s2)] = EModifyOther.
Proof. vm_compute. reflexivity. Qed.

Example ex_scope_no_panic : CheckChangesScope None 1 [CModifySchema None] = SPanic.
Proof. vm_compute. reflexivity. Qed.

(* C16_skeleton_partial: a change set of the accepted class with references of every kind *)
Example ex_skeleton :
  let t := mkTab (mkObj (Some m_) t_) [mkCol c_ (Some (Some m_, [101])) true] [mkIdx [105] [c_] false true]
                 [mkFk [c_] (mkObj (Some m_) [117])] true in
  plan_chains true (Some q_) [RefSkeleton.AddTable t] =
    [ (false, h_create_table, [[q_; t_]; [q_; [101]]; [q_; [117]]]);
      (true, h_drop_table, [[q_; t_]]);
      (false, h_create_index, [[q_; t_]]);
      (true, h_drop_index, [[q_; [105]]]);
      (false, h_comment_on, [[q_; t_]]); (true, h_comment_on, [[q_; t_]]);
      (false, h_comment_on, [[q_; t_; c_]]); (true, h_comment_on, [[q_; t_; c_]]);
      (false, h_comment_on, [[q_; [105]]]); (true, h_comment_on, [[q_; [105]]]) ].
Proof. vm_compute. reflexivity. Qed.

Definition e1 : bytes := [101; 49].  Definition e2 : bytes := [101; 50].  Definition ii : bytes := [105].
Example ex_skeleton_repaired :
  plan_chains true (Some q_) [RefSkeleton.RenameObject (Some m_) e1 (Some m_) e2;
                              RefSkeleton.AddTable (mkTab (mkObj None t_) [] [mkIdx ii [] false false] [] false)] =
    [ (false, h_alter_type, [[q_; e1]; [e2]]); (true, h_alter_type, [[q_; e2]; [e1]]);
      (false, h_create_table, [[q_; t_]]); (true, h_drop_table, [[q_; t_]]);
      (false, h_create_index, [[q_; t_]]); (true, h_drop_index, [[q_; ii]]) ].
Proof. vm_compute. reflexivity. Qed.

(* the extended fragment: type change to an enum, int -> serial (sequence statements), a
   foreign key moved to another table *)
Example ex_skeleton_modify :
  let t := mkTab (mkObj (Some m_) t_) [] [] [] false in
  plan_chains true (Some []) [RefSkeleton.ModifyTable t
     [ModifyColumn c_ None (Some (Some m_, e1)) None None true false true;
      ModifyColumn ii None None None (Some []) true false false;
      ModifyForeignKey (mkFk [c_] (mkObj (Some m_) [117])) (mkFk [c_] (mkObj (Some m_) [118]))]] =
    [ (false, h_create_sequence, [[seq_name t_ ii]; [t_; ii]]); (true, h_drop_sequence, [[seq_name t_ ii]]);
      (false, h_alter_table, [[t_]; [e1]; [seq_name t_ ii]; [[118]]]); (true, h_alter_table, [[t_]; [[117]]]);
      (false, h_comment_on, [[t_; c_]]); (true, h_comment_on, [[t_; c_]]) ].
Proof. vm_compute. reflexivity. Qed.

(* round 3 *)
(* C16_one_identifier / _call: qualifier acme.v2 (a dot inside), table <my t>, MySQL quotes *)
Definition acme_v2 : bytes := [97; 99; 109; 101; 46; 118; 50].
Definition my_t : bytes := [109; 121; 32; 116].
Example ex_one_identifier :
  let b := new_builder 96 96 (Some acme_v2) [] in
  out (Table b (mkObj (Some m_) my_t)) = render_chain 96 96 [acme_v2; my_t] ++ [SP] /\
  lex_chain 96 96 (out (Table b (mkObj (Some m_) my_t))) = Some ([acme_v2; my_t], [SP]).
Proof. split; vm_compute; reflexivity. Qed.

(* C16_raw_spelling_exact: both directions are inhabited *)
Example ex_raw_spelling_exact :
  read_ident 34 ([97; 46; 98] ++ 34 :: [SP]) = Some ([97; 46; 98], [SP]) /\
  read_ident 34 ([97; 34; 98] ++ 34 :: [SP]) = Some ([97], [98; 34; SP]).
Proof. split; vm_compute; reflexivity. Qed.

(* C16_one_identifier on the former witness: qualifier a, double quote, b through the model's Table *)
Example ex_quoted_chain :
  render_chain 34 34 [w_q; w_t] = [34; 97; 34; 34; 98; 34; 46; 34; 116; 34] /\
  out (Table (new_builder 34 34 (Some w_q) []) (mkObj (Some m_) w_t)) = render_chain 34 34 [w_q; w_t] ++ [SP] /\
  lex_chain 34 34 (out (Table (new_builder 34 34 (Some w_q) []) (mkObj (Some m_) w_t))) = Some ([w_q; w_t], [SP]) /\
  raw_chain 34 34 [w_q; w_t] = [34; 97; 34; 98; 34; 46; 34; 116; 34].
Proof. repeat split; vm_compute; reflexivity. Qed.

(* C16_pg_same_namespace_*: a plain qualifier with a dot and a space; the backslash witness *)
Example ex_pg_same_namespace :
  plain [97; 46; 98; 32; 99] /\
  typeIdent strconvQuote (Some [97; 46; 98; 32; 99]) (Some m_) t_ = [34; 97; 46; 98; 32; 99; 34; 46; 34; 116; 34] /\
  typeIdent strconvQuote (Some w_bs) None w_t = [34; 97; 92; 92; 98; 34; 46; 34; 116; 34].
Proof. repeat split; vm_compute; reflexivity. Qed.

(* C16_replay_*: the former witness is planned; the code before the fix rejected it, and planned
   it when the dev schema carried the desired name; a lone DROP TABLE; an unchanged state *)
Example ex_replay :
  Planner_plan never (Some []) 0 n_dev n_app [] [t1; t2] [t2; t3] = PPlanned /\
  Planner_plan_before_fix never (Some []) 0 n_dev n_app [] [t1; t2] [t2; t3] = PRejected (EMulti 2) /\
  Planner_plan_before_fix never (Some []) 0 n_app n_app [] [t1; t2] [t2; t3] = PPlanned /\
  Planner_plan never (Some []) 0 n_dev n_app [] [t1; t2] [t2] = PPlanned /\
  Planner_plan never (Some []) 0 n_dev n_app [] [t1; t2] [t1; t2] = PNoPlan.
Proof. repeat split; vm_compute; reflexivity. Qed.

(* C16_one_identifier_sequence: ALTER TABLE <t> ( <t.c> ) , -- the chain of the first call is
   followed by " (" and is read as [acme.v2; my t]; the second one by ")" after the comma rewrite *)
Example ex_one_identifier_sequence :
  let b := new_builder 34 34 (Some acme_v2) [] in
  let ops1 := [OP [[65]]] in
  let o := OTable (mkObj (Some m_) my_t) in
  let ops2 := [OWrapOpen; OTableResource (mkObj (Some m_) my_t) c_; OWrapClose; OComma] in
  lex_chain 34 34 (skipn (length (out (run b ops1))) (out (run b (ops1 ++ o :: ops2)))) =
    Some ([acme_v2; my_t], [SP; LP] ++ render_chain 34 34 [acme_v2; my_t; c_] ++ [RP; CM; SP]) /\
  Forall wf_op ops2 /\ ~ sepA 34.
Proof.
  split; [vm_compute; reflexivity|]. split.
  - repeat constructor; discriminate.
  - unfold sepA, SP, CM, NLc, RP, SQ, LP. intros [H|[H|[H|[H|[H|H]]]]]; discriminate.
Qed.

(* round 5 *)
(* C16_skeleton_sequence_dropped / _prefix: posts.id, inspected sequence posts_id_seq, serial -> integer,
   custom qualifier: DROP SEQUENCE q.posts_id_seq / reverse CREATE SEQUENCE q.posts_id_seq OWNED BY q.t.c;
   the reverse ALTER TABLE holds the literal *)
Definition posts_id_seq : bytes := [112;111;115;116;115;95;105;100;95;115;101;113].
Example ex_sequence_dropped :
  let t := mkTab (mkObj (Some m_) t_) [] [] [] false in
  plan_obs true (Some q_) [RefSkeleton.ModifyTable t [ModifyColumn c_ None None (Some posts_id_seq) None true false false]] =
    [ (false, h_alter_table, [[q_; t_]], []); (true, h_alter_table, [[q_; t_]], [[q_; posts_id_seq]]);
      (false, h_drop_sequence, [[q_; posts_id_seq]], []);
      (true, h_create_sequence, [[q_; posts_id_seq]; [q_; t_; c_]], []) ].
Proof. vm_compute. reflexivity. Qed.

(* C16_skeleton_sequence_added: integer -> serial without an inspected name, qualifier unset: own schema *)
Example ex_sequence_added :
  let t := mkTab (mkObj (Some m_) t_) [] [] [] false in
  plan_obs true None [RefSkeleton.ModifyTable t [ModifyColumn c_ None None None (Some []) true false false]] =
    [ (false, h_create_sequence, [[m_; seq_name t_ c_]; [m_; t_; c_]], []); (true, h_drop_sequence, [[m_; seq_name t_ c_]], []);
      (false, h_alter_table, [[m_; t_]], [[m_; seq_name t_ c_]]); (true, h_alter_table, [[m_; t_]], []) ].
Proof. vm_compute. reflexivity. Qed.

(* C16_skeleton_drop_table_reverse: a MySQL table with a foreign key, a PG table with an index and comments *)
Example ex_drop_table_reverse :
  let t := mkTab (mkObj (Some m_) t_) [mkCol c_ None true] [mkIdx ii [c_] false true] [mkFk [c_] (mkObj (Some m_) [117])] true in
  map (stmt_chains (Some q_)) (filter s_rev (plan_skel false [RefSkeleton.DropTable t])) =
    [ (true, h_create_table, [[q_; t_]; [q_; [117]]]) ] /\
  length (filter s_rev (plan_skel true [RefSkeleton.DropTable t])) = 5%nat.
Proof. split; vm_compute; reflexivity. Qed.

(* C16_stmt_lex_round_trip(_anywhere): the names  a<dq>b  and  c.d  (PG, <dq> = the double quote): the text
   A <dq>a<dq><dq>b<dq>.<dq>c.d<dq> <sq>x<sq> *)
Example ex_stmt_lex :
  let l := [[97; 34; 98]; [99; 46; 100]] in
  render_chain 34 34 l = [34; 97; 34; 34; 98; 34; 46; 34; 99; 46; 100; 34] /\
  lex_stmt true ([65; 32] ++ render_chain 34 34 l ++ [32; 39; 120; 39]) = ([l], [[120]], false) /\
  lfeed true (LNormal false, out0) [65; 32] = (LNormal false, out0) /\ stops true [32; 39; 120; 39] /\
  lex_stmt true [65; 34; 97; 34] = ([[[97]]], [], true) /\          (* glued to the word before it *)
  lex_stmt false [96; 97] = ([[[97]]], [], true).                    (* unterminated *)
Proof. repeat split; try (vm_compute; reflexivity); discriminate. Qed.

(* C16_checkpoint_*: a replayed schema dev with two tables -> planned; empty -> the empty plan;
   exclusion of t1: the next plan for [t2; t3] only adds t3 *)
Example ex_checkpoint :
  Planner_checkpoint never (Some []) 0 n_dev [] [t1; t2] = PPlanned /\
  Planner_checkpoint never (Some []) 0 n_dev [] [] = PNoPlan /\
  Planner_plan_exclude never (fun n => bytes_eqb n (rt_name t1)) (Some []) 0 n_dev n_app [] [t1; t2] [t2; t3] = PPlanned /\
  exclude_tabs (fun n => bytes_eqb n (rt_name t1)) [t1; t2] = [t2].
Proof. repeat split; vm_compute; reflexivity. Qed.

(* C16_skeleton_serial_to_enum / _before_fix: table m.t, column c: serial -> enum m.e under qualifier q:
   ALTER TABLE q.t ... TYPE q.e (fixed code); the raw name e before the fix *)
Definition w_ser_enum : list RefSkeleton.change :=
  [RefSkeleton.ModifyTable (mkTab (mkObj (Some m_) [116]) [] [] [] false)
     [ModifyColumn [99] None (Some (Some m_, [101])) (Some []) None true false false]].
Example ex_skeleton_serial_to_enum :
  plan_obs true (Some q_) w_ser_enum =
    [ (false, h_alter_table, [[q_; [116]]; [q_; [101]]], []); (true, h_alter_table, [[q_; [116]]], [[q_; seq_name [116] [99]]]);
      (false, h_drop_sequence, [[q_; seq_name [116] [99]]], []);
      (true, h_create_sequence, [[q_; seq_name [116] [99]]; [q_; [116]; [99]]], []) ] /\
  map (ref_chain (Some q_)) (alter_type_refs_before_fix (mkObj (Some m_) [116]) [99] (Some (Some m_, [101])) (Some []) None) = [[[101]]].
Proof. split; vm_compute; reflexivity. Qed.
