(** C08 — the statement scanner (sql/migrate/lex.go) is total, lossless and position-accurate.

    Model: Lex/LexModel.v ([scan o input] = [Scanner{o}.Scan(input)], fuel [2*|input|+8]).
    Spec vocabulary (Lex/LexProofs.v): [Gap] = white space | terminated comment | DELIMITER
    command line, threaded with the delimiter in force; [RawOf d raw st] = [raw] is [Text st],
    then white space, then possibly the delimiter [d]; [Lossless d off inp ss] = [inp] is exactly
    gap, raw, gap, ..., gap and each [Pos] is the file offset of its raw text; [Header] = the
    [-- atlas:delimiter] first line; [TextAt inp st] = Go's [inp[Pos:Pos+len(Text)] == Text];
    [ordered] = strictly increasing, disjoint; [line_of] = an independent newline count.

    Option sets: [gen_scan_opts] is dumped from migrate.Stmts and the three drivers' ScanStmts on
    every run; [supported] = no GO batch command (BEGIN TRY/END CATCH matching is covered).
    Round 5: C08_total_all_options, C08_lossless_all_options_except and
    C08_positions_all_options_except quantify over *every* value of the options record. *)
From Coq Require Import List NArith ZArith Bool.
From Atlas Require Import Base.Bytes Lex.LexModel Lex.LexProofs Lex.LexDirective Lex.LexDrivers Lex.LexMemo gen.Gen_ScanOpts.
From Atlas Require Lint.LintNolintModel.
Import ListNotations.
Open Scope Z_scope.

(** finite side condition, re-checked against the dumped option sets on every run. *)
Theorem C08_driver_opts_supported : forallb supported gen_scan_opts = true.
Proof. exact driver_opts_supported. Qed.
Print Assumptions C08_driver_opts_supported.

(** clause 4 (and "no SQL text is silently dropped"): the input is header ++ gap ++ raw ++ gap ...
    ++ gap, nothing else. *)
Theorem C08_lossless : forall o inp ss,
  In o gen_scan_opts -> scan o inp = Ok ss ->
  exists hdr d0 rest, inp = hdr ++ rest /\ Header inp hdr d0 /\ Lossless o d0 (zlen hdr) rest ss.
Proof. intros o inp ss Ho. exact (scan_lossless o inp ss (in_driver_supported o Ho)). Qed.
Print Assumptions C08_lossless.

(** clauses 2 and 3: every Text is at its Pos; positions strictly increase, intervals are disjoint. *)
Theorem C08_positions : forall o inp ss,
  In o gen_scan_opts -> scan o inp = Ok ss -> Forall (TextAt inp) ss /\ ordered 0 ss.
Proof. intros o inp ss Ho. exact (scan_positions o inp ss (in_driver_supported o Ho)). Qed.
Print Assumptions C08_positions.

(** line mapping: FileReport.Line(Pos) does not panic and is the line of the first byte of Text. *)
Theorem C08_line : forall o inp ss st,
  In o gen_scan_opts -> scan o inp = Ok ss -> In st ss ->
  TextAt inp st /\ Line inp (Pos st) = Ok (line_of inp (Pos st)).
Proof. intros o inp ss st Ho. exact (scan_line o inp ss st (in_driver_supported o Ho)). Qed.
Print Assumptions C08_line.

(** clause 1: the scanner terminates and does not crash. [fuel_of inp = 2*|inp|+8] is a *depth*
    bound (every loop iteration and every nested BEGIN-block scanner gets its caller's fuel minus
    one; progress lemma: each iteration consumes a byte or returns); [Panic] is what any Go slice
    or index expression out of range would produce. The result is therefore [Ok] or [Err]. *)
Theorem C08_total : forall o inp,
  In o gen_scan_opts -> scan o inp <> OutOfFuel /\ scan o inp <> Panic.
Proof. intros o inp Ho. exact (scan_total o inp (in_driver_supported o Ho)). Qed.
Print Assumptions C08_total.

(** the same statements for *every* option set without GoCommand (incl. MatchBeginTryCatch, whose
    scanner moves backwards, BeginEndTerminator and OmitDelimiter). *)
Theorem C08_lossless_all_supported : forall o inp ss,
  supported o = true -> scan o inp = Ok ss ->
  (exists hdr d0 rest, inp = hdr ++ rest /\ Header inp hdr d0 /\ Lossless o d0 (zlen hdr) rest ss)
  /\ Forall (TextAt inp) ss /\ ordered 0 ss.
Proof. intros o inp ss Hs H. exact (conj (scan_lossless o inp ss Hs H) (scan_positions o inp ss Hs H)). Qed.
Print Assumptions C08_lossless_all_supported.

Theorem C08_total_all_supported : forall o inp,
  supported o = true -> scan o inp <> OutOfFuel /\ scan o inp <> Panic.
Proof. exact scan_total. Qed.
Print Assumptions C08_total_all_supported.

(** ** Round 5: every value of the options record (all 2^10 combinations, [GoCommand] included).
    Totality needs no side condition. *)
Theorem C08_total_all_options : forall o inp, scan o inp <> OutOfFuel /\ scan o inp <> Panic.
Proof. exact scan_total_all. Qed.
Print Assumptions C08_total_all_options.

(** Losslessness for every option set, in the form that is true of the code: [LosslessG] is
    [Lossless] with one more segment after each raw statement, [go] - the bytes the GO branch of
    [stmt] consumed after cutting the text ([GO], an optional count, up to and including the end
    of the line); [go = []] unless [GoCommand o = true]; nothing else of the input is dropped; and
    the reported [Pos] is the true offset of the raw text *plus* [zlen go] (the exact size of the
    error of finding C08-gocommand-pos). For [GoCommand o = false] this is [Lossless]
    ([LexProofs.LosslessG_noGo], used for C08_lossless / C08_lossless_all_supported above). *)
Theorem C08_lossless_all_options_except : forall o inp ss,
  scan o inp = Ok ss ->
  exists hdr d0 rest, inp = hdr ++ rest /\ Header inp hdr d0 /\ LosslessG o d0 (zlen hdr) rest ss.
Proof. exact scan_losslessG. Qed.
Print Assumptions C08_lossless_all_options_except.

(** Positions and lines for every option set: each [Text] is found in the input [sh] bytes before
    its [Pos], with [sh = 0] unless [GoCommand]; [FileReport.Line(Pos)] never panics and is the
    line of the byte at [Pos] (with GoCommand: of the byte [sh] after the statement's first). *)
Theorem C08_positions_all_options_except : forall o inp ss,
  scan o inp = Ok ss ->
  Forall (fun st => exists sh, 0 <= sh /\ (GoCommand o = false -> sh = 0) /\ TextAtShift inp sh st /\
                    Line inp (Pos st) = Ok (line_of inp (Pos st))) ss.
Proof. exact scan_positionsG. Qed.
Print Assumptions C08_positions_all_options_except.

(** [Stmt.Comments] (round 5). Exactly which comments a statement carries is the [GapCs] premise of
    [LosslessG] (C08_lossless_all_options_except): starting from the empty group at the previous
    statement (or the start of the scanned text, after the [atlas:delimiter] header line), each
    segment of the gap [g] before the statement acts on the group - white space keeps it, a
    terminated comment is appended unless an empty line follows it (then the group is emptied,
    this comment included), a DELIMITER command line empties it - and [Comments st] is the group
    left when the statement starts ([LexProofs.SegC], [GapCs]). So a file-header comment block
    (atlas:txmode / atlas:nolint / atlas:sum / atlas:checkpoint lines) followed by an empty line is
    never among the first statement's comments, and one followed directly by the statement is.
    Corollary, as a plain statement: every comment of a statement is a terminated comment that
    occurs in the input. *)
Theorem C08_comments_are_comment_segments : forall o inp ss st c,
  scan o inp = Ok ss -> In st ss -> In c (Comments st) -> InGap o inp c.
Proof. exact scan_comments. Qed.
Print Assumptions C08_comments_are_comment_segments.

(** the comment-group rule itself, for one comment segment [c] = left ++ body ++ right followed by
    white space [sp] and then [rest]: the group after it is empty iff a blank line follows. *)
Theorem C08_comment_group_rule : forall o left body right sp rest cs,
  index_of (body ++ right) right = Some (length body) ->
  ((left = [45;45]%N /\ right = NL) \/ (left = [47;42]%N /\ right = [42;47]%N)
     \/ (HashComments o = true /\ left = [35]%N /\ right = NL)) ->
  Spaces sp -> starts_space rest = false ->
  SegC o ((left ++ body ++ right) ++ sp) rest cs
       (if blank_after right (sp ++ rest) then [] else cs ++ [left ++ body ++ right]).
Proof. intros. apply SC_comment; assumption. Qed.
Print Assumptions C08_comment_group_rule.

(** ... and its instance for "--" line comments, the form of the file-header directives
    (atlas:txmode, atlas:nolint, atlas:sum, atlas:checkpoint): after "-- body\n" followed by the
    white space [sp], the group is empty iff [sp ++ rest] starts with a newline (an empty line
    follows the comment), else the comment joins the group of the statement that follows. *)
Theorem C08_line_comment_rule : forall o body sp rest cs,
  index_of (body ++ NL) NL = Some (length body) -> Spaces sp -> starts_space rest = false ->
  SegC o (([45;45]%N ++ body ++ NL) ++ sp) rest cs
       (if has_prefix (sp ++ rest) NL then [] else cs ++ [[45;45]%N ++ body ++ NL]).
Proof. exact line_comment_rule. Qed.
Print Assumptions C08_line_comment_rule.

(** Line mapping and carriage returns (round 5): [FileReport.Line(Pos)] never panics on a reported
    [Pos] (any option set) and is 1 + the number of "\n" bytes before [Pos]; "\r" bytes are
    transparent - "\r\n" ends a line exactly once, a lone "\r" never starts a new line (an old-Mac
    file is one line) - and, [Pos] being a byte offset, multi-byte runes need no care (their
    bytes are >= 0x80, never "\n"). *)
Theorem C08_line_cr_transparent : forall o inp ss st,
  scan o inp = Ok ss -> In st ss ->
  Line inp (Pos st) = Ok (count_nl (strip_cr (firstn (Z.to_nat (Pos st)) inp)) + 1).
Proof. exact scan_line_cr. Qed.
Print Assumptions C08_line_cr_transparent.

(** [Stmt.Directive(name)] (round 5; [LexDirective.Stmt_Directive] = C18's model of lex.go
    Stmt.Directive / dir.go directive / reDirective applied to the comment group the scanner model
    computes; tied to the real code by stage [directive]): it returns exactly the directives of the
    statement's *own* comments - the concatenation, in order, of what each member of [Comments st]
    yields; every result comes from a terminated comment of the input that belongs to the
    statement's group ([GapCs]: not from a header block detached by an empty line, not from a
    comment inside the statement text, not from another statement's comments); no comments, no
    directives. *)
Theorem C08_stmt_directive_own_comments : forall o inp ss st nm,
  scan o inp = Ok ss -> In st ss ->
  Stmt_Directive st nm = flat_map (LintNolintModel.comment_directive nm) (Comments st) /\
  (forall d, In d (Stmt_Directive st nm) ->
     exists c, In c (Comments st) /\ In d (LintNolintModel.comment_directive nm c) /\ InGap o inp c) /\
  (Comments st = [] -> Stmt_Directive st nm = []).
Proof. exact scan_stmt_directive. Qed.
Print Assumptions C08_stmt_directive_own_comments.

(** why GoCommand is excluded (no OSS driver enables it): with it the reported position is
    wrong — [Pos] of "SELECT 1" in "SELECT 1\nGO\n" is 2. Reproduced on the Go code by the tie. *)
Definition opts_go := mkOpts true true false true false false false true false false.
Definition in_go : bytes := [83;69;76;69;67;84;32;49;10;71;79;10]%N.
Theorem C08_positions_gocommand_refuted :
  exists ss, scan opts_go in_go = Ok ss /\ ~ Forall (TextAt in_go) ss.
Proof.
  eexists. split; [vm_compute; reflexivity|].
  intros H. inversion H as [|x l H1 H2]; subst. vm_compute in H1. discriminate.
Qed.
Print Assumptions C08_positions_gocommand_refuted.

(** Nested block scans (fix C08-nested-begin, notes/fixes/C08-nested-begin.diff). Evaluated naively,
    the scanner re-scans the rest of the input at every block opener in every enclosing scanner:
    on "BEGIN " x 8 the loop of [stmt] starts a nested scan on each of the 8 proper suffixes (the
    nested scanner is replaced by one that fails at once — what the real one does on these inputs —
    except that it is [Panic] on the suffix looked for), and so does every nested scan:
    T(k) = 1 + T(0) + ... + T(k-1) = 2^k scans (measured before the fix: x20 1.5 s, x24 25 s). *)
Definition begins (k : nat) : bytes := concat (repeat ([66;69;71;73;78;32]%N) k).
Definition poisoned (target : bytes) (b : scanner) : res (scanner * option Stmt) :=
  if bytes_eqb (input b) target then Panic else Err (mkErr EEofCompound 0 0).
Theorem C08_unmemoized_rescan_witness : forall j, (j < 8)%nat ->
  stmt_loop opts_sqlite (poisoned (begins j)) 100
            (mkScanner (begins 8) (begins 8) 0 0 0 delimiter [] false) 0 0 = Panic.
Proof.
  intros j H. do 8 (destruct j as [|j]; [vm_compute; reflexivity|]). exfalso.
  repeat (apply le_S_n in H). inversion H.
Qed.
Print Assumptions C08_unmemoized_rescan_witness.

(** The fixed Go code keeps a table of the block scans that failed, keyed by block kind and by the
    length of the text after the opener, shared by all nested scanners of one [Scan], and does not
    start such a scan again. The table is an evaluation device (the model, an input/output
    specification, has none; outputs are compared on every case). What makes it sound: every
    scanner works on a suffix of the same text, so the length identifies the text
    ([LexMemo.suffix_len_eq]), and whether a block scan fails — and how far it advances when it
    succeeds — does not depend on the scanner that starts it: *)
Theorem C08_block_scan_context_free : forall o nested f s s',
  wf s -> wf s' -> 1 <= pos s -> 1 <= pos s' -> delim s = delim s' ->
  skipn (Z.to_nat (pos s - 1)) (input s) = skipn (Z.to_nat (pos s' - 1)) (input s') ->
  same_outcome s s' (skipBegin o nested f s) (skipBegin o nested f s') /\
  same_outcome s s' (skipBeginAtomic nested f s) (skipBeginAtomic nested f s') /\
  same_outcome s s' (skipBeginTryCatch nested f s) (skipBeginTryCatch nested f s').
Proof.
  intros o nested f s s' W W' P P' D T.
  exact (conj (skipBegin_context_free o nested f s s' W W' P P' D T)
        (conj (skipBeginAtomic_context_free nested f s s' W W' P P' D T)
              (skipBeginTryCatch_context_free nested f s s' W W' P P' D T))).
Qed.
Print Assumptions C08_block_scan_context_free.

(** ... and what makes the work bounded: a table that receives only keys it does not hold yet,
    over texts of at most [n] bytes, never holds more than [3 * (n + 1)] keys — at most that many
    nested block scans fail during one [Scan] of an [n]-byte input, however they nest (each of
    them reads at most [n] bytes; measured after the fix: "BEGIN " x 1600 = 9.6 kB in 1.0 s,
    quadratic). A successful block scan consumes its block in the scanner that started it. *)
Theorem C08_failed_block_scans_bounded : forall n (ks : list key),
  Forall (fun k => (snd k <= n)%nat) ks ->
  (length (fold_left record ks []) <= 3 * (n + 1))%nat.
Proof. exact failed_table_bounded. Qed.
Print Assumptions C08_failed_block_scans_bounded.

(** the linear fuel is a depth bound, not a step count: on k unterminated BEGINs every BEGIN
    re-scans the rest of the input in a nested scanner (2^k nested scans in the Go code too);
    the model still terminates within [fuel_of]. *)
Example C08_ex_failed_table :
  fold_left record [(KBegin, 12%nat); (KBegin, 6%nat); (KBegin, 12%nat); (KAtomic, 6%nat)] [] =
    [(KAtomic, 6%nat); (KBegin, 6%nat); (KBegin, 12%nat)].
Proof. vm_compute. reflexivity. Qed.
Example C08_ex_total_nested_begins :
  let inp := (concat (repeat ([66;69;71;73;78;32]%N) 6)) in   (* "BEGIN BEGIN BEGIN BEGIN BEGIN BEGIN " *)
  scan opts_sqlite inp = Ok [mkStmt 0 (firstn 35 inp) []].
Proof. vm_compute. reflexivity. Qed.

(** ** non-vacuity *)
(* round 5, comments: "-- atlas:txmode none\n\n-- c\nSELECT 1;\n-- d\n\n/* e */ SELECT 2;": the header
   directive and "-- d" are detached by the empty line after them *)
Definition ex_cm : bytes :=
  [45;45;32;97;116;108;97;115;58;116;120;109;111;100;101;32;110;111;110;101;10;10;
   45;45;32;99;10;83;69;76;69;67;84;32;49;59;10;45;45;32;100;10;10;
   47;42;32;101;32;42;47;32;83;69;76;69;67;84;32;50;59]%N.
Example C08_ex_comments :
  scan opts_sqlite ex_cm =
    Ok [mkStmt 27 [83;69;76;69;67;84;32;49;59]%N [[45;45;32;99;10]%N];
        mkStmt 51 [83;69;76;69;67;84;32;50;59]%N [[47;42;32;101;32;42;47]%N]].
Proof. vm_compute. reflexivity. Qed.
(* "-- atlas:nolint\nSELECT 1;": without the empty line the directive belongs to the statement *)
Example C08_ex_comment_attached :
  scan opts_sqlite [45;45;32;97;116;108;97;115;58;110;111;108;105;110;116;10;83;69;76;69;67;84;32;49;59]%N =
    Ok [mkStmt 16 [83;69;76;69;67;84;32;49;59]%N [[45;45;32;97;116;108;97;115;58;110;111;108;105;110;116;10]%N]].
Proof. vm_compute. reflexivity. Qed.
(* "-- atlas:nolint DS102\n\n-- atlas:nolint DS103\nSELECT 1;": only the attached directive is the statement's *)
Example C08_ex_stmt_directive :
  scan_directives opts_sqlite [110;111;108;105;110;116]%N
    [45;45;32;97;116;108;97;115;58;110;111;108;105;110;116;32;68;83;49;48;50;10;10;
     45;45;32;97;116;108;97;115;58;110;111;108;105;110;116;32;68;83;49;48;51;10;83;69;76;69;67;84;32;49;59]%N
  = Ok [(45, [[68;83;49;48;51]%N])].
Proof. vm_compute. reflexivity. Qed.
(* "a;\r\nb;\rc;" : CRLF ends line 1, the lone CR does not end line 2 *)
Example C08_ex_line_cr :
  scan opts_sqlite [97;59;13;10;98;59;13;99;59]%N = Ok [mkStmt 0 [97;59]%N []; mkStmt 4 [98;59]%N []; mkStmt 7 [99;59]%N []] /\
  Line [97;59;13;10;98;59;13;99;59]%N 4 = Ok 2 /\ Line [97;59;13;10;98;59;13;99;59]%N 7 = Ok 2.
Proof. vm_compute. auto. Qed.
(* round 5: "SELECT 1\nGO\n" with GoCommand: Pos 2 = true offset 0 + |"GO"|; every option on *)
Definition opts_all := mkOpts true true true true true true true true true true.
Example C08_ex_go_shift :
  scan opts_go in_go = Ok [mkStmt 2 [83;69;76;69;67;84;32;49]%N []] /\
  TextAtShift in_go 2 (mkStmt 2 [83;69;76;69;67;84;32;49]%N []) /\
  scan opts_all in_go = Ok [mkStmt 2 [83;69;76;69;67;84;32;49]%N []].
Proof. vm_compute. auto. Qed.

(* "BEGIN TRY\nx;\nEND TRY\nBEGIN CATCH\ny;\nEND CATCH\nz;" with MatchBeginTryCatch: the block is one
   statement although the scanner rewinds after END CATCH *)
Definition opts_try := mkOpts false false true false false false false false false false.
Example C08_ex_trycatch :
  supported opts_try = true /\
  exists t1, scan opts_try [66;69;71;73;78;32;84;82;89;10;120;59;10;69;78;68;32;84;82;89;10;66;69;71;73;78;32;67;65;84;67;72;10;121;59;10;69;78;68;32;67;65;84;67;72;10;122;59]%N
             = Ok [mkStmt 0 t1 []; mkStmt 46 [122;59]%N []] /\ length t1 = 45%nat.
Proof. split; [reflexivity|]. eexists. split; [vm_compute; reflexivity|reflexivity]. Qed.

(* "-- atlas:delimiter $$\n-- c\nSELECT 1$$\n/* x */ SELECT 2 $$" *)
Definition ex_in : bytes :=
  [45;45;32;97;116;108;97;115;58;100;101;108;105;109;105;116;101;114;32;36;36;10;
   45;45;32;99;10;83;69;76;69;67;84;32;49;36;36;10;
   47;42;32;120;32;42;47;32;83;69;76;69;67;84;32;50;32;36;36]%N.
Example C08_ex_scan :
  In opts_postgres gen_scan_opts /\
  scan opts_postgres ex_in =
    Ok [mkStmt 27 [83;69;76;69;67;84;32;49]%N [[45;45;32;99;10]%N];
        mkStmt 46 [83;69;76;69;67;84;32;50]%N [[47;42;32;120;32;42;47]%N]].
Proof. split; [vm_compute; auto|vm_compute; reflexivity]. Qed.
Example C08_ex_line :
  Line ex_in 46 = Ok 4 /\ line_of ex_in 46 = 4 /\ Line ex_in 27 = Ok 3.
Proof. vm_compute. auto. Qed.
(* "DELIMITER //\nA//\n" under the MySQL options: the command line is a gap, the delimiter changes *)
Example C08_ex_delimiter_cmd :
  scan opts_mysql [68;69;76;73;77;73;84;69;82;32;47;47;10;65;47;47;10]%N = Ok [mkStmt 13 [65%N] []].
Proof. vm_compute. reflexivity. Qed.
