(** C08 — the statement scanner is total, lossless and position-accurate (work in progress). *)
From Coq Require Import List NArith ZArith Bool.
From Atlas Require Import Base.Bytes Lex.LexModel.
Import ListNotations.
